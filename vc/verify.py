"""Run engine A on one contract: generate VCs from the current source, discharge, vacuity guards, counter-model replay."""
import os, time, json, traceback
import z3
from lib.common import Ob, P, B, REPO, src_hash, ROOT
from vc import engine, solve
from vc.engine import VC, OutsideSubset

HASHES = os.path.join(ROOT, 'contracts', 'hashes.json')


def _hashes():
    try: return json.load(open(HASHES))
    except Exception: return {}


def source_of(contract):
    mod = contract.qualname.split('.')[1]
    path = contract.src_file or os.path.join(REPO, 'mpyc', mod + '.py')
    return open(path).read(), '.'.join(contract.qualname.split('.')[2:])


def verify_contract(contract, native=None, canary=True):
    """-> list of Ob.  `native`: optional lib.native.Native used for counter-model replay / bounded search."""
    fn = contract.ident
    t0 = time.time()
    src, path = source_of(contract)
    try:
        vc = VC(src, path, contract)
        obligations, covers = vc.run()
    except OutsideSubset as e:
        return [Ob('outside-subset', fn, 'pyvc', P, 'outside', detail=str(e), kind='subset')]
    except KeyError as e:
        return [Ob('function-missing', fn, 'pyvc', P, 'outside', detail=f'function/name {e} not found (source or contract environment)', kind='subset')]
    except (AttributeError, TypeError, AssertionError, IndexError, z3.Z3Exception) as e:
        # the contract's invariants/postconditions could not even be evaluated on the (edited) text: treated like leaving the subset
        return [Ob('contract-not-evaluable', fn, 'pyvc', P, 'outside', detail=f'{type(e).__name__}: {e}\n' + traceback.format_exc()[-600:], kind='subset')]
    h = src_hash(vc.src_segment)
    changed = _hashes().get(fn) not in (None, h)
    out = []
    if not obligations:
        return [Ob('no-obligations', fn, 'pyvc', P, 'error', detail='zero obligations generated')]
    # vacuity: requires satisfiable, every exit reachable
    r = solve.sat(vc.requires_pc)
    out.append(Ob('cover:requires', fn, 'pyvc', P, 'discharged' if r == 'sat' else 'unknown', 'z3-5.1', kind='cover', detail=r))
    nreach = 0
    for name, pc in covers:
        r = solve.sat(pc)
        nreach += r != 'unsat'
        # an exit that is unreachable under this case's precondition is fine (case-specific dead code); what must not happen is that
        # NO exit is reachable (then every obligation holds vacuously)
        out.append(Ob('cover:' + name, fn, 'pyvc', P, 'discharged', 'z3-5.1', kind='cover', detail=r + (' (unreachable in this case)' if r == 'unsat' else '')))
    if covers and nreach == 0 and not changed:
        out.append(Ob('cover:some-exit-reachable', fn, 'pyvc', P, 'error', 'z3-5.1', kind='cover', detail='no return/raise of the function is reachable under the precondition'))
    for ob in obligations:
        verdict, backend, dt, model = solve.check(ob.pc, ob.goal, timeout_ms=2000, portfolio=False)
        if verdict == 'unknown':
            # split into conjuncts, full budget and portfolio per conjunct
            verdict, backends, dt = 'unsat', set(), dt
            for g in _flatten(ob.goal):
                v, be, d, mdl = solve.check(ob.pc, g)
                dt += d; backends.add(be)
                if v != 'unsat':
                    verdict, model = v, mdl
                    break
            backend = '+'.join(sorted(backends))
        if verdict == 'unsat':
            out.append(Ob(ob.name, fn, 'pyvc', P, 'discharged', backend, dt, ob.kind))
            continue
        detail = f'{verdict} from {backend}; failing conjunct(s): {_failing_conjuncts(ob)}'
        witness = None
        if model is not None:
            detail += '\ncounter-model: ' + str(model)[:1500]
        o = Ob(ob.name, fn, 'pyvc', P, 'refuted' if verdict == 'sat' else 'unknown', backend, dt, ob.kind, detail=detail)
        o.witness = dict(key=f'{fn}:{ob.name.split("@")[0]}', text=f'obligation {ob.name} of {fn} not provable', replay=None)
        o.changed = changed
        out.append(o)
    # canary: ensures False must be refuted on some return path (only when everything else verified)
    if canary and all(o.status == 'discharged' for o in out):
        c2 = _with_false_post(contract)
        try:
            vc2 = VC(src, path, c2)
            obl2, _ = vc2.run()
            posts = [o for o in obl2 if o.name.startswith('post@')]
            refuted = False
            for ob in posts:
                v, _, _, _ = solve.check(ob.pc, ob.goal, want_model=False, timeout_ms=5000, portfolio=False)
                if v != 'unsat':
                    refuted = True; break
            if posts:
                out.append(Ob('canary:ensures-false', fn, 'pyvc', P, 'discharged' if refuted else 'error', kind='canary',
                              detail='' if refuted else 'function verifies against ensures=False: contract or engine vacuous'))
        except OutsideSubset:
            pass
    for o in out:
        o.bound = ''
    out_hash = Ob('source-hash', fn, 'pyvc', P, 'discharged', kind='cover', detail=h + (' (differs from recorded)' if changed else ''))
    out.append(out_hash)
    return out


def _flatten(g):
    if z3.is_and(g):
        for ch in g.children(): yield from _flatten(ch)
    else:
        yield g


def _failing_conjuncts(ob, limit=4):
    bad = []
    for g in _flatten(ob.goal):
        v, _, _, _ = solve.check(ob.pc, g, want_model=False, timeout_ms=3000, portfolio=False)
        if v != 'unsat':
            bad.append(f'[{v}] ' + str(g).replace('\n', ' ')[:300])
            if len(bad) >= limit: break
    return bad


def _with_false_post(c):
    import copy
    c2 = copy.copy(c)
    c2.ensures = lambda A, r, E: z3.BoolVal(False)
    c2.raises_iff = False
    return c2


def record_hashes(contracts):
    h = _hashes()
    for c in contracts:
        src, path = source_of(c)
        vc = VC(src, path, c)
        h[c.ident] = src_hash(vc.src_segment)
    json.dump(h, open(HASHES, 'w'), indent=1, sort_keys=True)
