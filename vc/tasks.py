"""Pool tasks for engine A."""
import importlib
from lib.common import Ob, P, B
from vc.verify import verify_contract


def run_contract(module, attr, native_name, tier):
    """Verify one contract; on failure look for a concrete failing input with the bounded native check of the same function."""
    M = importlib.import_module(module)
    c = getattr(M, attr)
    obs = verify_contract(c)
    bad = [o for o in obs if o.status in ('refuted', 'unknown') and o.kind not in ('cover', 'canary')]
    outside = [o for o in obs if o.status == 'outside']
    if native_name and ':' in native_name:
        nm, nn = native_name.split(':', 1)
        native = importlib.import_module(nm).NATIVE.get(nn)
    else:
        native = getattr(M, 'NATIVE', {}).get(native_name) if native_name else None
    if outside:
        # the edited function left the subset: downgrade to the bounded check of the same contract (never an alarm by itself)
        o = outside[0]
        if native is None:
            o.status = 'unknown'; o.kind = 'semantic'
            return obs
        nb = native.run(tier)
        nb.name = f'downgraded-to-bounded:{native.name}'
        nb.detail = (nb.detail or '') + f' | engine A: {o.detail}'
        return [nb]
    if not bad:
        return obs
    found = None
    if native is not None:
        nb = native.run(tier)
        if nb.status == 'refuted':
            found = nb
    for o in bad:
        if found is not None:
            o.status = 'refuted'
            o.witness = dict(found.witness, text=f'{o.name} not provable; concrete failing input: {found.witness["text"]}')
            o.detail = (o.detail or '') + '\nnative: ' + found.detail
        elif o.kind == 'script' and o.changed:
            # proof-script obligation on edited text, bounded search clean: the proof no longer fits; not a violation
            o.status = 'stale'
            o.detail = f'bounded search clean ({native.bound if native else "no bounded check"})'
        elif o.status == 'refuted':
            pass        # semantic obligation refuted, no concrete input: VIOLATION ... no-failing-input-found
    return obs


def run_frame(module_file, funcpath, ident, allowed=()):
    """syntactic frame / purity obligations on the real source"""
    import os
    from lib.common import REPO
    from vc.frame import frame_obligations
    src = open(os.path.join(REPO, 'mpyc', module_file)).read()
    return frame_obligations(src, funcpath, ident, allowed_attr_writes=allowed)


def run_lean(theorems, tier):
    from lib.leancheck import lean_obs
    return lean_obs([tuple(t) for t in theorems], tier)
