"""Discharge obligations: z3 (Python API) first, then the same query as SMT-LIB to cvc5 and /usr/bin/z3 4.8.12."""
import subprocess, tempfile, os, time, shutil
import z3

Z3_TIMEOUT_MS = int(os.environ.get('VERIF_Z3_MS', '20000'))
CLI_TIMEOUT_S = int(os.environ.get('VERIF_CLI_S', '60'))


def _cli(cmd, smt, timeout):
    with tempfile.NamedTemporaryFile('w', suffix='.smt2', delete=False, dir=os.environ.get('TMPDIR', '/tmp')) as f:
        f.write(smt); name = f.name
    try:
        r = subprocess.run(cmd + [name], capture_output=True, text=True, timeout=timeout)
        out = r.stdout.strip().splitlines()
        return out[0] if out else 'unknown'
    except subprocess.TimeoutExpired:
        return 'unknown'
    finally:
        os.unlink(name)


def check(pc, goal, want_model=True, timeout_ms=None, portfolio=True):
    """Returns (verdict, backend, seconds, model-or-None).  verdict in 'unsat' (goal valid) / 'sat' / 'unknown'."""
    s = z3.Solver()
    s.set('timeout', timeout_ms or Z3_TIMEOUT_MS)
    s.set('random_seed', 1)
    for f in pc: s.add(f)
    s.add(z3.Not(goal))
    t0 = time.time()
    r = s.check()
    dt = time.time() - t0
    if r == z3.unsat: return 'unsat', 'z3-5.1', dt, None
    if r == z3.sat:
        return 'sat', 'z3-5.1', dt, (s.model() if want_model else None)
    if not portfolio:
        return 'unknown', 'z3-5.1', dt, None
    smt = '(set-logic ALL)\n' + s.to_smt2()
    for name, cmd in (('cvc5-1.0', ['/usr/bin/cvc5', '--tlimit=%d' % (CLI_TIMEOUT_S * 1000)]),
                      ('z3-4.8', ['/usr/bin/z3', '-T:%d' % CLI_TIMEOUT_S])):
        if not os.path.exists(cmd[0]): continue
        v = _cli(cmd, smt, CLI_TIMEOUT_S + 5)
        if v == 'unsat':
            return 'unsat', name, time.time() - t0, None
    return 'unknown', 'portfolio', time.time() - t0, None


def sat(pc, timeout_ms=10000):
    s = z3.Solver(); s.set('timeout', timeout_ms)
    for f in pc: s.add(f)
    return str(s.check())
