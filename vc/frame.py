"""Syntactic frame / purity obligations over the real AST (strength P: a proof by inspection of the syntax tree, no solver):
a function body that contains no attribute or subscript store on objects it did not create, no global/nonlocal statement
and no call to a randomness / clock / OS source can only compute a function of its arguments (given pure callees)."""
import ast
from lib.common import Ob, P
from vc.engine import find_function

IMPURE_PREFIXES = ('secrets.', 'random.', 'time.', 'os.', 'uuid.', 'np.random.')


def frame_obligations(src, funcpath, ident, allowed_attr_writes=(), allowed_calls=()):
    fn = find_function(ast.parse(src), funcpath)
    local_names = {a.arg for a in fn.args.args + fn.args.kwonlyargs}
    created = set()
    for n in ast.walk(fn):
        if isinstance(n, ast.Assign):
            for t in n.targets:
                if isinstance(t, ast.Name): created.add(t.id)
    bad_attr, bad_glob, bad_call = [], [], []
    for n in ast.walk(fn):
        if isinstance(n, (ast.Global, ast.Nonlocal)): bad_glob.append(f'line {n.lineno}')
        if isinstance(n, (ast.Assign, ast.AugAssign, ast.Delete)):
            tg = n.targets if isinstance(n, (ast.Assign, ast.Delete)) else [n.target]
            for t in tg:
                for s in ast.walk(t):
                    if isinstance(s, ast.Attribute) and isinstance(s.ctx, (ast.Store, ast.Del)):
                        if ast.unparse(s) not in allowed_attr_writes: bad_attr.append(f'{ast.unparse(s)} @{n.lineno}')
                    if isinstance(s, ast.Subscript) and isinstance(s.ctx, (ast.Store, ast.Del)):
                        b = s
                        while isinstance(b, (ast.Subscript, ast.Attribute)): b = b.value
                        if isinstance(b, ast.Name) and b.id in local_names and b.id not in created:
                            bad_attr.append(f'{ast.unparse(s)} @{n.lineno} (writes into an argument)')
        if isinstance(n, ast.Call):
            f = ast.unparse(n.func)
            if f.startswith(IMPURE_PREFIXES) and f not in allowed_calls: bad_call.append(f'{f} @{n.lineno}')
    def ob(name, bad):
        o = Ob(name, ident, 'pyvc-frame', P, 'discharged' if not bad else 'refuted', 'ast', kind='semantic')
        if bad:
            o.detail = '; '.join(bad)
            o.witness = dict(key=f'{ident}:{name}', text=f'{name} violated: {o.detail}', replay=None)
        return o
    return [ob('frame:no-writes-to-self-or-arguments', bad_attr), ob('frame:no-global-or-nonlocal', bad_glob),
            ob('frame:no-randomness-clock-os-calls', bad_call)]
