"""Engine A ("pyvc"): verification-condition generator for a subset of Python, run on the *real* source text of
/repo every time.  A function body is executed symbolically path by path; loops are cut by the invariants of the
sidecar contract; calls are replaced by callee contracts (handlers); every `return`/`raise`/index/division yields
an obligation  pc => goal  that is handed to the SMT back ends (vc/solve.py).

What is dropped from the source: docstrings, decorators, annotations, logging calls.
Anything outside the subset raises OutsideSubset -> the function is not verified by this engine (never approximated).
"""
import ast, itertools
import z3

I = z3.IntSort()
BOOL = z3.BoolSort()
ARR = z3.ArraySort(I, I)
MAT = z3.ArraySort(I, ARR)

MOD = z3.Function('MOD', I, I, I)        # MOD(a,b): Python a % b for non-constant b (facts added definitionally)
POW2 = z3.Function('POW2', I, I)         # 2**k for symbolic k
BITLEN = z3.Function('BITLEN', I, I)     # int.bit_length


class OutsideSubset(Exception):
    pass


class PathEnd(Exception):
    """raised by a call handler after it emitted the obligation 'this call is unreachable under the contract's precondition'"""


def unreachable(name):
    def h(vc, P, args, kw, e):
        vc.oblige(f'unreachable:{name}@{e.lineno}', P, False, line=e.lineno)
        raise PathEnd()
    return h


# ------------------------------------------------------------------ values
class _None:
    def __repr__(self): return 'NONE'
NONE = _None()


class VStr:
    def __init__(self, s): self.s = s
    def __repr__(self): return f'VStr({self.s!r})'


class VTuple:
    def __init__(self, items): self.items = list(items)
    def __repr__(self): return f'VTuple({self.items})'


class VList:
    """immutable snapshot of a list of ints: z3 array + length"""
    def __init__(self, arr, n, kind='int'): self.arr, self.n, self.kind = arr, n, kind
    def __getitem__(self, i): return self.arr[i]
    def __repr__(self): return f'VList({self.arr}, {self.n})'


class VMat:
    """list of unaliased equal-length lists of ints"""
    def __init__(self, arr, rows, cols): self.arr, self.rows, self.cols = arr, rows, cols
    def at(self, i, j): return self.arr[i][j]
    def __repr__(self): return f'VMat({self.arr},{self.rows},{self.cols})'


class VRow:
    """read/write view of row i of the matrix stored at heap reference ref (or of an immutable VMat)"""
    def __init__(self, mat, i): self.mat, self.i = mat, i


class VBytes:
    """bytes / bytearray as a window [lo, hi) over an append-only array of byte values"""
    def __init__(self, arr, lo, hi): self.arr, self.lo, self.hi = arr, lo, hi
    @property
    def n(self): return self.hi - self.lo
    def __repr__(self): return f'VBytes({self.arr},{self.lo},{self.hi})'


class VObj:
    """record with named fields (self, field elements, class objects)"""
    def __init__(self, cls, **fields): self.cls, self.f = cls, dict(fields)
    def __getattr__(self, k):
        try: return self.__dict__['f'][k]
        except KeyError: raise AttributeError(k)
    def __repr__(self): return f'VObj({self.cls},{self.f})'


class VDict:
    """dict int -> value: presence array + value array (values as Int handles)"""
    def __init__(self, has, val): self.has, self.val = has, val


class Ref:
    """reference to a mutable heap object (list, matrix, bytearray, object, dict)"""
    _n = itertools.count()
    def __init__(self, name=''): self.id = next(Ref._n); self.name = name
    def __repr__(self): return f'Ref#{self.id}{self.name}'


class VFunc:
    def __init__(self, name): self.name = name


def is_z3(v): return isinstance(v, z3.ExprRef)
def is_int(v): return (isinstance(v, int) and not isinstance(v, bool)) or (is_z3(v) and z3.is_int(v))
def is_bool(v): return isinstance(v, bool) or (is_z3(v) and z3.is_bool(v))
def zint(v): return z3.IntVal(v) if isinstance(v, int) else v
def zbool(v): return z3.BoolVal(v) if isinstance(v, bool) else v


def And(*a):
    a = [x for x in a if x is not True]
    if any(x is False for x in a): return False
    if not a: return True
    return z3.And(*[zbool(x) for x in a]) if len(a) > 1 else a[0]


def Or(*a):
    a = [x for x in a if x is not False]
    if any(x is True for x in a): return True
    if not a: return False
    return z3.Or(*[zbool(x) for x in a]) if len(a) > 1 else a[0]


def Not(a):
    return (not a) if isinstance(a, bool) else z3.Not(a)


def Implies(a, b):
    if a is True: return b
    if a is False or b is True: return True
    return z3.Implies(zbool(a), zbool(b))


def If(c, a, b):
    if c is True: return a
    if c is False: return b
    if is_bool(a) and is_bool(b): return z3.If(c, zbool(a), zbool(b))
    return z3.If(c, zint(a), zint(b))


def absz(v):
    return abs(v) if isinstance(v, int) else z3.If(v >= 0, v, -v)


class Path:
    def __init__(self, env, heap, pc, ghost=None):
        self.env, self.heap, self.pc = dict(env), dict(heap), list(pc)
    def fork(self):
        return Path(self.env, self.heap, self.pc)
    def deref(self, v):
        return self.heap[v.id] if isinstance(v, Ref) else v


class EnvView:
    """What invariants / postconditions see: names resolved through the heap."""
    def __init__(self, P): self.P = P
    def __getitem__(self, k):
        return self.P.deref(self.P.env[k])
    def __contains__(self, k): return k in self.P.env
    def get(self, k, d=None): return self[k] if k in self.P.env else d
    def field(self, objname, f):
        return self.P.deref(self.P.deref(self.P.env[objname]).f[f])


class Obligation:
    __slots__ = ('name', 'pc', 'goal', 'kind', 'line')
    def __init__(self, name, pc, goal, kind, line=0): self.name, self.pc, self.goal, self.kind, self.line = name, pc, goal, kind, line


class LoopSpec:
    def __init__(self, inv, reveal=(), reveal_init=(), reveal_post=(), reveal_exit=(), ghost_vars=(), havoc_extra=(),
                 ghost_before=(), ghost_end=(), reveal_break=(), ghost_begin=()):
        self.ghost_begin = ghost_begin
        self.inv, self.reveal, self.reveal_init, self.reveal_post, self.reveal_exit = inv, reveal, reveal_init, reveal_post, reveal_exit
        self.ghost_vars, self.havoc_extra, self.ghost_before, self.ghost_end = ghost_vars, havoc_extra, ghost_before, ghost_end
        self.reveal_break = reveal_break


class Contract:
    """Sidecar contract of one function for one *case* (a case fixes the dynamic types of the arguments)."""
    def __init__(self, qualname, params, requires, ensures, raises=None, loops=None, calls=None, ghost_entry=(),
                 case='', raises_iff=True, attrs=None, unroll_limit=64, src_file=None, exit_reveal=(),
                 modifies=None, result=None, as_callee=None, consts=None):
        self.qualname, self.params, self.requires, self.ensures = qualname, params, requires, ensures
        self.raises = raises or {}
        self.loops = loops or {}
        self.calls = calls or {}
        self.ghost_entry = ghost_entry
        self.case = case
        self.raises_iff = raises_iff
        self.attrs = attrs or {}
        self.unroll_limit = unroll_limit
        self.src_file = src_file
        self.exit_reveal = exit_reveal
        self.consts = consts or {}

    @property
    def ident(self):
        return self.qualname + (f'[{self.case}]' if self.case else '')


def find_function(tree, path):
    """path like 'invert' or 'PRF.__call__'; searches nested blocks (the gmpy stubs live inside try/except)."""
    parts = path.split('.')
    def search(nodes, parts):
        for node in nodes:
            if isinstance(node, (ast.FunctionDef, ast.AsyncFunctionDef, ast.ClassDef)) and node.name == parts[0]:
                if len(parts) == 1:
                    return node
                r = search(node.body, parts[1:])
                if r: return r
            elif not isinstance(node, (ast.FunctionDef, ast.AsyncFunctionDef, ast.ClassDef)):
                for fld in ('body', 'orelse', 'handlers', 'finalbody'):
                    sub = getattr(node, fld, None)
                    if isinstance(sub, list):
                        r = search(sub, parts)
                        if r: return r
        return None
    r = search(tree.body, parts)
    if r is None:
        raise KeyError(path)
    return r


class VC:
    def __init__(self, src, funcpath, contract):
        self.c = contract
        self.tree = ast.parse(src)
        self.fn = find_function(self.tree, funcpath)
        self.src_segment = ast.get_source_segment(src, self.fn) or ''
        self.obligations = []
        self.covers = []
        self.nfresh = 0
        self.loop_stack = []
        self.sib = {}
        self.A = None
        self.guard = []      # temporary guards while evaluating short-circuit / conditional sub-expressions

    # ---------- helpers
    def fresh(self, base, sort=I):
        self.nfresh += 1
        return z3.Const(f'{base}!{self.nfresh}', sort)

    def oblige(self, name, P, goal, kind='semantic', line=0):
        if goal is True:
            goal = z3.BoolVal(True)
        elif goal is False:
            goal = z3.BoolVal(False)
        self.obligations.append(Obligation(name, list(P.pc) + [zbool(g) for g in self.guard], goal, kind, line))

    def assume(self, P, fact):
        if fact is True: return
        if self.guard:
            fact = Implies(And(*self.guard), fact)
        P.pc.append(zbool(fact))

    def truth(self, v, P):
        v = P.deref(v)
        if isinstance(v, bool): return v
        if isinstance(v, int): return v != 0
        if v is NONE: return False
        if is_z3(v):
            return v if z3.is_bool(v) else v != 0
        if isinstance(v, (VList,)): return self._ne0(v.n)
        if isinstance(v, VBytes): return self._ne0(v.n)
        if isinstance(v, VTuple): return len(v.items) != 0
        if isinstance(v, VStr): return len(v.s) != 0
        if isinstance(v, (VObj, VFunc)):
            h = self.c.calls.get('truth:' + getattr(v, 'cls', ''))
            if h: return h(self, P, v)
            return True
        raise OutsideSubset(f'truth of {v!r}')

    def _ne0(self, n):
        return (n != 0) if isinstance(n, int) else n != 0

    # ---------- arithmetic with Python semantics
    def floordiv(self, a, b, P, line):
        q, _ = self.divmod(a, b, P, line)
        return q

    def mod(self, a, b, P, line):
        _, r = self.divmod(a, b, P, line)
        return r

    def divmod(self, a, b, P, line):
        if isinstance(a, int) and isinstance(b, int):
            if b == 0: raise OutsideSubset('constant division by zero')
            return a // b, a % b
        if isinstance(b, int):
            if b == 0: raise OutsideSubset('constant division by zero')
            if b > 0:
                return zint(a) / b, zint(a) % b      # z3 Euclidean div/mod coincide with floor semantics for b > 0
            return (-zint(a)) / (-b), -((-zint(a)) % (-b))
        self.oblige(f'div-nonzero@{line}', P, b != 0, line=line)
        q = self.fresh('q')
        r = MOD(zint(a), b)
        self.assume(P, And(zint(a) == q * b + r, Implies(b > 0, And(0 <= r, r < b)), Implies(b < 0, And(b < r, r <= 0))))
        return q, r

    def pow2(self, k, P, line):
        if isinstance(k, int):
            if k < 0: raise OutsideSubset('negative shift')
            return 1 << k
        self.oblige(f'shift-nonneg@{line}', P, k >= 0, line=line)
        t = POW2(k)
        self.assume(P, t >= 1)
        return t

    def binop(self, op, a, b, P, line):
        a, b = P.deref(a), P.deref(b)
        h = self.c.calls.get('binop')
        if h is not None:
            r = h(self, P, op, a, b, line)
            if r is not NotImplemented:
                return r
        if is_bool(a) and not isinstance(a, bool): a = z3.If(a, 1, 0)
        if is_bool(b) and not isinstance(b, bool): b = z3.If(b, 1, 0)
        if isinstance(a, bool): a = int(a)
        if isinstance(b, bool): b = int(b)
        if isinstance(op, ast.Add):
            if isinstance(a, VStr) and isinstance(b, VStr): return VStr(a.s + b.s)
            if is_int(a) and is_int(b): return a + b
            if isinstance(a, VBytes) and isinstance(b, VBytes):
                return self.bytes_concat(a, b, P)
            if isinstance(a, VList) and isinstance(b, VList) and a.kind == b.kind:      # list + list: a new list object
                j = z3.Int('j!cat')
                return self.alloc(P, VList(z3.Lambda([j], z3.If(j < zint(a.n), a.arr[j], b.arr[j - zint(a.n)])), a.n + b.n, a.kind))
        if isinstance(op, ast.Sub) and is_int(a) and is_int(b): return a - b
        if isinstance(op, ast.Mult):
            if is_int(a) and is_int(b): return a * b
            if isinstance(a, VList) and is_int(b):          # [e] * n  (a new list object)
                return self.alloc(P, self.list_repeat(a, b, P))
        if isinstance(op, ast.FloorDiv) and is_int(a) and is_int(b): return self.floordiv(a, b, P, line)
        if isinstance(op, ast.Mod) and is_int(a) and is_int(b): return self.mod(a, b, P, line)
        if isinstance(op, ast.Pow) and is_int(a) and isinstance(b, int) and 0 <= b <= 8:
            r = 1
            for _ in range(b): r = r * a
            return r
        if isinstance(op, ast.Pow) and isinstance(a, int) and a == 2 and is_int(b):
            return self.pow2(b, P, line)
        if isinstance(op, ast.LShift) and is_int(a) and is_int(b):
            return a * self.pow2(b, P, line)
        if isinstance(op, ast.RShift) and is_int(a) and is_int(b):
            return self.floordiv(a, self.pow2(b, P, line), P, line)
        if isinstance(op, ast.BitAnd) and is_int(a) and is_int(b):
            if isinstance(a, int) and isinstance(b, int): return a & b
            if isinstance(a, int): a, b = b, a
            if isinstance(b, int) and b >= 0 and (b & (b + 1)) == 0:      # mask 2**k - 1
                return self.mod(a, b + 1, P, line)
            # x & (x - 1) style tests handled by handlers only
        raise OutsideSubset(f'binop {type(op).__name__} on {a!r}, {b!r} @{line}')

    def list_repeat(self, a, n, P):
        if not (isinstance(a.n, int) and a.n == 1): raise OutsideSubset('[..]*n with len != 1')
        e = a.arr[0]
        n = max(n, 0) if isinstance(n, int) else If(n >= 0, n, 0)        # Python: [e] * n == [] for n <= 0
        return VList(z3.K(I, zint(z3.simplify(e) if is_z3(e) else e)), n, a.kind)

    def bytes_concat(self, a, b, P):
        raise OutsideSubset('bytes concatenation')

    def compare(self, op, l, r, P, line):
        l, r = P.deref(l), P.deref(r)
        h = self.c.calls.get('compare')
        if h is not None:
            res = h(self, P, op, l, r, line)
            if res is not NotImplemented:
                return res
        if isinstance(op, (ast.Is, ast.IsNot)):
            if l is NONE or r is NONE:
                same = (l is NONE) and (r is NONE)
                return same if isinstance(op, ast.Is) else not same
            raise OutsideSubset('is on non-None')
        if isinstance(op, (ast.In, ast.NotIn)):
            if isinstance(r, VTuple):
                res = Or(*[self.compare(ast.Eq(), l, x, P, line) for x in r.items])
                return res if isinstance(op, ast.In) else Not(res)
            if isinstance(r, VDict) and is_int(l):
                res = z3.Select(r.has, zint(l))
                return res if isinstance(op, ast.In) else Not(res)
            raise OutsideSubset('in on ' + repr(r))
        if is_bool(l) and is_bool(r) and isinstance(op, (ast.Eq, ast.NotEq)):
            e = zbool(l) == zbool(r)
            return e if isinstance(op, ast.Eq) else Not(e)
        if is_bool(l): l = If(l, 1, 0)
        if is_bool(r): r = If(r, 1, 0)
        if (l is NONE) != (r is NONE) and isinstance(op, (ast.Eq, ast.NotEq)):
            return isinstance(op, ast.NotEq)
        if is_int(l) and is_int(r):
            return {ast.Lt: lambda: l < r, ast.LtE: lambda: l <= r, ast.Gt: lambda: l > r, ast.GtE: lambda: l >= r,
                    ast.Eq: lambda: l == r, ast.NotEq: lambda: l != r}[type(op)]()
        if isinstance(l, VStr) and isinstance(r, VStr) and isinstance(op, (ast.Eq, ast.NotEq)):
            return (l.s == r.s) == isinstance(op, ast.Eq)
        raise OutsideSubset(f'compare {type(op).__name__} {l!r} {r!r} @{line}')

    # ---------- expressions
    def ev(self, e, P):
        m = getattr(self, 'ev_' + type(e).__name__, None)
        if m is None:
            raise OutsideSubset(f'expression {type(e).__name__} @{getattr(e, "lineno", 0)}: {ast.unparse(e)[:60]}')
        return m(e, P)

    def ev_Constant(self, e, P):
        v = e.value
        if v is None: return NONE
        if isinstance(v, (bool, int)): return v
        if isinstance(v, str): return VStr(v)
        raise OutsideSubset(f'constant {v!r}')

    def ev_Name(self, e, P):
        if e.id in P.env: return P.env[e.id]
        if e.id in self.c.consts: return self.c.consts[e.id]
        if e.id in ('True', 'False'): return e.id == 'True'
        return VFunc(e.id)

    def ev_Tuple(self, e, P): return VTuple([self.ev(x, P) for x in e.elts])

    def ev_List(self, e, P):
        items = [P.deref(self.ev(x, P)) for x in e.elts]
        if all(is_int(x) for x in items):
            arr = z3.K(I, z3.IntVal(0))
            for k, x in enumerate(items): arr = z3.Store(arr, k, zint(x))
            return self.alloc(P, VList(arr, len(items)))
        if len(items) == 1 and items[0] is NONE:
            return self.alloc(P, VList(z3.K(I, z3.IntVal(0)), 1, kind='none'))
        raise OutsideSubset('list literal of non-ints')

    def _entails(self, P, fact):
        """cheap syntactic-level simplification aid: does the path condition entail fact? (only used to keep terms small; unknown -> False)"""
        sv = z3.Solver(); sv.set('timeout', 300)
        sv.add(*[zbool(c) for c in P.pc]); sv.add(z3.Not(zbool(fact)))
        return sv.check() == z3.unsat

    def alloc(self, P, obj, name=''):
        r = Ref(name); P.heap[r.id] = obj; return r

    def ev_UnaryOp(self, e, P):
        v = P.deref(self.ev(e.operand, P))
        if isinstance(e.op, ast.Not): return Not(self.truth(v, P))
        if isinstance(e.op, ast.USub) and is_int(v): return -v
        if isinstance(e.op, ast.UAdd) and is_int(v): return v
        h = self.c.calls.get('unaryop')
        if h: return h(self, P, e.op, v, e.lineno)
        raise OutsideSubset('unary ' + type(e.op).__name__)

    def ev_BinOp(self, e, P):
        a = self.ev(e.left, P); b = self.ev(e.right, P)
        return self.binop(e.op, a, b, P, e.lineno)

    def ev_Compare(self, e, P):
        l = self.ev(e.left, P); out = []
        for op, r in zip(e.ops, e.comparators):
            r = self.ev(r, P)
            out.append(self.compare(op, l, r, P, e.lineno)); l = r
        return And(*out)

    def ev_BoolOp(self, e, P):
        vals = []; pushed = 0
        try:
            for sub in e.values:
                v = self.truth(self.ev(sub, P), P)
                vals.append(v)
                self.guard.append(v if isinstance(e.op, ast.And) else Not(v)); pushed += 1
        finally:
            for _ in range(pushed): self.guard.pop()
        return And(*vals) if isinstance(e.op, ast.And) else Or(*vals)

    def ev_Await(self, e, P):
        # `await <call>`: the callee's handler decides what the suspension may change (e.g. havoc of shared state: other coroutines run)
        return self.ev(e.value, P)

    def ev_IfExp(self, e, P):
        c = self.truth(self.ev(e.test, P), P)
        if c is True: return self.ev(e.body, P)
        if c is False: return self.ev(e.orelse, P)
        self.guard.append(c)
        try: a = P.deref(self.ev(e.body, P))
        finally: self.guard.pop()
        self.guard.append(Not(c))
        try: b = P.deref(self.ev(e.orelse, P))
        finally: self.guard.pop()
        if (is_int(a) or is_bool(a)) and (is_int(b) or is_bool(b)):
            return If(c, a, b)
        raise OutsideSubset('conditional expression on non-scalars')

    def ev_NamedExpr(self, e, P):
        v = self.ev(e.value, P); P.env[e.target.id] = v; return v

    def ev_Attribute(self, e, P):
        name = ast.unparse(e)
        if name in self.c.attrs: return self.c.attrs[name](self, P)
        if name in self.c.consts: return self.c.consts[name]
        base = e.value
        if isinstance(base, ast.Name) and base.id not in P.env:
            return VFunc(name)           # module attribute, resolved at the call
        o = P.deref(self.ev(base, P))
        if isinstance(o, VObj):
            if e.attr in o.f: return o.f[e.attr]
            return VFunc('method:' + o.cls + '.' + e.attr)
        if isinstance(o, VFunc): return VFunc(o.name + '.' + e.attr)
        raise OutsideSubset(f'attribute {name}')

    def ev_Subscript(self, e, P):
        hk = self.c.calls.get('subscript:' + ast.unparse(e))
        if hk is not None:
            return hk(self, P, e)
        v = P.deref(self.ev(e.value, P))
        if isinstance(e.slice, ast.Slice):
            return self.slice(v, e.slice, P, e.lineno)
        i = P.deref(self.ev(e.slice, P))
        return self.index(v, i, P, e.lineno)

    def norm_index(self, i, n, P, line, what='index'):
        """Python index with negative wrap for constants; obligation in range."""
        if isinstance(i, int) and i < 0:
            i = n + i
        self.oblige(f'{what}-in-range@{line}', P, And(0 <= i, i < n), line=line)
        return i

    def index(self, v, i, P, line):
        if isinstance(v, VList):
            i = self.norm_index(i, v.n, P, line); return v.arr[i]
        if isinstance(v, VTuple) and isinstance(i, int): return v.items[i]
        if isinstance(v, VMat):
            i = self.norm_index(i, v.rows, P, line); return VRow(v, i)
        if isinstance(v, VRow):
            m = P.deref(v.mat); i = self.norm_index(i, m.cols, P, line); return m.arr[v.i][i]
        if isinstance(v, VBytes):
            i = self.norm_index(i, v.n, P, line); return v.arr[v.lo + i]
        if isinstance(v, VDict):
            self.oblige(f'key-present@{line}', P, z3.Select(v.has, zint(i)), line=line); return v.val[zint(i)]
        raise OutsideSubset(f'index into {v!r}')

    def slice(self, v, sl, P, line):
        if sl.step is not None: raise OutsideSubset('slice step')
        lo = P.deref(self.ev(sl.lower, P)) if sl.lower is not None else 0
        hi = P.deref(self.ev(sl.upper, P)) if sl.upper is not None else None
        if isinstance(v, VBytes):
            n = v.n
            hi = n if hi is None else hi
            # Python clamps slices; we demand 0 <= lo <= hi (clamped at n) as the only supported shapes
            self.oblige(f'slice-bounds@{line}', P, And(0 <= lo, lo <= hi), line=line)
            hi_c = If(hi <= n, hi, n) if not (isinstance(hi, int) and isinstance(n, int)) else min(hi, n)
            lo_c = If(lo <= hi_c, lo, hi_c) if not (isinstance(lo, int) and isinstance(hi_c, int)) else min(lo, hi_c)
            return VBytes(v.arr, v.lo + lo_c, v.lo + hi_c)
        if isinstance(v, VList):
            n = v.n
            hi = n if hi is None else hi
            # Python clamps slice bounds at len; negative bounds (counted from the end) are not modelled: obligation
            self.oblige(f'slice-bounds@{line}', P, And(0 <= lo, 0 <= hi), line=line)
            if not z3.is_true(z3.simplify(zbool(And(lo <= hi, hi <= n)))) and not self._entails(P, And(lo <= hi, hi <= n)):
                hi = If(hi <= n, hi, n); lo = If(lo <= hi, lo, hi)
            j = z3.Int('j!sl')
            return self.alloc(P, VList(z3.Lambda([j], v.arr[j + lo]), hi - lo, v.kind))      # a slice is a new list object
        raise OutsideSubset('slice of ' + repr(v))

    def ev_ListComp(self, e, P):
        if len(e.generators) != 1 or e.generators[0].ifs:
            raise OutsideSubset('comprehension shape')
        g = e.generators[0]
        h = self.c.calls.get('comp:' + ast.unparse(e))
        if h is None and isinstance(e.elt, ast.Call):
            h = self.c.calls.get('comp-call:' + ast.unparse(e.elt.func))
        if h: return h(self, P, e)
        it = g.iter
        # [[x] * n for _ in range(m)]  -> fresh matrix with all entries x
        if (isinstance(it, ast.Call) and ast.unparse(it.func) == 'range' and len(it.args) == 1
                and isinstance(e.elt, ast.BinOp) and isinstance(e.elt.op, ast.Mult) and isinstance(e.elt.left, ast.List)
                and len(e.elt.left.elts) == 1):
            rows = P.deref(self.ev(it.args[0], P)); cols = P.deref(self.ev(e.elt.right, P))
            x = P.deref(self.ev(e.elt.left.elts[0], P))
            x = 0 if x is NONE else x
            return self.alloc(P, VMat(z3.K(I, z3.K(I, zint(x))), rows, cols))
        # [f(x_j) for x in seq] / [f(j) for j in range(n)]  with f a pure scalar expression -> lambda array
        j = self.fresh('jc')
        if isinstance(it, ast.Call) and ast.unparse(it.func) == 'range' and len(it.args) == 1:
            n = P.deref(self.ev(it.args[0], P)); elem = j
        else:
            seq = P.deref(self.ev(it, P))
            if not isinstance(seq, VList): raise OutsideSubset('comprehension over ' + repr(seq))
            n = seq.n; elem = seq.arr[j]
        Q = P.fork(); npc = len(Q.pc); nob = len(self.obligations)
        self.assign(g.target, elem, Q)
        Q.pc.append(And(0 <= j, j < n))
        val = Q.deref(self.ev(e.elt, Q))
        if len(Q.pc) > npc + 1:
            raise OutsideSubset('comprehension element needs definitional facts: ' + ast.unparse(e)[:60])
        if not is_int(val): raise OutsideSubset('comprehension of non-ints')
        P.heap.update({k: v for k, v in Q.heap.items() if k not in P.heap})
        return self.alloc(P, VList(z3.Lambda([j], zint(val)), n))

    def ev_GeneratorExp(self, e, P):
        return self.ev_ListComp(e, P)

    def ev_JoinedStr(self, e, P):
        # f-string as its template: constant parts verbatim, {expr} placeholders by source text (contracts match on the template)
        parts = []
        for v in e.values:
            if isinstance(v, ast.Constant): parts.append(str(v.value))
            elif isinstance(v, ast.FormattedValue) and v.format_spec is None and v.conversion == -1:
                parts.append('{' + ast.unparse(v.value) + '}')
            else: parts.append('{?}')
        return VStr(''.join(parts))

    def ev_Call(self, e, P):
        fname = ast.unparse(e.func)
        hr = self.c.calls.get('raw:' + ast.unparse(e))
        if hr is not None:
            return hr(self, P, e)
        h = self.c.calls.get(fname)
        if h is None and isinstance(e.func, ast.Attribute):
            # method call on a value
            recv_node = e.func.value
            if not (isinstance(recv_node, ast.Name) and recv_node.id not in P.env and recv_node.id not in self.c.consts):
                recv = self.ev(recv_node, P)
                return self.method(recv, e.func.attr, e, P)
        args = [self.ev(a, P) for a in e.args]
        kwargs = {k.arg: self.ev(k.value, P) for k in e.keywords}
        if h is None and isinstance(e.func, ast.Name) and e.func.id in P.env:
            f = P.deref(P.env[e.func.id])
            if isinstance(f, VFunc): h = self.c.calls.get(f.name) or BUILTINS.get(f.name)
            elif isinstance(f, VObj): h = self.c.calls.get('call:' + f.cls)
        if h is None: h = BUILTINS.get(fname)
        if h is None:
            raise OutsideSubset(f'call to {fname} without contract @{e.lineno}')
        return h(self, P, args, kwargs, e)

    def method(self, recv, name, e, P):
        obj = P.deref(recv)
        args = [self.ev(a, P) for a in e.args]
        kwargs = {k.arg: self.ev(k.value, P) for k in e.keywords}
        line = e.lineno
        key = 'method:' + name
        if isinstance(obj, VObj):
            h = self.c.calls.get(f'method:{obj.cls}.{name}') or self.c.calls.get(key)
            if h: return h(self, P, recv, args, kwargs, e)
        if isinstance(obj, VFunc):
            h = self.c.calls.get(obj.name + '.' + name) or BUILTINS.get(obj.name + '.' + name)
            if h: return h(self, P, args, kwargs, e)
        if isinstance(obj, VList) and isinstance(recv, Ref):
            if name == 'append':
                v = P.deref(args[0])
                if not is_int(v): raise OutsideSubset('append non-int')
                P.heap[recv.id] = VList(z3.Store(obj.arr, obj.n, zint(v)), obj.n + 1, obj.kind); return NONE
            if name == 'pop' and not args:
                self.oblige(f'pop-nonempty@{line}', P, obj.n >= 1, line=line)
                P.heap[recv.id] = VList(obj.arr, obj.n - 1, obj.kind); return obj.arr[obj.n - 1]
            if name == 'copy':
                return self.alloc(P, VList(obj.arr, obj.n, obj.kind))
            if name == 'extend':
                o = P.deref(args[0])
                if isinstance(o, VList):
                    j = self.fresh('je')
                    arr = z3.Lambda([j], z3.If(j < obj.n, obj.arr[j], o.arr[j - obj.n]))
                    P.heap[recv.id] = VList(arr, obj.n + o.n, obj.kind); return NONE
        if isinstance(obj, VBytes) and isinstance(recv, Ref):
            if name == 'extend':
                d = P.deref(args[0])
                if not isinstance(d, VBytes): raise OutsideSubset('extend with ' + repr(d))
                h = self.c.calls.get('bytes.extend')
                if h: return h(self, P, recv, obj, d)
                raise OutsideSubset('bytearray.extend without window contract')
        if isinstance(obj, VDict) and isinstance(recv, Ref):
            h = self.c.calls.get('dict.' + name)
            if h: return h(self, P, recv, obj, args, e)
        h = self.c.calls.get(key)
        if h: return h(self, P, recv, args, kwargs, e)
        raise OutsideSubset(f'method {name} on {obj!r} @{line}')

    # ---------- assignment
    def assign(self, target, val, P):
        if isinstance(target, ast.Name):
            P.env[target.id] = val
        elif isinstance(target, (ast.Tuple, ast.List)):
            v = P.deref(val)
            if isinstance(v, VTuple): items = v.items
            else: raise OutsideSubset('unpack of ' + repr(v))
            if len(items) != len(target.elts): raise OutsideSubset('unpack arity')
            for t, x in zip(target.elts, items): self.assign(t, x, P)
        elif isinstance(target, ast.Subscript):
            hk = self.c.calls.get('setitem:' + ast.unparse(target))
            if hk is not None:
                hk(self, P, target, val); return
            self.store(target, val, P)
        elif isinstance(target, ast.Attribute):
            h = self.c.calls.get('setattr:' + ast.unparse(target))
            if h: h(self, P, val); return
            o = self.ev(target.value, P)
            obj = P.deref(o)
            if isinstance(obj, VObj) and isinstance(o, Ref):
                f = dict(obj.f); f[target.attr] = val
                P.heap[o.id] = VObj(obj.cls, **f)
            else:
                raise OutsideSubset('attribute store on ' + repr(obj))
        else:
            raise OutsideSubset('assign target ' + type(target).__name__)

    def store(self, target, val, P):
        line = target.lineno
        val = P.deref(val)
        if isinstance(target.slice, ast.Slice): raise OutsideSubset('slice store')
        base = target.value
        i = P.deref(self.ev(target.slice, P))
        # M[r][c] = v
        if isinstance(base, ast.Subscript):
            mref = self.ev(base.value, P); m = P.deref(mref)
            if isinstance(m, VMat) and isinstance(mref, Ref):
                r = P.deref(self.ev(base.slice, P))
                r = self.norm_index(r, m.rows, P, line, 'row'); i = self.norm_index(i, m.cols, P, line, 'col')
                if not is_int(val): raise OutsideSubset('matrix store of non-int')
                P.heap[mref.id] = VMat(z3.Store(m.arr, r, z3.Store(m.arr[r], i, zint(val))), m.rows, m.cols); return
            raise OutsideSubset('nested store')
        ref = self.ev(base, P); obj = P.deref(ref)
        if isinstance(obj, VRow):
            mref = obj.mat; m = P.deref(mref)
            if not isinstance(mref, Ref): raise OutsideSubset('store into immutable row')
            i = self.norm_index(i, m.cols, P, line, 'col')
            P.heap[mref.id] = VMat(z3.Store(m.arr, obj.i, z3.Store(m.arr[obj.i], i, zint(val))), m.rows, m.cols); return
        if not isinstance(ref, Ref): raise OutsideSubset('store into non-reference')
        if isinstance(obj, VList):
            i = self.norm_index(i, obj.n, P, line)
            if not is_int(val): raise OutsideSubset('list store of non-int')
            P.heap[ref.id] = VList(z3.Store(obj.arr, i, zint(val)), obj.n, 'int'); return
        if isinstance(obj, VDict):
            h = self.c.calls.get('dict.__setitem__')
            if h: h(self, P, ref, obj, i, val); return
        raise OutsideSubset('store into ' + repr(obj))

    # ---------- statements.  Each returns list of (Path, signal) with signal in (None,'break','continue')
    def block(self, stmts, paths):
        out = []
        live = paths
        for st in stmts:
            nxt = []
            for P in live:
                for Q, sig in self.stmt(st, P):
                    if sig is None: nxt.append(Q)
                    else: out.append((Q, sig))
            live = nxt
        return [(P, None) for P in live] + out

    def stmt(self, st, P):
        m = getattr(self, 'st_' + type(st).__name__, None)
        if m is None: raise OutsideSubset(f'statement {type(st).__name__} @{st.lineno}')
        try:
            return m(st, P)
        except PathEnd:
            return []

    def st_Expr(self, st, P):
        if isinstance(st.value, ast.Constant): return [(P, None)]
        if isinstance(st.value, ast.Call) and ast.unparse(st.value.func).startswith('logging.'): return [(P, None)]
        self.ev(st.value, P); return [(P, None)]

    def st_Pass(self, st, P): return [(P, None)]
    def st_Import(self, st, P): return [(P, None)]
    def st_ImportFrom(self, st, P): return [(P, None)]

    def st_Assign(self, st, P):
        v = self.ev(st.value, P)
        for t in st.targets: self.assign(t, v, P)
        return [(P, None)]

    def st_AugAssign(self, st, P):
        tgt = st.target
        load = ast.parse(ast.unparse(tgt), mode='eval').body
        ast.copy_location(load, tgt)
        for n in ast.walk(load):
            if hasattr(n, 'lineno') is False: n.lineno = st.lineno
        cur = self.ev(load, P)
        h = self.c.calls.get('augassign')
        val = self.ev(st.value, P)
        r = h(self, P, st.op, cur, val, st) if h else NotImplemented
        if r is NotImplemented:
            r = self.binop(st.op, cur, val, P, st.lineno)
        self.assign(tgt, r, P)
        return [(P, None)]

    def st_Assert(self, st, P):
        c = self.truth(self.ev(st.test, P), P)
        self.oblige(f'assert@{st.lineno}', P, c, line=st.lineno)
        self.assume(P, c)
        return [(P, None)]

    def st_If(self, st, P):
        c = self.truth(self.ev(st.test, P), P)
        if c is True: return self.block(st.body, [P])
        if c is False: return self.block(st.orelse, [P])
        Pt, Pf = P.fork(), P.fork()
        Pt.pc.append(c); Pf.pc.append(Not(c))
        return self.block(st.body, [Pt]) + self.block(st.orelse, [Pf])

    def st_Return(self, st, P):
        v = self.ev(st.value, P) if st.value is not None else NONE
        self.exit_return(P, v, st.lineno)
        return []

    def exit_return(self, P, v, line):
        P.env['__result_raw'] = v          # the returned reference itself (identity), for "returns self" clauses
        E = EnvView(P)
        for r in self.c.exit_reveal:
            P.pc.append(zbool(r(self.A, P.deref(v), E)))
        goal = self.c.ensures(self.A, P.deref(v), E)
        if self.c.raises_iff:
            for exc, cond in self.c.raises.items():
                goal = And(goal, Not(cond(self.A, E)))
        self.oblige(f'post@return:{line}', P, goal, line=line)
        self.covers.append((f'return:{line}', list(P.pc)))

    def st_Raise(self, st, P):
        exc = ast.unparse(st.exc).split('(')[0] if st.exc is not None else 'reraise'
        self.exit_raise(P, exc, st.lineno)
        return []

    def exit_raise(self, P, exc, line):
        cond = self.c.raises.get(exc)
        goal = cond(self.A, EnvView(P)) if cond else False
        self.oblige(f'raises-{exc}@{line}', P, goal, line=line)
        self.covers.append((f'raise:{line}', list(P.pc)))

    def st_Delete(self, st, P):
        for t in st.targets:
            if isinstance(t, ast.Subscript) and isinstance(t.slice, ast.Slice):
                ref = self.ev(t.value, P); obj = P.deref(ref)
                sl = t.slice
                if isinstance(obj, VBytes) and isinstance(ref, Ref) and sl.lower is None and sl.step is None and sl.upper is not None:
                    k = P.deref(self.ev(sl.upper, P))
                    self.oblige(f'del-prefix-nonneg@{st.lineno}', P, 0 <= k, line=st.lineno)
                    kk = If(k <= obj.n, k, obj.n) if not (isinstance(k, int) and isinstance(obj.n, int)) else min(k, obj.n)
                    P.heap[ref.id] = VBytes(obj.arr, obj.lo + kk, obj.hi)
                    continue
                if isinstance(obj, VList) and isinstance(ref, Ref) and sl.lower is not None and sl.upper is None and sl.step is None:
                    k = P.deref(self.ev(sl.lower, P))     # del a[k:]  (truncate)
                    self.oblige(f'del-suffix-bounds@{st.lineno}', P, 0 <= k, line=st.lineno)      # negative bounds not modelled
                    kk = min(k, obj.n) if (isinstance(k, int) and isinstance(obj.n, int)) else If(k <= obj.n, k, obj.n)      # Python clamps at len
                    P.heap[ref.id] = VList(obj.arr, kk, obj.kind)
                    continue
            if isinstance(t, ast.Subscript) and not isinstance(t.slice, ast.Slice):
                ref = self.ev(t.value, P); obj = P.deref(ref)
                i = P.deref(self.ev(t.slice, P))
                if isinstance(obj, VList) and isinstance(ref, Ref) and isinstance(i, int) and i == -1:
                    self.oblige(f'del-last-nonempty@{st.lineno}', P, obj.n >= 1, line=st.lineno)
                    P.heap[ref.id] = VList(obj.arr, obj.n - 1, obj.kind)
                    continue
            raise OutsideSubset('del ' + ast.unparse(t))
        return [(P, None)]

    def st_Break(self, st, P): return [(P, 'break')]
    def st_Continue(self, st, P): return [(P, 'continue')]

    # ---------- loops
    def loop_key(self, st=None):
        """syntactic key of a loop: ordinal path among the loops of the function ('0', '0.0', '1', ...), independent of how many
        paths reach the loop"""
        if not hasattr(self, '_loop_keys'):
            self._loop_keys = {}
            def walk(stmts, prefix):
                k = 0
                for s in stmts:
                    if isinstance(s, (ast.FunctionDef, ast.AsyncFunctionDef, ast.ClassDef, ast.Lambda)): continue
                    if isinstance(s, (ast.For, ast.While)):
                        self._loop_keys[id(s)] = (prefix + [k])
                        walk(s.body, prefix + [k]); walk(s.orelse, prefix + [k])      # loops nested in body/orelse
                        k += 1
                    else:
                        for fld in ('body', 'orelse', 'finalbody'):
                            sub = getattr(s, fld, None)
                            if isinstance(sub, list) and sub and isinstance(sub[0], ast.stmt):
                                k = walk_inner(sub, prefix, k)
                        for h in getattr(s, 'handlers', []) or []:
                            k = walk_inner(h.body, prefix, k)
                return k
            def walk_inner(stmts, prefix, k):
                for s in stmts:
                    if isinstance(s, (ast.FunctionDef, ast.AsyncFunctionDef, ast.ClassDef)): continue
                    if isinstance(s, (ast.For, ast.While)):
                        self._loop_keys[id(s)] = (prefix + [k])
                        walk(s.body, prefix + [k]); walk(s.orelse, prefix + [k])
                        k += 1
                    else:
                        for fld in ('body', 'orelse', 'finalbody'):
                            sub = getattr(s, fld, None)
                            if isinstance(sub, list) and sub and isinstance(sub[0], ast.stmt):
                                k = walk_inner(sub, prefix, k)
                        for h in getattr(s, 'handlers', []) or []:
                            k = walk_inner(h.body, prefix, k)
                return k
            walk_inner(self.fn.body, [], 0)
        path = self._loop_keys[id(st)]
        return '.'.join(map(str, path)), path[-1]

    def assigned_names(self, st):
        names = set(); heapnames = set()
        for n in ast.walk(st):
            if isinstance(n, ast.Name) and isinstance(n.ctx, ast.Store): names.add(n.id)
            if isinstance(n, (ast.Assign, ast.AugAssign, ast.Delete)):
                tg = n.targets if isinstance(n, (ast.Assign, ast.Delete)) else [n.target]
                for t in tg:
                    for s in ast.walk(t):
                        if isinstance(s, (ast.Subscript, ast.Attribute)):
                            b = s
                            while isinstance(b, (ast.Subscript, ast.Attribute)): b = b.value
                            if isinstance(b, ast.Name): heapnames.add(b.id)
            if isinstance(n, ast.Call) and isinstance(n.func, ast.Attribute):
                if n.func.attr in ('append', 'extend', 'pop', 'insert', 'reverse', 'clear', 'sort', 'remove', 'set_result'):
                    b = n.func.value
                    while isinstance(b, (ast.Subscript, ast.Attribute)): b = b.value
                    if isinstance(b, ast.Name): heapnames.add(b.id)
        return names, heapnames

    def havoc_value(self, name, v, P):
        if isinstance(v, Ref):
            o = P.heap[v.id]
            P.heap[v.id] = self.havoc_obj(name, o, P)
            return v
        if v is NONE or isinstance(v, (VStr, VFunc)): return v
        if isinstance(v, bool) or (is_z3(v) and z3.is_bool(v)): return self.fresh(name, BOOL)
        if is_int(v): return self.fresh(name)
        if isinstance(v, VTuple): return VTuple([self.havoc_value(f'{name}_{k}', x, P) for k, x in enumerate(v.items)])
        if isinstance(v, VList): return VList(self.fresh(name, ARR), self.fresh(name + '_n'), v.kind)
        if isinstance(v, VBytes): return VBytes(v.arr, self.fresh(name + '_lo'), self.fresh(name + '_hi'))
        if isinstance(v, VRow): return v
        if isinstance(v, VObj): return VObj(v.cls, **{k: self.havoc_value(f'{name}.{k}', x, P) for k, x in v.f.items()})
        raise OutsideSubset(f'havoc of {name}={v!r}')

    def havoc_obj(self, name, o, P):
        if isinstance(o, VList): return VList(self.fresh(name, ARR), self.fresh(name + '_n'), o.kind)
        if isinstance(o, VMat): return VMat(self.fresh(name, MAT), o.rows, o.cols)
        if isinstance(o, VBytes): return VBytes(o.arr, self.fresh(name + '_lo'), o.hi)      # append-only array, hi fixed unless extended
        if isinstance(o, VDict): return VDict(self.fresh(name + '_has', z3.ArraySort(I, BOOL)), self.fresh(name + '_val', ARR))
        if isinstance(o, VObj):
            return VObj(o.cls, **{k: self.havoc_value(f'{name}.{k}', x, P) for k, x in o.f.items()})
        raise OutsideSubset(f'havoc of heap object {o!r}')

    def run_ghost(self, lines, P):
        for line in lines:
            for s in ast.parse(line).body:
                for n in ast.walk(s):
                    if not hasattr(n, 'lineno'): n.lineno = 0
                res = self.stmt(s, P)
                assert len(res) == 1 and res[0][1] is None, 'ghost code must be straight-line'

    def iteration_space(self, st, P):
        """for-loops: returns (lo, hi, bind(P, i)) with i the ghost index; iteration over i = lo..hi-1"""
        it = st.iter; tgt = st.target
        hk = self.c.calls.get('iter:' + ast.unparse(it))
        if hk is not None:
            return hk(self, P, st)
        def rng(args):
            a = [P.deref(self.ev(x, P)) for x in args]
            if len(a) == 1: return 0, a[0], 1
            if len(a) == 2: return a[0], a[1], 1
            if len(a) == 3 and isinstance(a[2], int) and a[2] in (1, -1): return a[0], a[1], a[2]
            raise OutsideSubset('range step')
        if isinstance(it, ast.Call):
            f = ast.unparse(it.func)
            if f == 'range':
                lo, hi, step = rng(it.args)
                if step == 1:
                    hi2 = If(hi >= lo, hi, lo)
                    return lo, hi2, (lambda Q, i: self.assign(tgt, i, Q))
                # descending: values lo, lo-1, ..., hi+1   -> ghost index k = 0..max(lo-hi,0)-1, value lo-k
                cnt = If(lo >= hi, lo - hi, 0)
                return 0, cnt, (lambda Q, i: self.assign(tgt, lo - i, Q))
            if f == 'enumerate' and len(it.args) == 1:
                seq = P.deref(self.ev(it.args[0], P))
                return 0, self.seq_len(seq), (lambda Q, i: self.assign(tgt, VTuple([i, self.seq_get(seq, i, Q)]), Q))
            if f == 'reversed' and len(it.args) == 1 and isinstance(it.args[0], ast.Call) and ast.unparse(it.args[0].func) == 'range':
                lo, hi, step = rng(it.args[0].args)
                if step != 1: raise OutsideSubset('reversed range step')
                cnt = If(hi >= lo, hi - lo, 0)
                return 0, cnt, (lambda Q, i: self.assign(tgt, hi - 1 - i, Q))
            if f == 'reversed' and len(it.args) == 1:
                seq = P.deref(self.ev(it.args[0], P)); n = self.seq_len(seq)       # reversed(list): element n-1-i at ghost index i
                return 0, n, (lambda Q, i: self.assign(tgt, self.seq_get(seq, n - 1 - i, Q), Q))
            if f == 'zip':
                seqs = [P.deref(self.ev(x, P)) for x in it.args]
                n = self.seq_len(seqs[0])
                for s in seqs[1:]:
                    ln = self.seq_len(s); n = If(ln < n, ln, n) if not (isinstance(n, int) and isinstance(ln, int)) else min(n, ln)
                return 0, n, (lambda Q, i: self.assign(tgt, VTuple([self.seq_get(s, i, Q) for s in seqs]), Q))
        seq = P.deref(self.ev(it, P))
        return 0, self.seq_len(seq), (lambda Q, i: self.assign(tgt, self.seq_get(seq, i, Q), Q))

    def seq_len(self, seq):
        if isinstance(seq, VList): return seq.n
        if isinstance(seq, VTuple): return len(seq.items)
        if isinstance(seq, VMat): return seq.rows
        if isinstance(seq, VBytes): return seq.n
        raise OutsideSubset('iteration over ' + repr(seq))

    def seq_get(self, seq, i, P):
        if isinstance(seq, VList): return seq.arr[i]
        if isinstance(seq, VTuple):
            if isinstance(i, int): return seq.items[i]
            raise OutsideSubset('symbolic index into tuple')
        if isinstance(seq, VMat): return VRow(seq, i)
        if isinstance(seq, VBytes): return seq.arr[seq.lo + i]
        raise OutsideSubset('element of ' + repr(seq))

    def st_For(self, st, P): return self.loop(st, P, True)
    def st_While(self, st, P): return self.loop(st, P, False)

    def loop(self, st, P, is_for):
        key, ordinal = self.loop_key(st)
        spec = self.c.loops.get(key)
        idx = '__i' + key
        if is_for:
            lo, hi, bind = self.iteration_space(st, P)
        if spec is None:
            # concrete iteration space: unroll
            if is_for and isinstance(lo, int) and isinstance(hi, int) and hi - lo <= self.c.unroll_limit:
                return self.unroll(st, P, lo, hi, bind, ordinal)
            raise OutsideSubset(f'loop {key} @{st.lineno} has no invariant')
        self.run_ghost(spec.ghost_before, P)
        if is_for: P.env[idx] = lo
        for r in spec.reveal_init: P.pc.append(zbool(r(self.A, EnvView(P))))
        self.oblige(f'inv-init:loop{key}', P, spec.inv(self.A, EnvView(P)), kind='script', line=st.lineno)
        names, heapnames = self.assigned_names(st)
        names |= set(spec.ghost_vars)
        H = P.fork()
        for nm in sorted(names):
            if nm in H.env:
                v = H.env[nm]
                if isinstance(v, Ref):
                    if nm in heapnames:                 # mutated in place and re-bound: havoc the old object too
                        self.havoc_value(nm, v, H)
                    H.env[nm] = self._havoc_rebound(nm, v, H)
                else:
                    H.env[nm] = self.havoc_value(nm, v, H)
        for nm in sorted(heapnames | set(spec.havoc_extra)):
            if nm in H.env and isinstance(H.env[nm], Ref) and nm not in names:
                self.havoc_value(nm, H.env[nm], H)
        for k2 in list(H.env):
            if k2.startswith('__i' + key + '.'): del H.env[k2]
        if is_for:
            H.env[idx] = self.fresh(idx)
            H.pc.append(And(lo <= H.env[idx], H.env[idx] <= hi))
        H.pc.append(zbool(spec.inv(self.A, EnvView(H))))
        # body
        Bp = H.fork()
        if is_for:
            i = Bp.env[idx]
            Bp.pc.append(i < hi)
            bind(Bp, i)
        else:
            c = self.truth(self.ev(st.test, Bp), Bp)
            Bp.pc.append(zbool(c))
        self.run_ghost(spec.ghost_begin, Bp)
        pre = EnvView(Bp.fork())
        for r in spec.reveal: Bp.pc.append(zbool(r(self.A, EnvView(Bp))))
        self.loop_stack.append(ordinal)
        saved_sib = {k: v for k, v in self.sib.items()}
        res = self.block(st.body, [Bp])
        self.loop_stack.pop()
        exits = []
        for O, sig in res:
            if sig == 'break':
                for r in spec.reveal_break: O.pc.append(zbool(r(self.A, EnvView(O))))
                exits.append((O, None)); continue
            if is_for: O.env[idx] = i + 1
            self.run_ghost(spec.ghost_end, O)
            for r in spec.reveal_post: O.pc.append(zbool(r(self.A, pre, EnvView(O))))
            self.oblige(f'inv-preserved:loop{key}', O, spec.inv(self.A, EnvView(O)), kind='script', line=st.lineno)
        # normal exit
        E = H.fork()
        if is_for:
            E.pc.append(E.env[idx] == hi)
        else:
            c = self.truth(self.ev(st.test, E), E)
            E.pc.append(zbool(Not(c)))
        for r in spec.reveal_exit: E.pc.append(zbool(r(self.A, EnvView(E))))
        if st.orelse:
            exits += self.block(st.orelse, [E])
        else:
            exits.append((E, None))
        return exits

    def _havoc_rebound(self, nm, ref, H):
        """a name bound to a heap object and re-assigned in the loop: give it a fresh object of the same shape"""
        o = H.heap[ref.id]
        return self.alloc(H, self.havoc_obj(nm, o, H), nm)

    def unroll(self, st, P, lo, hi, bind, ordinal):
        live = [P]; exits = []
        for i in range(lo, hi):
            nxt = []
            for Q in live:
                bind(Q, i)
                self.loop_stack.append(ordinal); save = dict(self.sib)
                res = self.block(st.body, [Q])
                self.sib = save; self.loop_stack.pop()
                for O, sig in res:
                    if sig == 'break': exits.append((O, None))
                    else: nxt.append(O)
            live = nxt
        if st.orelse:
            exits += self.block(st.orelse, live)
        else:
            exits += [(Q, None) for Q in live]
        return exits

    def st_Try(self, st, P):
        h = self.c.calls.get('try@%d' % st.lineno) or self.c.calls.get('try')
        if h: return h(self, P, st)
        raise OutsideSubset('try statement')

    # ---------- driver
    def run(self):
        c = self.c
        P = Path({}, {}, [])
        params = c.params(self, P)
        P.env.update(params)
        self.A = dict(params)
        self.A0 = EnvView(P.fork())           # snapshot of the entry state (old values)
        self.A = self.A0
        P.pc.append(zbool(c.requires(self.A0)))
        self.requires_pc = list(P.pc)
        self.run_ghost(c.ghost_entry, P)
        res = self.block(self.fn.body, [P])
        for Q, sig in res:
            assert sig is None, 'break/continue outside loop'
            self.exit_return(Q, NONE, self.fn.end_lineno)
        return self.obligations, self.covers


# ------------------------------------------------------------------ built-in (trusted) call contracts
def _len(vc, P, args, kw, e):
    v = P.deref(args[0])
    if isinstance(v, VTuple): return len(v.items)
    if isinstance(v, VMat): return v.rows
    if isinstance(v, VRow): return P.deref(v.mat).cols
    if isinstance(v, VStr): return len(v.s)
    if hasattr(v, 'n'): return v.n
    raise OutsideSubset('len of ' + repr(v))


def _abs(vc, P, args, kw, e): return absz(P.deref(args[0]))


def _divmod(vc, P, args, kw, e):
    a, b = P.deref(args[0]), P.deref(args[1])
    q, r = vc.divmod(a, b, P, e.lineno)
    return VTuple([q, r])


def _max(vc, P, args, kw, e):
    a = [P.deref(x) for x in args]
    r = a[0]
    for x in a[1:]: r = If(r >= x, r, x) if not (isinstance(r, int) and isinstance(x, int)) else max(r, x)
    return r


def _min(vc, P, args, kw, e):
    a = [P.deref(x) for x in args]
    r = a[0]
    for x in a[1:]: r = If(r <= x, r, x) if not (isinstance(r, int) and isinstance(x, int)) else min(r, x)
    return r


def _int(vc, P, args, kw, e):
    v = P.deref(args[0])
    if is_int(v): return v
    if is_bool(v): return If(v, 1, 0)
    raise OutsideSubset('int() of ' + repr(v))


def _bool(vc, P, args, kw, e): return vc.truth(args[0], P)


def _list(vc, P, args, kw, e):
    if not args: return vc.alloc(P, VList(z3.K(I, z3.IntVal(0)), 0))
    v = P.deref(args[0])
    if isinstance(v, VList): return vc.alloc(P, VList(v.arr, v.n, v.kind))
    raise OutsideSubset('list() of ' + repr(v))


def _exc(name):
    def h(vc, P, args, kw, e): return VObj('exc:' + name)
    return h


def _isinstance_none(vc, P, args, kw, e):
    raise OutsideSubset('isinstance must be resolved by the contract case')


BUILTINS = {'len': _len, 'abs': _abs, 'divmod': _divmod, 'max': _max, 'min': _min, 'int': _int, 'bool': _bool, 'list': _list,
            'tuple': lambda vc, P, a, k, e: P.deref(a[0]) if a else VTuple([]),
            'ValueError': _exc('ValueError'), 'ZeroDivisionError': _exc('ZeroDivisionError'), 'TypeError': _exc('TypeError'),
            'IndexError': _exc('IndexError'), 'isinstance': _isinstance_none}
