#!/bin/bash
# selftest/eval_seed.sh <ID> [extra check ids]: confirm a seeded change in /tmp/seed/<ID> (tests green, demo fails with / passes without), run the check(s) on it
ID=$1; shift
W=/tmp/seed/$ID
cd $W || exit 3
echo "== $ID: $(git diff --stat -- mpyc | tail -1)"
T=$(PYTHONPATH=$W timeout 900 /venv/bin/python -m pytest -q -p no:cacheprovider --timeout=900 2>&1 | tail -1); echo "tests(with): $T"
S=$(mktemp -d /tmp/me/demo.XXXX); cp $W/demo_$ID.py $S/
( cd $S && PYTHONPATH=$W timeout 600 /venv/bin/python demo_$ID.py >/dev/null 2>&1; echo "demo(with)=$?" ; PYTHONPATH=/repo timeout 600 /venv/bin/python demo_$ID.py >/dev/null 2>&1; echo "demo(without)=$?" )
rm -rf $S
cd /verif
for C in $ID "$@"; do
  OUT=$(MPYC_REPO=$W VERIF_TASK_LIMIT_S=600 timeout 1500 bin/check $C 2>&1); RC=$?
  echo "check $C rc=$RC $(echo "$OUT" | grep -c '^VIOLATION') violations; $(echo "$OUT" | grep -c 'no-failing-input-found') without input; $(echo "$OUT" | tail -1 | cut -c1-160)"
  echo "$OUT" | grep "^  obligation" | head -3 | cut -c1-300
  R=$(echo "$OUT" | grep '^VIOLATION' | grep -v no-failing | head -1 | sed 's/.*replay=\([^ ]*\).*/\1/')
  if [ -n "$R" ]; then MPYC_REPO=$W timeout 600 bin/check --replay "$R" >/dev/null 2>&1; echo "  replay rc=$?"; fi
done
