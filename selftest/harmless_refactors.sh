#!/bin/bash
# broader harmless refactors (renamed locals, reordered independent statements, equivalent expressions): every quick check must stay green
D=$(mktemp -d /tmp/harmless.XXXX); cp -r /repo/mpyc $D/mpyc
python3 - $D <<'PY'
import sys
d = sys.argv[1]
def rep(f, old, new, cnt=1):
    p = d + '/mpyc/' + f; s = open(p).read()
    assert s.count(old) >= 1, (f, old[:50])
    s = s.replace(old, new, cnt); open(p, 'w').write(s)
    import ast; ast.parse(s)
# runtime.trunc: renamed local (first occurrence block only: scalar trunc)
rep('runtime.py', "        r_divf = self._randoms(Zp, n, 1 << k + l - f)", "        r_hi = self._randoms(Zp, n, 1 << (k + l - f))")
rep('runtime.py', "            r_divf = await r_divf", "            r_hi = await r_hi")
rep('runtime.py', "for ar, q in zip(xr_modf, r_divf)])", "for ar, q in zip(xr_modf, r_hi)])")
# runtime._mod: offset computed first, equivalent ceiling division
rep('runtime.py', "        a_0 = b * -(-((1<<(l-1)) + b-1) // b)  # multiple of b such that a + a_0 - r_modb >= 0\n        c = await self.output(a + (a_0 + b * r_divb - r_modb))",
    "        offset = b * (((1 << (l-1)) + 2*b - 2) // b)\n        c = await self.output(a + (offset - r_modb + b * r_divb))")
# runtime.lsb: equivalent expression
rep('runtime.py', "        c = await self.output(a + ((1<<l) + (r << 1) + b.value))", "        c = await self.output(a + (b.value + 2*r + (1 << l)))")
# random.randrange: named range
rep('random.py', "    n = len(range(start, stop, step))\n    if not n:", "    rng = range(start, stop, step)\n    n = len(rng)\n    if n == 0:")
# secgroups: renamed local
rep('secgroups.py', "    lambda_i = _recombination_vector(field, range(1, m+1), 0)[runtime.pid]\n    x_i = await runtime.gather(x)\n    e_i = int(lambda_i * x_i)", "    lam = _recombination_vector(field, range(1, m+1), 0)[runtime.pid]\n    x_i = await runtime.gather(x)\n    e_i = int(x_i * lam)")
# mpctools.reduce: explicit parity
rep('mpctools.py', "    while len(x) > 1:\n        x[len(x)%2:] = (f(x[i], x[i+1]) for i in range(len(x)%2, len(x), 2))\n    return x[0]", "    while len(x) > 1:\n        odd = len(x) % 2\n        x[odd:] = [f(x[i], x[i+1]) for i in range(odd, len(x), 2)]\n    return x[0]")
# asyncoro: renamed local in typed_asyncoro's synchronous branch is risky to match; _reconcile: reorder guard
rep('asyncoro.py', "def _reconcile(decl, task):\n    runtime._pc_level -= 1\n    if decl is None:\n        return\n", "def _reconcile(decl, task):\n    runtime._pc_level -= 1\n    if decl is None:\n        return None\n")
# seclists: renamed local in __delitem__
rep('seclists.py', "            i = key[:]\n        i.pop()\n        if len(i) != n-1:", "            i = list(key)\n        i.pop()\n        if n-1 != len(i):")
# statistics / thresha / gmpy small equivalences
rep('gmpy.py', "                if b == x-1:\n                    break", "                if b == x - 1:\n                    break")
# NumPy paths and secure floats / polynomials (C05, C37, C38)
rep('runtime.py', "        a_shape = getattr(a, 'shape', ())\n        b_shape = getattr(b, 'shape', ())\n        shape = np.broadcast_shapes(a_shape, b_shape)\n        if not stype.frac_length:\n            await self.returnType((stype, shape))\n        else:\n            await self.returnType((stype, a.integral and b.integral, shape))\n        a, b = await self.gather(a, b)\n        return a + b", "        shp_a = getattr(a, 'shape', ())\n        shp_b = getattr(b, 'shape', ())\n        shape = np.broadcast_shapes(shp_b, shp_a)\n        if stype.frac_length:\n            await self.returnType((stype, b.integral and a.integral, shape))\n        else:\n            await self.returnType((stype, shape))\n        a, b = await self.gather(a, b)\n        return a + b")
rep('secpols.py', "        d = secpoly._degree(a)  # set degree obliviously\n        n = len(a)", "        n = len(a)\n        d = secpoly._degree(a)  # set degree obliviously")
rep('sectypes.py', "                    s, e = math.frexp(value)\n                    if abs(s) == 0.5:\n                        e -= 1", "                    mant, e = math.frexp(value)\n                    if abs(mant) == 0.5:\n                        e = e - 1")
PY
echo "changed lines: $(diff -r /repo/mpyc $D/mpyc | grep -c '^[<>]')"
(cd $D && PYTHONPATH=$D timeout 900 /venv/bin/python -m pytest -q -p no:cacheprovider /repo/tests 2>&1 | tail -1)
cd /verif
for c in $(python3 -c "
import json; print(' '.join(c['property_id'] for c in json.load(open('/verif/MANIFEST.json'))['checks']))"); do
  out=$(MPYC_REPO=$D VERIF_TASK_LIMIT_S=600 timeout 1800 bin/check $c 2>&1); rc=$?
  echo "$c rc=$rc $(echo "$out" | grep -c '^STALE') stale; $(echo "$out" | tail -1 | cut -c1-150)"
  [ $rc -ne 0 ] && echo "$out" | grep "^VIOLATION\|^UNDEC\|^CHECK-ERROR\|^  obligation" | head -4 | cut -c1-300
done
rm -rf $D
