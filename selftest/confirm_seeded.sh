#!/bin/bash
# selftest/confirm_seeded.sh [ID ...]: for each kept seeded change /verif/seeded/<ID>/patch.diff: apply it to /repo, run the repository's tests,
# the demonstration and the quick check of <ID> (expected: tests green, demonstration fails, check exits 1 with a VIOLATION line), undo it
# (git -C /repo checkout -- .), run the demonstration on the unchanged tree (expected: passes).  Results go to seeded/<ID>/confirmed.json.
cd /verif
IDS=${@:-$(ls seeded)}
if [ -n "$(git -C /repo status --porcelain --untracked-files=no)" ]; then echo "/repo has local changes: refusing"; exit 3; fi
for ID in $IDS; do
  D=/verif/seeded/$ID; CK=${ID%%.*}
  git -C /repo apply --check $D/patch.diff || { echo "$ID: patch does not apply"; continue; }
  git -C /repo apply $D/patch.diff
  T=$(cd /repo && timeout 900 /venv/bin/python -m pytest -q -p no:cacheprovider 2>&1 | tail -1)
  S=$(mktemp -d); cp $D/demonstration.py $S/demo.py
  PY=/venv/bin/python; case $CK in C37|C38) PY=/verif/.venv/bin/python;; esac      # the NumPy code paths need the check interpreter (NumPy wheel)
  (cd $S && PYTHONPATH=/repo timeout 600 $PY demo.py >/dev/null 2>&1); DW=$?
  OUT=$(VERIF_TASK_LIMIT_S=600 timeout 1800 bin/check $CK 2>&1); RC=$?
  R=$(echo "$OUT" | grep '^VIOLATION' | grep -v no-failing | head -1 | sed 's/.*replay=\([^ ]*\).*/\1/'); RR=none
  if [ -n "$R" ]; then timeout 600 bin/check --replay "$R" >/dev/null 2>&1; RR=$?; fi
  git -C /repo checkout -- .
  (cd $S && PYTHONPATH=/repo timeout 600 $PY demo.py >/dev/null 2>&1); DO=$?
  RB=none
  if [ -n "$R" ]; then timeout 600 bin/check --replay "$R" >/dev/null 2>&1; RB=$?; fi
  rm -rf $S
  NV=$(echo "$OUT" | grep -c '^VIOLATION'); NI=$(echo "$OUT" | grep -c 'no-failing-input-found')
  echo "$OUT" | grep -A1 '^VIOLATION' | grep '^  obligation' | head -4 | cut -c1-400 > $D/caught_by.txt
  python3 - "$ID" "$T" "$DW" "$DO" "$RC" "$NV" "$NI" "$RR" "$RB" <<'PY'
import json, sys
ID, T, DW, DO, RC, NV, NI, RR, RB = sys.argv[1:]
d = dict(property=ID, applied_with='git -C /repo apply /verif/seeded/%s/patch.diff' % ID, undone_with='git -C /repo checkout -- .',
         repository_tests_with_change=T, demonstration_exit_with_change=int(DW), demonstration_exit_without_change=int(DO),
         check_cmd='bin/check %s (quick tier)' % ID.split('.')[0], check_exit_with_change=int(RC), violation_lines=int(NV), violations_without_failing_input=int(NI),
         replay_exit_with_change=RR, replay_exit_on_unchanged_tree=RB,
         caught=(int(RC) == 1 and int(NV) > 0), obligations=open('/verif/seeded/%s/caught_by.txt' % ID).read().splitlines())
json.dump(d, open('/verif/seeded/%s/confirmed.json' % ID, 'w'), indent=1)
print(ID, 'tests:', T, '| demo with/without:', DW, DO, '| check rc', RC, 'violations', NV, '(no input:', NI + ')', 'replay with/without', RR, RB)
PY
  rm -f $D/caught_by.txt
done
git -C /repo status --porcelain --untracked-files=no | head -3
