#!/bin/bash
# usage: selftest/with_mutant.sh <file-under-mpyc> <old-text> <new-text> -- <command...>
# Copies /repo/mpyc to a scratch dir, replaces the FIRST occurrence of old by new (must occur), runs the command with
# MPYC_REPO / PYTHONPATH pointing at the scratch copy, removes the copy.
set -e
F="$1"; OLD="$2"; NEW="$3"; shift 4
D=$(mktemp -d /tmp/mut.XXXXXX)
cp -r /repo/mpyc "$D/mpyc"
python3 - "$D/mpyc/$F" "$OLD" "$NEW" <<'PY'
import sys
p, old, new = sys.argv[1:4]
s = open(p).read()
assert old in s, 'mutation text not found: ' + old
s = s.replace(old, new, 1)
open(p, 'w').write(s)
import ast; ast.parse(s)
PY
set +e
MPYC_REPO="$D" PYTHONPATH="$D:/verif" MPYC_NONUMPY=1 MPYC_NOGMPY=1 "$@"
rc=$?
rm -rf "$D"
exit $rc
