"""Engine-A self-test helper: patch text INSIDE the function under contract (asserted), verify against the patched source."""
import ast, copy, os, tempfile
from vc.verify import verify_contract, source_of
from vc.engine import find_function


def mutant(contract, old, new, count=1):
    src, path = source_of(contract)
    tree = ast.parse(src)
    fn = find_function(tree, path)
    seg = ast.get_source_segment(src, fn)
    assert old in seg, f'mutation text not inside {contract.qualname}: {old!r}'
    i0 = src.index(seg)
    patched = src[:i0] + seg.replace(old, new, count) + src[i0 + len(seg):]
    ast.parse(patched)
    with tempfile.NamedTemporaryFile('w', suffix='.py', delete=False) as f:
        f.write(patched); name = f.name
    try:
        c2 = copy.copy(contract); c2.src_file = name
        obs = verify_contract(c2, canary=False)
    finally:
        os.unlink(name)
    return [(o.name, o.status) for o in obs if o.status != 'discharged']
