import Mathlib.FieldTheory.Finite.Basic
import Mathlib.Data.Int.NatPrime
import Mathlib.Tactic

/-- L7: Euclid's lemma in the form instantiated by the contract of `_recombination_vector`
    (Python `%` on a positive modulus is `Int.emod`). -/
theorem euclid_instance (p : ℕ) (hp : p.Prime) (a b : ℤ) (ha : 0 < a) (ha' : a < p)
    (hb : -(p:ℤ) < b) (hb' : b < p) (hb0 : b ≠ 0) : (a * b) % (p:ℤ) ≠ 0 := by
  intro h
  have hdvd : (p:ℤ) ∣ a * b := Int.dvd_of_emod_eq_zero h
  rcases Int.Prime.dvd_mul' hp hdvd with h1 | h1
  · have := Int.le_of_dvd ha h1
    omega
  · rcases lt_or_gt_of_ne hb0 with hneg | hpos
    · have h2 : (p:ℤ) ∣ -b := (dvd_neg).mpr h1
      have := Int.le_of_dvd (by omega) h2
      omega
    · have := Int.le_of_dvd hpos h1
      omega

/-- L6: for a prime p = 3 (mod 4) and a square a in ZMod p, a^((p+1)/4) is a square root of a. -/
theorem sqrt_3mod4 (p : ℕ) [Fact p.Prime] (hp : p % 4 = 3) (a b : ZMod p) (hab : a = b * b) :
    (a ^ ((p + 1) / 4)) ^ 2 = a := by
  subst hab
  by_cases hb : b = 0
  · subst hb
    have : (p + 1) / 4 ≠ 0 := by omega
    simp [this]
  · have hfermat : b ^ (p - 1) = 1 := ZMod.pow_card_sub_one_eq_one hb
    have hk : (p + 1) / 4 * 2 * 2 = (p - 1) + 2 := by omega
    calc ((b * b) ^ ((p + 1) / 4)) ^ 2 = b ^ ((p + 1) / 4 * 2 * 2) := by ring
      _ = b ^ ((p - 1) + 2) := by rw [hk]
      _ = b ^ (p - 1) * b ^ 2 := by rw [pow_add]
      _ = b * b := by rw [hfermat]; ring

/-- L5: double-and-add (`FiniteGroupElement.repeat`): processing the bits of n from the top, c := c*c, then c := c*a if the bit is set. -/
theorem pow_binary_step {G : Type*} [Monoid G] (a : G) (k : ℕ) (bit : Bool) :
    a ^ (2 * k + (if bit then 1 else 0)) = (a ^ k * a ^ k) * (if bit then a else 1) := by
  cases bit <;> simp [pow_add, two_mul, pow_succ]

#print axioms euclid_instance
#print axioms sqrt_3mod4
#print axioms pow_binary_step

/-- L6b: for p = 3 (mod 4) and nonzero a, a^((3p-5)/4) * a^((p+1)/4) = 1: the INV=True exponent yields the inverse of the square root. -/
theorem sqrt_inv_3mod4 (p : ℕ) [Fact p.Prime] (hp : p % 4 = 3) (a : ZMod p) (ha : a ≠ 0) :
    a ^ ((p * 3 - 5) / 4) * a ^ ((p + 1) / 4) = 1 := by
  have hfermat : a ^ (p - 1) = 1 := ZMod.pow_card_sub_one_eq_one ha
  have hp3 : 3 ≤ p := by omega
  have hk : (p * 3 - 5) / 4 + (p + 1) / 4 = p - 1 := by omega
  rw [← pow_add, hk, hfermat]

#print axioms sqrt_inv_3mod4
