import Mathlib.LinearAlgebra.Lagrange
open Polynomial Finset

variable {F : Type*} [Field F] [DecidableEq F]

/-- f_S : interpolation through (0,1) and (x,0) for x in Z (Z = x-coordinates of parties outside S). -/
noncomputable def fS (Z : Finset F) : F[X] :=
  Lagrange.interpolate (insert 0 Z) id (fun x => if x = 0 then 1 else 0)

theorem fS_degree (Z : Finset F) (h0 : (0:F) ∉ Z) : (fS Z).degree < (Z.card + 1 : ℕ) := by
  have := Lagrange.degree_interpolate_lt (s := insert 0 Z) (v := id)
    (fun x => if x = (0:F) then (1:F) else 0) (Set.injOn_id _)
  rwa [Finset.card_insert_of_notMem h0] at this

theorem fS_zero (Z : Finset F) : (fS Z).eval 0 = 1 := by
  have := Lagrange.eval_interpolate_at_node (s := insert 0 Z) (v := id)
    (fun x => if x = (0:F) then (1:F) else 0) (Set.injOn_id _) (Finset.mem_insert_self 0 Z)
  simpa [fS] using this

theorem fS_outside (Z : Finset F) (h0 : (0:F) ∉ Z) (x : F) (hx : x ∈ Z) : (fS Z).eval x = 0 := by
  have hx0 : x ≠ 0 := fun h => h0 (h ▸ hx)
  have := Lagrange.eval_interpolate_at_node (s := insert 0 Z) (v := id)
    (fun x => if x = (0:F) then (1:F) else 0) (Set.injOn_id _) (Finset.mem_insert_of_mem hx)
  simpa [fS, hx0] using this

/-- PRSS: index set ι of subsets, Z k = points of the parties outside subset k, r k = PRF output.
    The global polynomial Σ_k r_k f_{S_k} has degree ≤ t (if every complement has ≤ t points), value Σ r_k at 0,
    and at a party's point x it equals the sum over the subsets containing that party. -/
theorem prss_consistent {ι : Type*} (K : Finset ι) (Z : ι → Finset F) (r : ι → F) (t : ℕ)
    (h0 : ∀ k ∈ K, (0:F) ∉ Z k) (hc : ∀ k ∈ K, (Z k).card ≤ t) (x : F) [DecidablePred fun k => x ∈ Z k] :
    (∑ k ∈ K, C (r k) * fS (Z k)).degree < (t + 1 : ℕ) ∧
    (∑ k ∈ K, C (r k) * fS (Z k)).eval 0 = ∑ k ∈ K, r k ∧
    (∑ k ∈ K, C (r k) * fS (Z k)).eval x = ∑ k ∈ K.filter (fun k => x ∉ Z k), r k * (fS (Z k)).eval x := by
  refine ⟨?_, ?_, ?_⟩
  · apply lt_of_le_of_lt (degree_sum_le _ _)
    rw [Finset.sup_lt_iff (by exact_mod_cast WithBot.bot_lt_coe (t+1))]
    intro k hk
    have h1 : (C (r k) * fS (Z k)).degree ≤ (fS (Z k)).degree := by
      calc (C (r k) * fS (Z k)).degree ≤ (C (r k)).degree + (fS (Z k)).degree := degree_mul_le _ _
        _ ≤ 0 + (fS (Z k)).degree := by gcongr; exact degree_C_le
        _ = (fS (Z k)).degree := zero_add _
    apply lt_of_le_of_lt h1
    apply lt_of_lt_of_le (fS_degree (Z k) (h0 k hk))
    exact_mod_cast Nat.succ_le_succ (hc k hk)
  · simp [eval_finset_sum, fS_zero]
  · rw [eval_finset_sum, Finset.sum_filter]
    apply Finset.sum_congr rfl
    intro k hk
    by_cases hx : x ∈ Z k
    · simp [hx, fS_outside (Z k) (h0 k hk) x hx]
    · simp [hx]
#print axioms prss_consistent
