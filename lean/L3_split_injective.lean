import Mathlib.LinearAlgebra.Lagrange
import Mathlib.Algebra.Polynomial.BigOperators
open Polynomial Finset

variable {F : Type*} [Field F] [DecidableEq F]

noncomputable def sharePoly (s : F) (c : ℕ → F) (t : ℕ) : F[X] :=
  C s + ∑ j ∈ range t, C (c j) * X ^ (t - j)

theorem sharePoly_degree (s : F) (c : ℕ → F) (t : ℕ) :
    (sharePoly s c t).degree ≤ t := by
  rw [sharePoly]
  apply (degree_add_le _ _).trans
  apply max_le
  · exact (degree_C_le).trans (by exact_mod_cast Nat.zero_le t)
  · apply (degree_sum_le _ _).trans
    apply Finset.sup_le
    intro j hj
    apply (degree_C_mul_X_pow_le _ _).trans
    exact_mod_cast Nat.sub_le t j

theorem sharePoly_eval_zero (s : F) (c : ℕ → F) (t : ℕ) :
    (sharePoly s c t).eval 0 = s := by
  rw [sharePoly]
  simp only [eval_add, eval_C, eval_finset_sum, eval_mul, eval_pow, eval_X]
  have : ∀ j ∈ range t, c j * (0:F) ^ (t - j) = 0 := by
    intro j hj
    have : j < t := Finset.mem_range.mp hj
    have h : t - j ≠ 0 := by omega
    simp [h]
  rw [Finset.sum_eq_zero this, add_zero]

theorem sharePoly_coeff (s : F) (c : ℕ → F) (t j : ℕ) (hj : j < t) :
    (sharePoly s c t).coeff (t - j) = c j := by
  rw [sharePoly, coeff_add, coeff_C, finset_sum_coeff]
  have h0 : t - j ≠ 0 := by omega
  rw [if_neg h0, zero_add]
  rw [Finset.sum_eq_single j]
  · simp
  · intro b hb hbj
    have hb' : b < t := Finset.mem_range.mp hb
    rw [coeff_C_mul, coeff_X_pow]
    have : t - j ≠ t - b := by omega
    simp [this]
  · intro h; exact absurd (Finset.mem_range.mpr hj) h

/-- L3 (injectivity half): shares at t distinct nonzero points determine the t dealer coefficients,
    for a fixed secret. Bijectivity on the finite set F^t follows by counting. -/
theorem split_injective (s : F) (t : ℕ) (pts : Finset F) (hcard : pts.card = t)
    (hnz : (0:F) ∉ pts) (c c' : ℕ → F)
    (h : ∀ x ∈ pts, (sharePoly s c t).eval x = (sharePoly s c' t).eval x) :
    ∀ j < t, c j = c' j := by
  have hpoly : sharePoly s c t = sharePoly s c' t := by
    apply eq_of_degrees_lt_of_eval_finset_eq (insert 0 pts)
    · rw [Finset.card_insert_of_notMem hnz, hcard]
      exact lt_of_le_of_lt (sharePoly_degree s c t) (by exact_mod_cast Nat.lt_succ_self t)
    · rw [Finset.card_insert_of_notMem hnz, hcard]
      exact lt_of_le_of_lt (sharePoly_degree s c' t) (by exact_mod_cast Nat.lt_succ_self t)
    · intro x hx
      rcases Finset.mem_insert.mp hx with rfl | hx
      · rw [sharePoly_eval_zero, sharePoly_eval_zero]
      · exact h x hx
  intro j hj
  rw [← sharePoly_coeff s c t j hj, ← sharePoly_coeff s c' t j hj, hpoly]
#print axioms split_injective
