import Mathlib.LinearAlgebra.Lagrange
open Polynomial Finset
-- Lagrange: a polynomial of degree < card s is determined by values at s
theorem shamir_recombine {F : Type*} [Field F] {ι : Type*} [DecidableEq ι]
    (s : Finset ι) (v : ι → F) (hv : Set.InjOn v s) (f : F[X]) (hf : f.degree < s.card) (x : F) :
    ∑ i ∈ s, f.eval (v i) * (Lagrange.basis s v i).eval x = f.eval x := by
  conv_rhs => rw [Lagrange.eq_interpolate hv hf]
  simp [Lagrange.interpolate_apply, eval_finset_sum, mul_comm]
#print axioms shamir_recombine
