#!/bin/bash
# compile every lemma file with lean (in parallel), record per file: sha256, exit status, axioms printed
cd "$(dirname "$0")"
for f in L*.lean; do
  ( out=$(timeout 1500 lean "$f" 2>&1); rc=$?; printf '%s\n' "$out" > "${f%.lean}.out"; echo $rc > "${f%.lean}.rc" ) &
done
wait
python3 - <<'PY'
import json, glob, hashlib, re
res = {}
for f in sorted(glob.glob('L*.lean')):
    b = f[:-5]
    out = open(b + '.out').read(); rc = int(open(b + '.rc').read().strip() or 1)
    ax = re.findall(r"'([^']+)' depends on axioms: \[([^\]]*)\]", out)
    noax = re.findall(r"'([^']+)' does not depend on any axioms", out)
    res[f] = dict(sha256=hashlib.sha256(open(f, 'rb').read()).hexdigest(), rc=rc, theorems={n: [a.strip() for a in axs.split(',')] for n, axs in ax} | {n: [] for n in noax},
                  errors=[l for l in out.splitlines() if 'error' in l][:5])
json.dump(res, open('RESULT.json', 'w'), indent=1)
print(json.dumps({k: (v['rc'], list(v['theorems'])) for k, v in res.items()}))
PY
rm -f L*.out L*.rc
