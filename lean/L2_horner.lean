import Mathlib.LinearAlgebra.Lagrange
import Mathlib.Algebra.Polynomial.BigOperators
open Polynomial Finset

variable {F : Type*} [Field F]

/-- Horner recursion used by `random_split`: y := (y + c_j) * x, j = 0..t-1, starting from 0. -/
def horner (c : ℕ → F) (x : F) : ℕ → F
  | 0 => 0
  | j+1 => (horner c x j + c j) * x

/-- closed form: horner c x t = Σ_{j<t} c_j x^(t-j) -/
theorem horner_eval (c : ℕ → F) (x : F) (t : ℕ) :
    horner c x t = ∑ j ∈ range t, c j * x ^ (t - j) := by
  induction t with
  | zero => simp [horner]
  | succ t ih =>
    rw [horner, ih, Finset.sum_range_succ, add_mul, Finset.sum_mul]
    congr 1
    · apply Finset.sum_congr rfl
      intro j hj
      have : j < t := Finset.mem_range.mp hj
      rw [mul_assoc, ← pow_succ, Nat.succ_sub (le_of_lt this)]
    · simp

/-- the sharing polynomial -/
noncomputable def sharePoly (s : F) (c : ℕ → F) (t : ℕ) : F[X] :=
  C s + ∑ j ∈ range t, C (c j) * X ^ (t - j)

theorem sharePoly_eval (s : F) (c : ℕ → F) (t : ℕ) (x : F) :
    (sharePoly s c t).eval x = horner c x t + s := by
  rw [horner_eval, sharePoly]
  simp [eval_finset_sum, add_comm]

theorem sharePoly_eval_zero (s : F) (c : ℕ → F) (t : ℕ) :
    (sharePoly s c t).eval 0 = s := by
  rw [sharePoly]
  simp only [eval_add, eval_C, eval_finset_sum, eval_mul, eval_pow, eval_X]
  have : ∀ j ∈ range t, c j * (0:F) ^ (t - j) = 0 := by
    intro j hj
    have : j < t := Finset.mem_range.mp hj
    have h : t - j ≠ 0 := by omega
    simp [h]
  rw [Finset.sum_eq_zero this, add_zero]

theorem sharePoly_degree (s : F) (c : ℕ → F) (t : ℕ) :
    (sharePoly s c t).degree ≤ t := by
  rw [sharePoly]
  apply (degree_add_le _ _).trans
  apply max_le
  · exact (degree_C_le).trans (by exact_mod_cast Nat.zero_le t)
  · apply (degree_sum_le _ _).trans
    apply Finset.sup_le
    intro j hj
    apply (degree_C_mul_X_pow_le _ _).trans
    exact_mod_cast Nat.sub_le t j
#print axioms sharePoly_degree
#print axioms horner_eval
