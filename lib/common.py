"""Shared plumbing of the checks: obligation records, evidence writer, known findings, replay files,
process pool.  No verification logic lives here."""
import json, os, sys, time, hashlib, re, traceback, multiprocessing as mp

ROOT = os.path.dirname(os.path.dirname(os.path.abspath(__file__)))
REPO = os.environ.get('MPYC_REPO', '/repo')
PY_NATIVE = '/venv/bin/python'          # interpreter the repository's own tests use
PY_CHECK = os.path.join(ROOT, '.venv', 'bin', 'python')   # venv OF /venv/bin/python (same CPython binary) + z3; replays run under it

# exit codes of bin/check
EXIT_OK, EXIT_VIOLATION, EXIT_UNDECIDED, EXIT_CRASH = 0, 1, 2, 3

# strength tags
P, B, L = 'P', 'B', 'L'


class Ob:
    """One obligation and its verdict.

    status: 'discharged' | 'refuted' | 'unknown' | 'error'
    strength: 'P' (proved, unbounded) | 'B' (bounded, bound stated) | 'L' (Lean lemma)
    kind: 'semantic' (post/raises/pre-call/safety/frame/ghost) | 'script' (loop invariant, reveal) | 'cover' | 'canary'
    witness: None or dict(key=<normalised witness class>, text=<human>, replay=<python source or None>)
    """
    __slots__ = ('name', 'function', 'engine', 'strength', 'status', 'backend', 'time', 'kind', 'witness', 'detail', 'bound', 'changed', 'evals')

    def __init__(self, name, function, engine, strength, status, backend='', time=0.0, kind='semantic',
                 witness=None, detail='', bound=''):
        self.name, self.function, self.engine, self.strength, self.status = name, function, engine, strength, status
        self.backend, self.time, self.kind, self.witness, self.detail, self.bound = backend, time, kind, witness, detail, bound
        self.changed = False
        self.evals = 1

    def as_dict(self):
        return {k: getattr(self, k) for k in self.__slots__ if getattr(self, k) not in (None, '', 0.0)}

    def __repr__(self):
        return f'Ob({self.function}:{self.name} {self.strength} {self.status} {self.backend} {self.time:.3f}s)'


def src_hash(text):
    return hashlib.sha256(text.encode()).hexdigest()[:16]


# ---------------------------------------------------------------- known findings
FINDINGS_FILE = os.path.join(ROOT, 'known_findings.txt')


def load_findings():
    """Lines:  finding: property=Cnn key=<witness key> <text>     |   fixed: property=Cnn <commit> <text>"""
    out = []
    if not os.path.exists(FINDINGS_FILE):
        return out
    for line in open(FINDINGS_FILE):
        line = line.strip()
        if not line or line.startswith('#'):
            continue
        m = re.match(r'finding:\s+property=(C\d+)\s+key=(\S+)\s+(.*)', line)
        if m:
            out.append(dict(kind='finding', property=m.group(1), key=m.group(2), text=m.group(3)))
    return out


# ---------------------------------------------------------------- replay files
def write_replay(prop, ob, tier):
    os.makedirs(os.path.join(ROOT, 'replay'), exist_ok=True)
    full = f'{prop}_{ob.function}_{ob.name}'
    safe = re.sub(r'[^A-Za-z0-9_.-]+', '_', full)
    if len(safe) > 150:          # long function lists: keep the file name unique per obligation
        safe = safe[:60] + '__' + safe[-70:] + '_' + hashlib.sha256(full.encode()).hexdigest()[:8]
    path = os.path.join(ROOT, 'replay', safe + '.json')
    w = ob.witness or {}
    json.dump(dict(property=prop, function=ob.function, obligation=ob.name, engine=ob.engine, strength=ob.strength,
                   kind=ob.kind, backend=ob.backend, tier=tier, witness_key=w.get('key'), witness=w.get('text'),
                   replay_code=w.get('replay'), failing_input_found=bool(w.get('replay')), verifier_output=ob.detail),
              open(path, 'w'), indent=1, default=str)
    return path


def run_replay(path):
    """Re-run the native replay recorded in a replay file: exit 1 if the violation reproduces on /repo, 0 if not."""
    import subprocess, tempfile
    d = json.load(open(path))
    code = d.get('replay_code')
    print(f"replay property={d['property']} function={d['function']} obligation={d['obligation']}")
    if not code:
        print('no failing input was found for this obligation; verifier output follows')
        print(d.get('verifier_output', ''))
        return EXIT_UNDECIDED
    env = dict(os.environ, PYTHONPATH=REPO + ':' + ROOT, MPYC_NONUMPY='1', MPYC_NOGMPY='1')
    r = subprocess.run([PY_CHECK, '-c', code], env=env, capture_output=True, text=True, timeout=600)
    print(r.stdout[-4000:], r.stderr[-4000:])
    if r.returncode == 1:
        print(f"VIOLATION property={d['property']} replay={path}")
        return EXIT_VIOLATION
    print('violation did not reproduce' if r.returncode == 0 else f'replay crashed rc={r.returncode}')
    return EXIT_OK if r.returncode == 0 else EXIT_CRASH


def native_replay(code, timeout=300):
    """Run a replay snippet under the repository's interpreter.  Returns (reproduced: bool|None, output)."""
    import subprocess
    env = dict(os.environ, PYTHONPATH=REPO + ':' + ROOT, MPYC_NONUMPY='1', MPYC_NOGMPY='1')
    try:
        r = subprocess.run([PY_CHECK, '-c', code], env=env, capture_output=True, text=True, timeout=timeout)
    except subprocess.TimeoutExpired:
        return None, 'replay timed out'
    out = (r.stdout + r.stderr)[-3000:]
    if r.returncode == 1:
        return True, out
    if r.returncode == 0:
        return False, out
    return None, out


# ---------------------------------------------------------------- pool
class TaskTimeout(Exception):
    pass


_TIMED_OUT = [False]


def _alarm(signum, frame):
    # sticky flag: the exception may be swallowed by code under test (`except Exception`, asyncio callback handlers); whatever the task
    # reports after its time limit has fired is discarded and replaced by "undecided" (never a violation)
    _TIMED_OUT[0] = True
    import signal
    signal.alarm(20)          # keep interrupting until the task function has returned
    raise TaskTimeout()


TASK_LIMIT_S = int(os.environ.get('VERIF_TASK_LIMIT_S', '900'))


def _run_task(task):
    import signal
    modname, fname, args = task
    t0 = time.time()
    try:
        _TIMED_OUT[0] = False
        signal.signal(signal.SIGALRM, _alarm); signal.alarm(TASK_LIMIT_S)
        import importlib
        mod = importlib.import_module(modname)
        obs = getattr(mod, fname)(*args)
        signal.alarm(0)
        if _TIMED_OUT[0]:
            raise TaskTimeout()
        if os.environ.get('VERIF_VERBOSE'):
            print(f'  task {fname}{str(args)[:100]} {time.time() - t0:.1f}s {[o.status for o in obs if o.status != "discharged"][:3]}', flush=True)
        return obs
    except TaskTimeout:
        return [Ob(name=f'task:{fname}{args!r}'[:160], function=modname, engine='-', strength=B, status='unknown',
                   detail=f'task exceeded {TASK_LIMIT_S}s', time=time.time() - t0)]
    except Exception:
        return [Ob(name=f'task:{fname}{args!r}'[:120], function=modname, engine='-', strength=B, status='error',
                   detail=traceback.format_exc()[-3000:], time=time.time() - t0)]


def run_tasks(tasks, procs=None):
    """tasks: list of (module, function, args) each returning a list of Ob. Runs in a fresh-process pool."""
    procs = procs or min(16, max(1, len(tasks)))
    if len(tasks) <= 1 or os.environ.get('VERIF_SERIAL') == '1':
        res = [_run_task(t) for t in tasks]
    else:
        ctx = mp.get_context('spawn' if os.environ.get('VERIF_SPAWN') == '1' else 'fork')
        with ctx.Pool(procs, maxtasksperchild=1) as pool:
            res = list(pool.imap_unordered(_run_task, tasks, chunksize=1))
    return [o for r in res for o in r]


# ---------------------------------------------------------------- verdict + evidence
def finish(prop, tier, seed, obs, level, t0, explanation, assumptions, trusted_base, functions=None, extra=None,
           checker_cmd=None):
    """Prints verdict lines, writes evidence, returns exit code."""
    findings = [f for f in load_findings() if f['property'] == prop]
    seen_findings = set()
    violations, undecided, errors, stale = [], [], [], []
    for o in obs:
        if o.kind in ('cover', 'canary'):
            # a cover that is not reachable / a canary that verifies = my check is vacuous -> error, not violation
            if o.status != 'discharged':
                errors.append(o)
            continue
        if o.status == 'discharged':
            continue
        if o.status == 'stale':
            stale.append(o)
            continue
        if o.status == 'refuted':
            key = (o.witness or {}).get('key', '')
            hit = [f for f in findings if f['key'] == key]
            if hit:
                if key not in seen_findings:
                    seen_findings.add(key)
                    print(f"KNOWN-FINDING: property={prop} {hit[0]['text']}")
                continue
            violations.append(o)
        elif o.status == 'unknown':
            undecided.append(o)
        else:
            errors.append(o)
    real = [o for o in obs if o.kind not in ('cover', 'canary')]
    n = len(real)
    nd = sum(1 for o in real if o.status == 'discharged')
    np_ = sum(1 for o in real if o.status == 'discharged' and o.strength in (P, L))
    nb = sum(1 for o in real if o.status == 'discharged' and o.strength == B)
    code = EXIT_OK
    for o in stale:
        print(f'STALE-PROOF function={o.function} obligation={o.name} (proof script no longer fits the edited text; '
              f'bounded search clean: {o.detail[:100]})')
    for o in violations:
        path = write_replay(prop, o, tier)
        tail = '' if (o.witness or {}).get('replay') else ' no-failing-input-found'
        print(f'VIOLATION property={prop} replay={path}{tail}')
        print(f'  obligation={o.function}:{o.name} engine={o.engine} {(o.witness or {}).get("text", "")[:300]}')
        code = EXIT_VIOLATION
    if code == EXIT_OK and errors:
        for o in errors[:10]:
            print(f'CHECK-ERROR obligation={o.function}:{o.name} status={o.status} {o.detail[-1500:]}')
        code = EXIT_CRASH
    if code == EXIT_OK and undecided:
        for o in undecided[:10]:
            print(f'UNDECIDED obligation={o.function}:{o.name} {o.detail[:200]}')
        code = EXIT_UNDECIDED
    if n == 0:
        print('CHECK-ERROR no obligations generated')
        code = EXIT_CRASH
    wall = time.time() - t0
    by_engine = {}
    for o in real:
        k = f'{o.engine}/{o.strength}/{o.backend or "-"}'
        by_engine[k] = by_engine.get(k, 0) + 1
    samples = [o.as_dict() for o in real[:3]] + [o.as_dict() for o in real[len(real) // 2: len(real) // 2 + 2]]
    for smp in samples:
        smp.pop('witness', None)
        if 'detail' in smp:
            smp['detail'] = smp['detail'][:300]
    bounds = sorted({o.bound for o in real if o.bound})
    cov = dict(obligations=n, discharged=nd, obligations_proved=np_, obligations_bounded=nb,
               checker_cmd=checker_cmd or f'bin/check {prop} --tier {tier}',
               trusted_base=trusted_base, explanation=explanation, evaluations=max(sum(o.evals for o in real), 1),
               distinct_nontrivial=len({(o.function, o.name) for o in real}),
               rule='one evaluation = one obligation (verification condition or bounded contract instance) generated from '
                    'the current /repo source; distinct = distinct (function, obligation name)',
               samples=samples, by_engine_strength_backend=by_engine, bounds=bounds,
               functions_under_contract=functions or sorted({o.function for o in real}),
               solver_time_s=round(sum(o.time for o in real), 3),
               slowest=[(o.function, o.name, round(o.time, 2)) for o in sorted(real, key=lambda o: -o.time)[:5]],
               covers=sum(1 for o in obs if o.kind == 'cover'), canaries=sum(1 for o in obs if o.kind == 'canary'),
               stale_proofs=[f'{o.function}:{o.name}' for o in stale],
               known_findings_hit=sorted(seen_findings),
               undecided=[f'{o.function}:{o.name}' for o in undecided][:20])
    if extra:
        cov.update(extra)
    ev = dict(property_id=prop, tier=tier, seed=seed, level=level, coverage=cov, assumptions=assumptions,
              wall_s=round(wall, 2), violations=len(violations))
    os.makedirs(os.path.join(ROOT, 'evidence'), exist_ok=True)
    json.dump(ev, open(os.path.join(ROOT, 'evidence', prop + '.json'), 'w'), indent=1, default=str)
    print(f'{"OK" if code == 0 else "FAIL"} property={prop} tier={tier} obligations={n} discharged={nd} proved={np_} '
          f'bounded={nb} violations={len(violations)} undecided={len(undecided)} errors={len(errors)} wall={wall:.1f}s')
    return code
