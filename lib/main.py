"""bin/check entry point."""
import sys, os, time, importlib, traceback


def main(argv):
    sys.argv = ['mpyc-verif', '--no-log']            # mpyc.runtime parses sys.argv at import time
    if argv and argv[0] == '--replay':
        from lib.common import run_replay
        return run_replay(argv[1])
    if not argv:
        print('usage: bin/check <Cnn> [--tier quick|thorough] | bin/check --replay <file>')
        return 3
    prop = argv[0]
    tier = os.environ.get('VERIF_TIER', 'quick')
    if '--tier' in argv:
        tier = argv[argv.index('--tier') + 1]
    seed = int(os.environ.get('VERIF_SEED', '0'))
    try:
        mod = importlib.import_module(f'props.{prop}')
    except ModuleNotFoundError:
        print(f'no check for {prop}')
        return 3
    try:
        return mod.run(tier, seed)
    except Exception:
        traceback.print_exc()
        print(f'CHECK-ERROR property={prop} crashed')
        return 3


if __name__ == '__main__':
    sys.exit(main(sys.argv[1:]))
