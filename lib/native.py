"""Bounded ("B") evaluation of a contract on the real function under CPython: enumerate the stated input domain,
call the real function, evaluate the executable postcondition.  Also used to replay engine-A counter-models and to
search for a concrete failing input when a verification condition is refuted.

The interpreter is /verif/.venv/bin/python, a venv of /venv/bin/python (same CPython binary, same /repo on sys.path).
"""
import time, traceback, itertools, sys
from lib.common import Ob, B, TaskTimeout


class Native:
    def __init__(self, name, func, call, check, inputs, bound, module=None):
        """name: key; func: qualified name of the real function; call(*args) -> result (runs the real code);
        check(args, res, exc) -> None/True when the contract holds, else a message; inputs(tier) -> iterable of arg tuples;
        bound: text describing the enumerated domain (goes into the evidence)."""
        self.name, self.func, self.call, self.check, self.inputs, self.bound = name, func, call, check, inputs, bound
        self.module = module

    def eval1(self, args):
        res = exc = None
        try:
            res = self.call(*args)
        except (RecursionError, TaskTimeout):
            raise
        except Exception as e:           # noqa: the contract decides which exceptions are allowed
            exc = e
        try:
            msg = self.check(args, res, exc)
        except Exception as e:
            msg = f'contract evaluation raised {type(e).__name__}: {e} (result={res!r}, exc={exc!r})'
        self.last_class = None
        if msg is True or msg is None:
            return None
        if msg is False:
            msg = 'postcondition false'
        if isinstance(msg, tuple):          # ('class', <key of a precisely delimited class of failing inputs>, message)
            _, self.last_class, msg = msg
        elif getattr(self, 'classify', None) is not None:
            # optional hook classify(args, res, exc, msg) -> class key or None: the predicate that delimits a listed known finding
            try: self.last_class = self.classify(args, res, exc, msg)
            except Exception: self.last_class = None
        return f'{msg}; args={args!r} result={res!r} exc={type(exc).__name__ if exc else None}{": " + str(exc) if exc else ""}'

    def replay_code(self, args, tier='quick'):
        # a violation that needs a history (state kept by the code between calls, e.g. a cache) does not show on the single input in a fresh
        # process: the replay then re-runs, in ONE fresh process, the checks that ran before this one in the same pool task and the enumerated
        # domain of this check up to and including the failing input
        head = (f"import sys; sys.argv=['replay','--no-log']; sys.path.insert(0, {ROOT!r})\n"
                f"import {self.module} as M\n"
                f"n = M.NATIVE[{self.name!r}]\n"
                f"target = {args!r}\n")
        hist = (head +
                f"k = 0; msg = None\n"
                f"for prior in {list(getattr(self, '_prior', ()))!r}:\n"
                f"    for a in M.NATIVE[prior].inputs({tier!r}):\n"
                f"        k += 1; M.NATIVE[prior].eval1(a)\n"
                f"for a in n.inputs({tier!r}):\n"
                f"    k += 1; m2 = n.eval1(a)\n"
                f"    if a == target:\n"
                f"        msg = m2; break\n"
                f"print('replay with history:', k, 'calls of the enumerated domain in one process ->', msg or 'contract holds')\n"
                f"sys.exit(1 if msg else 0)\n")
        return (head +
                f"msg = n.eval1(target)\n"
                f"print('replay of', n.func, 'on', target, '->', msg or 'contract holds')\n"
                f"if not msg:\n"
                f"    import subprocess\n"
                f"    sys.stdout.flush(); sys.exit(subprocess.run([sys.executable, '-c', {hist!r}]).returncode)\n"
                f"sys.exit(1)\n")

    def run(self, tier, prop_key=None, limit_s=None):
        from lib.common import load_findings
        listed = {f['key'] for f in load_findings()}
        t0 = time.time(); n = 0; bad = None
        self.known = []          # failures that are listed known findings: enumeration goes on past them, so that a different violation is still found
        seen = set()
        for args in self.inputs(tier):
            n += 1
            msg = self.eval1(args)
            if msg:
                key = f'{self.func}:{self.name}:{self.last_class or _wkey(args)}'
                if key in listed:
                    if key not in seen:
                        seen.add(key)
                        k = Ob(f'bounded:{self.name}:known', self.func, 'native-enum', B, 'refuted', 'cpython', 0.0, detail=msg)
                        k.witness = dict(key=key, text=msg, replay=self.replay_code(args))
                        self.known.append(k)
                    continue
                bad = (args, msg, key); break
            if limit_s and time.time() - t0 > limit_s:
                break
        dt = time.time() - t0
        o = Ob(f'bounded:{self.name}', self.func, 'native-enum', B, 'discharged' if bad is None else 'refuted', 'cpython', dt,
               bound=f'{self.bound}; {n} cases', detail=f'{n} cases evaluated' + (f' ({len(seen)} listed known finding(s) among them)' if seen else ''))
        o.evals = n
        if bad:
            args, msg, key = bad
            o.witness = dict(key=key, text=msg, replay=self.replay_code(args, tier))
            o.detail = msg
        if n == 0:
            o.status = 'error'; o.detail = 'empty input domain'
        return o

    def run_all(self, tier):
        """like run, but returns the list [obligation] + [one refuted obligation per listed known finding that was met]"""
        o = self.run(tier)
        return [o] + self.known


def _wkey(args):
    s = repr(args).replace(' ', '')
    return s[:80]


import os
ROOT = os.path.dirname(os.path.dirname(os.path.abspath(__file__)))


def run_natives(module, names, tier):
    """pool task: run several Native checks of one contracts module"""
    import importlib
    M = importlib.import_module(module)
    out = []
    for i, nm in enumerate(names):
        M.NATIVE[nm]._prior = list(names[:i])          # for replays of history-dependent violations (see replay_code)
        out += M.NATIVE[nm].run_all(tier)
    return out
