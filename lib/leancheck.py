"""Engine L: Lean 4 + Mathlib lemmas over the spec functions (lean/L*.lean).  A lemma counts as discharged when `lean` accepted the
file whose sha256 is recorded in lean/RESULT.json (built by lean/build.sh: bin/setup, and always in the thorough tier) and
`#print axioms` shows only propext / Classical.choice / Quot.sound."""
import json, os, hashlib, subprocess, time
from lib.common import Ob, L, ROOT

ALLOWED = {'propext', 'Classical.choice', 'Quot.sound'}
LEAN_DIR = os.path.join(ROOT, 'lean')


def _fresh():
    try: res = json.load(open(os.path.join(LEAN_DIR, 'RESULT.json')))
    except Exception: return None
    for f, r in res.items():
        p = os.path.join(LEAN_DIR, f)
        if not os.path.exists(p) or hashlib.sha256(open(p, 'rb').read()).hexdigest() != r['sha256']: return None
    import glob
    if set(os.path.basename(x) for x in glob.glob(os.path.join(LEAN_DIR, 'L*.lean'))) != set(res): return None
    return res


def build():
    subprocess.run([os.path.join(LEAN_DIR, 'build.sh')], capture_output=True, text=True, timeout=3000)


def lean_obs(theorems, tier):
    """theorems: list of (file, theorem name, what it is used for) -> [Ob]"""
    t0 = time.time()
    res = _fresh() if tier == 'quick' else None
    if res is None:
        build(); res = _fresh()
    out = []
    for f, name, use in theorems:
        r = (res or {}).get(f)
        ok = bool(r) and r['rc'] == 0 and name in r['theorems'] and set(r['theorems'][name]) <= ALLOWED
        o = Ob(f'lemma:{name}', f'lean/{f}', 'lean', L, 'discharged' if ok else 'error', 'lean-4.33+mathlib', time.time() - t0 if tier != 'quick' else 0.0,
               detail=f'{use}; axioms: {r["theorems"].get(name) if r else None}' + ('' if ok else f' | rc={r and r["rc"]} errors={r and r["errors"]}'))
        out.append(o)
    return out
