"""Source of MANIFEST.json (bin/mkmanifest writes it).  One entry per claimed property."""
BASELINE_OFF = "cd /repo && /venv/bin/python -m pytest -ra -q -p no:cacheprovider --timeout=900 --continue-on-collection-errors"

ENGINES = [
    dict(name='pyvc', path='vc/', kind_free_text='engine A: verification-condition generator over the AST of the real /repo source '
         '(sidecar contracts in contracts/, loop invariants, callee contracts), discharged by z3 5.1 with cvc5 1.0.3 and z3 4.8.12 as portfolio; '
         'strength "proved" (P), unbounded'),
    dict(name='native-enum', path='lib/native.py', kind_free_text='bounded stand-in: the same executable contract evaluated on the real function '
         'under CPython over a stated finite input domain; strength "bounded" (B), never counted as proved'),
    dict(name='symx', path='sx/', kind_free_text='engine B: modular symbolic execution of the real function objects under CPython with symbolic '
         'integer proxies, contract stubs for callees and an in-process m-party harness; bounded in structural parameters (B)'),
    dict(name='lean', path='lean/', kind_free_text='engine L: Lean 4 + Mathlib lemmas over the spec functions used by the contracts'),
]

# property -> dict(engine, category, text, note, technique, design_ref)
B_NOTE = ('bounded in the structural parameters stated in the evidence (bit length l, security parameter k, parties/threshold (m,t), list length); '
          'complete over values and callee-permitted randomness inside each instance; contract stubs of callees are assumptions discharged by their own obligations; '
          'one schedule per m-party run')
CHECKS = {
    'C01': dict(engine='symx', category='other', design_ref='DESIGN.md §5 C01',
                text='bounded contract verification: each secure-integer function of runtime.py is run for real on symbolic l-bit inputs and symbolic '
                     'randomness (value mode, z3) against Python int semantics, with a ghost sharing degree; share-moving primitives are run by all m '
                     'parties at once on symbolic shares (degree-t sharing decided exactly on polynomial normal forms) and all operations again in '
                     'concrete m-party runs with ghost checks at every output/_reshare',
                note=B_NOTE + '; _is_zero (Monte-Carlo test) and secure gcd family only in concrete runs', technique='modular symbolic execution of the real functions against contracts (bounded), z3'),
    'C02': dict(engine='symx+native-enum', category='other', design_ref='DESIGN.md §5 C02',
                text='bounded contract verification: trunc (floor-or-ceiling contract), exact +,-,neg, comparisons, products within one unit, public-float '
                     'factors within 2(1+|x|) units, checked on symbolic fixed-point values through the real code (value mode, z3); division/reciprocal/sin/cos/powers on enumerated small types',
                note=B_NOTE, technique='modular symbolic execution of the real functions against contracts (bounded), z3; bounded enumeration for division/sincos'),
    'C03': dict(engine='symx', category='other', design_ref='DESIGN.md §5 C03',
                text='data-structure invariant "integral flag true => value whole" checked as postcondition of every flag-declaring function for every '
                     'assignment of argument flags consistent with the invariant, on symbolic values through the real code; found and led to the repair of the element-0 flag defect',
                note=B_NOTE + '; invariant assumed for arguments (induction over the call structure); lists of length 2', technique='modular symbolic execution against a data-structure invariant (bounded), z3'),
    'C06': dict(engine='symx', category='other', design_ref='DESIGN.md §5 C06',
                text='bounded contract verification of convert/_convert for integer and fixed-point type pairs on symbolic values: value preserved when it fits, '
                     'rounding to a neighbour for narrowing fractions, no wrap in either field for any mask allowed by the bound arithmetic',
                note=B_NOTE + '; type pairs enumerated', technique='modular symbolic execution of the real functions against contracts (bounded), z3'),
    'C20': dict(engine='native-enum', category='other', design_ref='DESIGN.md §5 C20',
                text='executable contracts of every field operator (binary, reflected, in-place, int/polynomial mixing, **, shifts, ==/hash, field axioms) evaluated '
                     'exhaustively on the real classes for all elements of the listed prime, binary and odd-characteristic extension fields against independent table arithmetic',
                note='bounded: exhaustive inside the listed fields only; one known finding (odd-characteristic extension-field shifts) is listed in known_findings.txt',
                technique='bounded exhaustive contract evaluation on the real functions'),
    'C21': dict(engine='native-enum', category='other', design_ref='DESIGN.md §5 C21',
                text='is_sqr / sqrt / inverse sqrt contracts evaluated for all elements of all prime fields p <= 257 and the listed extension/binary fields against brute-force squares',
                note='bounded: exhaustive inside the listed fields only', technique='bounded exhaustive contract evaluation on the real functions'),
    'C22': dict(engine='native-enum', category='other', design_ref='DESIGN.md §5 C22',
                text='byte codec, pickle and signed/unsigned view contracts evaluated on the real classes over the listed fields and element lists',
                note='bounded: listed fields, list lengths 0..5; GF((p,n,w)) with w outside range(p) outside the domain', technique='bounded exhaustive contract evaluation on the real functions'),
    'C23': dict(engine='native-enum', category='other', design_ref='DESIGN.md §5 C23',
                text='ring laws, divmod, gcd, gcdext, invert, powmod and representation agreement evaluated exhaustively on the real polynomial classes for all '
                     'polynomial pairs of bounded degree over small primes against independent reference arithmetic; found and led to repairs of powmod and reverse',
                note='bounded: degrees and primes listed in the evidence; one known finding (BinaryPolynomial.__call__ at even x, pinned by an existing test) in known_findings.txt',
                technique='bounded exhaustive contract evaluation on the real functions'),
    'C24': dict(engine='native-enum', category='other', design_ref='DESIGN.md §5 C24',
                text='irreducibility test, next_irreducible, find_irreducible and the GF gate evaluated for all polynomials of bounded degree over small primes against '
                     'brute-force factorisation; found and led to the repair of next_irreducible skipping x',
                note='bounded: degrees and primes listed in the evidence; monic reading of "smallest irreducible"', technique='bounded exhaustive contract evaluation on the real functions'),
    'C26': dict(engine='native-enum', category='other', design_ref='DESIGN.md §5 C26',
                text='find_prime_root and _pfield contracts (primality, bit length, Blum, root order, field size vs l+f+k+1) evaluated for all l in 2..64, listed n and k',
                note='bounded: l <= 64 (thorough 256); one known finding (l <= 2 with n > 2) in known_findings.txt; m = 1 runtime', technique='bounded exhaustive contract evaluation on the real functions'),
    'C25': dict(engine='pyvc+native-enum', category='other', design_ref='DESIGN.md §5 C25',
                text='contract verification of the gmpy stubs: invert proved for all integers by engine A (inverse, range, raises exactly when '
                     'gcd != 1); every helper has its executable contract evaluated on the real function over a stated finite domain (bounded)',
                note='bounded parts are exhaustive only inside the stated domains; gcd is an uninterpreted spec function with instantiated Euclid '
                     'steps; termination not proved; GMP normalisation taken from the documented convention',
                technique='deductive verification (AST -> VCs -> z3/cvc5) + bounded contract evaluation on the real functions'),
}

NOT_APPLICABLE = {
    'C05': 'relative-error bounds over Python floats through math.log/round/float multiplication: no contract language or decision procedure for real-valued error analysis within reach; on enumerable significand sizes the 16u bound is vacuous (DESIGN.md §6)',
    'C08': 'quantifies over event-loop interleavings, delivery schedules and liveness; contracts speak about one call or one data structure (DESIGN.md §6)',
    'C37': 'NumPy is not installed in the repository interpreter: every np_* function is dead code in the environment the checks rebuild from; ndarray object-dtype semantics have no encoding in either engine (DESIGN.md §6)',
    'C38': 'secpols requires NumPy, absent from the repository interpreter; see C37 (DESIGN.md §6)',
}
NOT_BUILT_YET = 'check not built yet in the time used so far; design in DESIGN.md §5'
ALL = ['C%02d' % i for i in range(1, 40)]
