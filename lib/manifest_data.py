"""Source of MANIFEST.json (bin/mkmanifest writes it).  One entry per claimed property."""
BASELINE_OFF = "cd /repo && /venv/bin/python -m pytest -ra -q -p no:cacheprovider --timeout=900 --continue-on-collection-errors"

ENGINES = [
    dict(name='pyvc', path='vc/', kind_free_text='engine A: verification-condition generator over the AST of the real /repo source '
         '(sidecar contracts in contracts/, loop invariants, callee contracts), discharged by z3 5.1 with cvc5 1.0.3 and z3 4.8.12 as portfolio; '
         'strength "proved" (P), unbounded'),
    dict(name='native-enum', path='lib/native.py', kind_free_text='bounded stand-in: the same executable contract evaluated on the real function '
         'under CPython over a stated finite input domain; strength "bounded" (B), never counted as proved'),
    dict(name='symx', path='sx/', kind_free_text='engine B: modular symbolic execution of the real function objects under CPython with symbolic '
         'integer proxies, contract stubs for callees and an in-process m-party harness; bounded in structural parameters (B)'),
    dict(name='lean', path='lean/', kind_free_text='engine L: Lean 4 + Mathlib lemmas over the spec functions used by the contracts'),
]

# property -> dict(engine, category, text, note, technique, design_ref)
B_NOTE = ('bounded in the structural parameters stated in the evidence (bit length l, security parameter k, parties/threshold (m,t), list length); '
          'complete over values and callee-permitted randomness inside each instance; contract stubs of callees are assumptions discharged by their own obligations; '
          'one schedule per m-party run')
CHECKS = {
    'C01': dict(engine='symx', category='other', design_ref='DESIGN.md §5 C01',
                text='bounded contract verification: each secure-integer function of runtime.py is run for real on symbolic l-bit inputs and symbolic '
                     'randomness (value mode, z3) against Python int semantics, with a ghost sharing degree; share-moving primitives are run by all m '
                     'parties at once on symbolic shares (degree-t sharing decided exactly on polynomial normal forms) and all operations again in '
                     'concrete m-party runs with ghost checks at every output/_reshare',
                note=B_NOTE + '; _is_zero (Monte-Carlo test) and secure gcd family only in concrete runs', technique='modular symbolic execution of the real functions against contracts (bounded), z3'),
    'C25': dict(engine='pyvc+native-enum', category='other', design_ref='DESIGN.md §5 C25',
                text='contract verification of the gmpy stubs: invert proved for all integers by engine A (inverse, range, raises exactly when '
                     'gcd != 1); every helper has its executable contract evaluated on the real function over a stated finite domain (bounded)',
                note='bounded parts are exhaustive only inside the stated domains; gcd is an uninterpreted spec function with instantiated Euclid '
                     'steps; termination not proved; GMP normalisation taken from the documented convention',
                technique='deductive verification (AST -> VCs -> z3/cvc5) + bounded contract evaluation on the real functions'),
}

NOT_APPLICABLE = {
    'C05': 'relative-error bounds over Python floats through math.log/round/float multiplication: no contract language or decision procedure for real-valued error analysis within reach; on enumerable significand sizes the 16u bound is vacuous (DESIGN.md §6)',
    'C08': 'quantifies over event-loop interleavings, delivery schedules and liveness; contracts speak about one call or one data structure (DESIGN.md §6)',
    'C37': 'NumPy is not installed in the repository interpreter: every np_* function is dead code in the environment the checks rebuild from; ndarray object-dtype semantics have no encoding in either engine (DESIGN.md §6)',
    'C38': 'secpols requires NumPy, absent from the repository interpreter; see C37 (DESIGN.md §6)',
}
NOT_BUILT_YET = 'check not built yet in the time used so far; design in DESIGN.md §5'
ALL = ['C%02d' % i for i in range(1, 40)]
