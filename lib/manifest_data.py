"""Source of MANIFEST.json (bin/mkmanifest writes it).  One entry per claimed property."""
BASELINE_OFF = "cd /repo && /venv/bin/python -m pytest -ra -q -p no:cacheprovider --timeout=900 --continue-on-collection-errors"

ENGINES = [
    dict(name='pyvc', path='vc/', kind_free_text='engine A: verification-condition generator over the AST of the real /repo source '
         '(sidecar contracts in contracts/, loop invariants, callee contracts), discharged by z3 5.1 with cvc5 1.0.3 and z3 4.8.12 as portfolio; '
         'strength "proved" (P), unbounded'),
    dict(name='native-enum', path='lib/native.py', kind_free_text='bounded stand-in: the same executable contract evaluated on the real function '
         'under CPython over a stated finite input domain; strength "bounded" (B), never counted as proved'),
    dict(name='symx', path='sx/', kind_free_text='engine B: modular symbolic execution of the real function objects under CPython with symbolic '
         'integer proxies, contract stubs for callees and an in-process m-party harness; bounded in structural parameters (B)'),
    dict(name='lean', path='lean/', kind_free_text='engine L: Lean 4 + Mathlib lemmas over the spec functions used by the contracts'),
]

# property -> dict(engine, category, text, note, technique, design_ref)
B_NOTE = ('bounded in the structural parameters stated in the evidence (bit length l, security parameter k, parties/threshold (m,t), list length); '
          'complete over values and callee-permitted randomness inside each instance; contract stubs of callees are assumptions discharged by their own obligations; '
          'one schedule per m-party run')
CHECKS = {
    'C01': dict(engine='symx', category='other', design_ref='DESIGN.md §5 C01',
                text='bounded contract verification: each secure-integer function of runtime.py is run for real on symbolic l-bit inputs and symbolic '
                     'randomness (value mode, z3) against Python int semantics, with a ghost sharing degree; share-moving primitives are run by all m '
                     'parties at once on symbolic shares (degree-t sharing decided exactly on polynomial normal forms) and all operations again in '
                     'concrete m-party runs with ghost checks at every output/_reshare',
                note=B_NOTE + '; _is_zero (Monte-Carlo test) and secure gcd family only in concrete runs', technique='modular symbolic execution of the real functions against contracts (bounded), z3'),
    'C02': dict(engine='symx+native-enum', category='other', design_ref='DESIGN.md §5 C02',
                text='bounded contract verification: trunc (floor-or-ceiling contract), exact +,-,neg, comparisons, products within one unit, public-float '
                     'factors within 2(1+|x|) units, checked on symbolic fixed-point values through the real code (value mode, z3); division/reciprocal/sin/cos/powers on enumerated small types',
                note=B_NOTE, technique='modular symbolic execution of the real functions against contracts (bounded), z3; bounded enumeration for division/sincos'),
    'C03': dict(engine='symx', category='other', design_ref='DESIGN.md §5 C03',
                text='data-structure invariant "integral flag true => value whole" checked as postcondition of every flag-declaring function for every '
                     'assignment of argument flags consistent with the invariant, on symbolic values through the real code; found and led to the repair of the element-0 flag defect',
                note=B_NOTE + '; invariant assumed for arguments (induction over the call structure); lists of length 2', technique='modular symbolic execution against a data-structure invariant (bounded), z3'),
    'C06': dict(engine='symx', category='other', design_ref='DESIGN.md §5 C06',
                text='bounded contract verification of convert/_convert for integer and fixed-point type pairs on symbolic values: value preserved when it fits, '
                     'rounding to a neighbour for narrowing fractions, no wrap in either field for any mask allowed by the bound arithmetic',
                note=B_NOTE + '; type pairs enumerated', technique='modular symbolic execution of the real functions against contracts (bounded), z3'),
    'C07': dict(engine='symx', category='other', design_ref='DESIGN.md §5 C07',
                text='routing contracts of transfer/input/output evaluated with all m parties running the real coroutines in one process over every enumerated '
                     'sender set, receiver set, graph (dict/pairs), int argument and threshold t..2t; found and led to the repair of transfer with an int sender',
                note=B_NOTE, technique='bounded contract evaluation with all parties executing the real code on a ghost network'),
    'C08': dict(engine='pyvc+symx-mp', category='other', design_ref='DESIGN.md §5 C08 / §6',
                text='partial: (a) all splits of a connection\'s byte stream - engine A proves data_received / receive / send for all chunkings (as C10); (b) bounded: seven composite programs with '
                     'fixed inputs and protocol randomness under seeded random delivery schedules (per-connection FIFO queues, random interleaving across connections and with local computation): '
                     'every party completes, outputs equal those of immediate delivery, no label reused, network balanced',
                note='schedules sampled (8 per program and configuration, thorough 40), not enumerated; liveness in general not decided', technique='deductive verification of the framing code + bounded schedule exploration'),
    'C09': dict(engine='symx', category='other', design_ref='DESIGN.md §5 C09',
                text='partial: per-primitive and per-program send/receive label balance, at-most-once labels per connection and program-counter/level bookkeeping on a ghost '
                     'network with all parties running the real code; global label uniqueness over a whole run (hash collisions) is assumed, not decided',
                note=B_NOTE + '; _hop collision-freeness assumed', technique='bounded contract evaluation on a ghost network (all parties, real code)'),
    'C10': dict(engine='pyvc+native-enum', category='other', design_ref='DESIGN.md §5 C10',
                text='deductive verification (all streams, chunk boundaries, m, t, pids) of the real send, data_received (handshake and frame branches), receive and the '
                     'PRSS key packet helpers against a class invariant that mentions no chunk boundary; cross-checked on the real objects over enumerated chunkings',
                note='struct codec and bytearray-window model trusted; partial correctness; connection_made and set_protocol only in the bounded handshake runs',
                technique='deductive verification (AST -> VCs -> z3/cvc5) + bounded enumeration of chunkings'),
    'C11': dict(engine='symx', category='other', design_ref='DESIGN.md §5 C11',
                text='degree-t sharing decided exactly on symbolic shares for input, multiplication+_reshare and _randoms (PRSS on/off); concrete m-party runs of ~150 operations '
                     'check the sharing degree at every output/_reshare call and of every returned secure value; value-mode degree ghost covers all values in between',
                note=B_NOTE, technique='modular symbolic execution with all parties (polynomial normal forms) + ghost checks in concrete runs (bounded)'),
    'C12': dict(engine='pyvc+lean+native-enum', category='other', design_ref='DESIGN.md §5 C12',
                text='deductive verification (unbounded) of the real random_split, _recombination_vector and recombine against spec functions (Horner form, Lagrange '
                     'numerator/denominator products, weighted sums), connected to "any t+1 shares recombine" by Lean/Mathlib lemmas; extension/binary fields and the '
                     'end-to-end statement by bounded exhaustive enumeration',
                note='prime fields proved; field elements modelled by reduced integer values with operator contracts; extension fields only bounded; partial correctness; '
                     'hand correspondence SMT spec <-> Lean statement', technique='deductive verification (AST -> VCs -> z3/cvc5) + Lean lemmas + bounded enumeration'),
    'C13': dict(engine='pyvc+lean+native-enum', category='other', design_ref='DESIGN.md §5 C13',
                text='randomness discipline of random_split proved for all inputs (t draws from randbelow(field.order) per secret, fresh block per secret, draw k = coefficient of '
                     'X^(t-k)); Lean lemma gives the bijection coefficients <-> t shares; exhaustive distribution of coalition views over all dealer randomness for small fields',
                note='distribution of secrets.randbelow trusted; uniformity for large fields via the lemma, not enumerated', technique='deductive verification + Lean lemma + exhaustive enumeration of dealer randomness'),
    'C14': dict(engine='symx', category='other', design_ref='DESIGN.md §5 C14',
                text='ghost dealer log with all parties running the real code on symbolic shares: every random_split call from _distribute/_reshare uses (rt.threshold, m); every dealt '
                     'share on the wire carries a fresh coefficient with unit factor (t >= 1)', note=B_NOTE + '; "degree exactly t" read as "t uniform coefficients"',
                technique='modular symbolic execution with all parties (bounded in (m,t))'),
    'C15': dict(engine='pyvc+lean+native-enum', category='other', design_ref='DESIGN.md §5 C15',
                text='share formulas of pseudorandom_share / pseudorandom_share_zero proved for all m, t, n, keys and PRF outputs; Lean lemma turns them into consistency/degree/secret; '
                     '_f_S_i and the all-parties statement by bounded enumeration incl. extension fields',
                note='dict iteration as sequence in unspecified order; _f_S_i only bounded', technique='deductive verification + Lean lemma + bounded enumeration'),
    'C16': dict(engine='symx', category='other', design_ref='DESIGN.md §5 C16',
                text='real key generation, client handshake and server parsing run for all parties and pairs under several chunkings and connection orders; key placement postcondition over the m key dicts',
                note=B_NOTE, technique='bounded contract evaluation of the real handshake code (all parties)'),
    'C17': dict(engine='pyvc+native-enum', category='other', design_ref='DESIGN.md §5 C17',
                text='PRF.__init__ byte-length contract proved for all keys/bounds; determinism of __call__ by a syntactic frame proof over its AST; range, counts and prefix consistency '
                     'evaluated on the real function over listed keys/bounds/inputs', note='__call__ outside engine A\'s subset (generator expressions, XOF): bounded; shake_128 determinism trusted',
                technique='deductive verification + syntactic frame proof + bounded enumeration'),
    'C19': dict(engine='symx', category='other', design_ref='DESIGN.md §5 C19',
                text='ghost-network postconditions with all parties running the real output/transfer: no message to a non-receiver, non-receivers return None',
                note=B_NOTE + '; SecureFloat outputs and group elements not covered', technique='bounded contract evaluation on a ghost network (all parties, real code)'),
    'C36': dict(engine='pyvc+symx+native-enum', category='other', design_ref='DESIGN.md §5 C36',
                text='partial (safety half): only complete frames are delivered and receive returns exactly the labelled payload (proved), gather completes only after all '
                     'futures (bounded), recombination correct from genuine shares (proved, C12), and a bounded enumeration of crash points of one party in m-party runs: survivors '
                     'output the correct value or never complete', note='liveness not decided; one program; crash = later messages never delivered',
                technique='deductive verification of the framing/recombination contracts + bounded crash enumeration on a ghost network'),
    'C04': dict(engine='native-enum+symx', category='other', design_ref='DESIGN.md §5 C04',
                text='executable contracts of the secure field operators evaluated with the m = 1 runtime over all element pairs of the listed prime, binary and odd-characteristic '
                     'extension fields and every SecFld construction route, against independent table arithmetic; lifted types checked at construction and in m-party concrete runs',
                note='bounded: listed fields; internal randomness not controlled except in the forced-retry entry; one known finding (reflected bitwise operators with public left operand)',
                technique='bounded exhaustive contract evaluation on the real functions'),
    'C27': dict(engine='pyvc+lean+native-enum', category='other', design_ref='DESIGN.md §5 C27',
                text='the generic double-and-add FiniteGroupElement.repeat is proved against an abstract group for every integer n (engine A + Lean power lemma); group axioms, '
                     'repeat, generator order, coordinate-system agreement and encode/decode of every family are evaluated on exhaustive small sets / seeded samples against independent '
                     'oracles (own permutation composition, modular powers, affine curve arithmetic); found and led to repairs in Ed448 extended coordinates and hyperelliptic encode/decode/constructor',
                note='group axioms per family only bounded (sampled for large groups); class groups and hyperelliptic curves without independent oracle; one known finding (genus-2 extended encode)',
                technique='deductive verification of repeat + bounded contract evaluation per group family'),
    'C29': dict(engine='symx', category='other', design_ref='DESIGN.md §5 C29',
                text='the real _sort runs on Boolean tokens with contract stubs of < and if_swap: data-independent control flow, linear use of values, and one SAT query per n (0-1 principle) '
                     'decide sortedness for every input order up to n = 32 (thorough 128); sorted/min/max/min_max/argmin/argmax/seclist.sort on symbolic integers incl. ties',
                note='0-1 principle; comparison and if_swap contracts from C01; identity key only; bounded in n', technique='symbolic execution of the real sorting network + SAT (0-1 principle); modular symbolic execution for selection'),
    'C30': dict(engine='symx', category='other', design_ref='DESIGN.md §5 C30',
                text='add_bits, to_bits, from_bits, find (all documented argument combinations), unit_vector, trailing_zeros, gcp2 run for real on symbolic bit vectors/values and masks, or '
                     'exhaustively over all inputs and masks of the instance; found and led to the repairs of to_bits (mask high part zero) and find([])',
                note=B_NOTE, technique='modular symbolic execution (z3) / exhaustive enumeration of the real functions (bounded)'),
    'C31': dict(engine='symx', category='other', design_ref='DESIGN.md §5 C31',
                text='every seclist operation runs for real on symbolic contents and a symbolic secret index; the whole resulting view and the result equal the same Python list operation; '
                     'histories follow by induction over the per-operation contracts', note=B_NOTE + '; unit_vector and comparisons by contract stubs (C30, C01)',
                technique='modular symbolic execution against an abstract list view (bounded in length)'),
    'C32': dict(engine='native-enum', category='other', design_ref='DESIGN.md §5 C32',
                text='universal-model argument: the real reduce/accumulate run with concatenation on the free monoid, so agreement with functools/itertools for a length n holds for every '
                     'associative f; all n up to the bound, both methods, initial values, depth bounds', note='bounded in n (64 quick / 512 thorough), complete over f', technique='bounded evaluation on the free monoid'),
    'C18': dict(engine='symx', category='other', design_ref='DESIGN.md §5 C18',
                text='partial: (1) declassification precondition on every value opened inside a protocol (real code on symbolic secrets and randomness): public, or multiplicatively blinded, or '
                     'REST + g*uniform[0,R) with a fresh mixed-radix mask, g | REST and 2R >= 2^k * #values(REST) under the path condition; no mask reused; (2) exact distribution of the whole view '
                     '(opened values and public zero-test bits) per secret input by exhaustive enumeration for tiny types: equal outputs => statistical distance within the additive slack',
                note='bounded (l = 4..8, k = 8/16 symbolic; l = 3, k = 2..3 exhaustive); smudging lemma and independence/uniformity of randomness assumed; found and led to the _mod mask repair',
                technique='modular symbolic execution with a declassification ghost + exhaustive distribution enumeration'),
    'C28': dict(engine='symx-mp', category='other', design_ref='DESIGN.md §5 C28',
                text='m real runtimes on one loop run programs on secure groups (S4, quadratic residues, Schnorr group, Ed25519 in two coordinate systems, BN256, a class group): conversion and '
                     'input, @, ~, ^, ==, !=, if_else, repeat with public and SECRET exponents (secure field of the group order and secure integers, public and secret bases), repeat_public; '
                     'every opened result equals the plain group operation for every party, configurations (m,t) up to 5 (quick) / 7 (thorough) parties, with and without PRSS',
                note='bounded: seeded concrete runs, small QR/Schnorr parameters; secure hyperelliptic groups need NumPy (not covered); led to one repair (symmetric groups with m >= degree)',
                technique='bounded multi-party execution against plain-group oracles'),
    'C05': dict(engine='native-enum', category='other', design_ref='DESIGN.md §5 C05',
                text='bounded stand-in: every clause of the statement (input/output within 2u|x|, + - within 16u max(|x|,|y|), * / within 16u of the exact magnitude, comparisons exact beyond '
                     'the 16u gap) evaluated on the real SecFlt code against exact rational arithmetic: exhaustive significand pairs for SecFlt(s=6,e=5) and (s=8,e=5), seeded samples incl. '
                     'boundary families for s = 11, 24, 53; zero operands, mixed public operands, values next to powers of two',
                note='bounded, m = 1; one known finding (zero operands aligned to the larger exponent); led to one repair (constructor exponent / output scaling)',
                technique='bounded exhaustive / sampled contract evaluation against exact rational oracles'),
    'C37': dict(engine='native-enum+symx-mp', category='other', design_ref='DESIGN.md §5 C37',
                text='bounded: NumPy (wheel from the offline wheelhouse, installed by bin/setup into the check interpreter only) enabled; 59 natives compare secure integer / fixed-point / field arrays '
                     'with plain NumPy on exact data AND with the same operation done elementwise on secure scalars: arithmetic with broadcasting (rank <= 3, sizes 0..3), matmul family, comparisons, '
                     'sort/arg/min/max, reductions, the reshaping/joining/indexing family (declared placeholder shape == shape of the value), input/output, bit operations, FiniteFieldArray, '
                     'np_random_split/np_recombine/np PRSS against the list versions; 22 families also in m-party runs',
                note='bounded; 26 listed findings (13 classes of genuine deviations of the NumPy code paths), 15 more classes repaired by fix commits', technique='bounded contract evaluation against NumPy and scalar oracles'),
    'C38': dict(engine='native-enum', category='other', design_ref='DESIGN.md §5 C38',
                text='bounded: NumPy enabled; every secpoly operator and method against GFpX(p) and the independent polynomial oracles of the C23 check, p in {2,3,5,7,31,257}, exhaustive small pairs + samples '
                     'up to length 9, shares with leading zeros, result lengths independent of the values',
                note='bounded, m = 1; 6 listed findings, 4 repairs', technique='bounded contract evaluation against two polynomial oracles'),
    'C33': dict(engine='native-enum', category='other', design_ref='DESIGN.md §5 C33',
                text='range/shape contracts of every function of mpyc/random.py on argument grids incl. population sizes 0 and 1 with deterministic PRSS seeds; uniformity decided by '
                     'enumerating ALL secret-bit strings (random_bits stubbed) up to a stated length: counts per outcome exactly proportional to the documented probabilities at every depth',
                note='bounded (n <= 9 quick / 17 thorough, permutations n <= 5 / 6; m = 1); led to four repairs in mpyc/random.py', technique='bounded exhaustive contract evaluation with exact bit-string enumeration'),
    'C34': dict(engine='native-enum', category='other', design_ref='DESIGN.md §5 C34',
                text='every function of mpyc/statistics.py on all small data sets (secure integers: tuples of length <= 4 over -3..3; fixed point: dyadic grids) against Python statistics on exact fractions; '
                     'integer results within the documented rounding, fixed-point results within tolerances propagated from the C02 unit bounds',
                note='bounded data sets; fixed-point tolerances are derived (none documented); one known finding (mode tie rule)', technique='bounded exhaustive contract evaluation against exact rational oracles'),
    'C35': dict(engine='pyvc+native-enum', category='other', design_ref='DESIGN.md §5 C35',
                text='partial (safety half): barrier proved to return only when no earlier coroutine is pending (suspensions havoc the counters), shutdown structure by AST dominance, '
                     '_pc_level counting invariant evaluated on every completion path of mpc_coro', note='liveness (loops exit, all shutdowns complete) not decided',
                technique='deductive verification of barrier + syntactic dominance + bounded path enumeration'),
    'C39': dict(engine='native-enum', category='other', design_ref='DESIGN.md §5 C39',
                text='all SecFld argument combinations against an independent reading of its docstring, lifting for all (m,t) with m <= 9 under stand-in runtimes, field size vs number of parties, '
                     'setup() threshold gate (runs and AST structure); found and led to two SecFld repairs',
                note='bounded argument grids; one known finding (threshold setter accepts 2t >= m); gates are assert statements (vanish under python -O)', technique='bounded exhaustive contract evaluation on the real functions'),
    'C20': dict(engine='pyvc+native-enum', category='other', design_ref='DESIGN.md §5 C20',
                text='prime-field operators proved for all primes and elements by engine A (43 method/case contracts); executable contracts of every field operator (binary, reflected, in-place, int/polynomial mixing, **, shifts, ==/hash, field axioms) evaluated '
                     'exhaustively on the real classes for all elements of the listed prime, binary and odd-characteristic extension fields against independent table arithmetic',
                note='bounded: exhaustive inside the listed fields only; one known finding (odd-characteristic extension-field shifts) is listed in known_findings.txt',
                technique='bounded exhaustive contract evaluation on the real functions'),
    'C21': dict(engine='pyvc+lean+native-enum', category='other', design_ref='DESIGN.md §5 C21',
                text='is_sqr / sqrt / inverse sqrt contracts evaluated for all elements of all prime fields p <= 257 and the listed extension/binary fields against brute-force squares',
                note='bounded: exhaustive inside the listed fields only', technique='bounded exhaustive contract evaluation on the real functions'),
    'C22': dict(engine='pyvc+native-enum', category='other', design_ref='DESIGN.md §5 C22',
                text='byte codec, pickle and signed/unsigned view contracts evaluated on the real classes over the listed fields and element lists',
                note='bounded: listed fields, list lengths 0..5; GF((p,n,w)) with w outside range(p) outside the domain', technique='bounded exhaustive contract evaluation on the real functions'),
    'C23': dict(engine='pyvc+native-enum', category='other', design_ref='DESIGN.md §5 C23',
                text='Polynomial._neg/_add/_sub proved by engine A for all primes and coefficient lists (coefficient-wise result, representation invariant, operands unchanged); ring laws, divmod, gcd, gcdext, invert, powmod and representation agreement evaluated exhaustively on the real polynomial classes for all '
                     'polynomial pairs of bounded degree over small primes against independent reference arithmetic; found and led to repairs of powmod and reverse',
                note='bounded: degrees and primes listed in the evidence; one known finding (BinaryPolynomial.__call__ at even x, pinned by an existing test) in known_findings.txt',
                technique='deductive verification (AST -> VCs -> z3) of the linear-time list operations + bounded exhaustive contract evaluation on the real functions'),
    'C24': dict(engine='native-enum', category='other', design_ref='DESIGN.md §5 C24',
                text='irreducibility test, next_irreducible, find_irreducible and the GF gate evaluated for all polynomials of bounded degree over small primes against '
                     'brute-force factorisation; found and led to the repair of next_irreducible skipping x',
                note='bounded: degrees and primes listed in the evidence; monic reading of "smallest irreducible"', technique='bounded exhaustive contract evaluation on the real functions'),
    'C26': dict(engine='native-enum', category='other', design_ref='DESIGN.md §5 C26',
                text='find_prime_root and _pfield contracts (primality, bit length, Blum, root order, field size vs l+f+k+1) evaluated for all l in 2..64, listed n and k',
                note='bounded: l <= 64 (thorough 256); one known finding (l <= 2 with n > 2) in known_findings.txt; m = 1 runtime', technique='bounded exhaustive contract evaluation on the real functions'),
    'C25': dict(engine='pyvc+native-enum', category='other', design_ref='DESIGN.md §5 C25',
                text='contract verification of the gmpy stubs: invert proved for all integers by engine A (inverse, range, raises exactly when '
                     'gcd != 1); every helper has its executable contract evaluated on the real function over a stated finite domain (bounded)',
                note='bounded parts are exhaustive only inside the stated domains; gcd is an uninterpreted spec function with instantiated Euclid '
                     'steps; termination not proved; GMP normalisation taken from the documented convention',
                technique='deductive verification (AST -> VCs -> z3/cvc5) + bounded contract evaluation on the real functions'),
}

NOT_APPLICABLE = {
}
NOT_BUILT_YET = 'check not built yet in the time used so far; design in DESIGN.md §5'
ALL = ['C%02d' % i for i in range(1, 40)]
