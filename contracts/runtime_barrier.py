"""Engine-A contract for Runtime.barrier (C35) and structural obligations for Runtime.shutdown.

`await asyncio.sleep(0)` suspends the coroutine: other MPyC coroutines run and may change the runtime's counters arbitrarily; the handler
therefore HAVOCS self._pc_level and self._program_counter[1] (nothing is assumed about them after the await).
barrier ensures: it returns only in a state with  no_barrier  or  no_async  or  _pc_level <= _program_counter[1]."""
import ast, z3
from vc.engine import Contract, LoopSpec, And, Or, Not, Implies, I, ARR, VList, VObj, VStr, NONE


def _params(case_name):
    def params(vc, P):
        pc = vc.alloc(P, VList(z3.Const('pc', ARR), 2))
        opts = VObj('options', no_barrier=z3.Bool('no_barrier'), no_async=z3.Bool('no_async'))
        self_ = vc.alloc(P, VObj('Runtime', options=opts, _pc_level=z3.Int('pc_level'), _program_counter=pc))
        return dict(self=self_, name=NONE if case_name == 'none' else VStr('x'))
    return params


def _sleep(vc, P, args, kw, e):
    s = P.env['self']; o = P.heap[s.id]
    f = dict(o.f); f['_pc_level'] = vc.fresh('pc_level_after_await')
    pcref = f['_program_counter']; pc = P.heap[pcref.id]
    P.heap[pcref.id] = VList(z3.Store(pc.arr, 1, vc.fresh('depth_after_await')), pc.n)
    P.heap[s.id] = VObj(o.cls, **f)
    return NONE


def _barrier(case_name):
    def ensures(A, res, E):
        s = E['self']; pc = E.P.deref(s.f['_program_counter'])
        return Or(s.f['options'].f['no_barrier'], s.f['options'].f['no_async'], s.f['_pc_level'] <= pc.arr[1])
    return Contract('mpyc.runtime.Runtime.barrier', _params(case_name), lambda A: True, ensures, case=f'name={case_name}',
                    calls={'asyncio.sleep': _sleep},
                    loops={'0': LoopSpec(lambda A, E: And(Not(E['self'].f['options'].f['no_barrier']), Not(E['self'].f['options'].f['no_async']),
                                                          E.P.deref(E['self'].f['_program_counter']).n == 2))})


barrier_none = _barrier('none')
barrier_str = _barrier('str')
CONTRACTS = [barrier_none, barrier_str]


def shutdown_structure():
    """syntactic dominance in Runtime.shutdown: the wait loop `while self._pc_level > self._program_counter[1]: await asyncio.sleep(0)` is the
    first statement; every close_connection() call comes after `await self.transfer(...)`; the own protocol future is created BEFORE that transfer and awaited last."""
    import os
    from lib.common import Ob, P, REPO
    from vc.engine import find_function
    src = open(os.path.join(REPO, 'mpyc', 'runtime.py')).read()
    fn = find_function(ast.parse(src), 'Runtime.shutdown')
    body = [s for s in fn.body if not (isinstance(s, ast.Expr) and isinstance(s.value, ast.Constant))]
    out = []
    def ob(name, ok, detail=''):
        o = Ob(name, 'mpyc.runtime.Runtime.shutdown', 'pyvc-structure', P, 'discharged' if ok else 'refuted', 'ast')
        if not ok:
            o.detail = detail; o.witness = dict(key=f'shutdown:{name}', text=detail, replay=None)
        out.append(o)
    first = body[0]
    ok = (isinstance(first, ast.While) and ast.unparse(first.test) == 'self._pc_level > self._program_counter[1]'
          and len(first.body) == 1 and ast.unparse(first.body[0]) == 'await asyncio.sleep(0)' and not first.orelse)
    ob('structure:wait-loop-first', ok, 'shutdown does not start with the loop that waits until _pc_level <= _program_counter[1]')
    idx = {}
    for k, s in enumerate(body):
        txt = ast.unparse(s)
        if 'await self.transfer(' in txt and 'transfer' not in idx: idx['transfer'] = k
        if 'close_connection' in txt: idx.setdefault('close_first', k); idx['close_last'] = k
        if 'return' == txt.strip() or (isinstance(s, ast.If) and any(isinstance(x, ast.Return) for x in ast.walk(s))): idx.setdefault('early_return', k)
    # the future on which shutdown finally waits is completed by unset_protocol when the LAST peer connection is gone: it must exist before the first
    # await after which peers may already close their connections (the synchronising transfer), otherwise a party that is slow at that point
    # sees all connections lost first, a stale future is completed and the new one never is: the party hangs in shutdown (C35, C08)
    for k, s_ in enumerate(body):
        if isinstance(s_, ast.Assign) and ast.unparse(s_.targets[0]) == 'self.parties[self.pid].protocol' and 'Future(' in ast.unparse(s_.value):
            idx.setdefault('own_future', k)
    ob('structure:own-future-created-before-transfer', 'own_future' in idx and 'transfer' in idx and idx['own_future'] < idx['transfer'],
       f'the future awaited at the end of shutdown is not created before the synchronising transfer: {idx}')
    ob('structure:close-after-transfer', 'transfer' in idx and 'close_first' in idx and idx['transfer'] < idx['close_first'],
       f'close_connection is not dominated by the synchronising transfer: {idx}')
    # no return between the wait loop and the close loop except the documented m == 1 exit
    rets = [s for s in body[1:] if isinstance(s, ast.If) and any(isinstance(x, ast.Return) for x in ast.walk(s))]
    ob('structure:only-m==1-returns-early', all(ast.unparse(r.test) == 'm == 1' for r in rets), 'an early return other than `if m == 1` skips the teardown')
    return out
