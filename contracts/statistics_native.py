"""Bounded executable contracts for /repo/mpyc/statistics.py (property C34), evaluated on the REAL functions with the
single-party runtime (m = 1).  args of every Native: (tname, data, extra, seed) - Python literals only.

  tname: 'i32' = SecInt(32), 'x32.16' = SecFxp(32,16), 'x16.8' = SecFxp(16,8)
  data:  tuple of numbers (ints for secure integers, exactly representable floats for fixed point), or a pair of such
         tuples for covariance / correlation / linear_regression
  extra: () | (n, method) for quantiles | (m,) a given mean (xbar / mu) for variance, stdev, pvariance, pstdev
  seed:  PRSS key of the single party (pivot and tie-breaking bits of _quickselect, masks of comparisons): a case is
         deterministic, so is its replay; the randomised selections are run with 3 seeds.

Oracle: Python's `statistics` module applied to the same data as exact Fractions (mean, median*, quantiles, variance,
pvariance, covariance, mode), `math.isqrt` / `math.sqrt`; own three-line formulas where Python would return floats.

Rounding rules checked for secure integers (from the module docstring: "the mean of a sample of integers is rounded to
the nearest integer", "the variance of a sample of integers is also rounded to the nearest integer"; no tie rule is
documented, so both neighbours are accepted at distance exactly 1/2):
  mean, variance, pvariance, covariance, median (even n), each quantile:  an integer r with |r - exact| <= 1/2
  median_low, median_high, mode:  exactly Python's value (mode: "the first one encountered in data" on ties)
  stdev, pstdev:  r = isqrt(v) for an admissible rounded variance v (docstring of _isqrt: integer square root)
Fixed point ("results fall within the fixed-point precision"; no docstring states a bound): tolerances are propagated
through the documented formula with the unit bounds of property C02, u = 2^-f: sum/difference exact; product of two
secure numbers (and an inner product, which truncates once) within u; product with a public float c (also division
by a public integer d, c = 1/d) within 2(1+|x|)u; division by a secret within 16(1+|a|+|a/b|)u; square root by
bisection with truncated squares: sqrt(max(a-u,0)) - u <= r <= sqrt(a+u).  See `tolerance()`.
Preconditions taken from Python: correlation needs non-constant x and y, linear_regression non-constant x (Python
raises StatisticsError there, the secure version cannot branch on secret data); mode of fixed-point data needs
integral values.
"""
import sys, math, itertools, statistics
from fractions import Fraction
from lib.native import Native
from contracts import random_native as RN

PAIR = ('covariance', 'correlation', 'linear_regression')
GIVEN = ('variance', 'stdev', 'pvariance', 'pstdev')


def call_stat(fname):
    def call(tname, data, extra, seed):
        mpc, _ = RN._rt()
        import mpyc.statistics as S
        T = RN._ty(mpc, tname)
        RN._seed(mpc, seed)
        f = getattr(S, fname)
        if fname in PAIR:
            r = f([T(a) for a in data[0]], [T(a) for a in data[1]])
        else:
            x = [T(a) for a in data]
            if fname == 'quantiles':
                r = f(x, n=extra[0], method=extra[1])
            elif extra:
                r = f(x, T(extra[0]))
            else:
                r = f(x)
        return RN._desc(mpc, T, r)
    return call


def call_plain(fname):
    """plain (non-secure) data: the call is relayed to Python's statistics module"""
    def call(tname, data, extra, seed):
        mpc, _ = RN._rt()
        import mpyc.statistics as S
        f = getattr(S, fname)
        if fname in PAIR: return repr(f(list(data[0]), list(data[1])))
        if fname == 'quantiles': return repr(f(list(data), n=extra[0], method=extra[1]))
        return repr(f(list(data), *extra))
    return call


# ---------------------------------------------------------------- oracles (exact)
def F(data):
    return [Fraction(a) for a in data]


def o_mean(d): return sum(F(d)) / len(d)


def o_ss(d, m=None):
    d = F(d)
    m = sum(d) / len(d) if m is None else Fraction(m)
    return sum((a - m) ** 2 for a in d)


def o_var(d, m=None, corr=1): return o_ss(d, m) / (len(d) - corr)


def o_median(d, kind=None):
    s = sorted(F(d)); n = len(s)
    if n % 2: return s[n // 2]
    if kind == 'low': return s[n // 2 - 1]
    if kind == 'high': return s[n // 2]
    return (s[n // 2 - 1] + s[n // 2]) / 2


def o_cov(x, y):
    x, y = F(x), F(y)
    mx, my = sum(x) / len(x), sum(y) / len(y)
    return sum((a - mx) * (b - my) for a, b in zip(x, y)) / (len(x) - 1)


def o_exact(fname, data, extra):
    """Exact value(s) of Python's statistics function on the data (Fractions); square roots as floats."""
    if fname == 'mean': return statistics.mean(F(data))
    if fname == 'median': return statistics.median(F(data))
    if fname == 'median_low': return statistics.median_low(F(data))
    if fname == 'median_high': return statistics.median_high(F(data))
    if fname == 'mode': return statistics.mode(list(data))
    if fname == 'quantiles': return statistics.quantiles(F(data), n=extra[0], method=extra[1])
    if fname == 'variance': return statistics.variance(F(data), *F(extra))
    if fname == 'pvariance': return statistics.pvariance(F(data), *F(extra))
    if fname == 'covariance': return o_cov(*data)
    raise ValueError(fname)


def _cross(fname, data, extra, v):
    """the three-line formulas above and Python's statistics module must agree (oracle self-check)"""
    if fname == 'mean': w = o_mean(data)
    elif fname.startswith('median'): w = o_median(data, fname[7:] or None)
    elif fname in ('variance', 'pvariance'): w = o_var(data, extra[0] if extra else None, fname == 'variance')
    elif fname == 'covariance': w = Fraction(statistics.covariance([float(a) for a in data[0]], [float(a) for a in data[1]]))
    else: return
    if abs(w - v) > Fraction(1, 10 ** 9) * (1 + abs(v)): raise AssertionError(f'oracle disagreement for {fname}: {w} vs {v}')


# ---------------------------------------------------------------- secure integers
def _secure_int(res):
    m = RN._unsecure(res)
    if m: return None, m
    v = RN._v(res)
    return v, None



def _mode_verdict(v, data):
    """Python's mode is the most common value that is met first.  A result that is the SMALLEST of several most common values (and not the
    first one met) is the listed known finding C34/mode-ties, delimited exactly by this predicate; anything else is a different violation."""
    e = statistics.mode(list(data))
    if v == e: return True
    d = list(data); top = max(d.count(a) for a in set(d)); modes = sorted(a for a in set(d) if d.count(a) == top)
    if len(modes) > 1 and v == modes[0]:
        return ('class', 'several-modes:smallest-returned-instead-of-first-encountered',
                f'expected {e} (Python statistics.mode: of several most common values the first one encountered), got the smallest one {v}')
    return f'expected {e} (Python statistics.mode)'


def ck_int(fname):
    def ck(args, res, exc):
        tname, data, extra, seed = args
        if exc: return f'unexpected {type(exc).__name__}'
        v, m = _secure_int(res)
        if m: return m
        if fname in ('stdev', 'pstdev'):
            var = o_var(data, extra[0] if extra else None, fname == 'stdev')
            cands = {math.floor(var + Fraction(1, 2)), math.ceil(var - Fraction(1, 2))}
            return v in {math.isqrt(c) for c in cands} or f'expected isqrt of the variance {var} rounded to nearest: {sorted(math.isqrt(c) for c in cands)}'
        e = o_exact(fname, data, extra)
        _cross(fname, data, extra, e)
        if fname == 'mode': return _mode_verdict(v, data)
        if fname in ('median_low', 'median_high'):
            return v == e or f'expected {e} (Python statistics.{fname})'
        if fname == 'quantiles':
            if not isinstance(res, list) or len(v) != len(e): return f'expected {len(e)} cut points'
            bad = [(i, a, b) for i, (a, b) in enumerate(zip(v, e)) if not (a == int(a) and abs(a - b) <= Fraction(1, 2))]
            return not bad or f'cut point {bad[0][0]}: {bad[0][1]} is not {bad[0][2]} rounded to the nearest integer; Python: {[str(b) for b in e]}'
        return (v == int(v) and abs(v - e) <= Fraction(1, 2)) or f'{v} is not {e} rounded to the nearest integer'
    return ck


# ---------------------------------------------------------------- fixed point
def _mulf(x, u): return 2 * (1 + abs(x)) * u            # product with a public float (C02)


def _div(a, q, u): return 16 * (1 + abs(a) + abs(q)) * u   # division by a secret (C02, generous form)


def _sqrt_iv(lo, hi, u):
    """bisection square root with truncated squares of a value known to lie in [lo, hi]"""
    return math.sqrt(max(lo - u, 0)) - u, math.sqrt(max(hi + u, 0)) + u


def _dev(x, u):
    """mean by sum(x)/n (one product with a public float) and deviations: (mean, error of mean, deviations)"""
    x = [float(a) for a in x]
    m = sum(x) / len(x)
    return m, _mulf(sum(x), u), [a - m for a in x]


def interval(fname, f, data, extra):
    """[lo, hi] (list of intervals for tuple results) that the fixed-point result must fall into."""
    u = 2.0 ** -f
    if fname == 'mean':
        x = [float(a) for a in data]; s = sum(x); n = len(x); e = n.bit_length() - 1
        d = _mulf(s, u) * 2.0 ** -e + _mulf(s / n * 2.0 ** e, u)      # s * (2^e/n), then * 2^-e: two products with public floats
        return s / n - d, s / n + d
    if fname in ('median', 'median_low', 'median_high'):
        v = float(o_median(data, fname[7:] or None))
        d = _mulf(2 * v, u) if fname == 'median' and len(data) % 2 == 0 else 0          # s/2
        return v - d, v + d
    if fname == 'quantiles':
        n, method = extra
        e = statistics.quantiles(F(data), n=n, method=method)
        s = sorted(F(data)); spread = float(s[-1] - s[0])
        # data[j] + ((data[j+1] - data[j]) * delta) / n : one public-int product (exact), one public float product
        d = _mulf(spread * 2 * n, u) + u                    # |delta| < 2n after clamping j
        return [(float(a) - d, float(a) + d) for a in e]
    if fname in GIVEN:
        corr = 1 if fname in ('variance', 'stdev') else 0
        x = [float(a) for a in data]; n = len(x)
        if extra:
            m, dm = float(extra[0]), 0.0
        else:
            iv = interval('mean', f, data, ())
            m = sum(x) / n; dm = (iv[1] - iv[0]) / 2
        y = [a - m for a in x]
        ip = sum(a * a for a in y)
        dip = sum(2 * abs(a) * dm + dm * dm for a in y) + u
        d = n - corr
        dv = dip / d + _mulf(ip + dip, u)
        lo, hi = ip / d - dv, ip / d + dv
        if fname in ('stdev', 'pstdev'): return _sqrt_iv(lo, hi, u)
        return lo, hi
    xs, ys = data
    n = len(xs)
    mx, dmx, dx = _dev(xs, u)
    my, dmy, dy = _dev(ys, u)
    sxy = sum(a * b for a, b in zip(dx, dy)); dsxy = sum(abs(a) * dmy + abs(b) * dmx + dmx * dmy for a, b in zip(dx, dy)) + u
    sxx = sum(a * a for a in dx); dsxx = sum(2 * abs(a) * dmx + dmx * dmx for a in dx) + u
    syy = sum(b * b for b in dy); dsyy = sum(2 * abs(b) * dmy + dmy * dmy for b in dy) + u
    if fname == 'covariance':
        d = dsxy / (n - 1) + _mulf(abs(sxy) + dsxy, u)
        return sxy / (n - 1) - d, sxy / (n - 1) + d

    def quot(num, dnum, lo, hi):
        """interval of (num +- dnum) / p for p in [lo, hi], lo > 0, plus the division bound"""
        c = [(num + s * dnum) / p for s in (-1, 1) for p in (lo, hi)]
        q = max(abs(a) for a in c)
        d = _div(abs(num) + dnum, q, u)
        return min(c) - d, max(c) + d
    if fname == 'linear_regression':
        if sxx - dsxx <= 0: return None
        slo, shi = quot(sxy, dsxy, sxx - dsxx, sxx + dsxx)
        # intercept = ybar - slope * xbar
        prods = [s * (mx + t * dmx) for s in (slo, shi) for t in (-1, 1)]
        return [(slo, shi), (my - dmy - max(prods) - u, my + dmy - min(prods) + u)]
    if fname == 'correlation':
        alo, ahi = _sqrt_iv(sxx - dsxx, sxx + dsxx, u)
        blo, bhi = _sqrt_iv(syy - dsyy, syy + dsyy, u)
        plo, phi = alo * blo - u, ahi * bhi + u
        if alo <= 0 or blo <= 0 or plo <= 0: return None
        return quot(sxy, dsxy, plo, phi)
    raise ValueError(fname)


def ck_fxp(fname):
    def ck(args, res, exc):
        tname, data, extra, seed = args
        f = RN._frac(tname)
        if exc: return f'unexpected {type(exc).__name__}'
        v, m = _secure_int(res)
        if m: return m
        if fname == 'mode':
            return _mode_verdict(v, data)
        iv = interval(fname, f, data, extra)
        if iv is None: return 'oracle: data too ill-conditioned for a tolerance (input generator error)'
        eps = 1e-12
        if isinstance(iv, list):
            if not isinstance(res, list) or len(v) != len(iv): return f'expected {len(iv)} values'
            bad = [(i, a, b) for i, (a, b) in enumerate(zip(v, iv)) if not b[0] - eps <= a <= b[1] + eps]
            return not bad or f'component {bad[0][0]}: {bad[0][1]} outside [{bad[0][2][0]}, {bad[0][2][1]}] (Python result +- propagated fixed-point tolerance)'
        return iv[0] - eps <= v <= iv[1] + eps or f'{v} outside [{iv[0]}, {iv[1]}] (Python result +- propagated fixed-point tolerance)'
    return ck


# ---------------------------------------------------------------- errors / relay
def ck_error(fname):
    def ck(args, res, exc):
        tname, data, extra, seed = args
        if tname[0] == 'i' and fname in ('correlation', 'linear_regression') and len(data[0]) == len(data[1]) >= 2:
            return isinstance(exc, TypeError) or 'secure integers are documented as unsupported: must raise TypeError'
        try:                                      # Python's verdict on the same plain data
            if fname in PAIR: getattr(statistics, fname)(list(data[0]), list(data[1]))
            elif fname == 'quantiles': statistics.quantiles(list(data), n=extra[0], method=extra[1])
            else: getattr(statistics, fname)(list(data))
            return 'oracle: Python accepts this input (input generator error)'
        except Exception as e:
            E = type(e)
        return isinstance(exc, E) or f'Python raises {E.__name__}: must raise the same'
    return ck


def ck_plain(fname):
    def ck(args, res, exc):
        tname, data, extra, seed = args
        if exc: return f'unexpected {type(exc).__name__}'
        if fname in PAIR: e = getattr(statistics, fname)(list(data[0]), list(data[1]))
        elif fname == 'quantiles': e = statistics.quantiles(list(data), n=extra[0], method=extra[1])
        else: e = getattr(statistics, fname)(list(data), *extra)
        return res == repr(e) or f'plain data must be relayed to statistics.{fname}: expected {e!r}'
    return ck


# ---------------------------------------------------------------- input domains
def T(tier, q, th): return q if tier == 'quick' else th


def _lcg(seed):
    s = seed * 2654435761 % 2 ** 32
    while True:
        s = (s * 1103515245 + 12345) % 2 ** 31
        yield s >> 8


def int_tuples(tier, lo=1, cheap=False):
    """all tuples of length lo..4 over -3..3; thorough: also length 5 (cheap functions: and all of length <= 4 over -4..4)"""
    for n in range(lo, 5):
        yield from itertools.product(range(-3, 4), repeat=n)
    if tier != 'quick':
        yield from itertools.product(range(-3, 4), repeat=5)
        if cheap:
            for n in range(lo, 5):
                yield from (t for t in itertools.product(range(-4, 5), repeat=n) if 4 in t or -4 in t)


def int_samples(tier, lo=5):
    """deterministic data sets of length 5..9 with many duplicates, and some wider ones"""
    for i in range(T(tier, 40, 400)):
        g = _lcg(i)
        n = lo + next(g) % (10 - lo)
        w = (2, 3, 5, 40)[i % 4]
        yield tuple(next(g) % (2 * w + 1) - w for _ in range(n))


FX_VALS = (-2.5, -0.75, 0.0, 0.25, 1.5)


def fxp_tuples(tier, lo=1, hi=4):
    for n in range(lo, hi + 1):
        yield from itertools.product(FX_VALS, repeat=n)


def fxp_samples(tier, lo=4, small=False):
    for i in range(T(tier, 40, 400)):
        g = _lcg(1000 + i)
        n = lo + next(g) % (10 - lo)
        if small:
            yield tuple((next(g) % 17 - 8) / 4 for _ in range(min(n, 5)))          # |v| <= 2 in steps of 1/4: fits SecFxp(16,8)
        else:
            yield tuple((next(g) % 129 - 64) / 16 for _ in range(n))             # |v| <= 4 in steps of 1/16


def _data(kind, tier, lo=1, cheap=False):
    if kind == 'i32':
        return itertools.chain(int_tuples(tier, lo, cheap), int_samples(tier, max(lo, 5)))
    if kind == 'x32.16':
        return itertools.chain(fxp_tuples(tier, lo, 4 if cheap or tier != 'quick' else 3), fxp_samples(tier))
    return itertools.chain(fxp_tuples(tier, lo, 3), itertools.islice(fxp_samples(tier, small=True), T(tier, 20, 400)))


def _seeds3(d, tier):
    """3 seeds for short data, one (rotating) seed for the many tuples of length >= 4 (thorough: >= 5)"""
    if len(d) <= (3 if tier == 'quick' else 4): return (0, 1, 2)
    return (sum(hash(a) for a in d) % 3,)


def in_simple(fname, kind, lo=1, cheap=False, seeds3=False, multisets=False):
    def gen(tier):
        for d in _data(kind, tier, lo, cheap):
            if multisets and tier == 'quick' and len(d) == 4 and list(d) != sorted(d): continue      # quick: length 4 as multisets
            for s in (_seeds3(d, tier) if seeds3 else (0,)):
                yield (kind, d, (), s)
    return gen


def in_quantiles(kind, method):
    def gen(tier):
        for i, d in enumerate(_data(kind, tier, 2)):
            for n in range(2, 7):
                if tier == 'quick' and len(d) >= 4 and n != 2 + i % 5: continue          # quick: one (rotating) n for the longer data sets
                for s in _seeds3(d, tier):
                    yield (kind, d, (n, method), s)
        yield (kind, tuple(range(12, 0, -1)) if kind == 'i32' else tuple(a / 4 for a in range(12, 0, -1)), (10, method), 0)
        yield (kind, (1, 2), (1, method), 0)                    # n = 1: no cut points
    return gen


def _is_unique_mode(d):
    c = sorted((list(d).count(a) for a in set(d)), reverse=True)
    return len(c) == 1 or c[0] > c[1]


def in_mode(kind, unique):
    def gen(tier):
        if kind == 'i32':
            ds = itertools.chain(int_tuples(tier), int_samples(tier))
        else:
            ds = itertools.chain(itertools.chain.from_iterable(itertools.product((-2, 0, 1, 3), repeat=n) for n in range(1, T(tier, 4, 6))),
                                 (tuple(int(a) for a in d) for d in fxp_samples(tier)))
        for d in ds:
            if unique and tier == 'quick' and len(d) == 4 and list(d) != sorted(d): continue      # quick: unique-mode data of length 4 as multisets
            if _is_unique_mode(d) == unique:
                yield (kind, d, (), 0)
    return gen


def in_given(fname, kind):
    """a given mean xbar / mu (secure number of the same type); also points that are not the mean"""
    def gen(tier):
        lo = 2 if fname in ('variance', 'stdev') else 1
        if kind == 'i32':
            ds = itertools.chain(itertools.chain.from_iterable(itertools.product(range(-2, 3), repeat=n) for n in range(lo, 4)), itertools.islice(int_samples(tier), 20))
            ms = (-1, 0, 2)
        else:
            ds = itertools.chain(fxp_tuples(tier, lo, 2), itertools.islice(fxp_samples(tier, small=kind == 'x16.8'), 20))
            ms = (-0.5, 0.0, 1.25)
        for d in ds:
            for m in ms:
                yield (kind, d, (m,), 0)
            e = o_mean(d)
            if kind != 'i32' or e == int(e):
                yield (kind, d, (int(e) if kind == 'i32' else float(e),), 0)
    return gen


def in_pairs(fname, kind):
    def gen(tier):
        if kind == 'i32':
            vals, ns = range(-2, 3), (2, 3)
        else:
            vals, ns = (-1.5, 0.25, 2.0), (2, 3)
        for n in ns:
            for i, x in enumerate(itertools.product(vals, repeat=n)):
                for j, y in enumerate(itertools.product(vals, repeat=n)):
                    if tier == 'quick' and n == 3 and kind != 'i32' and (i + j) % 3: continue         # quick: a third of the length-3 pairs
                    if fname in ('correlation', 'linear_regression') and len(set(x)) == 1: continue
                    if fname == 'correlation' and len(set(y)) == 1: continue
                    yield (kind, (x, y), (), 0)
        for i in range(T(tier, 30, 300)):
            g = _lcg(5000 + i)
            n = 4 + next(g) % (3 if kind == 'x16.8' else 6)
            if kind == 'i32':
                x = tuple(next(g) % 9 - 4 for _ in range(n)); y = tuple(next(g) % 9 - 4 for _ in range(n))
            elif kind == 'x16.8':
                x = tuple((next(g) % 9 - 4) / 4 for _ in range(n)); y = tuple((next(g) % 9 - 4) / 4 for _ in range(n))
            else:
                x = tuple((next(g) % 65 - 32) / 8 for _ in range(n)); y = tuple((next(g) % 65 - 32) / 8 for _ in range(n))
            if len(set(x)) < 3 or len(set(y)) < 3: continue
            yield (kind, (x, y), (), 0)
    return gen


def in_errors(fname):
    def gen(tier):
        for kind, a, b in (('i32', 1, 2), ('x32.16', 0.5, 1.5)):
            if fname in PAIR:
                for d in (((), ()), ((a,), (b,)), ((a, b), (a,)), ((a,), (a, b)), ((a, b, a), (a, b)), ((), (a,))):
                    yield (kind, d, (), 0)
                if kind == 'i32' and fname != 'covariance':
                    yield (kind, ((1, 2, 4), (2, 1, 5)), (), 0)
            elif fname == 'quantiles':
                for d, e in (((), (4, 'exclusive')), ((a,), (4, 'exclusive')), ((a,), (4, 'inclusive')), ((a, b), (0, 'exclusive')), ((a, b), (-1, 'inclusive')),
                             ((a, b, a), (4, 'median')), ((a, b), (2, 'Exclusive'))):
                    yield (kind, d, e, 0)
            else:
                yield (kind, (), (), 0)
                if fname in ('variance', 'stdev'):
                    yield (kind, (a,), (), 0)
    return gen


def in_plain(fname):
    def gen(tier):
        if fname in PAIR:
            yield ('i32', ((1, 2, 4, 7), (2, 1, 5, 5)), (), 0); yield ('i32', ((0.5, 2.5, 1.0), (1.0, 3.0, 0.0)), (), 0)
        elif fname == 'quantiles':
            yield ('i32', (1, 5, 2, 9, 4), (4, 'exclusive'), 0); yield ('i32', (1.5, 0.5, 2.25), (3, 'inclusive'), 0)
        else:
            yield ('i32', (1, 5, 2, 2, 4), (), 0); yield ('i32', (1.5, 0.5, 2.25, 0.5), (), 0)
            if fname in GIVEN: yield ('i32', (1, 5, 2, 2, 4), (3,), 0)
    return gen


SINGLE = ('mean', 'median', 'median_low', 'median_high', 'variance', 'pvariance', 'stdev', 'pstdev')
ALL = SINGLE + ('quantiles', 'mode') + PAIR
DOM_I = 'all tuples of length {lo}..4 over -3..3 (thorough: length 5, and -4..4 for the cheap functions) + 40 (400) deterministic data sets of length 5..9 with duplicates'
DOM_X = 'all tuples of length {lo}..3 (4) over (-2.5, -0.75, 0, 0.25, 1.5) + 40 (400) deterministic data sets of length 4..9 on the 1/16 grid, |v| <= 4 (SecFxp(16,8): length <= 5 on the 1/4 grid, |v| <= 2)'


def _mk():
    out = []

    def add(name, fname, ck, inputs, bound, call=None):
        out.append(Native(name, f'mpyc.statistics.{fname}', call or call_stat(fname), ck, inputs, bound))

    for kind, sfx, ckf, dom in (('i32', 'int', ck_int, DOM_I), ('x32.16', 'fxp', ck_fxp, DOM_X), ('x16.8', 'fxp8', ck_fxp, DOM_X)):
        for fname in SINGLE:
            lo = 2 if fname in ('variance', 'stdev') else 1
            cheap = fname in ('mean', 'variance', 'pvariance')
            add(f'{fname}_{sfx}', fname, ckf(fname), in_simple(fname, kind, lo, cheap, seeds3=fname.startswith('median'), multisets=fname in ('stdev', 'pstdev')),
                dom.format(lo=lo) + ('; 3 seeds (1 rotating seed for length >= 4, thorough >= 5)' if fname.startswith('median') else '; quick: length 4 as sorted tuples' if fname in ('stdev', 'pstdev') else ''))
            if fname in GIVEN:
                add(f'{fname}_given_{sfx}', fname, ckf(fname), in_given(fname, kind), 'tuples of length <= 3 over -2..2 (fxp: <= 2 over 5 values) + 20 data sets, given mean in 3 fixed points and the exact mean')
        for method in ('exclusive', 'inclusive'):
            add(f'quantiles_{method[:4]}_{sfx}', 'quantiles', ckf('quantiles'), in_quantiles(kind, method),
                dom.format(lo=2) + f"; n = 2..6 (quick: one rotating n for length >= 4), method='{method}', 3 seeds (1 rotating seed for length >= 4, thorough >= 5); one data set of 12 with n = 10; n = 1")
        if kind != 'x16.8':
            add(f'mode_unique_{sfx}', 'mode', ckf('mode'), in_mode(kind, True), 'data with a unique most common value (quick: length 4 as sorted tuples): ' + (dom.format(lo=1) if kind == 'i32' else 'tuples of length 1..3 (5) over (-2, 0, 1, 3) + integral data sets'))
            add(f'mode_ties_{sfx}', 'mode', ckf('mode'), in_mode(kind, False), 'data with several most common values (documented: the first one encountered): same domain')
        for fname in PAIR:
            if kind == 'i32' and fname != 'covariance': continue
            add(f'{fname}_{sfx}', fname, ckf(fname), in_pairs(fname, kind),
                'all pairs of tuples of length 2, 3 over ' + ('-2..2' if kind == 'i32' else '(-1.5, 0.25, 2.0)') + ' + 30 (300) deterministic pairs of length 4..9'
                + (' (non-constant x' + (' and y' if fname == 'correlation' else '') + ')' if fname != 'covariance' else ''))
    for fname in ALL:
        add(f'errors_{fname}', fname, ck_error(fname), in_errors(fname), 'empty data, too few points, unequal lengths, bad n / method, unsupported secure integers; SecInt(32) and SecFxp(32,16)')
        # plain (non-secure) data is outside the property ("for data of secure integers or fixed-point numbers"): the relay checks written first
        # (plain_*) demanded more than the property states and were removed; see DESIGN.md 9 (median_low/median_high relay plain data to statistics.median)
    return out


NATIVE = {n.name: n for n in _mk()}
for _n in NATIVE.values(): _n.module = 'contracts.statistics_native'


def run_slice(name, tier, i, k):
    """pool task: the i-th of k slices of the input domain of one Native (same name, so replays work unchanged)."""
    n = NATIVE[name]
    s = Native(n.name, n.func, n.call, n.check, lambda t: itertools.islice(n.inputs(t), i, None, k), f'{n.bound} [slice {i + 1}/{k}]', module=n.module)
    o = s.run(tier)
    o.name = f'{o.name}[{i + 1}/{k}]'
    return [o] + s.known


def run_group(names, tier):
    return [o for n in names for o in NATIVE[n].run_all(tier)]
