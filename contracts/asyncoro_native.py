"""Bounded executable contracts for MessageExchanger framing (C10, C09, C36): the real send/data_received/receive objects, in-memory transport."""
import itertools, struct, asyncio
from lib.native import Native


class _T:
    def __init__(self): self.b = bytearray()
    def write(self, x): self.b.extend(x)
    def writelines(self, xs):
        for x in xs: self.b.extend(x)


class _RT:
    """minimal runtime stand-in for an already connected exchanger"""
    def __init__(self, loop): self._loop = loop; self.unset = []
    def unset_protocol(self, pid): self.unset.append(pid)


def _mk(loop):
    from mpyc import asyncoro
    rt = _RT(loop)
    ex = asyncoro.MessageExchanger(rt, peer_pid=1)     # peer_pid set: handshake done (client side / after handshake)
    ex.transport = _T()
    return ex


def call_framing(msgs, cuts, recv_first):
    """msgs: list of (pc, payload bytes); cuts: chunk boundaries (sorted positions in the stream); recv_first: set of indices of messages
    whose receive() is posted before any data arrives.  Returns what each receive obtains."""
    loop = asyncio.new_event_loop()
    try:
        tx = _mk(loop); rx = _mk(loop)
        for pc, pl in msgs: tx.send(pc, bytes(pl))
        stream = bytes(tx.transport.b)
        got = {}
        futs = {}
        for i in recv_first:
            futs[i] = rx.receive(msgs[i][0])
        pos = 0
        for c in list(cuts) + [len(stream)]:
            c = min(max(c, pos), len(stream))
            rx.data_received(stream[pos:c]); pos = c
        for i, (pc, pl) in enumerate(msgs):
            if i in futs:
                f = futs[i]
                got[i] = ('future', bytes(f.result()) if f.done() else None)
            else:
                r = rx.receive(pc)
                got[i] = ('direct', bytes(r) if isinstance(r, (bytes, bytearray)) else None)
        return dict(got=got, left=len(rx.bytes), buffers=len(rx.buffers), nbytes=tx.nbytes_sent, streamlen=len(stream))
    finally:
        loop.close()


def ck_framing(args, res, exc):
    msgs, cuts, recv_first = args
    if exc: return f'unexpected {type(exc).__name__}: {exc}'
    for i, (pc, pl) in enumerate(msgs):
        kind, val = res['got'][i]
        if val != bytes(pl): return f'message {i} (label {pc}) delivered as {val!r} via {kind}, sent {bytes(pl)!r}'
    if res['left'] != 0 or res['buffers'] != 0: return f"leftover: {res['left']} bytes, {res['buffers']} buffer entries"
    if res['nbytes'] != res['streamlen'] or res['streamlen'] != sum(12 + len(pl) for _, pl in msgs): return 'nbytes_sent / stream length wrong'
    return True


def in_framing(tier):
    sets = [[(1, b'')], [(-5, b'a'), (7, b'')], [(2 ** 63 - 1, b'xyz'), (-2 ** 63, b''), (0, bytes(range(20)))], [(3, b'ab'), (4, b'cd'), (5, b''), (6, bytes(13))]]
    for msgs in sets:
        n = sum(12 + len(pl) for _, pl in msgs)
        msgs_l = [(pc, list(pl)) for pc, pl in msgs]
        cutsets = [[], list(range(1, n))]
        cutsets += [[c] for c in range(0, n + 1)]
        if tier != 'quick' or n <= 40:
            cutsets += [[a, b] for a in range(0, n + 1, 1 if tier != 'quick' else 3) for b in range(a, n + 1, 1 if tier != 'quick' else 5)]
        for cuts in cutsets:
            for rf in ([], list(range(len(msgs))), [0], [len(msgs) - 1]):
                yield (msgs_l, cuts, sorted(set(rf)))


def call_truncated(msgs, cut):
    """a stream that stops at `cut` (crash of the sender): only complete frames may be delivered"""
    loop = asyncio.new_event_loop()
    try:
        tx = _mk(loop); rx = _mk(loop)
        for pc, pl in msgs: tx.send(pc, bytes(pl))
        stream = bytes(tx.transport.b)[:cut]
        rx.data_received(stream[:cut // 2]); rx.data_received(stream[cut // 2:])
        out = []
        for pc, pl in msgs:
            r = rx.receive(pc)
            out.append(bytes(r) if isinstance(r, (bytes, bytearray)) else None)
        return out
    finally:
        loop.close()


def ck_truncated(args, res, exc):
    msgs, cut = args
    if exc: return f'unexpected {type(exc).__name__}: {exc}'
    pos = 0
    for i, (pc, pl) in enumerate(msgs):
        pos += 12 + len(pl)
        want = bytes(pl) if pos <= cut else None
        if res[i] != want: return f'message {i}: obtained {res[i]!r}, expected {want!r} for a stream cut at {cut}'
    return True


def in_truncated(tier):
    msgs = [(9, list(b'hello')), (10, []), (11, list(bytes(17)))]
    n = sum(12 + len(pl) for _, pl in msgs)
    for cut in range(n + 1): yield (msgs, cut)


NATIVE = {n.name: n for n in [
    Native('framing', 'mpyc.asyncoro.MessageExchanger.send/data_received/receive', call_framing, ck_framing, in_framing,
           '4 message sequences (empty payloads, extreme labels); all single cuts, byte-by-byte, a lattice of double cuts; receive before/after arrival'),
    Native('truncated', 'mpyc.asyncoro.MessageExchanger.data_received (stream cut anywhere)', call_truncated, ck_truncated, in_truncated,
           '3 messages, stream truncated at every byte position'),
]}
for _n in NATIVE.values(): _n.module = 'contracts.asyncoro_native'


# ---------------------------------------------------------------- gather_shares / _SharesTallier (C36 b): gathered future completes only after ALL
def call_tallier(shape, order, predone):
    """shape: nested list structure with integer leaf ids; order: permutation of the leaf ids giving completion order;
    predone: ids completed before gather is called.  Returns (log of (number of leaves completed so far when the gather completed), result)."""
    import sys
    sys.argv = [sys.argv[0] if sys.argv else 'x', '--no-log']
    from mpyc import asyncoro
    from mpyc.runtime import mpc
    loop = asyncio.new_event_loop()
    try:
        class RT:
            _loop = loop
            class options: no_async = False
        futs = {}
        def build(s):
            if isinstance(s, list): return [build(x) for x in s]
            f = asyncio.Future(loop=loop); futs[s] = f; return f
        obj = build(shape)
        for i in predone: futs[i].set_result(('v', i))
        g = asyncoro.gather_shares(RT, obj)
        done_at = []
        if isinstance(g, asyncio.Future): g.add_done_callback(lambda f: done_at.append(sum(1 for x in futs.values() if x.done())))
        n_done_before = None
        for i in order:
            if i in predone: continue
            if isinstance(g, asyncio.Future) and g.done() and n_done_before is None: n_done_before = sum(1 for x in futs.values() if x.done())
            futs[i].set_result(('v', i))
            loop.call_soon(loop.stop); loop.run_forever()
        loop.call_soon(loop.stop); loop.run_forever()
        if isinstance(g, asyncio.Future):
            return dict(done=g.done(), result=g.result() if g.done() else None, early=n_done_before, total=len(futs))
        return dict(done=True, result=g.value, early=None, total=len(futs))
    finally:
        loop.close()


def ck_tallier(args, res, exc):
    shape, order, predone = args
    if exc: return f'unexpected {type(exc).__name__}: {exc}'
    def exp(s): return [exp(x) for x in s] if isinstance(s, list) else ('v', s)
    if res['early'] is not None and res['early'] < res['total']: return f"gather completed after only {res['early']} of {res['total']} futures"
    if not res['done']: return 'gather never completed although all futures did'
    return res['result'] == exp(shape) or f"gathered {res['result']!r}, expected {exp(shape)!r}"


def in_tallier(tier):
    shapes = [[0], [0, 1], [0, [1, 2]], [[0, 1], [2, 3]], [[0], [], [1, [2]]], [0, 1, 2, 3]]
    for shape in shapes:
        ids = []
        def walk(s):
            for x in s:
                walk(x) if isinstance(x, list) else ids.append(x)
        walk(shape)
        for order in itertools.permutations(ids):
            for pre in ([], ids[:1], ids[-1:], ids):
                yield (shape, list(order), list(pre))


_t = Native('tallier', 'mpyc.asyncoro.gather_shares/_SharesTallier', call_tallier, ck_tallier, in_tallier,
            'nested list shapes up to depth 3 / 4 leaves, every completion order, with futures completed before the gather')
_t.module = 'contracts.asyncoro_native'
NATIVE['tallier'] = _t
