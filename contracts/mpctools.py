"""Sidecar contracts for mpyc/mpctools.py (property C32): bounded executable contracts.

Universal-model argument.  reduce/accumulate are run with f = concatenation on the free monoid over the
generators x_i = (i,).  Every associative f' on any carrier factors through this model (evaluate the word), and
reduce/accumulate are parametric in f (they only ever apply f to items / earlier results), so agreement with
functools.reduce / itertools.accumulate on this one model for a given number of items is agreement for every
associative (also non-commutative) f' and every input of that length.

A second, instrumented run uses items ((i,), 0) and f(a, b) = (a.seq + b.seq, 1 + max(a.depth, b.depth)); it
counts the applications of f, records the maximal depth over ALL applications (also of results that are thrown
away) and checks the call discipline: f is only applied to (left, right) operands that are adjacent segments
i..j-1 and j..k-1 of the input, in this order.

Oracles: functools.reduce / itertools.accumulate from the standard library with the plain concatenation, plus
the definition (prefix concatenations) written out.
"""
import sys, math, functools, itertools, collections
from lib.native import Native

INIT = -1                # index of the generator standing for a given initial element


def _M():
    """the real module, with mpctools.runtime set the way mpyc.runtime.setup() does it"""
    if 'mpyc.runtime' not in sys.modules:
        argv = sys.argv
        sys.argv = ['x', '--no-log']            # mpyc.runtime parses sys.argv at import time
        try:
            import mpyc.runtime                 # noqa
        finally:
            sys.argv = argv
    import mpyc.runtime                          # noqa
    from mpyc import mpctools
    return mpctools


def T(tier, q, th): return q if tier == 'quick' else th


def clog2(n):            # ceil(log2 n) for n >= 1, 0 for n <= 1
    return (n - 1).bit_length() if n > 1 else 0


# ------------------------------------------------------------------ the free monoid models
def lift(a):             # None (initial=None given explicitly) is one more generator of the free monoid
    return ('None',) if a is None else a


def cat(a, b):           # the associative operation of the free monoid (on tuples, None lifted)
    return lift(a) + lift(b)


class Probe:
    """instrumented f: carries depth, counts calls, checks adjacency of the operand segments"""

    def __init__(self):
        self.calls = 0; self.maxdepth = 0; self.bad = None

    @staticmethod
    def lift(a):
        return (('None',), 0) if a is None else a

    def __call__(self, a, b):
        self.calls += 1
        (s, d), (t, e) = self.lift(a), self.lift(b)
        ks = [INIT if v == 'None' else v for v in s + t]
        if self.bad is None and (not s or not t or any(ks[i] + 1 != ks[i + 1] for i in range(len(ks) - 1))):
            self.bad = f'f applied to non-adjacent / misordered segments {s} , {t}'
        depth = 1 + max(d, e)
        self.maxdepth = max(self.maxdepth, depth)
        return (s + t, depth)


def make_items(n, kind, elem):
    """returns (iterable handed to the function, list kept by the caller to detect mutation of the argument)"""
    base = [elem(i) for i in range(n)]
    if kind == 'list': return base, base
    if kind == 'tuple': return tuple(base), None
    if kind == 'generator': return (e for e in list(base)), None
    if kind == 'iterator': return iter(list(base)), None
    if kind == 'dict_keys': return dict.fromkeys(base).keys(), None
    if kind == 'deque': return collections.deque(base), None
    raise AssertionError(kind)


def init_kw(init, elem):
    if init == 'absent': return {}
    if init == 'None': return {'initial': None}
    if init == 'elem': return {'initial': elem(INIT)}
    raise AssertionError(init)


KINDS = ('list', 'tuple', 'generator', 'iterator', 'dict_keys', 'deque')
INITS = ('absent', 'None', 'elem')


# ------------------------------------------------------------------ reduce
def call_reduce(n, init, kind):
    M = _M()
    x, keep = make_items(n, kind, lambda i: (i,))
    plain = M.reduce(cat, x, **init_kw(init, lambda i: (i,)))
    unchanged = keep is None or keep == [(i,) for i in range(n)]
    pr = Probe()
    x, _ = make_items(n, kind, lambda i: ((i,), 0))
    inst = M.reduce(pr, x, **init_kw(init, lambda i: ((i,), 0)))
    return dict(plain=plain, inst=inst, calls=pr.calls, depth=pr.maxdepth, bad=pr.bad, unchanged=unchanged)


def words(n, init):
    """the items as the standard library sees them"""
    items = [(i,) for i in range(n)]
    if init == 'None': return [None] + items
    if init == 'elem': return [(INIT,)] + items
    return items


def ck_reduce(args, res, exc):
    n, init, kind = args
    w = words(n, init)
    N = len(w)
    if N == 0:
        # exactly as functools.reduce: TypeError
        try:
            functools.reduce(cat, [])
            return 'oracle: functools.reduce did not raise'
        except TypeError:
            pass
        return isinstance(exc, TypeError) or 'empty input without initial must raise TypeError (as functools.reduce)'
    if exc: return f'unexpected {type(exc).__name__}'
    # oracle 1: the standard library, called the way the user would call it
    items = [(i,) for i in range(n)]
    exp = functools.reduce(cat, items) if init == 'absent' else functools.reduce(cat, items, None if init == 'None' else (INIT,))
    # oracle 2: definition
    if N == 1:
        exp2 = w[0]
    else:
        exp2 = ()
        for e in w: exp2 = exp2 + lift(e)
    if exp != exp2: return 'oracles disagree'
    if res['plain'] != exp or type(res['plain']) is not type(exp): return f'reduce != functools.reduce: expected {exp!r}'
    if not res['unchanged']: return 'the list passed as argument was modified'
    if res['bad']: return res['bad']
    inst = res['inst']
    if N == 1:
        if res['calls'] != 0: return 'f applied although there is a single item'
        return inst == (None if init == 'None' else (w[0], 0)) or 'single item must be returned as is'
    if inst[0] != exp: return f'instrumented run: wrong word {inst[0]!r}'
    if res['depth'] > clog2(N) or inst[1] > clog2(N):
        return f'depth {res["depth"]} of the applications of f exceeds ceil(log2 {N}) = {clog2(N)}'
    if res['calls'] != N - 1:
        return f'{res["calls"]} applications of f: a binary tree over {N} items has exactly {N - 1}'
    return True


# ------------------------------------------------------------------ accumulate
METHODS = ('Brent-Kung', 'Sklansky')
BAD_METHODS = ('', 'brent-kung', 'sklansky', 'Brent-Kung ', 'BrentKung', 'Brent–Kung', 'Kogge-Stone', 'default', 'None', 0, 1, False, True,
               ('Sklansky',), b'Sklansky')


def call_accumulate(n, init, kind, method, no_prss):
    """method: 'Brent-Kung' | 'Sklansky' | 'default' (argument omitted) | 'default-None' (method=None) | ('bad', m)"""
    M = _M()
    kw = {}
    if method == 'default-None': kw['method'] = None
    elif isinstance(method, tuple): kw['method'] = method[1]
    elif method != 'default': kw['method'] = method
    opts = M.runtime.options
    saved = opts.no_prss
    opts.no_prss = bool(no_prss)
    try:
        x, keep = make_items(n, kind, lambda i: (i,))
        r = M.accumulate(x, cat, **init_kw(init, lambda i: (i,)), **kw)
        is_iter = iter(r) is r and not isinstance(r, (list, tuple))
        plain = list(r)
        exhausted = list(r) == []
        unchanged = keep is None or keep == [(i,) for i in range(n)]
        pr = Probe()
        x, _ = make_items(n, kind, lambda i: ((i,), 0))
        inst = list(M.accumulate(x, pr, **init_kw(init, lambda i: ((i,), 0)), **kw))
        # default f is operator.add: concatenation of tuples (only meaningful without initial=None)
        dflt = None
        if init != 'None':
            x, _ = make_items(n, kind, lambda i: (i,))
            dflt = list(M.accumulate(x, **init_kw(init, lambda i: (i,)), **kw))
    finally:
        opts.no_prss = saved
    return dict(plain=plain, inst=inst, dflt=dflt, calls=pr.calls, depth=pr.maxdepth, bad=pr.bad, unchanged=unchanged,
                is_iter=is_iter, exhausted=exhausted)


def bk_calls(N):          # documented: for N = 2^k, 2N - 2 - k applications
    return 2 * N - 2 - clog2(N)


def sk_calls(N):          # documented: for N = 2^k, (N/2) k applications
    return (N // 2) * clog2(N)


def ck_accumulate(args, res, exc):
    n, init, kind, method, no_prss = args
    if isinstance(method, tuple):
        # an unknown method raises ValueError, whatever the input; known ones never do
        return isinstance(exc, ValueError) or f'unknown method {method[1]!r} must raise ValueError'
    if exc: return f'unexpected {type(exc).__name__}'
    w = words(n, init)
    N = len(w)
    items = [(i,) for i in range(n)]
    # oracle 1: itertools.accumulate (its initial=None means "absent": a leading None item is chained in front)
    if init == 'absent': exp = list(itertools.accumulate(items, cat))
    elif init == 'elem': exp = list(itertools.accumulate(items, cat, initial=(INIT,)))
    else: exp = list(itertools.accumulate(itertools.chain([None], items), cat))
    # oracle 2: definition, all nonempty prefixes
    exp2 = []
    for j in range(N):
        if j == 0: exp2.append(w[0])
        else:
            acc = ()
            for e in w[:j + 1]: acc = acc + lift(e)
            exp2.append(acc)
    if exp != exp2: return 'oracles disagree'
    if not res['is_iter']: return 'result is not an iterator'
    if res['plain'] != exp: return f'accumulate != itertools.accumulate: got {res["plain"]!r}'[:400]
    if not res['exhausted']: return 'iterator not exhausted after one pass'
    if res['dflt'] is not None and res['dflt'] != exp: return 'accumulate with default f (operator.add) != itertools.accumulate'
    if not res['unchanged']: return 'the list passed as argument was modified'
    if res['bad']: return res['bad']
    inst = res['inst']
    if len(inst) != N: return 'instrumented run: wrong length'
    for j in range(N):
        e = Probe.lift(inst[j]) if j else inst[j]
        if j == 0:
            if e != (None if init == 'None' else (w[0], 0)): return 'first output must be the first item as is'
        elif e[0] != exp[j]: return f'instrumented run: wrong word at {j}'
    k = clog2(N)
    K = 1 << k                  # next power of two >= N (1 for N <= 1)
    bk_depth, sk_depth = max(2 * k - 2, k), k
    if method == 'Brent-Kung': dbound, cbound, cexact = bk_depth, bk_calls(K), bk_calls
    elif method == 'Sklansky': dbound, cbound, cexact = sk_depth, sk_calls(K), sk_calls
    else:
        # default heuristic: whichever method is chosen, the documented logarithmic bounds of that method hold
        dbound, cbound, cexact = bk_depth, max(bk_calls(K), sk_calls(K)), None
    if res['depth'] > dbound:
        return f'depth {res["depth"]} exceeds the documented bound {dbound} for {N} items, method {method}'
    if N >= 1 and res['calls'] < N - 1: return 'fewer than N-1 applications of f'
    if res['calls'] > cbound:
        return f'{res["calls"]} applications of f exceed the documented count {cbound} for the next power of two {K}'
    if cexact and N >= 1 and N == K and res['calls'] != cexact(N):
        return f'{res["calls"]} applications of f, documented for N = 2^k: {cexact(N)}'
    if cexact is None:
        # the default must behave as one of the two documented methods
        if not ((res['depth'] <= sk_depth and res['calls'] <= sk_calls(K)) or (res['depth'] <= bk_depth and res['calls'] <= bk_calls(K))):
            return 'default method: (depth, calls) within the documented bounds of neither method'
    return True


def _kinds(n):
    if n <= 20 or n in (31, 32, 33, 63, 64, 65): return KINDS
    if n <= 64: return KINDS[:4]
    return (KINDS[n % 4],)               # large n: one kind of iterable per n (list, tuple, generator, iterator in turn)


def in_reduce(lo, hi):
    def gen(tier):
        for n in range(lo, hi + 1):
            for init in INITS:
                for kind in _kinds(n): yield (n, init, kind)
    return gen


def in_accumulate(method, lo, hi):
    def gen(tier):
        for n in range(lo, hi + 1):
            for init in INITS:
                for kind in _kinds(n):
                    if method in METHODS:
                        yield (n, init, kind, method, 0)
                        if kind == 'list': yield (n, init, kind, method, 1)
                    else:
                        for m in (('default', 'default-None') if n <= 64 else ('default',)):
                            for np in (0, 1):
                                yield (n, init, kind, m, np)
    return gen


def in_badmethod(tier):
    for n in (0, 1, 2, 3, 8, 31, 32, 33):
        for init in INITS:
            for m in BAD_METHODS:
                for np in (0, 1):
                    yield (n, init, 'list', ('bad', m), np)
    # and the known ones never raise ValueError (checked by the other entries); method names are exact strings


_acc = lambda n, init, kind, method, no_prss: call_accumulate(n, init, kind, method, no_prss)
RANGES = [(0, 64, False), (65, 200, True), (201, 320, True), (321, 420, True), (421, 512, True)]      # (lo, hi, thorough only)
_lst = []
for _lo, _hi, _th in RANGES:
    _sfx = '' if not _th else f':{_lo}-{_hi}'
    _dom = (f'free monoid model: n items {_lo}..{_hi} x initial in {{absent, None, element}} x iterable kind (list, tuple, generator, iterator; dict_keys, deque for n <= 20 and n near '
            'powers of two; one kind per n for n > 64)')
    _new = [
        Native('reduce' + _sfx, 'mpyc.mpctools.reduce', call_reduce, ck_reduce, in_reduce(_lo, _hi), _dom),
        Native('accumulate_brent_kung' + _sfx, 'mpyc.mpctools.accumulate', _acc, ck_accumulate, in_accumulate('Brent-Kung', _lo, _hi),
               "method='Brent-Kung', " + _dom + ', no_prss both ways for lists'),
        Native('accumulate_sklansky' + _sfx, 'mpyc.mpctools.accumulate', _acc, ck_accumulate, in_accumulate('Sklansky', _lo, _hi),
               "method='Sklansky', " + _dom + ', no_prss both ways for lists'),
        Native('accumulate_default' + _sfx, 'mpyc.mpctools.accumulate', _acc, ck_accumulate, in_accumulate('default', _lo, _hi),
               'method omitted (and method=None for n <= 64), ' + _dom + ' x runtime.options.no_prss in {False, True}'),
    ]
    for _n in _new: _n.thorough_only = _th
    _lst += _new
_bad = Native('accumulate_bad_method', 'mpyc.mpctools.accumulate', _acc, ck_accumulate, in_badmethod,
              'unknown method values (15 of them: near-miss spellings, non-strings) x n in {0,1,2,3,8,31,32,33} x initial x no_prss')
_bad.thorough_only = False
NATIVE = {n.name: n for n in _lst + [_bad]}
for _n in NATIVE.values(): _n.module = 'contracts.mpctools'


def native_names(tier):
    return [n.name for n in NATIVE.values() if tier != 'quick' or not n.thorough_only]
