"""Extra bounded contracts for C37 (added after a seeded change was missed): low-probability random events FORCED by a stand-in for the
randomness source, array version against the scalar version and against the specification."""
import os, sys
from lib.native import Native


def _rt():
    os.environ.pop('MPYC_NONUMPY', None)
    sys.argv = [sys.argv[0] if sys.argv else 'x', '--no-log']
    from mpyc.runtime import mpc
    import numpy as np
    return mpc, np


def call_is_zero_forced(kind, data, zero_cols):
    """_np_is_zero (the probabilistic zero test used by == / != for types with bit_length/2 > sec_param) with the FIRST random draw (the masks u)
    forced to 0 in the given repetition columns: the opened value c = a*r +- u^2 is then 0 exactly where a == 0, the special case of the code"""
    mpc, np = _rt()
    T = mpc.SecInt(64) if kind == 'i64' else mpc.SecFxp(64)
    a = T.array(np.array(data, dtype=object) if kind == 'i64' else np.array(data, dtype=float))
    real = mpc._np_randoms
    calls = [0]

    def forced(sftype, n, bound=None):
        calls[0] += 1
        r = real(sftype, n, bound)
        if calls[0] == 1 and bound is None:
            k = mpc.options.sec_param
            v = r.value.reshape((k, n // k)).copy()
            for j in zero_cols: v[:, j] = 0
            return type(r)(v.reshape((n,)))
        return r
    mpc._np_randoms = forced
    try:
        z = mpc._np_is_zero(a)
        out = mpc.run(mpc.output(z))
    finally:
        mpc._np_randoms = real
    return [float(x) for x in np.asarray(out).reshape(-1)]


def ck_is_zero_forced(args, res, exc):
    kind, data, zero_cols = args
    if exc: return f'unexpected {type(exc).__name__}: {exc}'
    bad = [(j, d, r) for j, (d, r) in enumerate(zip(data, res)) if d == 0 and r != 1.0]
    if bad: return f'element {bad[0][0]} is 0 but the zero test returns {bad[0][2]} (masks u forced to 0 in columns {list(zero_cols)}: opened value 0, the special case of _np_is_zero)'
    bad = [(j, d, r) for j, (d, r) in enumerate(zip(data, res)) if d != 0 and r != 0.0 and j not in zero_cols]
    if bad: return f'element {bad[0][0]} = {bad[0][1]} is nonzero but the zero test returns {bad[0][2]}'
    return True


def in_is_zero_forced(tier):
    for kind in ('i64', 'x64'):
        for data, cols in (((0, 5, 0, -3), (0, 2)), ((0, 5, 0, -3), (0,)), ((0, 0), (0, 1)), ((7, 0, 1), (1,)), ((0,), (0,)), ((0, 5, 0, -3), ())):
            yield (kind, data, cols)


NATIVE = {'is_zero_forced_zero_mask': Native('is_zero_forced_zero_mask', 'mpyc.runtime.Runtime._np_is_zero', call_is_zero_forced, ck_is_zero_forced, in_is_zero_forced,
                                             'SecInt(64) and SecFxp(64) arrays with zero elements; the masks u of chosen elements forced to 0 (opened value 0)')}
for _n in NATIVE.values(): _n.module = 'contracts.secarray_extra'
