"""Sidecar contracts for secure finite fields: mpyc/sectypes.py (SecFld, _SecFld, SecureFiniteField, _pfield as reached through
SecInt/SecFxp) and the field-element part of mpyc/runtime.py (add, sub, mul, div, reciprocal, pow, eq, is_zero, and_, or_, xor,
invert, to_bits, from_bits on secure field elements; setup() threshold gate, Runtime.threshold setter).
Bounded executable contracts only (properties C04 and C39).

Conventions
  * a construction route of SecFld is a tuple of (keyword, literal) pairs; a polynomial object is written ('poly', p, enc) where
    enc is the base-p integer encoding of the coefficient list (constant term = least significant digit) and is turned into a
    gfpx polynomial inside `call`.
  * a field element is named by its integer encoding e in range(q) (prime fields: the residue; extension fields: base-p digits of
    e are the coefficients, constant term first) -- the same convention as contracts/finfields.py.
  * `call` runs the REAL mpyc code (the m = 1 runtime created by `import mpyc.runtime`, or type construction under a stand-in
    runtime object with the attributes threshold / parties / options that sectypes reads) and returns plain data;
    `check` computes the expected data with the oracle field `OF` of contracts/finfields.py (own coefficient-list arithmetic,
    inverses by exhaustive search, powers by repeated multiplication) and with `o_spec` below, the meaning of the SecFld
    arguments as documented in its docstring, written for the check.  Nothing from mpyc is used on the expected side.  The
    irreducible modulus that SecFld picks when none is requested is read from the constructed field and *validated* by the oracle
    (monic, right characteristic and degree, irreducible by trial division) before it parametrises the expected arithmetic.
  * secret zero divisors: Runtime.reciprocal(a) draws r and retries while a*r == 0; for a == 0 it never terminates ("for nonzero
    a" in its docstring).  Such calls are only made with `_random` replaced by a counting stand-in that cuts the loop off
    (entry div_secret_zero: no value may come out).  Division by a PUBLIC zero must raise ZeroDivisionError.
"""
import functools, itertools, os, sys, types
from lib.native import Native
from contracts.finfields import OF, digits, undigits, o_is_prime, o_irreducible, lattice, _limited, _enc, T


# ===================================================================================== oracle side (independent of mpyc)
def o_factor(n):
    f = {}; d = 2
    while d * d <= n:
        while n % d == 0: f[d] = f.get(d, 0) + 1; n //= d
        d += 1
    if n > 1: f[n] = f.get(n, 0) + 1
    return f


def o_parse(s):
    """coefficient list (constant first) of a string like 'x^4+x+1' or '2x^2+x+2' (sums of terms only)"""
    c = {}
    for term in s.replace(' ', '').split('+'):
        if 'x' in term:
            a, _, e = term.partition('x'); a = int(a) if a else 1; e = int(e[1:]) if e else 1
        else:
            a, e = int(term), 0
        c[e] = c.get(e, 0) + a
    return [c.get(i, 0) for i in range(max(c) + 1)]


def _o_poly_ok(coeffs, p):
    """(degree, irreducible?) of the polynomial with the given integer coefficients over GF(p); any nonzero leading coefficient"""
    c = [x % p for x in coeffs]
    while c and c[-1] == 0: c.pop()
    d = len(c) - 1
    if d < 1: return d, False
    inv = pow(c[-1], -1, p)
    return d, o_irreducible([x * inv % p for x in c], p)


def _least_prime_ge(x):
    x = max(x, 2)
    while not o_is_prime(x): x += 1
    return x


def o_spec(order, modulus, char, ext_deg, min_order):
    """Meaning of the SecFld arguments, from its docstring ("Secure finite field of order q = p**d.  Order q >= min_order.  Field
    is prime (d = 1) by default and if modulus is prime.  Extension degree d > 1 if order is a prime power p**d with d > 1, if
    modulus is a polynomial or a string or an integer > char, or if ext_deg is an integer > 1, or if min_order > char."):
        order = p**d, char = p, ext_deg = d; modulus = the prime p itself (int), or a polynomial over GF(p) given as an object,
        as a string (over GF(char), characteristic 2 when nothing else fixes p) or as an integer > char (base-p encoding);
        min_order <= p**d.
    Returns ('error', why) when the arguments contradict each other or do not denote a field (modulus not prime / not irreducible,
    order not a prime power), else ('ok', dict(p, d, q, mod)) with mod = encoding of the requested modulus or None.  When only
    min_order constrains the order, q is the LEAST admissible order of the route: least prime >= min_order (no char, ext_deg None
    or 1), least prime p with p**ext_deg >= min_order (no char, ext_deg given), least power char**e >= min_order (char given).
    Defaults where nothing is requested: d = 1 ("prime by default"), p = 2 (SecFld() is GF(2))."""
    P, D = set(), set()
    if order is not None:
        f = o_factor(order) if order >= 2 else {}
        if len(f) != 1: return 'error', f'order {order} is not a prime power'
        (p0, d0), = f.items(); P.add(p0); D.add(d0)
    if char is not None: P.add(char)
    if ext_deg is not None: D.add(ext_deg)
    if len(P) > 1: return 'error', 'order and char disagree'
    p = next(iter(P)) if P else None
    mod = None
    if modulus is not None:
        coeffs = None
        if isinstance(modulus, str):
            pm = p or 2; coeffs = o_parse(modulus)
        elif isinstance(modulus, tuple):
            pm = modulus[1]; coeffs = digits(modulus[2], pm)
        elif p is not None and modulus > p:
            pm = p; coeffs = digits(modulus, p)
        else:
            pm = modulus
            if not o_is_prime(pm): return 'error', f'integer modulus {modulus} is not prime'
            P.add(pm); D.add(1); mod = pm
        if coeffs is not None:
            P.add(pm)
            dm, irr = _o_poly_ok(coeffs, pm)
            if not irr: return 'error', 'modulus is not an irreducible polynomial'
            D.add(dm); mod = undigits([c % pm for c in coeffs], pm)
    if len(P) > 1: return 'error', 'characteristic of the modulus disagrees with order/char'
    if len(D) > 1: return 'error', f'degrees requested through order/ext_deg/modulus disagree: {sorted(D)}'
    p = next(iter(P)) if P else None
    d = next(iter(D)) if D else None
    if p is not None and not o_is_prime(p): return 'error', 'char is not prime'
    if modulus is None and order is None and min_order is not None:
        if p is None:
            d = d or 1
            p = 2
            while not (o_is_prime(p) and p ** d >= min_order): p += 1
        elif d is None:
            d = 1
            while p ** d < min_order: d += 1
    p = p or 2; d = d or 1
    q = p ** d
    if min_order is not None and min_order > q: return 'error', f'min_order {min_order} > order {q}'
    return 'ok', dict(p=p, d=d, q=q, mod=mod)


@functools.cache
def _OFc(p, d, mod, prime_cls):
    """oracle field for the reported parameters; raises ValueError when the reported modulus is not a monic irreducible
    polynomial of degree d over GF(p) / p is not prime"""
    if prime_cls:
        if d != 1 or mod != p: raise ValueError('prime-field class with ext_deg != 1 or modulus != p')
        return OF(('p', p))
    O = OF(('x', p, mod))
    if O.d != d: raise ValueError(f'reported ext_deg {d} but modulus has degree {O.d}')
    return O


def srep(a, p):
    """signed representative, symmetric around zero (finfields: "signed integer representation, symmetric around zero")"""
    return a - p if a > p // 2 else a


# ===================================================================================== access to the real code
def _mpc():
    sys.argv = [sys.argv[0] if sys.argv else 'x', '--no-log']          # the runtime parses sys.argv when imported
    from mpyc.runtime import mpc
    return mpc


def _kw(route):
    from mpyc import gfpx
    kw = {}
    for k, v in route:
        if k == 'modulus' and isinstance(v, tuple):
            v = gfpx.GFpX(v[1])(digits(v[2], v[1]))
        kw[k] = v
    return kw


def _modenc(Fd):
    m = Fd.modulus
    if isinstance(m, int): return m
    raw = m.value
    return raw if isinstance(raw, int) else undigits(raw, Fd.characteristic)


def _finfo(Fd):
    return dict(q=Fd.order, p=Fd.characteristic, d=Fd.ext_deg, mod=_modenc(Fd), prime_cls=isinstance(Fd.modulus, int), signed=Fd.is_signed)


def _info(S):
    from mpyc import sectypes
    d = _finfo(S.field)
    d.update(bit_length=S.bit_length, sub=None if S.subfield is None else _finfo(S.subfield), has_outconv=S._output_conversion is not None,
             is_secfld=issubclass(S, sectypes.SecureFiniteField), frac=S.frac_length)
    return d


def _sec(route):
    mpc = _mpc()
    return mpc, mpc.SecFld(**_kw(route))


def _run(mpc, Fd, thunks):
    """evaluate every thunk (-> secure object or list of them), open it with the real output protocol, return encodings"""
    out = {}
    for k, th in thunks.items():
        try:
            v = mpc.run(mpc.output(th()))
        except TimeoutError:
            raise
        except Exception as e:          # noqa: the contract decides
            out[k] = 'raise ' + type(e).__name__; continue
        out[k] = [_enc(Fd, w) for w in v] if isinstance(v, list) else _enc(Fd, v)
    return out


def _cmp(got, exp):
    for k, v in exp.items():
        if k not in got: return f'{k}: not observed'
        if isinstance(v, tuple) and v and v[0] == 'one-of':
            if got[k] not in v[1]: return f'{k}: got {got[k]!r}, expected one of {v[1]!r}'
        elif got[k] != v or type(got[k]) is not type(v): return f'{k}: got {got[k]!r}, expected {v!r}'
    extra = set(got) - set(exp)
    if extra: return f'observations without expectation: {sorted(extra)}'
    return True


def _check_route(route, info, lifted=False):
    """the constructed type is the field the route asks for; returns (oracle field, None) or (None, message)"""
    kw = dict(order=None, modulus=None, char=None, ext_deg=None, min_order=None)
    kw.update({k: v for k, v in route if k != 'signed'})
    st, sp = o_spec(**kw)
    if st != 'ok': return None, f'route {route} is not a consistent request ({sp}): domain error of the check'
    if not info['is_secfld']: return None, 'not a SecureFiniteField type'
    if info['sub'] is not None and not lifted: return None, 'unexpected lifting under the m = 1 runtime'
    fi = info['sub'] if lifted else info
    for k in ('p', 'd', 'q'):
        if fi[k] != sp[k]: return None, f'field parameter {k} = {fi[k]}, requested {sp[k]}'
    if sp['mod'] is not None and fi['mod'] != sp['mod']: return None, f'field modulus {fi["mod"]} is not the requested {sp["mod"]}'
    if info['bit_length'] != (sp['q'] - 1).bit_length(): return None, f'bit_length {info["bit_length"]} != bit length of q - 1'
    try:
        return _OFc(fi['p'], fi['d'], fi['mod'], fi['prime_cls']), None
    except ValueError as e:
        return None, f'field modulus rejected by the oracle: {e}'


# ===================================================================================== C04 domains
def _prime_routes(p):
    r = [(('order', p),), (('modulus', p),), (('char', p),), (('char', p), ('ext_deg', 1)), (('min_order', p),),
         (('order', p), ('modulus', p), ('char', p), ('ext_deg', 1), ('min_order', p))]
    if p == 2: r.append(())
    if p > 2:
        lo = p - 1
        while not o_is_prime(lo): lo -= 1
        r.append((('min_order', lo + 1),))
    return r


# q -> (p, d, [(encoding, string) of irreducible moduli, the first one is what the least-encoding search finds])
EXT = {4: (2, 2, [(7, 'x^2+x+1')]), 8: (2, 3, [(11, 'x^3+x+1'), (13, 'x^3+x^2+1')]), 16: (2, 4, [(19, 'x^4+x+1'), (25, 'x^4+x^3+1')]),
       32: (2, 5, [(37, 'x^5+x^2+1'), (61, 'x^5+x^4+x^3+x^2+1')]), 64: (2, 6, [(67, 'x^6+x+1')]),
       256: (2, 8, [(283, 'x^8+x^4+x^3+x+1'), (285, 'x^8+x^4+x^3+x^2+1')]),
       9: (3, 2, [(10, 'x^2+1'), (17, 'x^2+2x+2')]), 25: (5, 2, [(27, 'x^2+2'), (38, 'x^2+2x+3')]), 27: (3, 3, [(34, 'x^3+2x+1')]),
       49: (7, 2, [(50, 'x^2+1')]), 81: (3, 4, [(86, 'x^4+x+2')])}


def _ext_routes(q):
    """(primary routes: one per distinct modulus, all element pairs; secondary routes: other ways to ask for the same field)"""
    p, d, mods = EXT[q]
    prim = [(('order', q),)] + [(('modulus', ('poly', p, e)),) for e, _ in mods]
    lo = 2
    r = 2
    while True:                                     # largest power below the least prime r with r**d >= ... : min_order that selects p by ext_deg
        if o_is_prime(r) and r == p: break
        if o_is_prime(r): lo = r ** d + 1
        r += 1
    sec = [(('char', p), ('ext_deg', d)), (('min_order', q), ('char', p)), (('min_order', q // p + 1), ('char', p)), (('min_order', lo), ('ext_deg', d)),
           (('order', q), ('char', p), ('ext_deg', d), ('min_order', q))]
    for e, s in mods:
        sec.append((('modulus', e), ('char', p)))
        sec.append((('modulus', s),) if p == 2 else (('modulus', s), ('char', p)))
        sec.append((('order', q), ('modulus', s)))
    return prim, sec


def _fields(kind, tier):
    if kind == 'prime': return T(tier, [2, 3, 5, 7, 11, 101], [2, 3, 5, 7, 11, 13, 17, 19, 23, 29, 31, 101, 251])
    if kind == 'binary': return T(tier, [4, 8, 16, 256], [4, 8, 16, 32, 64, 256])
    return T(tier, [9, 25, 27], [9, 25, 27, 49, 81])


def _routes(kind, q):
    if kind == 'prime':
        r = _prime_routes(q); return r[:1], r[1:]
    return _ext_routes(q)


def _pq(q):
    if q in EXT: return EXT[q][0]
    return q


def _elems(q, tier):
    """all elements for q <= 16 (thorough 128) and for the odd extension fields up to 27; a lattice sample above"""
    if q <= T(tier, 16, 128) or q in (25, 27): return list(range(q))
    p = _pq(q)
    return lattice(0, q, extra=[p - 1, p, p + 1, q // p, q // p - 1, q // p + 1])


def _few(q):
    return sorted({0, 1, 2 % q, 3 % q, q // 2, q - 2, q - 1} & set(range(q)))


def _reps(tier): return range(T(tier, 1, 3))


def in_pairs(kind):
    def gen(tier):
        for q in _fields(kind, tier):
            prim, sec = _routes(kind, q)
            E = _elems(q, tier)
            for rep in _reps(tier):
                for r in prim:
                    for a in E:
                        for b in E: yield (r, a, b, rep)
            for r in sec:
                for a in _few(q):
                    for b in _few(q): yield (r, a, b, 0)
    return gen


def in_pairs_primary(kind, all_pairs_upto=None):
    def gen(tier):
        for q in _fields(kind, tier):
            prim, sec = _routes(kind, q)
            E = _elems(q, tier)
            if all_pairs_upto and q > all_pairs_upto: E = sorted(set(_few(q)) | set(E[::3]))
            for r in prim + sec[:1]:
                for a in E:
                    for b in E: yield (r, a, b)
    return gen


def in_mixint(kind):
    def gen(tier):
        for q in _fields(kind, tier):
            prim, _ = _routes(kind, q)
            p = _pq(q)
            if q <= T(tier, 16, 32): N = list(range(-2 * q, 2 * q + 1))
            else: N = lattice(-2 * q, 2 * q + 1, extra=[s * k + e for s in (1, -1) for k in (p, 2 * p, q, q // p) for e in (-1, 0, 1)])
            for r in prim:
                for a in _few(q):
                    for n in N: yield (r, a, n)
    return gen


def in_pow(kind):
    def gen(tier):
        for q in _fields(kind, tier):
            prim, sec = _routes(kind, q)
            E = _elems(q, tier)
            X = list(range(-2, q + 1)) if q <= T(tier, 32, 101) else lattice(-2, q + 2, extra=[253, 254, 255, 256, q - 2, q - 1, q])
            X = sorted(set(X) | {254, 255, 2 * q - 2, -(q - 1), -q})
            for rep in _reps(tier):
                for r in prim:
                    for a in E:
                        for e in X:
                            if a or e >= 0: yield (r, a, e, rep)
            for r in sec:
                for a in _few(q):
                    for e in (-1, 0, 1, 2, q - 1, q):
                        if a or e >= 0: yield (r, a, e, 0)
    return gen


def in_unary(kind):
    def gen(tier):
        for q in _fields(kind, tier):
            prim, sec = _routes(kind, q)
            for rep in _reps(tier):
                for r in prim + sec:
                    for a in (_elems(q, tier) if r in prim else _few(q)): yield (r, a, rep)
    return gen


BITQ = {'quick': [2, 4, 8, 16, 256], 'thorough': [2, 4, 8, 16, 32, 64, 256]}


def _bit_routes(q):
    if q == 2: return [(('order', 2),), ()]
    return _ext_routes(q)[0]


def in_bitpairs(full):
    def gen(tier):
        for q in BITQ[tier]:
            E = list(range(q)) if q <= T(tier, 16, 64) else lattice(0, q, extra=[85, 170, 127, 128, 129, 15, 240])
            if not full: E = sorted(set(_few(q)) | set(E[::5]))
            for r in _bit_routes(q):
                for a in E:
                    for b in E: yield (r, a, b)
    return gen


def in_tobits(tier):
    for q in _fields('prime', tier) + BITQ[tier][1:]:
        L = (q - 1).bit_length()
        for sg in ((False, True) if q not in EXT else (False,)):
            rs = [(('order', q),)] if q not in EXT else _ext_routes(q)[0]
            for r in rs:
                if sg: r = r + (('signed', True),)
                for a in _elems(q, tier):
                    for l in ([None] + list(range(1, L + 1)) if q <= 16 else [None, 1, L]):
                        for rep in _reps(tier): yield (r, a, l, rep)


def in_signed(tier):
    for q in _fields('prime', tier) + [4, 9]:
        for a in _elems(q, tier): yield (q, a)


def in_zero(tier):
    for kind in ('prime', 'binary', 'oddext'):
        for q in _fields(kind, tier):
            for r in _routes(kind, q)[0]:
                for form in ('sec/sec0', 'int/sec0', 'fld/sec0', 'sec0**-1', 'sec0**-2', 'reciprocal(sec0)'):
                    for a in (0, 1, q - 1): yield (r, form, a)


def in_retry(tier):
    for kind in ('prime', 'binary', 'oddext'):
        for q in _fields(kind, tier):
            for r in _routes(kind, q)[0]:
                for a in (_elems(q, tier) if q <= 27 else _few(q)):
                    if a:
                        for nz in (1, 2, 5):
                            for form in ('reciprocal', 'div', 'pow'): yield (r, a, nz, form)


# ===================================================================================== C04 calls and checks
def c_arith(route, a, b, rep=0):
    mpc, S = _sec(route)
    x, y = S(a), S(b)
    th = {'add': lambda: x + y, 'sub': lambda: x - y, 'mul': lambda: x * y, 'eq': lambda: x == y, 'ne': lambda: x != y,
          'operands': lambda: [x, y]}
    if b: th['div'] = lambda: x / y
    return dict(info=_info(S), ops=_run(mpc, S.field, th))


def _exp_arith(O, a, b, div=True):
    e = {'add': O.add(a, b), 'sub': O.sub(a, b), 'mul': O.mul(a, b), 'eq': int(a == b), 'ne': int(a != b)}
    if div and b: e['div'] = O.mul(a, O.inv(b))
    return e


def k_arith(args, res, exc):
    route, a, b = args[:3]
    if exc is not None: return f'unexpected {type(exc).__name__}: {exc}'
    O, msg = _check_route(route, res['info'])
    if msg: return msg
    e = _exp_arith(O, a, b); e['operands'] = [a, b]
    return _cmp(res['ops'], e)


def c_mixed(route, a, b):
    """secure x public and public x secure, the public operand being a Python int or an element of the plain field"""
    mpc, S = _sec(route)
    Fd = S.field
    x, y = S(a), S(b)
    th = {}
    for tag, pa, pb in (('int', a, b), ('fld', Fd(a), Fd(b))):
        th.update({f'add:sec,{tag}': lambda pb=pb: x + pb, f'sub:sec,{tag}': lambda pb=pb: x - pb, f'mul:sec,{tag}': lambda pb=pb: x * pb,
                   f'div:sec,{tag}': lambda pb=pb: x / pb, f'eq:sec,{tag}': lambda pb=pb: x == pb, f'ne:sec,{tag}': lambda pb=pb: x != pb,
                   f'add:{tag},sec': lambda pa=pa: pa + y, f'sub:{tag},sec': lambda pa=pa: pa - y, f'mul:{tag},sec': lambda pa=pa: pa * y,
                   f'eq:{tag},sec': lambda pa=pa: pa == y, f'ne:{tag},sec': lambda pa=pa: pa != y})
        if b: th[f'div:{tag},sec'] = lambda pa=pa: pa / y
    return dict(info=_info(S), ops=_run(mpc, Fd, th))


def k_mixed(args, res, exc):
    route, a, b = args
    if exc is not None: return f'unexpected {type(exc).__name__}: {exc}'
    O, msg = _check_route(route, res['info'])
    if msg: return msg
    base = _exp_arith(O, a, b, div=False)
    e = {}
    for tag in ('int', 'fld'):
        for op, v in base.items():
            e[f'{op}:sec,{tag}'] = v; e[f'{op}:{tag},sec'] = v
        e[f'div:sec,{tag}'] = O.mul(a, O.inv(b)) if b else 'raise ZeroDivisionError'
        if b: e[f'div:{tag},sec'] = O.mul(a, O.inv(b))
    return _cmp(res['ops'], e)


def c_mixint(route, a, n):
    mpc, S = _sec(route)
    x = S(a)
    th = {'add:sec,int': lambda: x + n, 'add:int,sec': lambda: n + x, 'sub:sec,int': lambda: x - n, 'sub:int,sec': lambda: n - x,
          'mul:sec,int': lambda: x * n, 'mul:int,sec': lambda: n * x, 'div:sec,int': lambda: x / n, 'eq:sec,int': lambda: x == n,
          'eq:int,sec': lambda: n == x, 'ne:sec,int': lambda: x != n, 'init': lambda: S(n)}
    if a: th['div:int,sec'] = lambda: n / x
    return dict(info=_info(S), ops=_run(mpc, S.field, th))


def k_mixint(args, res, exc):
    route, a, n = args
    if exc is not None: return f'unexpected {type(exc).__name__}: {exc}'
    O, msg = _check_route(route, res['info'])
    if msg: return msg
    b = O.conv(n)                                  # the field element the public integer stands for (finfields contract, C20)
    e = {'add:sec,int': O.add(a, b), 'add:int,sec': O.add(a, b), 'sub:sec,int': O.sub(a, b), 'sub:int,sec': O.sub(b, a),
         'mul:sec,int': O.mul(a, b), 'mul:int,sec': O.mul(a, b), 'div:sec,int': O.mul(a, O.inv(b)) if b else 'raise ZeroDivisionError',
         'eq:sec,int': int(a == b), 'eq:int,sec': int(a == b), 'ne:sec,int': int(a != b), 'init': b}
    if a: e['div:int,sec'] = O.mul(b, O.inv(a))
    return _cmp(res['ops'], e)


def c_pow(route, a, e, rep=0):
    mpc, S = _sec(route)
    x = S(a)
    return dict(info=_info(S), ops=_run(mpc, S.field, {'pow': lambda: x ** e}))


def k_pow(args, res, exc):
    route, a, e = args[:3]
    if exc is not None: return f'unexpected {type(exc).__name__}: {exc}'
    O, msg = _check_route(route, res['info'])
    if msg: return msg
    return _cmp(res['ops'], {'pow': O.pow(a, e)})


def c_unary(route, a, rep=0):
    mpc, S = _sec(route)
    x = S(a)
    th = {'neg': lambda: -x, 'pos': lambda: +x, 'is_zero': lambda: mpc.is_zero(x), 'eq0': lambda: x == 0, 'self-eq': lambda: x == x,
          'sub-self': lambda: x - x, 'fld-init': lambda: S(S.field(a)), 'double-neg': lambda: -(-x)}
    if a: th['reciprocal'] = lambda: mpc.reciprocal(x); th['div-self'] = lambda: x / x; th['1/x'] = lambda: 1 / x
    return dict(info=_info(S), ops=_run(mpc, S.field, th))


def k_unary(args, res, exc):
    route, a = args[:2]
    if exc is not None: return f'unexpected {type(exc).__name__}: {exc}'
    O, msg = _check_route(route, res['info'])
    if msg: return msg
    e = {'neg': O.neg(a), 'pos': a, 'is_zero': int(a == 0), 'eq0': int(a == 0), 'self-eq': 1, 'sub-self': 0, 'fld-init': a, 'double-neg': a}
    if a: e.update({'reciprocal': O.inv(a), 'div-self': 1, '1/x': O.inv(a)})
    return _cmp(res['ops'], e)


def c_bitwise(route, a, b):
    mpc, S = _sec(route)
    x, y = S(a), S(b)
    th = {'and': lambda: x & y, 'or': lambda: x | y, 'xor': lambda: x ^ y, 'invert': lambda: ~x}
    return dict(info=_info(S), ops=_run(mpc, S.field, th))


def k_bitwise(args, res, exc):
    route, a, b = args
    if exc is not None: return f'unexpected {type(exc).__name__}: {exc}'
    O, msg = _check_route(route, res['info'])
    if msg: return msg
    q = O.q
    return _cmp(res['ops'], {'and': a & b, 'or': a | b, 'xor': a ^ b, 'invert': ~a & (q - 1)})


def c_bitwise_public(side):
    def call(route, a, b):
        mpc, S = _sec(route)
        x = S(a)
        fb = S.field(b)
        if side == 'right':
            th = {'and:int': lambda: x & b, 'or:int': lambda: x | b, 'xor:int': lambda: x ^ b,
                  'and:fld': lambda: x & fb, 'or:fld': lambda: x | fb, 'xor:fld': lambda: x ^ fb}
        else:
            th = {'and:int': lambda: b & x, 'or:int': lambda: b | x, 'xor:int': lambda: b ^ x,
                  'and:fld': lambda: fb & x, 'or:fld': lambda: fb | x, 'xor:fld': lambda: fb ^ x}
        return dict(info=_info(S), ops=_run(mpc, S.field, th))
    return call


REFUSAL = ('raise TypeError', 'raise AttributeError')


def k_bitwise_public(args, res, exc):
    """a public operand: the bitwise result, or a refusal (TypeError; the AttributeError that to_bits raises on a public operand
    is counted as a refusal too) -- never a different value"""
    route, a, b = args
    if exc is not None: return f'unexpected {type(exc).__name__}: {exc}'
    O, msg = _check_route(route, res['info'])
    if msg: return msg
    e = {}
    for tag in ('int', 'fld'):
        e[f'and:{tag}'] = ('one-of', (a & b,) + REFUSAL); e[f'or:{tag}'] = ('one-of', (a | b,) + REFUSAL); e[f'xor:{tag}'] = ('one-of', (a ^ b,) + REFUSAL)
    return _cmp(res['ops'], e)


def c_tobits(route, a, l, rep=0):
    mpc, S = _sec(route)
    x = S(a)
    th = {'bits': (lambda: mpc.to_bits(x)) if l is None else (lambda: mpc.to_bits(x, l)),
          'roundtrip': lambda: mpc.from_bits(mpc.to_bits(x) if l is None else mpc.to_bits(x, l))}
    return dict(info=_info(S), ops=_run(mpc, S.field, th))


def k_tobits(args, res, exc):
    route, a, l = args[:3]
    if exc is not None: return f'unexpected {type(exc).__name__}: {exc}'
    O, msg = _check_route(route, res['info'])
    if msg: return msg
    signed = dict(route).get('signed', False)
    if O.d == 1 and res['info']['signed'] != signed: return f'is_signed = {res["info"]["signed"]}, requested {signed}'
    L = (O.q - 1).bit_length()
    n = L if l is None else l
    v = srep(a, O.p) if (signed and O.d == 1) else a            # the integer the element stands for
    w = v % 2 ** n                                              # two's complement window of n bits (== v for 0 <= v < 2^n)
    e = {'bits': [(w >> i) & 1 for i in range(n)], 'roundtrip': O.conv(w)}
    return _cmp(res['ops'], e)


def c_signed(q, a):
    mpc = _mpc()
    out = {}
    for tag, sg in (('signed', True), ('unsigned', False), ('signed-again', True)):
        S = mpc.SecFld(q, signed=sg)
        z = mpc.run(mpc.output(S(a) + 0))
        out[tag] = (int(z), _enc(S.field, z), S.field.is_signed if S.field.ext_deg == 1 else None)
    mpc.SecFld(q)                      # leave the shared field class unsigned for whoever comes next in this process
    return out


def k_signed(args, res, exc):
    q, a = args
    if exc is not None: return f'unexpected {type(exc).__name__}: {exc}'
    prime = q not in EXT
    s = (srep(a, q), a, True) if prime else (a, a, None)
    u = (a, a, False) if prime else (a, a, None)
    return _cmp(res, {'signed': s, 'unsigned': u, 'signed-again': s})


class _Cutoff(Exception):
    pass


def _patched_random(mpc, zeros, limit):
    """replace mpc._random by a stand-in returning the zero element `zeros` times and real randomness afterwards; after `limit`
    draws it raises _Cutoff.  Returns (counter list, restore function)."""
    real = mpc._random
    cnt = [0]

    def fake(sftype, bound=None):
        cnt[0] += 1
        if cnt[0] > limit: raise _Cutoff()
        if cnt[0] <= zeros:
            field = sftype.field if hasattr(sftype, 'field') else sftype
            return field(0)
        return real(sftype, bound)
    mpc._random = fake

    def restore():
        del mpc._random
    return cnt, restore


def c_zero(route, form, a):
    mpc, S = _sec(route)
    z, x = S(0), S(a)
    cnt, restore = _patched_random(mpc, 0, 8)
    try:
        try:
            if form == 'sec/sec0': r = x / z
            elif form == 'int/sec0': r = a / z
            elif form == 'fld/sec0': r = S.field(a) / z
            elif form == 'sec0**-1': r = z ** -1
            elif form == 'sec0**-2': r = z ** -2
            else: r = mpc.reciprocal(z)
            v = mpc.run(mpc.output(r))
        except _Cutoff:
            return dict(outcome='no value: retry loop cut off after 8 draws')
        return dict(outcome='value', value=_enc(S.field, v), draws=cnt[0])
    finally:
        restore()


def k_zero(args, res, exc):
    if exc is not None:
        return isinstance(exc, ZeroDivisionError) or f'unexpected {type(exc).__name__}: {exc}'
    return res['outcome'].startswith('no value') or f'division by a secret zero produced the value {res.get("value")!r}'


def c_retry(route, a, nz, form):
    mpc, S = _sec(route)
    x = S(a)
    cnt, restore = _patched_random(mpc, nz, 10 ** 6)
    try:
        r = mpc.reciprocal(x) if form == 'reciprocal' else S(1) / x if form == 'div' else x ** -1
        v = mpc.run(mpc.output(r))
        return dict(info=_info(S), value=_enc(S.field, v), draws=cnt[0])
    finally:
        restore()


def k_retry(args, res, exc):
    route, a, nz, form = args
    if exc is not None: return f'unexpected {type(exc).__name__}: {exc}'
    O, msg = _check_route(route, res['info'])
    if msg: return msg
    if res['draws'] <= nz: return f'only {res["draws"]} random draws although the first {nz} masks were zero'
    return res['value'] == O.inv(a) or f'got {res["value"]!r}, expected the inverse {O.inv(a)}'


# ===================================================================================== stand-in runtimes (type construction only)
class _Stub:
    def __init__(self, m, t, k=30):
        self.threshold = t
        self.parties = [None] * m
        self.options = types.SimpleNamespace(sec_param=k, bit_length=32)


def _clear():
    from mpyc import sectypes
    sectypes._SecFld.cache_clear(); sectypes._SecInt.cache_clear(); sectypes._SecFxp.cache_clear()


def _under_stub(m, t, k, thunk):
    _mpc()                                                   # the real runtime exists (and is what gets restored)
    from mpyc import sectypes
    old = sectypes.runtime
    sectypes.runtime = _Stub(m, t, k)
    _clear()
    try:
        return thunk()
    finally:
        sectypes.runtime = old
        _clear()


def c_lifting(m, t, q, signed):
    def build():
        from mpyc import sectypes
        S = sectypes.SecFld(order=q, signed=signed)
        info = _info(S)
        Fd, Sub = S.field, S.subfield
        obs = dict(info=info)
        if Sub is not None:
            oc, sh, shf, wrap = [], [], [], []
            for v in range(q):
                z = S._output_conversion(Fd(v))
                oc.append((type(z) is Sub, _enc(Sub, z) if type(z) is Sub else repr(type(z))))
                sh.append(_enc(Fd, S(v).share)); shf.append(_enc(Fd, S(Sub(v)).share)); wrap.append(_enc(Fd, S(v + q).share))
                wrap.append(_enc(Fd, S(v - q).share))
            obs.update(outconv=oc, share_int=sh, share_sub=shf, share_wrap=wrap)
        else:
            obs.update(share_int=[_enc(Fd, S(v).share) for v in range(q)])
        return obs
    return _under_stub(m, t, 30, build)


def k_lifting(args, res, exc):
    m, t, q, signed = args
    ext = q in EXT
    p = _pq(q)
    must_lift = t > 0 and m >= q
    if exc is not None:
        if must_lift and ext and isinstance(exc, AssertionError): return True      # documented: "TODO: cover case ext_deg > 1"
        return f'unexpected {type(exc).__name__}: {exc}'
    info = res['info']
    if not info['is_secfld']: return 'not a SecureFiniteField type'
    if t > 0 and not info['q'] > m: return f'field of order {info["q"]} for m = {m} parties and threshold {t} > 0'
    if info['bit_length'] != (q - 1).bit_length(): return 'bit_length is not that of the requested field'
    if not must_lift:
        if info['sub'] is not None or info['has_outconv']: return 'lifting although t == 0 or m < q'
        if (info['q'], info['p']) != (q, p): return f'field of order {info["q"]}, requested {q}'
        try: _OFc(info['p'], info['d'], info['mod'], info['prime_cls'])
        except ValueError as e: return f'field modulus rejected by the oracle: {e}'
        if not ext and info['signed'] != signed: return 'is_signed differs from the request'
        return res['share_int'] == list(range(q)) or 'S(v).share is not the element v'
    sub = info['sub']
    if sub is None: return f'no lifting although m = {m} >= q = {q} and t = {t} > 0'
    if (sub['q'], sub['p']) != (q, p): return f'subfield of order {sub["q"]}, requested {q}'
    if not ext and (not sub['prime_cls'] or sub['signed'] != signed): return 'subfield is not the requested (signed/unsigned) prime field'
    if info['p'] != p: return 'extension field of another characteristic'
    if info['q'] != p ** info['d'] or info['d'] < 2 or info['d'] % sub['d'] != 0: return 'field is not a proper extension of the requested field'
    try: _OFc(info['p'], info['d'], info['mod'], info['prime_cls'])
    except ValueError as e: return f'extension modulus rejected by the oracle: {e}'
    if not info['has_outconv']: return 'no output conversion back to the requested field'
    if res['outconv'] != [(True, v) for v in range(q)]: return f'output conversion does not return the subfield elements: {res["outconv"][:4]}'
    if res['share_int'] != list(range(q)) or res['share_sub'] != list(range(q)): return 'embedding of the subfield elements is not the constant polynomial'
    if res['share_wrap'] != [v for v in range(q) for _ in (0, 1)]: return 'integers are not reduced modulo the subfield before embedding'
    return True


def in_lifting(tier):
    for m in range(1, T(tier, 10, 13)):
        for t in range(0, m):
            if 2 * t < m:
                for q in (2, 3, 5, 7, 11, 4, 8, 9):
                    for sg in (False, True): yield (m, t, q, sg)


def c_lifted_ops(m, t, q, a, b):
    """type built for (m, t) under the stand-in, then used at the VALUE level with the real m = 1 runtime (no shares exchanged)"""
    def build():
        from mpyc import sectypes
        return sectypes.SecFld(order=q)
    S = _under_stub(m, t, 30, build)
    mpc = _mpc()
    info = _info(S)
    if S.subfield is None: return dict(info=info, ops={})
    Sub = S.subfield
    x, y = S(a), S(b)
    th = {'add': lambda: x + y, 'sub': lambda: x - y, 'mul': lambda: x * y, 'eq': lambda: x == y, 'ne': lambda: x != y, 'neg': lambda: -x,
          'is_zero': lambda: mpc.is_zero(x), 'pow2': lambda: x ** 2, 'powq': lambda: x ** q, 'mix-int': lambda: x + b, 'mix-sub': lambda: Sub(a) * y,
          'operands': lambda: [x, y]}
    if b: th.update({'div': lambda: x / y, 'pow-1': lambda: y ** -1, 'div-int': lambda: a / y})
    if q == 2: th.update({'and': lambda: x & y, 'or': lambda: x | y, 'xor': lambda: x ^ y, 'invert': lambda: ~x})
    th['bits'] = lambda: mpc.to_bits(x)
    return dict(info=info, ops=_run(mpc, Sub, th))


def k_lifted_ops(args, res, exc):
    m, t, q, a, b = args
    if exc is not None: return f'unexpected {type(exc).__name__}: {exc}'
    info = res['info']
    if info['sub'] is None: return f'no lifting although m = {m} >= q = {q} and t = {t} > 0'
    if info['sub']['q'] != q or not info['q'] > m: return 'subfield/field orders wrong'
    O = _OFc(q, 1, q, True)
    e = _exp_arith(O, a, b)
    # a public element of the requested field as operand: the product, or the TypeError the code raises (_coerce2 only knows the extension field)
    e.update({'neg': O.neg(a), 'is_zero': int(a == 0), 'pow2': O.mul(a, a), 'powq': a, 'mix-int': O.add(a, b), 'mix-sub': ('one-of', (O.mul(a, b), 'raise TypeError')),
              'operands': [a, b]})
    if b: e.update({'pow-1': O.inv(b), 'div-int': O.mul(a, O.inv(b))})
    if q == 2: e.update({'and': a & b, 'or': a | b, 'xor': a ^ b, 'invert': 1 - a})
    L = (q - 1).bit_length()
    bits = [(a >> i) & 1 for i in range(L)]
    # bit decomposition of a lifted odd prime field: the code refuses ("Binary field or prime field required"): no value, no wrong value
    e['bits'] = bits if q == 2 else ('one-of', (bits, 'raise TypeError'))
    return _cmp(res['ops'], e)


def in_lifted_ops(tier):
    for (m, t, q) in ((3, 1, 2), (4, 1, 2), (5, 2, 2), (7, 3, 2), (8, 3, 2), (9, 4, 2), (3, 1, 3), (4, 1, 3), (8, 3, 3), (9, 4, 3), (5, 2, 5), (7, 3, 5),
                                                  (9, 4, 5), (7, 3, 7), (9, 4, 7)) + T(tier, (), ((11, 5, 11), (12, 5, 11), (25, 12, 5), (27, 13, 3), (49, 24, 7))):
        for a in range(q):
            for b in range(q): yield (m, t, q, a, b)


# ===================================================================================== C39: SecFld arguments
ORDERS = [None, 2, 3, 4, 5, 7, 8, 9, 16, 25, 27, 32, 49, 64, 6, 10, 12, 15]
MOD_INT = [2, 3, 5, 7, 11, 19, 4, 9, 13, 25]
MOD_POLY = [('poly', 2, 7), ('poly', 2, 19), ('poly', 2, 11), ('poly', 2, 5), ('poly', 2, 3), ('poly', 3, 10), ('poly', 3, 17), ('poly', 3, 11), ('poly', 5, 27),
            ('poly', 5, 26), ('poly', 7, 50), ('poly', 3, 34), ('poly', 2, 67), ('poly', 3, 23)]
MOD_STR = ['x^2+x+1', 'x^4+x+1', 'x^2+1', 'x^3+x+1', 'x^2+2x+2', 'x^3+2x+1', 'x+1']
CHARS = [None, 2, 3, 5, 7]
DEGS = [None, 1, 2, 3]
MINS = [None, 2, 5, 17, 70]


def _conflict(order, modulus, char, ext_deg, min_order):
    """the request names an irreducible polynomial modulus (object, string, or integer > char) of the right characteristic whose
    degree differs from the (in itself consistent) degree requested through order= / ext_deg=  (isolated in its own entry, see
    secfld_args_degree_conflict)"""
    if not _is_poly_mod(order, modulus, char): return False
    st, why = o_spec(order, modulus, char, ext_deg, min_order)
    if st != 'error' or not why.startswith('degrees requested'): return False
    return o_spec(order, None, char, ext_deg, None)[0] == 'ok'


def _char_of(order, char):
    if char is not None: return char
    if order is not None:
        st, sp = o_spec(order, None, None, None, None)
        if st == 'ok': return sp['p']
    return None


def _is_poly_mod(order, modulus, char):
    if isinstance(modulus, (str, tuple)): return True
    p = _char_of(order, char)
    return isinstance(modulus, int) and p is not None and modulus > p


def in_args(mods, conflict):
    def gen(tier):
        for order in (ORDERS[1:] + ORDERS[:1] if conflict else ORDERS):
            for modulus in mods:
                for char in CHARS:
                    for ext_deg in DEGS:
                        for min_order in MINS:
                            if (modulus is not None and _conflict(order, modulus, char, ext_deg, min_order)) != conflict: continue
                            for signed in (False, True):
                                yield (order, modulus, char, ext_deg, min_order, signed)
    return gen


def c_secfld(order, modulus, char, ext_deg, min_order, signed):
    mpc = _mpc()
    kw = _kw((('order', order), ('modulus', modulus), ('char', char), ('ext_deg', ext_deg), ('min_order', min_order), ('signed', signed)))
    S = mpc.SecFld(**kw)
    return dict(info=_info(S), m=len(mpc.parties), t=mpc.threshold)


def k_secfld(args, res, exc):
    order, modulus, char, ext_deg, min_order, signed = args
    st, sp = o_spec(order, modulus, char, ext_deg, min_order)
    if st == 'error':
        if exc is None:
            i = res['info']
            return f'inconsistent arguments ({sp}) accepted: returned a type over GF({i["p"]}^{i["d"]}) with modulus {i["mod"]}'
        return isinstance(exc, (AssertionError, ValueError, TypeError)) or f'inconsistent arguments ({sp}) must be rejected with AssertionError/ValueError/TypeError, got {type(exc).__name__}'
    if exc is not None: return f'consistent arguments rejected with {type(exc).__name__}: {exc}; requested GF({sp["p"]}^{sp["d"]})'
    info = res['info']
    if not info['is_secfld']: return 'not a SecureFiniteField type'
    if res['t'] == 0 and info['sub'] is not None: return 'lifting with threshold 0'
    for k, what in (('q', 'order'), ('p', 'characteristic'), ('d', 'extension degree')):
        if info[k] != sp[k]: return f'{what} {info[k]} but the arguments ask for {sp[k]} (GF({sp["p"]}^{sp["d"]}))'
    if sp['mod'] is not None and info['mod'] != sp['mod']: return f'modulus {info["mod"]} is not the requested {sp["mod"]}'
    if min_order is not None and info['q'] < min_order: return 'order below min_order'
    if info['prime_cls'] and info['signed'] != signed: return f'is_signed = {info["signed"]}, requested {signed}'
    if info['bit_length'] != (sp['q'] - 1).bit_length(): return 'bit_length wrong'
    # the field really is a field of that order: prime modulus / irreducible polynomial of degree d (any nonzero leading coefficient)
    if info['prime_cls']:
        return (o_is_prime(info['p']) and info['d'] == 1 and info['mod'] == info['p']) or 'prime-field class with non-prime modulus'
    dm, irr = _o_poly_ok(digits(info['mod'], info['p']), info['p'])
    return (dm == info['d'] and irr) or 'modulus of the returned field is not irreducible of degree ext_deg'


def in_minorder_char(powers):
    def gen(tier):
        for char in (2, 3, 5, 7):
            if powers:
                M = sorted({char ** e + s for e in range(1, T(tier, 7, 12)) for s in (-1, 0, 1)} - {0, 1})
            else:
                M = [x for x in range(2, T(tier, 400, 3000)) if all(x - s != char ** e for e in range(1, 13) for s in (-1, 0, 1))]
            for mo in M:
                for sg in (False,): yield (None, None, char, None, mo, sg)
    return gen


def in_minorder_prime(tier):
    for d in (None, 1, 2, 3, 4):
        for mo in range(2, T(tier, 400, 3000)):
            yield (None, None, None, d, mo, False)


# ===================================================================================== C39: SecInt / SecFxp field vs number of parties
def c_pfield(kind, l, f, m, k):
    def build():
        from mpyc import sectypes
        S = sectypes.SecInt(l) if kind == 'int' else sectypes.SecFxp(l, f)
        return dict(order=S.field.order, d=S.field.ext_deg, bit_length=S.bit_length, frac=S.frac_length)
    return _under_stub(m, (m - 1) // 2, k, build)


def k_pfield(args, res, exc):
    kind, l, f, m, k = args
    t = (m - 1) // 2
    if exc is not None:
        # refused only when the field really is too small: the prime of a secure integer type is the largest Blum prime below
        # 2^(l+f+k+2) (contract of find_prime_root, C26), recomputed here
        if isinstance(exc, AssertionError) and t > 0 and _blum_below(l + f + k + 2) <= m: return True
        return f'unexpected {type(exc).__name__}: {exc}'
    if t > 0 and not res['order'] > m: return f'field of order {res["order"]} for m = {m} parties with threshold {t} > 0'
    return (o_is_prime(res['order']) and res['d'] == 1 and res['bit_length'] == l and res['frac'] == f) or 'not the requested prime-field type'


@functools.cache
def _blum_below(n):
    x = 2 ** n - 1
    while not (x % 4 == 3 and o_is_prime(x)): x -= 1
    return x


def in_pfield(tier):
    for kind in ('int', 'fxp'):
        for l in range(1, T(tier, 33, 65)):
            for f in ((0,) if kind == 'int' else sorted({0, 1, l // 2, l})):
                for m in (1, 2, 3, 7, 51, 255) + T(tier, (), (4, 13, 1023)):
                    for k in (1, 8, 30): yield (kind, l, f, m, k)


# ===================================================================================== C39: threshold gate
_RT_MODS = ('sectypes', 'asyncoro', 'mpctools', 'seclists', 'secpols', 'secgroups', 'random', 'statistics')


def _setup(argv_tail):
    """run the real mpyc.runtime.setup() with the given command line (never -M: no processes are started), restore every module
    global it replaces; returns (runtime or None, exception or None, 'runtime installed in sectypes')"""
    _mpc()
    import mpyc.runtime as R
    mods = [sys.modules[f'mpyc.{n}'] for n in _RT_MODS if f'mpyc.{n}' in sys.modules]
    saved = [(mo, mo.runtime) for mo in mods]
    argv = sys.argv
    from mpyc import sectypes
    before = sectypes.runtime
    try:
        sys.argv = ['x', '--no-log'] + list(argv_tail)
        rt = exc = None
        try:
            rt = R.setup()
        except Exception as e:          # noqa: the contract decides
            exc = e
        return rt, exc, sectypes.runtime is not before
    finally:
        sys.argv = argv
        for mo, r in saved: mo.runtime = r


def _argv(m, t, via):
    a = []
    if via == 'P':
        for i in range(m): a += ['-P', f'localhost:{11500 + i}']
        a += ['-I', '0']
    if t is not None: a += ['-T', str(t)]
    return a


def c_setup(m, t, via):
    rt, exc, installed = _setup(_argv(m, t, via))
    return dict(raised=type(exc).__name__ if exc else None, installed=installed, m=len(rt.parties) if rt else None, t=rt.threshold if rt else None)


def k_setup(args, res, exc):
    m, t, via = args
    if exc is not None: return f'unexpected {type(exc).__name__}: {exc}'
    if t is not None and 2 * t >= m:
        if res['raised'] not in ('AssertionError', 'ValueError'): return f'threshold {t} for {m} parties not refused (raised {res["raised"]}, runtime threshold {res["t"]})'
        return not res['installed'] or 'refused, but a runtime was installed all the same'
    if res['raised']: return f'valid threshold refused with {res["raised"]}'
    te = (m - 1) // 2 if t is None else t
    return (res['m'] == m and res['t'] == te and 2 * res['t'] < res['m'] and res['installed']) or f'runtime has m = {res["m"]}, threshold {res["t"]}; expected {m}, {te}'


def c_setter(m, t0, t):
    rt, exc, _ = _setup(_argv(m, t0, 'P'))
    if exc: raise exc
    raised = None
    try:
        rt.threshold = t
    except Exception as e:          # noqa
        raised = type(e).__name__
    return dict(raised=raised, after=rt.threshold)


def k_setter(args, res, exc):
    m, t0, t = args
    if exc is not None: return f'unexpected {type(exc).__name__}: {exc}'
    if 2 * t >= m:
        return res['raised'] is not None or f'Runtime.threshold = {t} accepted for m = {m} parties (2t >= m): threshold is now {res["after"]}'
    return (res['raised'] is None and res['after'] == t) or f'valid threshold {t} not installed (raised {res["raised"]}, threshold {res["after"]})'


def c_setup_ast():
    """structure of setup(): the statement creating Runtime(pid, parties, options) is dominated by an assert equivalent to
    2*options.threshold < m, nothing in between touches m / options, and the default threshold satisfies it"""
    import ast, mpyc
    src = open(os.path.join(os.path.dirname(mpyc.__file__), 'runtime.py')).read()
    tree = ast.parse(src)
    fn = [n for n in tree.body if isinstance(n, ast.FunctionDef) and n.name == 'setup']
    out = dict(debug=__debug__, n_setup=len(fn))
    if len(fn) != 1: return out
    body = fn[0].body

    def is_rt(c): return isinstance(c, ast.Call) and isinstance(c.func, ast.Name) and c.func.id == 'Runtime'
    out['runtime_calls_module'] = sum(1 for c in ast.walk(tree) if is_rt(c))
    idx = [i for i, st in enumerate(body) if any(is_rt(c) for c in ast.walk(st))]
    out['runtime_stmt_toplevel'] = len(idx) == 1 and isinstance(body[idx[0]], ast.Assign) and is_rt(body[idx[0]].value)
    if not out['runtime_stmt_toplevel']: return out
    i_rt = idx[0]
    call = body[i_rt].value
    out['runtime_args'] = [a.id if isinstance(a, ast.Name) else '?' for a in call.args]

    def table(expr, dom):
        code = compile(ast.fix_missing_locations(ast.Expression(expr)), '<setup>', 'eval')
        tab = []
        for m, t in dom:
            try: tab.append(eval(code, {'__builtins__': {}}, {'m': m, 'options': types.SimpleNamespace(threshold=t)}))
            except Exception: return None
        return tab
    dom = [(m, t) for m in range(1, 10) for t in range(0, 10)]
    gate = None
    for j in range(i_rt):
        if isinstance(body[j], ast.Assert):
            tab = table(body[j].test, dom)
            if tab is not None and [bool(v) for v in tab] == [2 * t < m for m, t in dom]: gate = j
    out['gate'] = gate is not None
    if gate is None: return out
    out['gate_line'] = body[gate].lineno

    def touches(st):
        for n in ast.walk(st):
            tg = []
            if isinstance(n, ast.Assign): tg = n.targets
            elif isinstance(n, (ast.AugAssign, ast.AnnAssign, ast.NamedExpr)): tg = [n.target]
            elif isinstance(n, (ast.For, ast.AsyncFor)): tg = [n.target]
            elif isinstance(n, (ast.Delete,)): tg = n.targets
            for x in tg:
                for y in ast.walk(x):
                    if isinstance(y, ast.Name) and y.id in ('m', 'options', 'parties'): return True
                    if isinstance(y, ast.Attribute) and y.attr == 'threshold': return True
        return False
    out['touched_between'] = [body[j].lineno for j in range(gate + 1, i_rt) if touches(body[j])]
    # default threshold
    dflt = None
    for j in range(gate):
        st = body[j]
        if isinstance(st, ast.If) and isinstance(st.test, ast.Compare) and isinstance(st.test.left, ast.Attribute) and st.test.left.attr == 'threshold' \
                and len(st.test.ops) == 1 and isinstance(st.test.ops[0], ast.Is):
            for s in st.body:
                if isinstance(s, ast.Assign) and isinstance(s.targets[0], ast.Attribute) and s.targets[0].attr == 'threshold': dflt = s.value
    out['default_found'] = dflt is not None
    if dflt is not None:
        code = compile(ast.fix_missing_locations(ast.Expression(dflt)), '<setup>', 'eval')
        out['default_values'] = [eval(code, {'__builtins__': {}}, {'m': m}) for m in range(1, 100)]
    return out


def k_setup_ast(args, res, exc):
    if exc is not None: return f'unexpected {type(exc).__name__}: {exc}'
    if not res['debug']: return 'assert statements are disabled (python -O): the gate is an assert'
    if res['n_setup'] != 1: return 'setup() not found'
    if res['runtime_calls_module'] != 1: return f'{res["runtime_calls_module"]} Runtime(...) creations in runtime.py, expected the one in setup()'
    if not res['runtime_stmt_toplevel']: return 'Runtime(...) is not created by one top-level assignment in setup()'
    if res['runtime_args'][1:] != ['parties', 'options']: return f'Runtime created from {res["runtime_args"]}'
    if not res['gate']: return 'no assert equivalent to 2*options.threshold < m (for all 1 <= m <= 9, 0 <= t <= 9) before Runtime(...) in the same block'
    if res['touched_between']: return f'm / parties / options modified between the assert and Runtime(...): lines {res["touched_between"]}'
    if not res['default_found']: return 'default threshold assignment not found'
    dv = res['default_values']
    bad = [m for m, v in zip(range(1, 100), dv) if not (isinstance(v, int) and v >= 0 and 2 * v < m)]
    if bad: return f'default threshold violates 2t < m for m = {bad[:5]}'
    return dv == [(m - 1) // 2 for m in range(1, 100)] or 'default threshold is not (m-1)//2'


# ===================================================================================== registry
_TXT_F = {'prime': 'GF(2), GF(3), GF(5), GF(7), GF(11), GF(101) (thorough: + 13, 17, 19, 23, 29, 31, 251)',
          'binary': 'GF(4), GF(8), GF(16), GF(256) (thorough: + GF(32), GF(64)); two moduli for GF(8), GF(16), GF(256)',
          'oddext': 'GF(9) (two moduli), GF(25) (two moduli), GF(27) (thorough: + GF(49), GF(81))'}
_TXT_E = 'all elements for q <= 16 (thorough 128) and GF(25), GF(27); lattice sample (ends, middle, stride, neighbours of p and q/p) above'
_TXT_R = ('every route of SecFld yielding the field: order=, modulus= (int / polynomial object / string), char[+ext_deg], min_order[+char|ext_deg], all at once; '
          'all pairs on the order= and polynomial-object routes, 7x7 sample on the others')

_C04 = []
for _k in ('prime', 'binary', 'oddext'):
    _C04 += [
        Native(f'arith_pairs_{_k}', 'mpyc.runtime.Runtime.div', c_arith, k_arith, in_pairs(_k),
               f'm = 1 runtime; {_TXT_F[_k]}; {_TXT_E}; {_TXT_R}; x+y, x-y, x*y, x/y (y != 0), x==y, x!=y on secure operands; each case once (thorough: 3 times)'),
        Native(f'arith_mixed_{_k}', 'mpyc.sectypes.SecureNumber._coerce', c_mixed, k_mixed, in_pairs_primary(_k, 32),
               f'm = 1 runtime; {_TXT_F[_k]}; secure (op) public and public (op) secure with the public operand an int in range(q) or a plain field element; '
               'all pairs for q <= 32, sample above; division by a public zero must raise ZeroDivisionError'),
        Native(f'mix_int_{_k}', 'mpyc.sectypes.SecureFiniteField.__init__', c_mixint, k_mixint, in_mixint(_k),
               f'm = 1 runtime; {_TXT_F[_k]}; secure element from a 7-element sample, public int n in -2q..2q (all for q <= 16, lattice above): + - * / == != on either side, S(n)'),
        Native(f'pow_{_k}', 'mpyc.runtime.Runtime.pow', c_pow, k_pow, in_pow(_k),
               f'm = 1 runtime; {_TXT_F[_k]}; {_TXT_E}; exponents -2..q (lattice for q > 32) and 254, 255, 2q-2, -(q-1), -q; 0**e only for e >= 0'),
        Native(f'unary_{_k}', 'mpyc.runtime.Runtime.is_zero', c_unary, k_unary, in_unary(_k),
               f'm = 1 runtime; {_TXT_F[_k]}; every route; -x, +x, is_zero(x), x==0, x==x, x-x, S(field(a)), reciprocal(x), x/x, 1/x (x != 0)'),
    ]
_C04 += [
    Native('bitwise_pairs', 'mpyc.runtime.Runtime.and_', c_bitwise, k_bitwise, in_bitpairs(True),
           'm = 1 runtime; GF(2) (order=2 and SecFld()), GF(4), GF(8), GF(16), GF(256) (thorough + GF(32), GF(64)), each modulus: x&y, x|y, x^y, ~x equal the int '
           'operators on the encodings; all pairs for q <= 16 (thorough 64), 27x27 lattice for GF(256)'),
    Native('bitwise_public_right', 'mpyc.sectypes.SecureFiniteField.__and__', c_bitwise_public('right'), k_bitwise_public, in_bitpairs(False),
           'characteristic 2, secure (op) public int / public field element: bitwise result or a refusal (TypeError/AttributeError), never another value; pair sample'),
    Native('bitwise_public_left', 'mpyc.sectypes.SecureNumber.__rand__', c_bitwise_public('left'), k_bitwise_public, in_bitpairs(False),
           'characteristic 2, public int / public field element (op) secure: bitwise result or a refusal (TypeError/AttributeError), never another value; pair sample'),
    Native('to_bits', 'mpyc.runtime.Runtime.to_bits', c_tobits, k_tobits, in_tobits,
           'm = 1 runtime; prime fields (unsigned and signed=True) and binary fields of the C04 list: to_bits(x) = the bit_length = (q-1).bit_length() bits, least '
           'significant first, of the integer / polynomial encoding (signed prime fields: two\'s complement of the signed representative, the convention of secure '
           'integers); to_bits(x, l) the low l bits; from_bits(bits) = the element with that encoding (== x for nonnegative representatives)'),
    Native('signed_outputs', 'mpyc.sectypes.SecFld', c_signed, k_signed, in_signed,
           'prime fields of the C04 list + GF(4), GF(9), all elements (lattice for q > 16): after SecFld(q, signed=True) int(output) is the representative in '
           '-(p-1)/2..(p-1)/2, after SecFld(q) the one in 0..p-1, and again signed after asking again; extension fields: encoding'),
    Native('div_secret_zero', 'mpyc.runtime.Runtime.reciprocal', c_zero, k_zero, in_zero,
           'every C04 field (order= and polynomial routes): x/S(0), int/S(0), field/S(0), S(0)**-1, S(0)**-2, reciprocal(S(0)) with _random replaced by a counting '
           'stand-in: the retry loop is cut off after 8 draws; no value may come out (ZeroDivisionError also accepted)'),
    Native('reciprocal_forced_retry', 'mpyc.runtime.Runtime.reciprocal', c_retry, k_retry, in_retry,
           'every C04 field, all nonzero a for q <= 27 (sample above): _random replaced by a stand-in returning the zero element 1, 2 or 5 times before real '
           'randomness: reciprocal(a), 1/a, a**-1 still return the inverse, and more than that many masks were drawn'),
    Native('lifted_value_ops', 'mpyc.sectypes._SecFld', c_lifted_ops, k_lifted_ops, in_lifted_ops,
           'types built under a stand-in runtime (m,t) in {(3,1),(4,1),(5,2),(7,3),(8,3),(9,4)} x q in {2,3,5,7} with m >= q, then evaluated at the value level with the '
           'm = 1 runtime (no multi-party shares: those are C11/C12): + - * / == != neg is_zero ** mixing and for q = 2 & | ^ ~ to_bits: outputs are elements '
           'of the requested field GF(q) with the GF(q) results; to_bits of a lifted odd prime field and a public GF(q) element as operand: the value or the TypeError the code raises'),
]

_ARGS_TXT = ('order in {None, 2,3,4,5,7,8,9,16,25,27,32,49,64, 6,10,12,15}, char in {None,2,3,5,7}, ext_deg in {None,1,2,3}, min_order in {None,2,5,17,70}, '
             'signed in {False,True}; contract: AssertionError/ValueError/TypeError iff the arguments are inconsistent by the docstring (o_spec), else a type whose '
             'field has exactly the requested order/characteristic/degree/modulus, is a field (prime or irreducible modulus), order >= min_order; m = 1 runtime')
_C39 = [
    Native('secfld_args_nomod', 'mpyc.sectypes.SecFld', c_secfld, k_secfld, in_args([None], False), 'modulus=None; ' + _ARGS_TXT),
    Native('secfld_args_intmod', 'mpyc.sectypes.SecFld', c_secfld, k_secfld, in_args(MOD_INT, False),
           f'modulus in {MOD_INT} (prime modulus, or polynomial encoding when > char), requests whose polynomial degree contradicts order=/ext_deg= are in secfld_args_degree_conflict; ' + _ARGS_TXT),
    Native('secfld_args_polymod', 'mpyc.sectypes.SecFld', c_secfld, k_secfld, in_args(MOD_POLY, False),
           f'modulus a gfpx polynomial object (p, encoding) in {[m[1:] for m in MOD_POLY]} (irreducible and reducible ones); degree conflicts: see secfld_args_degree_conflict; ' + _ARGS_TXT),
    Native('secfld_args_strmod', 'mpyc.sectypes.SecFld', c_secfld, k_secfld, in_args(MOD_STR, False),
           f'modulus a string in {MOD_STR}; degree conflicts: see secfld_args_degree_conflict; ' + _ARGS_TXT),
    Native('secfld_args_degree_conflict', 'mpyc.sectypes.SecFld', c_secfld, k_secfld, in_args(MOD_STR + MOD_POLY + MOD_INT, True),
           'the part of the secfld_args domain where an irreducible polynomial modulus of the right characteristic is combined with an order= or ext_deg= of another '
           'degree: must be rejected (same contract)'),
    Native('secfld_min_order_prime', 'mpyc.sectypes.SecFld', c_secfld, k_secfld, in_minorder_prime,
           'SecFld(min_order=n[, ext_deg=d]), 2 <= n < 400 (thorough 3000), d in {None,1,2,3,4}: order p**d for the least prime p with p**d >= n'),
    Native('secfld_min_order_char', 'mpyc.sectypes.SecFld', c_secfld, k_secfld, in_minorder_char(False),
           'SecFld(char=p, min_order=n), p in {2,3,5,7}, 2 <= n < 400 (thorough 3000) not within 1 of a power of p: order = least power of p that is >= n'),
    Native('secfld_min_order_char_powers', 'mpyc.sectypes.SecFld', c_secfld, k_secfld, in_minorder_char(True),
           'SecFld(char=p, min_order=n), p in {2,3,5,7}, n in {p^e - 1, p^e, p^e + 1}, e <= 6 (thorough 11): order = least power of p that is >= n'),
    Native('secfld_lifting', 'mpyc.sectypes._SecFld', c_lifting, k_lifting, in_lifting,
           'stand-in runtimes for all (m, t), 1 <= m <= 9 (thorough 12), 0 <= 2t < m; SecFld(q[, signed=True]) for q in {2,3,5,7,11} and {4,8,9}: t == 0 or m < q: no '
           'lifting (field of order q, no subfield); else prime q: subfield = requested field, field = extension of the same characteristic with irreducible modulus '
           'and order > m, _output_conversion maps field(v) to subfield(v) for all v, S(v).share = field(v mod q); extension q with m >= q, t > 0: AssertionError '
           '(explicit TODO in _SecFld) or a valid lifting; always: t > 0 implies field.order > m'),
    Native('field_larger_than_parties', 'mpyc.sectypes._pfield', c_pfield, k_pfield, in_pfield,
           'SecInt(l), SecFxp(l,f) (f in {0,1,l//2,l}), 1 <= l <= 32 (thorough 64) under stand-in runtimes with m in {1,2,3,7,51,255} (thorough + 4, 13, 1023), '
           't = (m-1)//2, sec_param in {1,8,30}: either AssertionError (only when 2^(l+f+k) <= m: the prime cannot exceed m) or a prime field with order > m'),
    Native('setup_threshold', 'mpyc.runtime.setup', c_setup, k_setup,
           lambda tier: itertools.chain(((m, t, 'P') for m in range(1, T(tier, 10, 17)) for t in [None] + list(range(0, T(tier, 10, 17)))), ((1, t, 'M1') for t in (None, 0, 1, 2, 3))),
           'real setup() with command lines "-P localhost:port" x m (1 <= m <= 9, thorough 16; no processes are started) -I 0 [-T t], t in {default, 0..9}, and the plain '
           'm = 1 command line with -T 0..3: 2t >= m raises AssertionError/ValueError and installs nothing; else the runtime has m parties and threshold t (default (m-1)//2)'),
    Native('setup_assert_structure', 'mpyc.runtime.setup', c_setup_ast, k_setup_ast, lambda tier: [()],
           'AST of setup(): the single Runtime(pid, parties, options) creation in runtime.py is a top-level statement of setup() preceded in the same block by an '
           'assert whose condition is False exactly when 2t >= m (evaluated for 1 <= m <= 9, 0 <= t <= 9), nothing in between assigns m/parties/options, the default '
           'threshold expression equals (m-1)//2 and satisfies the gate for 1 <= m <= 99; asserts enabled (no python -O)'),
    Native('threshold_setter', 'mpyc.runtime.Runtime.threshold', c_setter, k_setter,
           lambda tier: ((m, t0, t) for m in range(1, T(tier, 8, 12)) for t0 in sorted({0, (m - 1) // 2}) for t in range(0, m + 2)),
           'runtime from setup() with m = 1..7 (thorough 11) parties (-P command line), threshold 0 or (m-1)//2, then mpc.threshold = t for t in 0..m+1: '
           '2t >= m must raise, else the threshold is installed'),
]

class _RNative(Native):
    """The secure operations draw fresh masks (secrets / PRSS keys) on every call, so a defect can depend on the randomness.  Inside
    a check run every input is evaluated once (per repetition index); a REPLAY (eval1 called directly by the replay file) evaluates
    the same input up to 20 times with fresh randomness and reports the first failure."""
    _running = False

    def run(self, tier, prop_key=None, limit_s=None):
        self._running = True
        try:
            return super().run(tier, prop_key, limit_s)
        finally:
            self._running = False

    def eval1(self, args):
        for _ in range(1 if self._running else 20):
            msg = super().eval1(args)
            if msg: return msg
        return None


NATIVE = {n.name: n for n in _C04 + _C39}
for _n in NATIVE.values():
    _n.__class__ = _RNative
    _n.call = _limited(_n.call)
    _n.func = _n.func.split(' ')[0]
    _n.module = 'contracts.secfld'
C04_NATIVES = [n.name for n in _C04]
C39_NATIVES = [n.name for n in _C39]


# ---- listed known findings.  C04: reflected bitwise operators with a public LEFT operand on binary fields return a wrong VALUE
#      (an unexpected exception, a wrong field route or a wrong value with a secret/right operand has a different key).
#      C39: the threshold setter ACCEPTS 2t >= m (a refused valid threshold has a different key).
import re as _re


def _cls_bitwise_left(args, res, exc, msg):
    return 'public-left-operand-wrong-value' if exc is None and _re.match(r"(and|or|xor):(int|fld): got \d+, expected one of", msg) else None


def _cls_setter(args, res, exc, msg):
    m, t0, t = args
    return 'setter-accepts-2t>=m' if exc is None and 2 * t >= m and res['raised'] is None and res['after'] == t else None


NATIVE['bitwise_public_left'].classify = _cls_bitwise_left
NATIVE['threshold_setter'].classify = _cls_setter
