"""Engine-A (deductive) contracts for the linear-time list operations of mpyc/gfpx.py (C23): Polynomial._neg, _add, _sub, __call__.
A polynomial value is a list of ints a with the representation invariant  REP(a): 0 <= a[i] < p for all i, and a == [] or a[-1] != 0.
Congruences are stated in witness form (c == x or c == x - p ...), never with %.  COEF(a, i) is a[i] inside the list and 0 beyond it."""
import z3
from vc.engine import Contract, LoopSpec, And, Or, Not, Implies, If, I, ARR, VList, VObj, VTuple, NONE, OutsideSubset, Ref

p = z3.Int('p')
j_ = z3.Int('j_')


def _cls(): return VObj('polycls', p=p)


def coef(a, i): return If(And(0 <= i, i < a.n), a.arr[i], 0)


def reduced(a, upto=None):
    n = a.n if upto is None else upto
    return z3.ForAll([j_], Implies(And(0 <= j_, j_ < n), And(0 <= a.arr[j_], a.arr[j_] < p)))


def normal(a): return Or(a.n == 0, a.arr[a.n - 1] != 0)


def rep(a): return And(a.n >= 0, reduced(a), normal(a))


def same(x, y, n): return z3.ForAll([j_], Implies(And(0 <= j_, j_ < n), x.arr[j_] == y.arr[j_]))


# ---------------------------------------------------------------- _neg
def _neg_params(vc, P):
    return dict(cls=_cls(), a=vc.alloc(P, VList(z3.Const('a', ARR), z3.Int('len_a'))), __a=VList(z3.Const('a', ARR), z3.Int('len_a')))


neg = Contract(
    'mpyc.gfpx.Polynomial._neg', _neg_params,
    requires=lambda A: And(p > 1, rep(A['__a'])),
    ensures=lambda A, res, E: And(res.n == A['__a'].n, rep(res),
                                  # res[i] + a[i] is 0 or p  (res = -a coefficient-wise), a not mutated
                                  z3.ForAll([j_], Implies(And(0 <= j_, j_ < res.n), Or(res.arr[j_] + A['__a'].arr[j_] == 0, res.arr[j_] + A['__a'].arr[j_] == p))),
                                  E['a'].n == A['__a'].n, same(E['a'], A['__a'], A['__a'].n)))


# ---------------------------------------------------------------- _add / _sub
def _ab_params(vc, P):
    a = VList(z3.Const('a', ARR), z3.Int('len_a')); b = VList(z3.Const('b', ARR), z3.Int('len_b'))
    return dict(cls=_cls(), a=vc.alloc(P, a), b=vc.alloc(P, b), __a=a, __b=b)


def _sum_rel(c, x, y):
    """c is the reduced representative of x + y for reduced x, y"""
    return And(0 <= c, c < p, Or(c == x + y, c == x + y - p))


def _diff_rel(c, x, y):
    return And(0 <= c, c < p, Or(c == x - y, c == x - y + p))


def _mx(A): return If(A['__a'].n >= A['__b'].n, A['__a'].n, A['__b'].n)


def _unchanged(A, E):
    """frame: the list objects passed in as a and b hold the same coefficients at exit (whatever the names a, b are bound to by then)"""
    r = []
    for nm in ('a', 'b'):
        now = E.P.heap[A.P.env[nm].id]; was = A['__' + nm]
        r += [now.n == was.n, same(now, was, was.n)]
    return And(*r)


def _ab_ensures(rel):
    def ensures(A, res, E):
        a, b = A['__a'], A['__b']; n = _mx(A)
        return And(0 <= res.n, res.n <= n, normal(res), _unchanged(A, E),
                   z3.ForAll([j_], Implies(And(0 <= j_, j_ < res.n), rel(res.arr[j_], coef(a, j_), coef(b, j_)))),
                   # every stripped position really is zero in the sum / difference
                   z3.ForAll([j_], Implies(And(res.n <= j_, j_ < n), rel(0, coef(a, j_), coef(b, j_)))))
    return ensures


def _add_inv0(A, E):
    a, b, c = E['a'], E['b'], E['c']; i = E['__i0']
    return And(a.n >= b.n, c.n == a.n, 0 <= i, i <= b.n,
               z3.ForAll([j_], Implies(And(0 <= j_, j_ < i), _sum_rel(c.arr[j_], a.arr[j_], b.arr[j_]))),
               z3.ForAll([j_], Implies(And(i <= j_, j_ < c.n), c.arr[j_] == a.arr[j_])))


def _add_inv1(A, E):
    a, b, c = E['a'], E['b'], E['c']
    return And(a.n >= b.n, 0 <= c.n, c.n <= a.n,
               z3.ForAll([j_], Implies(And(0 <= j_, j_ < c.n), _sum_rel(c.arr[j_], a.arr[j_], coef(b, j_)))),
               z3.ForAll([j_], Implies(And(c.n <= j_, j_ < a.n), _sum_rel(0, a.arr[j_], coef(b, j_)))))


add = Contract(
    'mpyc.gfpx.Polynomial._add', _ab_params,
    requires=lambda A: And(p > 1, rep(A['__a']), rep(A['__b'])),
    ensures=_ab_ensures(_sum_rel),
    loops={'0': LoopSpec(_add_inv0), '1': LoopSpec(_add_inv1)})


def _sub_inv0(A, E):
    a, b, c = A['__a'], A['__b'], E['c']; i = E['__i0']
    return And(c.n == _mx(A), 0 <= i, i <= b.n,
               z3.ForAll([j_], Implies(And(0 <= j_, j_ < i), _diff_rel(c.arr[j_], coef(a, j_), b.arr[j_]))),
               z3.ForAll([j_], Implies(And(i <= j_, j_ < c.n), c.arr[j_] == coef(a, j_))))


def _sub_inv1(A, E):
    a, b, c = A['__a'], A['__b'], E['c']
    return And(0 <= c.n, c.n <= _mx(A),
               z3.ForAll([j_], Implies(And(0 <= j_, j_ < c.n), _diff_rel(c.arr[j_], coef(a, j_), coef(b, j_)))),
               z3.ForAll([j_], Implies(And(c.n <= j_, j_ < _mx(A)), _diff_rel(0, coef(a, j_), coef(b, j_)))))


sub = Contract(
    'mpyc.gfpx.Polynomial._sub', _ab_params,
    requires=lambda A: And(p > 1, rep(A['__a']), rep(A['__b'])),
    ensures=_ab_ensures(_diff_rel),
    loops={'0': LoopSpec(_sub_inv0), '1': LoopSpec(_sub_inv1)})


# ---------------------------------------------------------------- _lshift / _rshift (multiplication / division by X^n), _from_list (normalisation, in place)
def _an_params(vc, P):
    a = VList(z3.Const('a', ARR), z3.Int('len_a'))
    return dict(cls=_cls(), a=vc.alloc(P, a), n=z3.Int('n'), __a=a)


def _a_unchanged(A, E):
    now = E.P.heap[A.P.env['a'].id]; was = A['__a']
    return And(now.n == was.n, same(now, was, was.n))


lshift = Contract(
    'mpyc.gfpx.Polynomial._lshift', _an_params,
    requires=lambda A: And(p > 1, rep(A['__a']), A['n'] >= 0),
    ensures=lambda A, res, E: And(res.n == If(A['__a'].n == 0, 0, A['__a'].n + A['n']), _a_unchanged(A, E),
                                  z3.ForAll([j_], Implies(And(0 <= j_, j_ < res.n), res.arr[j_] == If(j_ < A['n'], 0, A['__a'].arr[j_ - A['n']]))),
                                  rep(res)))

rshift = Contract(
    'mpyc.gfpx.Polynomial._rshift', _an_params,
    requires=lambda A: And(p > 1, rep(A['__a']), A['n'] >= 0),
    ensures=lambda A, res, E: And(res.n == If(A['__a'].n >= A['n'], A['__a'].n - A['n'], 0), _a_unchanged(A, E),
                                  z3.ForAll([j_], Implies(And(0 <= j_, j_ < res.n), res.arr[j_] == A['__a'].arr[j_ + A['n']])),
                                  rep(res)))


def _fl_params(vc, P):
    a = VList(z3.Const('a', ARR), z3.Int('len_a'))
    return dict(a=vc.alloc(P, a), __a=a)


from_list = Contract(
    'mpyc.gfpx.Polynomial._from_list', _fl_params,
    requires=lambda A: And(A['__a'].n >= 0),
    # "NB: no copy": the result IS the argument object, cut back to its last nonzero entry; entries kept, everything cut was zero
    ensures=lambda A, res, E: And(E.P.env['__result_raw'] is A.P.env['a'], 0 <= res.n, res.n <= A['__a'].n, normal(res), same(res, A['__a'], res.n),
                                  z3.ForAll([j_], Implies(And(res.n <= j_, j_ < A['__a'].n), A['__a'].arr[j_] == 0))),
    loops={'0': LoopSpec(lambda A, E: And(0 <= E['a'].n, E['a'].n <= A['__a'].n, same(E['a'], A['__a'], E['a'].n),
                                          z3.ForAll([j_], Implies(And(E['a'].n <= j_, j_ < A['__a'].n), A['__a'].arr[j_] == 0))))})

# ---------------------------------------------------------------- _truncate (a mod X^n): caller of _from_list, checked against its contract
def _from_list_callee(vc, P, args, kw, e):
    """the contract of _from_list proved above, used at a call site: the argument object itself is cut back to its last nonzero entry"""
    ref = args[0]
    if not isinstance(ref, Ref): raise OutsideSubset('_from_list on a non-object')
    o = P.deref(ref)
    k = vc.fresh('fl_n')
    vc.assume(P, And(0 <= k, k <= o.n, Or(k == 0, o.arr[k - 1] != 0), z3.ForAll([j_], Implies(And(k <= j_, j_ < o.n), o.arr[j_] == 0))))
    P.heap[ref.id] = VList(o.arr, k, o.kind)
    return ref


truncate = Contract(
    'mpyc.gfpx.Polynomial._truncate', _an_params,
    requires=lambda A: And(p > 1, rep(A['__a']), A['n'] >= 0),
    ensures=lambda A, res, E: And(0 <= res.n, res.n <= A['n'], res.n <= A['__a'].n, rep(res), same(res, A['__a'], res.n), _a_unchanged(A, E),
                                  # a mod X^n: every coefficient below X^n that is not in the result is zero
                                  z3.ForAll([j_], Implies(And(res.n <= j_, j_ < A['n'], j_ < A['__a'].n), A['__a'].arr[j_] == 0))),
    calls={'cls._from_list': _from_list_callee})


# ---------------------------------------------------------------- __call__ (evaluation by Horner's rule with a reduction per step)
# Spec: HV(i) is the Horner value after the i highest coefficients at the point xr = x mod p (HV(0) = 0, HV(i+1) = HV(i)*xr + a[n-1-i], revealed per
# iteration; HV(n) = sum a[j] xr^j).  The result is the reduced representative of HV(n): res == HV(n) - K*p with an explicit ghost witness K
# (K' = K*xr + (y*xr + c) // p), 0 <= res < p.  Nonlinear (products of ghost and program variables) but equational.
from vc.engine import MOD
HV = z3.Function('HV', I, I)


def _call_params(vc, P):
    a = VList(z3.Const('a', ARR), z3.Int('len_a'))
    return dict(self=vc.alloc(P, VObj('poly', value=vc.alloc(P, a))), x=z3.Int('x'), __a=a)


def _call_inv(A, E):
    return And(E['y'] == E['__H'] - E['__K'] * p, 0 <= E['y'], E['y'] < p, E['__H'] == HV(E['__i0']), E['x'] == MOD(A['x'], p), 0 <= E['x'], E['x'] < p)


call = Contract(
    'mpyc.gfpx.Polynomial.__call__', _call_params,
    requires=lambda A: And(p > 1, rep(A['__a'])),
    ensures=lambda A, res, E: And(0 <= res, res < p, res == HV(A['__a'].n) - E['__K'] * p,
                                  E.P.heap[A.P.heap[A.P.env['self'].id].f['value'].id].n == A['__a'].n),
    calls={'type': lambda vc, P, args, kw, e: _cls()},
    loops={'0': LoopSpec(_call_inv, ghost_vars=['__H', '__K', '__y0'], ghost_before=['__H = 0', '__K = 0', '__y0 = 0'],
                         ghost_begin=['__y0 = y'],
                         ghost_end=['__H = __H * x + c', '__K = __K * x + (__y0 * x + c) // p'],
                         reveal_init=[lambda A, E: HV(0) == 0],
                         reveal=[lambda A, E: HV(E['__i0'] + 1) == HV(E['__i0']) * E['x'] + A['__a'].arr[A['__a'].n - 1 - E['__i0']]])})

CONTRACTS = [neg, add, sub, lshift, rshift, from_list, truncate, call]
