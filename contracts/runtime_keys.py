"""Engine-A contracts for the PRSS key exchange helpers of mpyc/runtime.py: Runtime._prss_keys_to_peer / _prss_keys_from_peer (C10, C16).

itertools.combinations(range(m), m - t) is modelled as a fixed enumeration k = 0..K-1 of subsets (trusted: deterministic, same order on
both sides) with uninterpreted FIRST(k) = subset[0] and MEMBER(k, pid).  CNT(who, other, k) = number of subsets k' < k with
FIRST(k') == who and MEMBER(k', other): the position of subset k's key in the packet sent by `who` to `other`.
  to_peer   at party pid for peer:   keys[CNT(pid, peer, k)] == KEY(k)   for every matching k, len(keys) == CNT(pid, peer, K)
  from_peer at party pid from peer:  subset k gets data[16*CNT(peer, pid, k) : +16] for every matching k, returns 16*CNT(peer, pid, K)
Same CNT on both sides => the j-th 16-byte block received is stored under the subset whose key was sent j-th."""
import ast, z3
from vc.engine import Contract, LoopSpec, And, Or, Not, Implies, If, I, ARR, VList, VObj, VBytes, NONE, OutsideSubset, zint

FIRST = z3.Function('FIRST', I, I)
MEMBER = z3.Function('MEMBER', I, I, z3.BoolSort())
KEYH = z3.Function('KEYH', I, I)            # handle of the key stored for subset k
CNT = z3.Function('CNT', I, I, I, I)
K = z3.Int('K')
k_ = z3.Int('k_')


def match(who, other, k): return And(FIRST(k) == who, MEMBER(k, other))
def unfold(who, other, k): return CNT(who, other, k + 1) == CNT(who, other, k) + If(match(who, other, k), 1, 0)


def _iter(vc, P, st):
    def bind(Q, k): Q.env['subset'] = VObj('subset', idx=k)
    return 0, K, bind


def _compare(vc, P, op, l, r, line):
    if isinstance(op, (ast.In, ast.NotIn)) and isinstance(r, VObj) and r.cls == 'subset':
        c = MEMBER(r.f['idx'], zint(l))
        return c if isinstance(op, ast.In) else Not(c)
    if isinstance(op, (ast.Is, ast.IsNot)) and isinstance(l, VBytes) and r is NONE:
        return isinstance(op, ast.IsNot)
    return NotImplemented


COMMON = {'iter:itertools.combinations(range(m), m - t)': _iter, 'compare': _compare,
          'subscript:subset[0]': lambda vc, P, e: FIRST(P.deref(P.env['subset']).f['idx']),
          'len': lambda vc, P, args, kw, e: z3.Int('m')}


def _self(vc, P):
    return vc.alloc(P, VObj('Runtime', pid=z3.Int('pid'), parties=VObj('parties'), threshold=z3.Int('t'), _prss_keys=VObj('keydict')))


to_peer = Contract(
    'mpyc.runtime.Runtime._prss_keys_to_peer', lambda vc, P: dict(self=_self(vc, P), peer_pid=z3.Int('peer_pid')),
    requires=lambda A: And(K >= 0, CNT(A['self'].f['pid'], A['peer_pid'], 0) == 0),
    ensures=lambda A, res, E: And(res.n == CNT(A['self'].f['pid'], A['peer_pid'], K),
                                  z3.ForAll([k_], Implies(And(0 <= k_, k_ < K, match(A['self'].f['pid'], A['peer_pid'], k_)),
                                                          res.arr[CNT(A['self'].f['pid'], A['peer_pid'], k_)] == KEYH(k_)))),
    calls=dict(COMMON, **{'subscript:self._prss_keys[subset]': lambda vc, P, e: KEYH(P.deref(P.env['subset']).f['idx'])}),
    loops={'0': LoopSpec(lambda A, E: And(E['keys'].n == CNT(A['self'].f['pid'], A['peer_pid'], E['__i0']), E['keys'].n >= 0,
                                          z3.ForAll([k_], Implies(And(0 <= k_, k_ < E['__i0'], match(A['self'].f['pid'], A['peer_pid'], k_)),
                                                                  And(E['keys'].arr[CNT(A['self'].f['pid'], A['peer_pid'], k_)] == KEYH(k_),
                                                                      0 <= CNT(A['self'].f['pid'], A['peer_pid'], k_),
                                                                      CNT(A['self'].f['pid'], A['peer_pid'], k_) < E['keys'].n)))),
                         reveal=[lambda A, E: unfold(A['self'].f['pid'], A['peer_pid'], E['__i0'])])})


def _from_peer(with_data):
    def params(vc, P):
        d = dict(self=_self(vc, P), peer_pid=z3.Int('peer_pid'))
        d['data'] = VBytes(z3.Const('A', ARR), z3.Int('dlo'), z3.Int('dhi')) if with_data else NONE
        d['__slo'] = vc.alloc(P, VList(z3.Const('slo0', ARR), K))        # ghost: start of the 16-byte block stored for subset k (-1: none)
        return d

    def setitem(vc, P, target, val):
        val = P.deref(val)
        k = P.deref(P.env['subset']).f['idx']
        r = P.env['__slo']; L = P.heap[r.id]
        vc.oblige(f'stored-key-has-16-bytes@{target.lineno}', P, val.hi - val.lo == 16, line=target.lineno)
        P.heap[r.id] = VList(z3.Store(L.arr, k, val.lo), L.n)
    who = lambda A: A['peer_pid']; me = lambda A: A['self'].f['pid']

    def requires(A):
        r = And(K >= 0, CNT(who(A), me(A), 0) == 0)
        if with_data:       # caller (data_received) guarantees the whole packet is present
            r = And(r, A['data'].lo >= 0, A['data'].hi - A['data'].lo >= 16 * CNT(who(A), me(A), K),
                    z3.ForAll([k_], Implies(And(0 <= k_, k_ <= K), And(0 <= CNT(who(A), me(A), k_), CNT(who(A), me(A), k_) <= CNT(who(A), me(A), K)))))
        return r

    def inv(A, E):
        c = And(E['len_packet'] == 16 * CNT(who(A), me(A), E['__i0']), E['__slo'].n == K, E['self'].f['pid'] == me(A), E['__i0'] >= 0, E['__i0'] <= K)
        if not with_data:
            c = And(c, z3.ForAll([k_], Implies(And(0 <= k_, k_ < K), E['__slo'].arr[k_] == A['__slo'].arr[k_])))
        if with_data:
            c = And(c, z3.ForAll([k_], Implies(And(0 <= k_, k_ < E['__i0'], match(who(A), me(A), k_)),
                                               E['__slo'].arr[k_] == A['data'].lo + 16 * CNT(who(A), me(A), k_))),
                    z3.ForAll([k_], Implies(And(0 <= k_, k_ < K, Or(k_ >= E['__i0'], Not(match(who(A), me(A), k_)))), E['__slo'].arr[k_] == A['__slo'].arr[k_])))
        return c

    def ensures(A, res, E):
        c = res == 16 * CNT(who(A), me(A), K)
        if with_data:
            c = And(c, z3.ForAll([k_], Implies(And(0 <= k_, k_ < K, match(who(A), me(A), k_)), E['__slo'].arr[k_] == A['data'].lo + 16 * CNT(who(A), me(A), k_))),
                    z3.ForAll([k_], Implies(And(0 <= k_, k_ < K, Not(match(who(A), me(A), k_))), E['__slo'].arr[k_] == A['__slo'].arr[k_])))     # frame: no other key touched
        else:
            c = And(c, z3.ForAll([k_], Implies(And(0 <= k_, k_ < K), E['__slo'].arr[k_] == A['__slo'].arr[k_])))
        return c
    return Contract('mpyc.runtime.Runtime._prss_keys_from_peer', params, requires, ensures, case='with-data' if with_data else 'length-only',
                    calls=dict(COMMON, **{'setitem:self._prss_keys[subset]': setitem}),
                    loops={'0': LoopSpec(inv, havoc_extra=['__slo'], reveal=[lambda A, E: unfold(who(A), me(A), E['__i0'])])})


from_peer_len = _from_peer(False)
from_peer_data = _from_peer(True)
CONTRACTS = [to_peer, from_peer_len, from_peer_data]


def tasks(tier):
    return [('vc.tasks', 'run_contract', ('contracts.runtime_keys', a, None, tier)) for a in ('to_peer', 'from_peer_len', 'from_peer_data')]
