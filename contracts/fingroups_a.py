"""Engine-A contract for the generic double-and-add of mpyc/fingroups.py: FiniteGroupElement.repeat(a, n) against an ABSTRACT group.

Group elements are opaque handles; the class supplies identity, inversion, operation, operation2 (their contracts = the group axioms, discharged
per family by the bounded checks of C27).  PW(a, k) is the k-fold power (spec function) with the unfolding facts of a monoid
(Lean lemma pow_binary_step):   operation2(PW(a,k)) = PW(a,2k),   operation(PW(a,2k), a) = PW(a,2k+1),   PW(a,1) = a.
Proved: for every integer n the result is PW(a, n) for n > 0, identity for n = 0, PW(inversion(a), -n) for n < 0."""
import ast, z3
from vc.engine import Contract, LoopSpec, And, Or, Not, Implies, If, I, POW2, BITLEN, VObj, NONE, OutsideSubset, is_z3

PW = z3.Function('PW', I, I, I)
OP = z3.Function('OP', I, I, I)
OP2 = z3.Function('OP2', I, I)
INVG = z3.Function('INVG', I, I)
SHR = z3.Function('SHR', I, I, I)          # SHR(n, i) = n >> i  (floor(n / 2^i)), facts instantiated below
IDENT = z3.IntVal(0)


def _shr_facts(n, i):
    """n >> i and n >> (i+1):  SHR(n,i) == 2*SHR(n,i+1) + bit,  bit in {0,1}   (binary expansion; trusted integer fact, instance)"""
    return And(SHR(n, i) == 2 * SHR(n, i + 1) + (SHR(n, i) % 2), SHR(n, i) >= 0)


def _params(vc, P):
    return dict(a=z3.Int('a'), n=z3.Int('n'))


def _calls():
    def bit_length(vc, P, recv, args, kw, e):
        x = P.deref(recv); bl = BITLEN(x)
        vc.assume(P, And(bl >= 1, SHR(x, bl - 1) == 1, SHR(x, 0) == x))          # contract of bit_length for x >= 1: top bit position
        return bl

    def binop(vc, P, op, x, y, line):
        if isinstance(op, ast.RShift) and is_z3(x):
            return SHR(x, y)
        return NotImplemented
    return {'type': lambda vc, P, a, k, e: VObj('cls', identity=IDENT),
            'method:cls.inversion': lambda vc, P, recv, args, kw, e: INVG(P.deref(args[0])),
            'method:cls.operation2': lambda vc, P, recv, args, kw, e: OP2(P.deref(args[0])),
            'method:cls.operation': lambda vc, P, recv, args, kw, e: OP(P.deref(args[0]), P.deref(args[1])),
            'method:bit_length': bit_length, 'binop': binop}


def _base(A, E):        # the base after the optional inversion, and |n|
    return E['a'], E['n']


def inv(A, E):
    k = E['__i0']; bl = BITLEN(E['n'])
    i = bl - 2 - k            # the loop variable at the start of iteration k
    return And(E['n'] >= 1, 0 <= k, k <= bl - 1, E['c'] == PW(E['a'], SHR(E['n'], i + 1)), SHR(E['n'], i + 1) >= 1,
               Or(And(A['n'] > 0, E['n'] == A['n'], E['a'] == A['a']), And(A['n'] < 0, E['n'] == -A['n'], E['a'] == INVG(A['a']))))


repeat = Contract(
    'mpyc.fingroups.FiniteGroupElement.repeat', _params, requires=lambda A: True,
    ensures=lambda A, res, E: If(A['n'] == 0, res == IDENT, If(A['n'] > 0, res == PW(A['a'], A['n']), res == PW(INVG(A['a']), -A['n']))),
    calls=_calls(),
    loops={'0': LoopSpec(inv,
                         reveal_init=[lambda A, E: PW(E['a'], 1) == E['a']],
                         reveal=[lambda A, E: And(_shr_facts(E['n'], BITLEN(E['n']) - 2 - E['__i0']),
                                                  # monoid power laws at the current exponent e = n >> (i+1)
                                                  OP2(PW(E['a'], SHR(E['n'], BITLEN(E['n']) - 1 - E['__i0']))) == PW(E['a'], 2 * SHR(E['n'], BITLEN(E['n']) - 1 - E['__i0'])),
                                                  OP(PW(E['a'], 2 * SHR(E['n'], BITLEN(E['n']) - 1 - E['__i0'])), E['a']) == PW(E['a'], 2 * SHR(E['n'], BITLEN(E['n']) - 1 - E['__i0']) + 1))])})
CONTRACTS = [repeat]
