"""Engine-A (deductive) contracts for the prime-field operators of mpyc/finfields.py (C20, C21, C22): FiniteFieldElement / PrimeFieldElement
methods, verified for the class of prime-field elements: self is an object with fields value, modulus = p (class attribute); class
invariant 0 <= value < p.  Contracts are stated with MOD(., p) (Python %).  Operand cases: 'same' (other is an element of the same
field), 'int' (other is a Python int), 'other' (anything else -> NotImplemented)."""
import ast, z3
from vc.engine import (Contract, LoopSpec, And, Or, Not, Implies, If, I, MOD, POW2, VObj, VTuple, VStr, NONE, OutsideSubset, zint, Ref, is_z3, is_int)

NOTIMPL = VObj('NotImplemented')
INVP = z3.Function('INVP', I, I, I)          # contract of gmpy.invert(a, p) for p prime, a != 0 mod p (proved in contracts/gmpy.py): a * INVP(a,p) == 1 + k*p, 0 <= INVP < p
POWMOD = z3.Function('POWMOD', I, I, I, I)   # trusted: gmpy.powmod / pow(x, y, m)
p = z3.Int('p')


def fe(v): return VObj('fe', value=v, modulus=p, _mix_types=VObj('int-type'))


def _params(case, inplace=False):
    def params(vc, P):
        a = z3.Int('a')
        d = dict(self=vc.alloc(P, fe(a)), __a=a)
        if case == 'same': d['other'] = vc.alloc(P, fe(z3.Int('b'))); d['__b'] = z3.Int('b')
        elif case == 'int': d['other'] = z3.Int('b'); d['__b'] = z3.Int('b')
        elif case == 'other': d['other'] = VObj('something-else')
        return d
    return params


def _ctor(vc, P, args, kw, e):
    """contract of PrimeFieldElement.__init__ (verified below): value reduced modulo p; TypeError for non-int"""
    v = P.deref(args[0])
    if not is_int(v): raise OutsideSubset('field element constructor on non-int')
    return fe(vc.mod(v, p, P, e.lineno))


def _type(vc, P, args, kw, e): return VObj('fieldtype')


def _isinstance(case):
    def h(vc, P, args, kw, e):
        txt = ast.unparse(e)
        if txt == 'isinstance(other, type(self))': return case == 'same'
        if txt == 'isinstance(other, self._mix_types)': return case == 'int'
        if txt == 'isinstance(other, int)': return case == 'int'
        if txt == 'isinstance(value, int)': return case == 'int'
        raise OutsideSubset('isinstance ' + txt)
    return h


def _recip(vc, P, args, kw, e):
    """contract of cls._reciprocal(a) = int(gmpy2.invert(a, p)): raises ZeroDivisionError iff a == 0 mod p (p prime); else the inverse in range(p)"""
    a = P.deref(args[0])
    if P.env.get('__zerodiv_allowed') is not True:
        vc.oblige(f'reciprocal-of-nonzero@{e.lineno}', P, MOD(a, p) != 0, line=e.lineno)
    k = vc.fresh('kinv')
    r = INVP(a, p)
    vc.assume(P, And(0 <= r, r < p, a * r == 1 + k * p))
    return r


BASE = dict(requires=lambda A: And(p > 1, 0 <= A['__a'], A['__a'] < p, And(0 <= A['__b'], A['__b'] < p) if ('__b' in A and isinstance(A.P.env.get('other'), Ref)) else True))


def _val(E, name='self'):
    return E[name].f['value']


def _other_now(A, E):
    """value field of the ORIGINAL right operand object in the exit heap (the name `other` may have been re-bound)"""
    return E.P.heap[A.P.env['other'].id].f['value']


def binop_contract(method, case, expr, reflected=False):
    """result is a NEW element with value (expr) mod p; operands unchanged; NotImplemented for foreign operands"""
    def ensures(A, res, E):
        if case == 'other':
            return isinstance(res, VObj) and res.cls == 'NotImplemented'
        if not (isinstance(res, VObj) and res.cls == 'fe'): return False
        a, b = A['__a'], A['__b']
        return And(res.f['value'] == MOD(expr(a, b), p), 0 <= res.f['value'], res.f['value'] < p,
                   _val(E) == a, (_other_now(A, E) == b) if case == 'same' else True)
    return Contract(f'mpyc.finfields.FiniteFieldElement.{method}', _params(case), BASE['requires'], ensures, case=case,
                    calls={'type(self)': _ctor, 'type': _type, 'isinstance': _isinstance(case)}, consts={'NotImplemented': NOTIMPL})


def inplace_contract(method, case, expr, cls='FiniteFieldElement', extra_calls=None):
    """returns self (identity), self.value == (expr) mod p, reduced; other unchanged"""
    def ensures(A, res, E):
        if case == 'other':
            return isinstance(res, VObj) and res.cls == 'NotImplemented'
        a, b = A['__a'], A['__b']
        same_obj = E.P.env['__result_raw'] is E.P.env['self']
        return And(same_obj, _val(E) == MOD(expr(a, b), p), 0 <= _val(E), _val(E) < p, (_other_now(A, E) == b) if case == 'same' else True)
    calls = {'type(self)': _ctor, 'type': _type, 'isinstance': _isinstance(case)}
    calls.update(extra_calls or {})
    return Contract(f'mpyc.finfields.{cls}.{method}', _params(case), BASE['requires'], ensures, case=case, calls=calls, consts={'NotImplemented': NOTIMPL})


C = []
for name, expr in (('__add__', lambda a, b: a + b), ('__sub__', lambda a, b: a - b), ('__mul__', lambda a, b: a * b)):
    for case in ('same', 'int', 'other'):
        C.append(binop_contract(name, case, expr))
for name, expr in (('__radd__', lambda a, b: a + b), ('__rsub__', lambda a, b: b - a), ('__rmul__', lambda a, b: a * b)):
    for case in ('int', 'other'):
        C.append(binop_contract(name, case, expr))
for name, expr in (('__iadd__', lambda a, b: a + b), ('__isub__', lambda a, b: a - b), ('__imul__', lambda a, b: a * b)):
    for case in ('same', 'int', 'other'):
        C.append(inplace_contract(name, case, expr))


def unary_contract(method, expr):
    def params(vc, P):
        a = z3.Int('a'); return dict(self=vc.alloc(P, fe(a)), __a=a)
    return Contract(f'mpyc.finfields.FiniteFieldElement.{method}', params, lambda A: And(p > 1, 0 <= A['__a'], A['__a'] < p),
                    lambda A, res, E: And(res.f['value'] == MOD(expr(A['__a']), p), 0 <= res.f['value'], res.f['value'] < p, _val(E) == A['__a'])
                    if isinstance(res, VObj) and res.cls == 'fe' else False,
                    calls={'type(self)': _ctor})


C += [unary_contract('__neg__', lambda a: -a), unary_contract('__pos__', lambda a: a)]


# ---- division: a / b = a * b^-1; ZeroDivisionError exactly when b == 0 in the field
def div_contract(method, case):
    def ensures(A, res, E):
        if case == 'other': return isinstance(res, VObj) and res.cls == 'NotImplemented'
        a, b = A['__a'], A['__b']
        if method == '__itruediv__':
            v = _val(E); ok = E.P.env['__result_raw'] is E.P.env['self']
        else:
            if not (isinstance(res, VObj) and res.cls == 'fe'): return False
            v = res.f['value']; ok = _val(E) == a
        # v == a * inv(b) mod p  with  b * inv(b) == 1 (mod p)
        return And(ok, 0 <= v, v < p, v == MOD(a * INVP(b, p), p))

    def mul_fe(vc, P, op, x, y, line):
        # `self * <int>` inside __truediv__: contract of __mul__ (int case), proved above
        if isinstance(op, ast.Mult) and isinstance(x, VObj) and x.cls == 'fe' and is_int(y):
            return fe(vc.mod(x.f['value'] * y, p, P, line))
        return NotImplemented
    return Contract(f'mpyc.finfields.FiniteFieldElement.{method}', _params(case),
                    lambda A: And(BASE['requires'](A), MOD(A['__b'], p) != 0) if case != 'other' else BASE['requires'](A), ensures, case=case,
                    calls={'type(self)._reciprocal': _recip, 'isinstance': _isinstance(case), 'binop': mul_fe, 'type(self)': _ctor, 'type': _type},
                    consts={'NotImplemented': NOTIMPL})


for case in ('same', 'int', 'other'):
    C.append(div_contract('__truediv__', case)); C.append(div_contract('__itruediv__', case))


# ---- shifts (prime fields): a << n = a * 2^n, a >> n = a * inv(2^n)
def shift_contract(method, cls, left):
    def params(vc, P):
        a, n = z3.Ints('a n'); return dict(self=vc.alloc(P, fe(a)), other=n, __a=a, __b=n)

    def recip2(vc, P, args, kw, e):
        n = P.deref(args[0])
        vc.oblige(f'shift-nonneg@{e.lineno}', P, n >= 0, line=e.lineno)
        k = vc.fresh('kinv2'); r = INVP(POW2(n), p)
        vc.assume(P, And(0 <= r, r < p, POW2(n) * r == 1 + k * p))      # 2^n invertible mod an odd prime: contract of _reciprocal2 / invert
        return r

    def ensures(A, res, E):
        a, n = A['__a'], A['__b']
        target = a * POW2(n) if left else a * INVP(POW2(n), p)
        if method.startswith('__i'):
            return And(E.P.env['__result_raw'] is E.P.env['self'], _val(E) == MOD(target, p), 0 <= _val(E), _val(E) < p)
        if not (isinstance(res, VObj) and res.cls == 'fe'): return False
        return And(res.f['value'] == MOD(target, p), 0 <= res.f['value'], res.f['value'] < p, _val(E) == a)
    return Contract(f'mpyc.finfields.{cls}.{method}', params, lambda A: And(p > 2, 0 <= A['__a'], A['__a'] < p, A['__b'] >= 0), ensures,
                    calls={'type(self)': _ctor, 'type': _type, 'call:fieldtype': _ctor, 'isinstance': lambda vc, P, args, kw, e: True,
                           'method:fieldtype._reciprocal2': lambda vc, P, recv, args, kw, e: recip2(vc, P, args, kw, e),
                           'method:fe._reciprocal2': lambda vc, P, recv, args, kw, e: recip2(vc, P, args, kw, e)},
                    consts={'NotImplemented': NOTIMPL})


C += [shift_contract('__lshift__', 'FiniteFieldElement', True), shift_contract('__ilshift__', 'FiniteFieldElement', True),
      shift_contract('__rshift__', 'PrimeFieldElement', False), shift_contract('__irshift__', 'PrimeFieldElement', False)]


# ---- equality
def eq_contract(case):
    def ensures(A, res, E):
        if case == 'other': return isinstance(res, VObj) and res.cls == 'NotImplemented'
        a, b = A['__a'], A['__b']
        want = (a == b) if case == 'same' else (a == MOD(b, p))      # int operand compared modulo p
        return res == want if is_z3(res) else False
    return Contract('mpyc.finfields.FiniteFieldElement.__eq__', _params(case), BASE['requires'], ensures, case=case,
                    calls={'isinstance': _isinstance(case), 'type': _type}, consts={'NotImplemented': NOTIMPL})


C += [eq_contract(c) for c in ('same', 'int', 'other')]


# ---- constructor
def init_contract(case):
    def params(vc, P):
        d = dict(self=vc.alloc(P, VObj('fe', value=NONE, modulus=p)))
        d['value'] = z3.Int('v') if case == 'int' else VObj('not-an-int')
        return d

    def super_init(vc, P, recv, args, kw, e):
        s = P.env['self']; o = P.heap[s.id]
        f = dict(o.f); f['value'] = P.deref(args[0]); P.heap[s.id] = VObj(o.cls, **f)
        return NONE

    def value_mod(vc, P, recv, args, kw, e):
        return vc.mod(P.deref(recv), P.deref(args[0]), P, e.lineno)

    def type_name(vc, P): return VStr('<type name>')
    return Contract('mpyc.finfields.PrimeFieldElement.__init__', params, lambda A: p > 1,
                    lambda A, res, E: And(_val(E) == MOD(A['value'], p), 0 <= _val(E), _val(E) < p) if case == 'int' else False,
                    raises={'TypeError': lambda A, E: case != 'int'}, case=case,
                    calls={'isinstance': _isinstance(case), 'method:__mod__': value_mod, 'method:__init__': super_init, 'super': lambda vc, P, a, k, e: VObj('super'),
                           'type': lambda vc, P, a, k, e: VObj('type', __name__=VStr('x'))})


C += [init_contract('int'), init_contract('other')]


# ---- signed / unsigned views (C22)
def signed_contract():
    def params(vc, P):
        a = z3.Int('a'); return dict(self=vc.alloc(P, fe(a)), __a=a)
    return Contract('mpyc.finfields.PrimeFieldElement.signed_', params, lambda A: And(p > 1, 0 <= A['__a'], A['__a'] < p),
                    lambda A, res, E: And(Or(res == A['__a'], res == A['__a'] - p), 2 * res <= p, 2 * res > -p - 1 + 0, -p < 2 * res, _val(E) == A['__a']) if is_z3(res) else False)


def unsigned_contract():
    def params(vc, P):
        a = z3.Int('a'); return dict(self=vc.alloc(P, fe(a)), __a=a)
    return Contract('mpyc.finfields.PrimeFieldElement.unsigned_', params, lambda A: And(p > 1, 0 <= A['__a'], A['__a'] < p),
                    lambda A, res, E: res == A['__a'] if is_z3(res) else False)


C += [signed_contract(), unsigned_contract()]

CONTRACTS = C
BY_NAME = {}
for _c in C:
    BY_NAME[(_c.qualname.split('.')[-1] + ('_' + _c.case if _c.case else ''))] = _c
globals().update({('c_' + k): v for k, v in BY_NAME.items()})


def tasks(tier, native='contracts.finfields:binop_prime'):
    return [('vc.tasks', 'run_contract', ('contracts.finfields_a', 'c_' + k, native, tier)) for k in BY_NAME]


# ---------------------------------------------------------------- PrimeFieldElement._sqrt for p == 3 (mod 4), a == 0, p == 2   (C21, with Lean L6)
from vc.engine import unreachable


def sqrt_contract(inv):
    def params(vc, P):
        return dict(cls=VObj('fieldtype', modulus=p), a=z3.Int('a'), INV=inv)
    def powmod(vc, P, args, kw, e):
        x, y, m = [P.deref(v) for v in args]
        return POWMOD(x, y, m)
    def ensures(A, res, E):
        a = A['a']
        if not is_z3(res) and not isinstance(res, int): return False
        e34 = (p * 3 - 5) / 4 if inv else (p + 1) / 4
        return If(a == 0, res == 0, If(p == 2, res == a, res == POWMOD(a, e34, p)))
    return Contract('mpyc.finfields.PrimeFieldElement._sqrt', params,
                    lambda A: And(p >= 2, 0 <= A['a'], A['a'] < p, Or(p == 2, p % 4 == 3)), ensures, case=f'p=2 or 3 mod 4,INV={inv}',
                    raises={'ZeroDivisionError': lambda A, E: And(A['a'] == 0, inv)},
                    calls={'int': lambda vc, P, args, kw, e: P.deref(args[0]), 'gmpy2.powmod': powmod, 'gmpy2.legendre': unreachable('Cipolla-Lehmer branch')},
                    loops={'0': LoopSpec(lambda A, E: False)})      # the Cipolla-Lehmer loop is unreachable under this case's precondition (inv-init proves it)


c__sqrt_plain = sqrt_contract(False)
c__sqrt_inv = sqrt_contract(True)
BY_NAME['_sqrt_plain'] = c__sqrt_plain; BY_NAME['_sqrt_inv'] = c__sqrt_inv
CONTRACTS += [c__sqrt_plain, c__sqrt_inv]
