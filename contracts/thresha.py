"""Engine-A (deductive) contracts for mpyc/thresha.py.  The bounded executable contracts live in contracts/thresha_native.py."""
import z3
from vc.engine import (Contract, LoopSpec, And, Or, Not, Implies, If, I, ARR, MAT, MOD, VList, VMat, VObj, VTuple, NONE, VStr, OutsideSubset,
                       zint, Ref)

Rnd = z3.Array('Rnd', I, I)                      # ghost: the stream of secrets.randbelow results
Horner = z3.Function('Horner', I, I, I, I)       # Horner(k0, j, x): H(.,0,.) = 0, H(k0,j+1,x) = (H(k0,j,x) + Rnd[k0+j]) * x
a_, b_ = z3.Ints('a_ b_')


def _randbelow_comp(vc, P, e):
    """[secrets.randbelow(order) for _ in range(t)]: a fresh block of the ghost stream (contract of secrets.randbelow: 0 <= r < n, fresh)"""
    n = P.deref(vc.ev(e.generators[0].iter.args[0], P))
    bound = P.deref(vc.ev(e.elt.args[0], P))
    if not (isinstance(e.generators[0].iter, __import__('ast').Call) and __import__('ast').unparse(e.generators[0].iter.func) == 'range'
            and len(e.generators[0].iter.args) == 1 and len(e.elt.args) == 1):
        raise OutsideSubset('randbelow comprehension shape')
    vc.oblige(f'randbelow-bound-positive@{e.lineno}', P, bound > 0, line=e.lineno)
    # C13: the coefficients are drawn uniformly from the WHOLE field
    vc.oblige(f'randbelow-bound-is-field-order@{e.lineno}', P, bound == P.deref(P.env['field']).f['order'], line=e.lineno)
    vc.oblige(f'randbelow-count-nonneg@{e.lineno}', P, n >= 0, line=e.lineno)
    k0 = P.env['__rnd']
    j = vc.fresh('jr')
    P.env['__rnd'] = k0 + n
    P.env['__rnd_bound'] = bound
    return vc.alloc(P, VList(z3.Lambda([j], Rnd[k0 + j]), n))


def _field_obj(p, order):
    return VObj('field', modulus=p, order=order)


def _rs_params(case):
    def params(vc, P):
        p, order, t, m, rnd0 = z3.Ints('p order t m rnd0')
        s = VList(z3.Const('s', ARR), z3.Int('len_s'))
        return dict(field=_field_obj(p, order), s=s, t=t, m=m, __rnd=rnd0)
    return params


def _share_ok(M, i, h, A):
    p = A['field'].modulus; t = A['t']; rnd0 = A['__rnd']
    v = M.arr[i][h]
    return And(v == MOD(Horner(rnd0 + h * t, t, i + 1) + A['s'].arr[h], p), 0 <= v, v < p)


def _rs_contract(case):
    is_field = case == 's_field'
    def requires(A):
        p, t, m, s = A['field'].modulus, A['t'], A['m'], A['s']
        r = And(0 <= t, t < m, s.n >= 1, p > 1, A['field'].order > 0)
        if is_field:      # class invariant of field elements: value reduced
            r = And(r, z3.ForAll([a_], Implies(And(0 <= a_, a_ < s.n), And(0 <= s.arr[a_], s.arr[a_] < p))))
        return r

    def inv0(A, E):
        m, t, s = A['m'], A['t'], A['s']; sh = E['shares']; h = E['__i0']
        return And(E['__rnd'] == A['__rnd'] + h * t, sh.rows == m, sh.cols == s.n,
                   z3.ForAll([a_, b_], Implies(And(0 <= a_, a_ < m, 0 <= b_, b_ < h), _share_ok(sh, a_, b_, A))))

    def inv00(A, E):
        m, t, s = A['m'], A['t'], A['s']; sh = E['shares']; h = E['__i0']; i = E['__i0.0']
        return And(E['__rnd'] == A['__rnd'] + (h + 1) * t, E['__k0'] == A['__rnd'] + h * t, E['c'].n == t, sh.rows == m, sh.cols == s.n,
                   0 <= h, h < s.n, E['h'] == h, E['s_h'] == s.arr[h], 1 <= i, i <= m + 1,
                   z3.ForAll([a_, b_], Implies(And(0 <= a_, a_ < m, 0 <= b_, b_ < h), _share_ok(sh, a_, b_, A))),
                   z3.ForAll([a_], Implies(And(0 <= a_, a_ < i - 1), _share_ok(sh, a_, h, A))))

    def inv000(A, E):
        return And(E['y'] == Horner(E['__k0'], E['__i0.0.0'], E['i1']), E['c'].n == A['t'])

    def ensures(A, res, E):
        m, t, s = A['m'], A['t'], A['s']
        return And(res.rows == m, res.cols == s.n, E['__rnd'] == A['__rnd'] + s.n * t,
                   z3.ForAll([a_, b_], Implies(And(0 <= a_, a_ < m, 0 <= b_, b_ < s.n),
                                               _share_ok(res, a_, b_, A))))
    return Contract(
        'mpyc.thresha.random_split', _rs_params(case), requires, ensures, case=case,
        calls={'isinstance': lambda vc, P, args, kw, e: is_field,
               'type(p)': lambda vc, P, args, kw, e: 0,
               'comp-call:secrets.randbelow': _randbelow_comp},
        attrs={'s_h.value': lambda vc, P: P.env['s_h']},
        loops={'0': LoopSpec(inv0, ghost_vars=['__rnd', '__k0']),
               '0.0': LoopSpec(inv00, ghost_before=['__k0 = __rnd - t']),
               '0.0.0': LoopSpec(inv000,
                                 reveal_init=[lambda A, E: Horner(E['__k0'], 0, E['i1']) == 0],
                                 reveal=[lambda A, E: Horner(E['__k0'], E['__i0.0.0'] + 1, E['i1'])
                                         == (Horner(E['__k0'], E['__i0.0.0'], E['i1']) + Rnd[E['__k0'] + E['__i0.0.0']]) * E['i1']])})


# ---------------------------------------------------------------- PRF.__init__   (C17: outputs in range need byte_length large enough)
from vc.engine import POW2, BITLEN
ISPOW2 = z3.Function('ISPOW2', I, z3.BoolSort())


def _bit_length(vc, P, recv, args, kw, e):
    x = P.deref(recv)
    if isinstance(x, int): return x.bit_length()
    bl = BITLEN(x)
    # contract of int.bit_length (trusted): 0 for 0, else 2^(bl-1) <= |x| < 2^bl
    ax = If(x >= 0, x, -x)
    vc.assume(P, And(bl >= 0, Implies(x == 0, bl == 0), Implies(x != 0, And(bl >= 1, POW2(bl - 1) <= ax, ax < POW2(bl)))))
    return bl


def _and_pow2_test(vc, P, op, a, b, line):
    """bound & (bound - 1): nonzero exactly when bound is not a power of two (for bound >= 1)"""
    import ast as _ast
    if isinstance(op, _ast.BitAnd) and z3.is_expr(a) and z3.is_expr(b) and z3.eq(z3.simplify(a - 1), z3.simplify(b)):
        r = vc.fresh('andm1')
        vc.assume(P, And(r >= 0, (r == 0) == ISPOW2(a)))
        return r
    return NotImplemented


def _prf_init_params(vc, P):
    key = VList(z3.Const('key', ARR), z3.Int('len_key'))
    bound = z3.Int('bound')
    self_ = vc.alloc(P, VObj('PRF', key=NONE, max=NONE, byte_length=NONE))
    return dict(self=self_, key=key, bound=bound)


prf_init = Contract(
    'mpyc.thresha.PRF.__init__', _prf_init_params,
    requires=lambda A: And(A['bound'] >= 1, A['key'].n >= 0),
    ensures=lambda A, r, E: And(
        E['self'].f['max'] == A['bound'],
        # byte_length = ceil(bitlen(bound-1)/8)  (+ len(key) unless bound is a power of two)
        E['self'].f['byte_length'] == (BITLEN(A['bound'] - 1) + 7) / 8 + If(ISPOW2(A['bound']), 0, A['key'].n),
        # enough bytes to cover range(bound):  bound - 1 < 2^(8 * ceil(bitlen/8))  (instance of monotonicity of 2^k given below)
        A['bound'] - 1 < POW2(8 * ((BITLEN(A['bound'] - 1) + 7) / 8)),
        E['self'].f['byte_length'] >= (BITLEN(A['bound'] - 1) + 7) / 8),
    calls={'method:bit_length': _bit_length, 'binop': _and_pow2_test,
           'len': lambda vc, P, args, kw, e: (P.deref(P.deref(args[0])).n if not isinstance(P.deref(args[0]), int) else None)},
    attrs={},
    exit_reveal=[lambda A, r, E: Implies(BITLEN(A['bound'] - 1) <= 8 * ((BITLEN(A['bound'] - 1) + 7) / 8),
                                          POW2(BITLEN(A['bound'] - 1)) <= POW2(8 * ((BITLEN(A['bound'] - 1) + 7) / 8))),     # 2^k monotone (instance)
                 lambda A, r, E: Implies(A['bound'] - 1 == 0, POW2(8 * ((BITLEN(A['bound'] - 1) + 7) / 8)) >= 1)])

random_split_int = _rs_contract('s_int')
random_split_field = _rs_contract('s_field')
CONTRACTS = [random_split_int, random_split_field, prf_init]


# ---------------------------------------------------------------- recombine(field, points, x_rs)
# spec:  S(0,r,h) = 0,  S(i+1,r,h) = S(i,r,h) + shares[i][h] * V[r][i]   with V[r] = _recombination_vector(field, xs, x_rs[r])
S_ = z3.Function('S', I, I, I, I)
RVEC = z3.Function('RVEC', ARR, I, I, ARR)            # contract of the callee: the recombination vector as a function of (xs, len, x_r)
from vc.engine import VRow
r_, h_ = z3.Ints('r_ h_')


def _rc_params(xcase):
    def params(vc, P):
        p = z3.Int('p'); k = z3.Int('k'); n = z3.Int('n')
        xs = VList(z3.Const('xs', ARR), k)
        shares = VMat(z3.Const('shares', MAT), k, n)
        if xcase == 'scalar': x_rs = z3.Int('x_r')
        else: x_rs = vc.alloc(P, VList(z3.Const('x_rs', ARR), z3.Int('width')))
        return dict(field=VObj('field', modulus=p, order=p), points=VTuple([xs, shares]), x_rs=x_rs, __xs=xs, __shares=shares)
    return params


def _rc_contract(xcase, is_field):
    def V(A, r, i):
        xs = A['__xs']
        xr = A['x_rs'] if xcase == 'scalar' else A['x_rs'].arr[r]
        return RVEC(xs.arr, xs.n, xr)[i]

    def width(A): return 1 if xcase == 'scalar' else A['x_rs'].n

    def requires(A):
        sh = A['__shares']
        r = And(sh.rows >= 1, sh.cols >= 1, A['field'].modulus > 1)
        if xcase == 'list': r = And(r, A['x_rs'].n >= 0)
        return r

    def sums_of(E):
        v = E['sums']
        return v

    def inv0(A, E):
        i = E['__i0']; sm = E['sums']; n = A['__shares'].cols
        return And(sm.rows == width(A), sm.cols == n, E['n'] == n, E['width'] == width(A) if xcase == 'list' else True,
                   z3.ForAll([r_, h_], Implies(And(0 <= r_, r_ < width(A), 0 <= h_, h_ < n), sm.arr[r_][h_] == S_(i, r_, h_))))

    def inv00(A, E):
        i = E['__i0']; h = E['__i0.0']; sm = E['sums']; n = A['__shares'].cols
        return And(sm.rows == width(A), sm.cols == n, E['n'] == n, E['width'] == width(A) if xcase == 'list' else True,
                   0 <= i, i < A['__shares'].rows, E['i'] == i, 0 <= h, h <= n,
                   z3.ForAll([r_, h_], Implies(And(0 <= r_, r_ < width(A), 0 <= h_, h_ < n),
                                               sm.arr[r_][h_] == If(h_ < h, S_(i + 1, r_, h_), S_(i, r_, h_)))))

    def inv000(A, E):
        i = E['__i0']; h = E['__i0.0']; r = E['__i0.0.0']; sm = E['sums']; n = A['__shares'].cols
        return And(sm.rows == width(A), sm.cols == n, E['n'] == n, E['width'] == width(A), 0 <= i, i < A['__shares'].rows, E['i'] == i, 0 <= h, h < n, E['h'] == h,
                   E['s'] == A['__shares'].arr[i][h], 0 <= r, r <= width(A),
                   z3.ForAll([r_, h_], Implies(And(0 <= r_, r_ < width(A), 0 <= h_, h_ < n),
                                               sm.arr[r_][h_] == If(Or(h_ < h, And(h_ == h, r_ < r)), S_(i + 1, r_, h_), S_(i, r_, h_)))))

    def unfold(A, i, r, h):
        return S_(i + 1, r, h) == S_(i, r, h) + A['__shares'].arr[i][h] * V(A, r, i)

    k = lambda A: A['__shares'].rows
    p = lambda A: A['field'].modulus

    def inv1(A, E):      # for r in range(width): reduce row r
        r = E['__i1']; sm = E['sums']; n = A['__shares'].cols
        return And(sm.rows == width(A), sm.cols == n, E['n'] == n, E['width'] == width(A),
                   z3.ForAll([r_, h_], Implies(And(0 <= r_, r_ < width(A), 0 <= h_, h_ < n),
                                               sm.arr[r_][h_] == If(r_ < r, MOD(S_(k(A), r_, h_), p(A)), S_(k(A), r_, h_)))))

    def inv10(A, E):
        r = E['__i1'] if xcase == 'list' else 0
        h = E['__i1.0']; sm = E['sums']; n = A['__shares'].cols
        return And(sm.rows == width(A), sm.cols == n, E['n'] == n, E['width'] == width(A) if xcase == 'list' else True, 0 <= r, r < width(A),
                   E['r'] == r if xcase == 'list' else True, 0 <= h, h <= n,
                   z3.ForAll([r_, h_], Implies(And(0 <= r_, r_ < width(A), 0 <= h_, h_ < n),
                                               sm.arr[r_][h_] == If(Or(r_ < r, And(r_ == r, h_ < h)), MOD(S_(k(A), r_, h_), p(A)), S_(k(A), r_, h_)))))

    def ensures(A, res, E):
        n = A['__shares'].cols
        red = (lambda t: MOD(t, p(A))) if is_field else (lambda t: t)
        if xcase == 'scalar':
            if not isinstance(res, VRow): return False
            m = E.P.deref(res.mat)
            return And(res.i == 0, m.cols == n, z3.ForAll([h_], Implies(And(0 <= h_, h_ < n), m.arr[0][h_] == red(S_(k(A), 0, h_)))))
        if not isinstance(res, VMat): return False
        return And(res.rows == width(A), res.cols == n,
                   z3.ForAll([r_, h_], Implies(And(0 <= r_, r_ < width(A), 0 <= h_, h_ < n), res.arr[r_][h_] == red(S_(k(A), r_, h_)))))

    def isinstance_h(vc, P, args, kw, e):
        import ast as _ast
        txt = _ast.unparse(e)
        if txt == 'isinstance(x_rs, list)': return xcase == 'list'
        if txt == 'isinstance(x_rs, tuple)': return xcase == 'scalar'
        if txt == 'isinstance(shares[0][0], field)': return is_field
        raise OutsideSubset('isinstance ' + txt)

    def rvec_comp(vc, P, e):
        import ast as _ast
        if _ast.unparse(e) != '[_recombination_vector(field, xs, x_r) for x_r in x_rs]': raise OutsideSubset('recombination vector comprehension changed')
        xs = P.deref(P.env['xs']); xr = P.deref(P.env['x_rs'])
        if isinstance(xr, VTuple):
            row = RVEC(xs.arr, xs.n, zint(xr.items[0]))
            return vc.alloc(P, VMat(z3.K(I, row), 1, xs.n))
        rr = vc.fresh('rr')
        return vc.alloc(P, VMat(z3.Lambda([rr], RVEC(xs.arr, xs.n, xr.arr[rr])), xr.n, xs.n))

    def field_ctor(vc, P, args, kw, e):
        v = P.deref(args[0])
        return vc.mod(v, P.deref(P.env['field']).f['modulus'], P, e.lineno)

    loops = {'0': LoopSpec(inv0, reveal_init=[lambda A, E: z3.ForAll([r_, h_], S_(0, r_, h_) == 0)]),
             '0.0': LoopSpec(inv00)}
    if xcase == 'list':
        loops['0.0.0'] = LoopSpec(inv000, reveal=[lambda A, E: unfold(A, E['__i0'], E['__i0.0.0'], E['__i0.0'])])
        loops['1'] = LoopSpec(inv1)
        loops['1.0'] = LoopSpec(inv10)
    else:
        loops['0.0'] = LoopSpec(inv00, reveal=[lambda A, E: unfold(A, E['__i0'], 0, E['__i0.0'])])
        loops['1.0'] = LoopSpec(inv10)
    return Contract('mpyc.thresha.recombine', _rc_params(xcase), requires, ensures, case=f'{xcase},{"field" if is_field else "int"}',
                    calls={'raw:list(zip(*points))': lambda vc, P, e: VTuple([P.env['__xs'], P.env['__shares']]),
                           'isinstance': isinstance_h, 'comp-call:_recombination_vector': rvec_comp, 'call:field': field_ctor},
                    attrs={'s.value': lambda vc, P: P.env['s']}, loops=loops)


recombine_contracts = [_rc_contract(x, f) for x in ('scalar', 'list') for f in (False, True)]
recombine_scalar_int, recombine_scalar_field, recombine_list_int, recombine_list_field = recombine_contracts
CONTRACTS += recombine_contracts


# ---------------------------------------------------------------- _recombination_vector(field, xs, x_r)
# spec (X(j) = xs[j] mod p, XR = x_r mod p):
#   N(i,0) = 1, N(i,j+1) = N(i,j) if j == i else (N(i,j) * (XR - X(j))) mod p        (numerator   prod_{j != i} (x_r - x_j))
#   D(i,0) = 1, D(i,j+1) = D(i,j) if j == i else (D(i,j) * (X(i) - X(j))) mod p      (denominator prod_{j != i} (x_i - x_j))
# ensures: len(vector) == n and for all i < n: 0 <= vector[i] < p and vector[i] * D(i,n) == N(i,n) + KW(i) * p   (i.e. vector[i] = N/D in GF(p))
Nf = z3.Function('N', I, I, I)
Df = z3.Function('D', I, I, I)
KW = z3.Function('KW', I, I)                 # Skolem witness of the congruence, fixed at the append of entry i
PRIME = z3.Function('PRIME', I, z3.BoolSort())
i_, j_ = z3.Ints('i_ j_')


def _rv_params(vc, P):
    p = z3.Int('p')
    xs = VList(z3.Const('xs', ARR), z3.Int('n'))
    return dict(field=VObj('field', modulus=p, order=p), xs=xs, x_r=z3.Int('x_r'))


def _fe(v): return VObj('fe', value=v)


def _rv_contract():
    p = lambda A: A['field'].modulus
    X = lambda A, j: MOD(A['xs'].arr[j], p(A))
    XR = lambda A: MOD(A['x_r'], p(A))
    n = lambda A: A['xs'].n

    def requires(A):
        return And(p(A) > 1, PRIME(p(A)), n(A) >= 1,
                   # semantics of % (trusted, instances for the list elements): 0 <= xs[j] mod p < p
                   z3.ForAll([j_], And(0 <= X(A, j_), X(A, j_) < p(A))), 0 <= XR(A), XR(A) < p(A),
                   # precondition: the x-coordinates are distinct in the field
                   z3.ForAll([i_, j_], Implies(And(0 <= i_, i_ < n(A), 0 <= j_, j_ < n(A), i_ != j_), X(A, i_) != X(A, j_))))

    def unfoldN(A, i, j): return Nf(i, j + 1) == If(j == i, Nf(i, j), MOD(Nf(i, j) * (XR(A) - X(A, j)), p(A)))
    def unfoldD(A, i, j): return Df(i, j + 1) == If(j == i, Df(i, j), MOD(Df(i, j) * (X(A, i) - X(A, j)), p(A)))

    def vec_ok(A, vec, upto):
        return z3.ForAll([i_], Implies(And(0 <= i_, i_ < upto),
                                       And(0 <= vec.arr[i_], vec.arr[i_] < p(A), vec.arr[i_] * Df(i_, n(A)) == Nf(i_, n(A)) + KW(i_) * p(A))))

    def xs_ok(A, E):
        xs2 = E['xs']
        return And(xs2.n == n(A), z3.ForAll([j_], Implies(And(0 <= j_, j_ < n(A)), xs2.arr[j_] == X(A, j_))), E['x_r'] == XR(A))

    def inv0(A, E):
        i = E['__i0']; vec = E['vector']
        return And(xs_ok(A, E), vec.n == i, vec_ok(A, vec, i))

    def inv00(A, E):
        i = E['__i0']; j = E['__i0.0']; vec = E['vector']
        cn = E['coefficient_n'].f['value']; cd = E['coefficient_d'].f['value']
        return And(xs_ok(A, E), vec.n == i, vec_ok(A, vec, i), 0 <= i, i < n(A), E['i'] == i, E['x_i'] == X(A, i), 0 <= j, j <= n(A),
                   cn == Nf(i, j), cd == Df(i, j), 0 <= cn, cn < p(A), 0 < cd, cd < p(A))

    def ensures(A, res, E):
        return And(res.n == n(A), vec_ok(A, res, n(A)))

    def field_ctor(vc, P, args, kw, e):
        v = P.deref(args[0])
        if isinstance(v, int) and v == 1:
            return _fe(1)                         # field(1): 1 mod p == 1 for p > 1
        return _fe(vc.mod(v, P.deref(P.env['field']).f['modulus'], P, e.lineno))

    def aug(vc, P, op, cur, val, st):
        import ast as _ast
        cur = P.deref(cur); val = P.deref(val)
        if isinstance(cur, VObj) and cur.cls == 'fe' and isinstance(op, _ast.Mult):
            # contract of FiniteFieldElement.__imul__ (int operand): value' = (value * other) mod p, self returned
            return _fe(vc.mod(cur.f['value'] * val, P.deref(P.env['field']).f['modulus'], P, st.lineno))
        return NotImplemented

    def binop(vc, P, op, a, b, line):
        import ast as _ast
        if isinstance(a, VObj) and a.cls == 'fe' and isinstance(b, VObj) and b.cls == 'fe' and isinstance(op, _ast.Div):
            # contract of __truediv__ (via gmpy.invert, contracts/gmpy.py): raises ZeroDivisionError iff b == 0 in the field;
            # otherwise the result r is reduced and r * b == a (mod p), stated with a witness k
            pp = P.deref(P.env['field']).f['modulus']
            nn, dd = a.f['value'], b.f['value']
            vc.oblige(f'division-by-nonzero-field-element@{line}', P, And(0 < dd, dd < pp), line=line)
            r = vc.fresh('quot'); k = vc.fresh('kdiv')
            vc.assume(P, And(0 <= r, r < pp, r * dd == nn + k * pp))
            P.env['__kdiv'] = k
            return _fe(r)
        return NotImplemented

    def comp_xs(vc, P, e):
        xs = P.deref(P.env['xs']); pp = P.deref(P.env['field']).f['modulus']
        j = vc.fresh('jx')
        return vc.alloc(P, VList(z3.Lambda([j], MOD(xs.arr[j], pp)), xs.n))

    euclid = lambda A, a, b: Implies(And(PRIME(p(A)), 0 < a, a < p(A), -p(A) < b, b < p(A), b != 0), MOD(a * b, p(A)) != 0)
    return Contract(
        'mpyc.thresha._recombination_vector', _rv_params, requires, ensures,
        calls={'call:field': field_ctor, 'augassign': aug, 'binop': binop, 'comp:[field(x).value for x in xs]': comp_xs},
        loops={'0': LoopSpec(inv0, ghost_vars=['__kdiv'],
                             reveal_post=[lambda A, pre, E: KW(pre['__i0']) == E['__kdiv']]),
               '0.0': LoopSpec(inv00,
                               reveal_init=[lambda A, E: And(Nf(E['__i0'], 0) == 1, Df(E['__i0'], 0) == 1)],
                               reveal=[lambda A, E: And(unfoldN(A, E['__i0'], E['__i0.0']), unfoldD(A, E['__i0'], E['__i0.0']),
                                                        euclid(A, Df(E['__i0'], E['__i0.0']), X(A, E['__i0']) - X(A, E['__i0.0'])))])},
        ghost_entry=['__kdiv = 0'])


recombination_vector = _rv_contract()
CONTRACTS.append(recombination_vector)


# ---------------------------------------------------------------- pseudorandom_share / pseudorandom_share_zero
# ghost: the dict prfs is iterated as a sequence k = 0..K-1 of (S_k, prf_k) in unspecified order (the result is a sum);
#   PRFOUT(k, h) = prf_k(uci, .)[h]   (contract of PRF.__call__: a list of the requested length, C17),  FS(k) = _f_S_i(field, m, i, S_k),
#   DLEN(k) = m - len(S_k)
# spec: T(0,h) = 0, T(k+1,h) = T(k,h) + PRFOUT(k,h) * FS(k)
#       HZ(k,h,0) = 0, HZ(k,h,j+1) = (HZ(k,h,j) + PRFOUT(k, h*DLEN(k) + j)) * (i+1);  TZ(k+1,h) = TZ(k,h) + HZ(k,h,DLEN(k)) * FS(k)
PRFOUT = z3.Function('PRFOUT', I, I, I)
FS = z3.Function('FS', I, I)
DLEN = z3.Function('DLEN', I, I)
T_ = z3.Function('T', I, I, I)
TZ = z3.Function('TZ', I, I, I)
HZ = z3.Function('HZ', I, I, I, I)


def _ps_params(vc, P):
    p = z3.Int('p')
    return dict(field=VObj('field', modulus=p, order=p), m=z3.Int('m'), i=z3.Int('i'), prfs=VObj('prfs', K=z3.Int('K')), uci=VObj('bytes'), n=z3.Int('n'))


def _ps_iter(vc, P, st):
    K = P.deref(P.env['prfs']).f['K']
    def bind(Q, k):
        Q.env['S'] = VObj('subset', idx=k)
        Q.env['prf_S'] = VObj('prf', idx=k)
    return 0, K, bind


def _ps_calls(zero):
    def f_S_i(vc, P, args, kw, e):
        S = P.deref(args[3])
        return FS(S.f['idx'])

    def prf_call(vc, P, args, kw, e):
        prf = P.deref(P.env[e.func.id]); cnt = P.deref(args[1])
        vc.oblige(f'prf-count-nonneg@{e.lineno}', P, cnt >= 0, line=e.lineno)
        hh = vc.fresh('hp')
        return vc.alloc(P, VList(z3.Lambda([hh], PRFOUT(prf.f['idx'], hh)), cnt))

    def field_ctor(vc, P, args, kw, e):
        return vc.mod(P.deref(args[0]), P.deref(P.env['field']).f['modulus'], P, e.lineno)

    def len_(vc, P, args, kw, e):
        v = P.deref(args[0])
        if isinstance(v, VObj) and v.cls == 'subset':
            m = P.deref(P.env['m'])
            return m - DLEN(v.f['idx'])
        from vc.engine import _len
        return _len(vc, P, args, kw, e)
    return {'iter:prfs.items()': _ps_iter, '_f_S_i': f_S_i, 'call:prf': prf_call, 'call:field': field_ctor, 'len': len_,
            'type(field.modulus)': lambda vc, P, args, kw, e: 0}


def _ps_contract():
    p = lambda A: A['field'].modulus
    K = lambda A: A['prfs'].f['K']

    def inv0(A, E):
        k = E['__i0']; sm = E['sums']
        return And(sm.n == A['n'], z3.ForAll([h_], Implies(And(0 <= h_, h_ < A['n']), sm.arr[h_] == T_(k, h_))))

    def inv00(A, E):
        k = E['__i0']; h = E['__i0.0']; sm = E['sums']
        return And(sm.n == A['n'], 0 <= k, k < K(A), E['f_S_i'] == FS(k), E['prl'].n == A['n'],
                   z3.ForAll([h_], Implies(And(0 <= h_, h_ < A['n']), E['prl'].arr[h_] == PRFOUT(k, h_))), 0 <= h, h <= A['n'],
                   z3.ForAll([h_], Implies(And(0 <= h_, h_ < A['n']), sm.arr[h_] == If(h_ < h, T_(k + 1, h_), T_(k, h_)))))

    def inv1(A, E):
        h = E['__i1']; sm = E['sums']
        return And(sm.n == A['n'], z3.ForAll([h_], Implies(And(0 <= h_, h_ < A['n']), sm.arr[h_] == If(h_ < h, MOD(T_(K(A), h_), p(A)), T_(K(A), h_)))))
    return Contract('mpyc.thresha.pseudorandom_share', _ps_params,
                    requires=lambda A: And(A['n'] >= 0, K(A) >= 0, p(A) > 1),
                    ensures=lambda A, res, E: And(res.n == A['n'], z3.ForAll([h_], Implies(And(0 <= h_, h_ < A['n']), res.arr[h_] == MOD(T_(K(A), h_), p(A))))),
                    calls=_ps_calls(False),
                    loops={'0': LoopSpec(inv0, reveal_init=[lambda A, E: z3.ForAll([h_], T_(0, h_) == 0)]),
                           '0.0': LoopSpec(inv00, reveal=[lambda A, E: T_(E['__i0'] + 1, E['__i0.0']) == T_(E['__i0'], E['__i0.0']) + PRFOUT(E['__i0'], E['__i0.0']) * FS(E['__i0'])]),
                           '1': LoopSpec(inv1)})


def _psz_contract():
    p = lambda A: A['field'].modulus
    K = lambda A: A['prfs'].f['K']

    def inv0(A, E):
        k = E['__i0']; sm = E['sums']
        return And(sm.n == A['n'], E['i1'] == A['i'] + 1, z3.ForAll([h_], Implies(And(0 <= h_, h_ < A['n']), sm.arr[h_] == TZ(k, h_))))

    def inv00(A, E):
        k = E['__i0']; h = E['__i0.0']; sm = E['sums']
        return And(sm.n == A['n'], E['i1'] == A['i'] + 1, 0 <= k, k < K(A), E['f_S_i'] == FS(k), E['d'] == DLEN(k), E['d'] >= 0, E['prl'].n == A['n'] * DLEN(k),
                   z3.ForAll([h_], Implies(And(0 <= h_, h_ < A['n'] * DLEN(k)), E['prl'].arr[h_] == PRFOUT(k, h_))), 0 <= h, h <= A['n'],
                   z3.ForAll([h_], Implies(And(0 <= h_, h_ < A['n']), sm.arr[h_] == If(h_ < h, TZ(k + 1, h_), TZ(k, h_)))))

    def inv000(A, E):
        k = E['__i0']; h = E['__i0.0']; j = E['__i0.0.0']; sm = E['sums']
        return And(sm.n == A['n'], E['i1'] == A['i'] + 1, 0 <= k, k < K(A), E['f_S_i'] == FS(k), E['d'] == DLEN(k), E['d'] >= 0, E['prl'].n == A['n'] * DLEN(k),
                   z3.ForAll([h_], Implies(And(0 <= h_, h_ < A['n'] * DLEN(k)), E['prl'].arr[h_] == PRFOUT(k, h_))), 0 <= h, h < A['n'], E['h'] == h,
                   0 <= j, j <= DLEN(k), E['y'] == HZ(k, h, j),
                   z3.ForAll([h_], Implies(And(0 <= h_, h_ < A['n']), sm.arr[h_] == If(h_ < h, TZ(k + 1, h_), TZ(k, h_)))))

    def inv1(A, E):
        h = E['__i1']; sm = E['sums']
        return And(sm.n == A['n'], z3.ForAll([h_], Implies(And(0 <= h_, h_ < A['n']), sm.arr[h_] == If(h_ < h, MOD(TZ(K(A), h_), p(A)), TZ(K(A), h_)))))
    return Contract('mpyc.thresha.pseudorandom_share_zero', _ps_params,
                    requires=lambda A: And(A['n'] >= 0, K(A) >= 0, p(A) > 1, z3.ForAll([i_], DLEN(i_) >= 0)),
                    ensures=lambda A, res, E: And(res.n == A['n'], z3.ForAll([h_], Implies(And(0 <= h_, h_ < A['n']), res.arr[h_] == MOD(TZ(K(A), h_), p(A))))),
                    calls=_ps_calls(True),
                    loops={'0': LoopSpec(inv0, reveal_init=[lambda A, E: z3.ForAll([h_], TZ(0, h_) == 0)]),
                           '0.0': LoopSpec(inv00),
                           '0.0.0': LoopSpec(inv000, reveal_init=[lambda A, E: HZ(E['__i0'], E['__i0.0'], 0) == 0],
                                             reveal=[lambda A, E: HZ(E['__i0'], E['__i0.0'], E['__i0.0.0'] + 1)
                                                     == (HZ(E['__i0'], E['__i0.0'], E['__i0.0.0']) + PRFOUT(E['__i0'], E['__i0.0'] * DLEN(E['__i0']) + E['__i0.0.0'])) * (A['i'] + 1)],
                                             reveal_exit=[lambda A, E: TZ(E['__i0'] + 1, E['__i0.0']) == TZ(E['__i0'], E['__i0.0']) + HZ(E['__i0'], E['__i0.0'], DLEN(E['__i0'])) * FS(E['__i0'])]),
                           '1': LoopSpec(inv1)})


pseudorandom_share = _ps_contract()
pseudorandom_share_zero = _psz_contract()
CONTRACTS += [pseudorandom_share, pseudorandom_share_zero]
