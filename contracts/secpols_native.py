"""Bounded executable contracts for /repo/mpyc/secpols.py (property C38): secure polynomials (class secpoly) against the
plain polynomials of mpyc/gfpx.py over the same prime field, evaluated on the REAL code with the single-party runtime
(m = 1) and NumPy enabled.  Strength: bounded (the enumerated domain is stated per Native), never "proved".

Conventions
-----------
* args of every Native are Python literals: (p, a[, b][, extra...]).  A polynomial operand is named by the tuple of its
  SHARE, little-endian coefficients in range(p); the tuple length is the public length bound, trailing zeros (= leading
  zero coefficients) are part of the input on purpose: secpoly promises that only the length bound is public.
  () is the secure polynomial with an empty share (what secpoly(GFpX(p)(0)) builds).
* `call` builds the operands with secpoly(np.array(a), sectype=mpc.SecFld(p)), runs the real operators/methods and opens
  every result with mpc.run(mpc.output(.)) (secpoly._output for polynomials).  A result is described as
      ('P', n, coeffs)   secpoly of sectype SecFld(p), n = len(share) (public), coeffs = opened GFpX(p) polynomial
      ('F', v)           secure field element of SecFld(p), opened
      ('I', v)           secure integer, opened
      ('pub', type, repr) anything that is not a secure object (a public bool for a comparison is a leak and fails)
  A call returns a list of (label, description) pairs; the contract computes the expected list.
* Oracles (two, which must also agree with each other): (1) GFpX(p) of mpyc/gfpx.py on the normalised coefficient lists,
  (2) the independent reference implementation r_* of contracts/gfpx.py (plain lists, schoolbook algorithms).
  Evaluation over GF(2) at even x is compared with r_eval only: BinaryPolynomial.__call__ returns 0 there (listed
  finding of C23), secpoly returns the constant term.
* Supported domain ("for certain operations, p must be sufficiently large, in particular compared to (the public upper
  bound on) the degree", module docstring): the operations that use the secret degree (monic, reverse with a secret d,
  // % divmod mod, gcd, gcdext, invert, powmod, is_irreducible, < <= > >=) are exercised only when every share they
  meet (operands and intermediate products) has length < p.  degree() and reverse() are exercised up to length p (the
  module's own guard `assert len(a) <= p`).  Ring operations, shifts, evaluation, == and != have no such restriction.
  Documented preconditions kept: divisor / modulus nonzero ("assume b != 0", "for nonzero b"), invert and negative powers
  only when the inverse exists ("Inverse is assumed to exist"), secret d of reverse in -1..len-1, shift counts >= 0,
  condition of if_else / if_swap in {0, 1}; values are a GFpX polynomial, an int array or a secure array (ints, lists and
  secure field elements must raise TypeError).
* PRSS keys are set from a hash of the arguments before every call: a case and its replay are deterministic.
* A call that does not return within CALL_LIMIT_S seconds (HANG_LIMIT_S in the natives whose listed class is non-termination) is
  reported as a hang (exception CallTimeout).
* Failing classes found on the unchanged tree are isolated in the natives of section "classes of failing inputs": the
  contract stays strict, the check returns ('class', key, message) exactly for the delimited class.
"""
import os, sys, itertools, random, zlib, hashlib, signal, time
from lib.native import Native
from contracts.gfpx import (r_trim, r_add, r_sub, r_neg, r_mul, r_divmod, r_mod, r_monic, r_gcd, r_pow, r_powmod, r_eval, r_reverse,
                            r_is_irr, r_to_int)

PRIMES = (2, 3, 5, 7, 31, 257)
CALL_LIMIT_S = 40.0          # generous: the check shares the machine with other pools (the slowest call takes about 1 s alone)
HANG_LIMIT_S = 5.0           # natives whose listed class of failing inputs is non-termination (calls that return take milliseconds)
FN = 'mpyc.secpols.secpoly.'


def T(tier, q, th): return q if tier == 'quick' else th


# ===================================================================== runtime access
def _rt():
    if 'mpyc.runtime' not in sys.modules:
        os.environ.pop('MPYC_NONUMPY', None)          # C38 is about the NumPy code path (replays are started with MPYC_NONUMPY=1)
        for v in ('OPENBLAS_NUM_THREADS', 'OMP_NUM_THREADS', 'MKL_NUM_THREADS'): os.environ.setdefault(v, '1')          # 16 pool processes: no BLAS thread pools
        sys.argv = [sys.argv[0] if sys.argv else 'x', '--no-log']      # mpyc.runtime parses sys.argv at import time
    from mpyc.runtime import mpc
    from mpyc.numpy import np
    if np is None:
        raise RuntimeError('C38 needs NumPy inside MPyC (unset MPYC_NONUMPY, use /verif/.venv/bin/python)')
    from mpyc.secpols import secpoly
    from mpyc.gfpx import GFpX
    assert len(mpc.parties) == 1 and mpc.options.no_async
    return mpc, np, secpoly, GFpX


def _seed(mpc, args):
    mpc.prfs.cache_clear()
    mpc._prss_keys = {(0,): hashlib.sha256(b'verif-C38-%d' % zlib.crc32(repr(args).encode())).digest()[:16]}
    mpc._program_counter[0] = 0


def _types(p):
    mpc, np, secpoly, GFpX = _rt()
    return mpc.SecFld(p), GFpX(p), mpc.SecInt(16)


class CallTimeout(Exception):
    pass


def _guarded(f, *args, limit=None):
    """run f(*args) with a wall-clock limit; the task-level alarm of lib.common is restored afterwards"""
    limit = limit or CALL_LIMIT_S
    import threading
    if threading.current_thread() is not threading.main_thread():
        return f(*args)

    def on_alarm(signum, frame):
        raise CallTimeout(f'call did not return within {limit} s')
    old_h = signal.signal(signal.SIGALRM, on_alarm)
    t0 = time.time()
    old = signal.setitimer(signal.ITIMER_REAL, limit)
    try:
        return f(*args)
    finally:
        signal.setitimer(signal.ITIMER_REAL, 0)
        signal.signal(signal.SIGALRM, old_h)
        if old[0]:
            signal.setitimer(signal.ITIMER_REAL, max(old[0] - (time.time() - t0), 0.01))


class Plain:
    """a public value computed by the call itself (lengths, type names): passed through as ('plain', value)"""

    def __init__(self, v): self.v = v


class Ctx:
    """operands and result descriptions of one call"""

    def __init__(self, p, args):
        self.mpc, self.np, self.secpoly, GFpX = _rt()
        self.p = p
        self.F = self.mpc.SecFld(p)
        self.P = GFpX(p)
        _seed(self.mpc, args)

    def sp(self, a):
        """secure polynomial with exactly the share a"""
        return self.secpoly(self.np.array(list(a), dtype=int), sectype=self.F)

    def pub(self, a):
        """public GFpX(p) polynomial"""
        return self.P(trim(a))

    def arr(self, a):
        return self.np.array(list(a), dtype=int)

    def sarr(self, a):
        return self.F.array(self.np.array(list(a), dtype=int))

    def out(self, x):
        return self.mpc.run(self.mpc.output(x))

    def d(self, x):
        """description of a result by Python literals"""
        from mpyc import sectypes
        if isinstance(x, Plain):
            return ('plain', x.v)
        if isinstance(x, (list, tuple)):
            return tuple(self.d(y) for y in x)
        if isinstance(x, self.secpoly):
            if x.sectype is not self.F:
                return ('BAD', f'secpoly of sectype {x.sectype.__name__}')
            n = len(x.share)
            y = self.out(x)
            if type(y) is not self.P:
                return ('BAD', f'output of a secpoly is a {type(y).__name__}, not {self.P.__name__}')
            v = y.value          # representation invariant of gfpx: nonnegative int (p = 2) / list of ints in range(p) without trailing zero
            if self.p == 2:
                if type(v) is not int or v < 0:
                    return ('BAD', f'opened GF(2)[x] polynomial holds a {type(v).__name__} instead of a nonnegative int')
                c = [(v >> i) & 1 for i in range(v.bit_length())]
            else:
                if type(v) is not list or any(type(e) is not int or not 0 <= e < self.p for e in v) or (v and v[-1] == 0):
                    return ('BAD', f'opened polynomial value {v!r} violates the representation invariant of gfpx')
                c = list(v)
            if len(c) > n:
                return ('BAD', f'opened polynomial of degree {len(c) - 1} from a share of length {n}')
            return ('P', n, tuple(c))
        if isinstance(x, self.F):
            return ('F', int(self.out(x)))
        if isinstance(x, sectypes.SecureInteger):
            return ('I', int(self.out(x)))
        if isinstance(x, sectypes.SecureObject):
            return ('sec?', type(x).__name__)
        return ('pub', type(x).__name__, repr(x)[:60])

    def run(self, items):
        """items: list of (label, thunk) -> list of (label, description | ('exc', type name))"""
        out = []
        for label, f in items:
            try:
                out.append((label, self.d(f())))
            except (RecursionError, CallTimeout):
                raise
            except Exception as e:      # noqa: the contract decides
                out.append((label, ('exc', type(e).__name__, str(e)[:80])))
        return out


def trim(a):
    return r_trim(list(a))


def mk_call(body, limit=None):
    """body(ctx, p, *args) -> list of (label, thunk)"""
    def call(p, *args):
        _rt(); _types(p)          # imports and type creation are not part of the timed call

        def go():
            c = Ctx(p, (p,) + args)
            return c.run(body(c, p, *args))
        return _guarded(go, limit=limit)
    return call


# ===================================================================== oracle side
_GF = {}


def GF(p):
    c = _GF.get(p)
    if c is None:
        from mpyc.gfpx import GFpX
        c = _GF[p] = GFpX(p)
    return c


def gp(p, a): return GF(p)(trim(a))


def cl(y): return [int(v) for v in y]


class OracleDisagreement(Exception):
    pass


def both(label, g, r):
    """the two oracles must agree: g = coefficient list by GFpX, r = by the reference implementation"""
    if list(g) != list(r):
        raise OracleDisagreement(f'{label}: GFpX gives {g}, reference implementation gives {r}')
    return list(g)


def XP(c, n=None):
    """expected secure polynomial with opened value c (share length n, if pinned)"""
    return ('P', tuple(c)) if n is None else ('P', tuple(c), n)


def XF(v, p): return ('F', v % p)


def XE(*names): return ('exc',) + names      # expected exception (one of the type names)


def compare(val, exc, want):
    """val: list of (label, description); want: list of (label, expectation) -> None or message"""
    if exc is not None:
        return f'unexpected {type(exc).__name__}: {exc}'
    if [l for l, _ in val] != [l for l, _ in want]:
        return f'labels differ: {[l for l, _ in val]} vs {[l for l, _ in want]}'
    for (l, d), (_, w) in zip(val, want):
        m = mismatch(d, w)
        if m:
            return f'{l}: {m}'
    return None


def mismatch(d, w):
    if isinstance(w, tuple) and w and w[0] == 'T':          # tuple of expectations
        if not (isinstance(d, tuple) and len(d) == len(w) - 1 and all(isinstance(x, tuple) for x in d)):
            return f'expected a {len(w) - 1}-tuple, got {d!r}'
        for i, (x, y) in enumerate(zip(d, w[1:])):
            m = mismatch(x, y)
            if m: return f'component {i}: {m}'
        return None
    if w[0] == 'P':
        if d[0] != 'P': return f'expected a secure polynomial with value {list(w[1])}, got {d!r}'
        if list(d[2]) != list(w[1]): return f'opened value {list(d[2])} != expected {list(w[1])} (share length {d[1]})'
        if len(w) > 2 and d[1] != w[2]: return f'share length {d[1]} != expected {w[2]}'
        return None
    if w[0] == 'F':
        return None if tuple(d) == tuple(w) else f'expected secure field element {w[1]}, got {d!r}'
    if w[0] == 'exc':
        return None if d[0] == 'exc' and d[1] in w[1:] else f'expected {" or ".join(w[1:])}, got {d!r}'
    if w[0] == 'any':
        return None
    return None if tuple(d) == tuple(w) else f'expected {w!r}, got {d!r}'


def XT(*ws): return ('T',) + ws


# ===================================================================== input domains
def tuples(p, lo, hi):
    """all shares of length lo..hi"""
    for L in range(lo, hi + 1):
        yield from itertools.product(range(p), repeat=L)


def cap(p, n=9):
    """longest share for the degree-dependent operations: length < p"""
    return min(n, p - 1)


def rnd_poly(rnd, p, L, kind=0):
    """share of length L; kind: 0 random, 1 full degree, 2 monic, 3 trailing zeros (1..2 leading zero coefficients), 4 sparse"""
    if L == 0: return ()
    a = [rnd.randrange(p) for _ in range(L)]
    if kind == 1: a[-1] = rnd.randrange(1, p)
    elif kind == 2: a[-1] = 1
    elif kind == 3:
        for i in range(1, min(L, 1 + rnd.randrange(2)) + 1): a[-i] = 0
    elif kind == 4:
        a = [x if rnd.randrange(3) == 0 else 0 for x in a]
    return tuple(a)


def singles(seed, primes, n, maxlen=9, capped=False, minlen=0):
    """deterministic sample of shares per prime: zero polynomial (several lengths), constants, x, then n random ones of every kind"""
    def gen(tier):
        for p in primes:
            rnd = random.Random(seed * 1000 + p)
            hi = cap(p, maxlen) if capped else maxlen
            base = [(), (0,), (0, 0), (0,) * min(hi, 4), (1,), (p - 1,), (0, 1), (0, 1, 0), (1, 0, 0), (p - 1,) * hi, (0,) * (hi - 1) + (1,)]
            seen = set()
            for a in base:
                if minlen <= len(a) <= hi and a not in seen:
                    seen.add(a); yield (p, a)
            for i in range(T(tier, n, 4 * n)):
                yield (p, rnd_poly(rnd, p, rnd.randrange(max(minlen, 1), hi + 1), i % 5))
    return gen


def pairs(seed, primes, n, maxlen=9, capped=True, b_nonzero=False, filt=None):
    """deterministic sample of pairs of shares: random, equal operands, a multiple of b, b a multiple of a, divisor longer than
    dividend, constants, zero operands, common factor, leading zeros"""
    def gen(tier):
        for p in primes:
            rnd = random.Random(seed * 1000 + p)
            hi = cap(p, maxlen) if capped else maxlen
            if hi < 1: continue
            for i in range(T(tier, n, 4 * n)):
                k = i % 12
                la, lb = rnd.randrange(1, hi + 1), rnd.randrange(1, hi + 1)
                a, b = rnd_poly(rnd, p, la, i % 5), rnd_poly(rnd, p, lb, (i // 5) % 5)
                if k == 1: b = a
                elif k == 2 or k == 3:          # one operand a multiple of the other (product kept within the length bound)
                    l1 = rnd.randrange(1, max(hi // 2, 1) + 1); l2 = rnd.randrange(1, hi - l1 + 2)
                    f, g = rnd_poly(rnd, p, l1, 1), rnd_poly(rnd, p, l2, 1)
                    m = tuple(r_mul(p, trim(f), trim(g))) + (0,) * (i % 2)
                    if len(m) > hi: m = m[:hi]
                    a, b = (m, f) if k == 2 else (f, m)
                elif k == 4 and hi >= 2:          # divisor of higher degree than dividend
                    la = rnd.randrange(1, hi); a, b = rnd_poly(rnd, p, la, 1), rnd_poly(rnd, p, rnd.randrange(la + 1, hi + 1), 1)
                elif k == 5: b = (rnd.randrange(1, p),) + (0,) * (i % 3 if hi >= 3 else 0)        # constant divisor (with leading zeros)
                elif k == 6: a = (0,) * la
                elif k == 7 and hi >= 3:          # common factor
                    l0 = rnd.randrange(2, max(hi // 2, 2) + 1)
                    c = rnd_poly(rnd, p, l0, 2)
                    f, g = rnd_poly(rnd, p, rnd.randrange(1, max(hi - l0 + 1, 1) + 1), 1), rnd_poly(rnd, p, rnd.randrange(1, max(hi - l0 + 1, 1) + 1), 1)
                    a, b = tuple(r_mul(p, trim(c), trim(f)))[:hi], tuple(r_mul(p, trim(c), trim(g)))[:hi]
                elif k == 8: b = (0,) * lb
                elif k == 9: a, b = a[:1], b[:1]       # two constants
                if b_nonzero and not trim(b): continue
                if filt and not filt(p, a, b): continue
                yield (p, a, b)
    return gen


def all_pairs(p, hi_a, hi_b, b_nonzero=False, lo=0):
    for a in tuples(p, lo, hi_a):
        for b in tuples(p, lo, hi_b):
            if b_nonzero and not trim(b): continue
            yield (p, a, b)


# ===================================================================== 1. construction, copy, output, input, coercion
def body_construct(c, p, a):
    np, S, F, P = c.np, c.secpoly, c.F, c.P
    A = c.pub(a)
    f = c.sp(a)
    g = c.sp((1, 1))
    z = f * g - g * f                 # a secret zero of length len(a) + 1 (0 for an empty share)
    shifted = tuple(((x + p) if i % 2 else (x - p)) for i, x in enumerate(a))       # same residues, not in range(p)
    return [('array', lambda: f), ('array-unreduced', lambda: S(np.array(list(shifted), dtype=int), sectype=F)),
            ('object-array', lambda: S(np.array(list(a), dtype=object), sectype=F)),
            ('secure-array', lambda: S(c.sarr(a))), ('secure-array+sectype', lambda: S(c.sarr(a), sectype=F)),
            ] + ([('gfpx', lambda: S(A)), ('gfpx+sectype', lambda: S(A, sectype=F))] if p > 2 else []) + [
            ('copy', lambda: f.copy()), ('pos', lambda: +f), ('secpoly-share', lambda: S(f.share)),
            ('input', lambda: c.mpc.input(f, senders=0)), ('input-list', lambda: c.mpc.input(f)), ('input-lists', lambda: c.mpc.input([f, g], senders=0)),
            ('output-list', lambda: Plain([(type(y) is P, cl(y)) for y in c.out([f, g])])),
            ('z', lambda: z), ('z+f', lambda: z + f), ('f+z', lambda: f + z), ('f-z', lambda: f - z), ('(z+f)*g', lambda: (z + f) * g), ('(z+f)(1)', lambda: (z + f)(1)),
            ('placeholder', lambda: Plain(len(S(None, F, (len(a),)).share))),
            ('sectype', lambda: Plain(f.sectype is F))]


def ck_construct(args, val, exc):
    p, a = args
    A = trim(a)
    n = len(a)
    fg = both('f*(x+1)', cl(gp(p, a) * GF(p)([1, 1])), r_mul(p, A, [1, 1]))
    w = [('array', XP(A, n)), ('array-unreduced', XP(A, n)), ('object-array', XP(A, n)), ('secure-array', XP(A, n)), ('secure-array+sectype', XP(A, n)),
         ] + ([('gfpx', XP(A, len(A))), ('gfpx+sectype', XP(A, len(A)))] if p > 2 else []) + [
         ('copy', XP(A, n)), ('pos', XP(A, n)), ('secpoly-share', XP(A, n)),
         ('input', XP(A, n)), ('input-list', XT(XP(A, n))), ('input-lists', XT(XP(A, n), XP([1, 1], 2))), ('output-list', ('plain', [(True, A), (True, [1, 1])])),
         ('z', XP([])), ('z+f', XP(A)), ('f+z', XP(A)), ('f-z', XP(A)), ('(z+f)*g', XP(fg)), ('(z+f)(1)', XF(sum(A), p)),
         ('placeholder', ('plain', n)), ('sectype', ('plain', True))]
    return compare(val, exc, w)


def in_construct(tier):
    for p in PRIMES:
        yield from ((p, a) for a in tuples(p, 0, {2: 5, 3: 4, 5: 3, 7: 2}.get(p, 1) if tier != 'quick' else {2: 4, 3: 3, 5: 2, 7: 2}.get(p, 1)))
    yield from singles(11, (5, 7, 31, 257), 12, minlen=3)(tier)


# ===================================================================== 2. ring operations (no restriction on p)
def body_ring(c, p, a, b):
    S = c.secpoly
    f, g, A, B = c.sp(a), c.sp(b), c.pub(a), c.pub(b)
    return [('f+g', lambda: f + g), ('f-g', lambda: f - g), ('f*g', lambda: f * g), ('-f', lambda: -f), ('+g', lambda: +g),
            ('add', lambda: S.add(f, g)), ('sub', lambda: S.sub(f, g)), ('mul', lambda: S.mul(f, g)),
            ] + ([('f+B', lambda: f + B), ('A+g', lambda: A + g), ('f-B', lambda: f - B), ('A-g', lambda: A - g), ('f*B', lambda: f * B), ('A*g', lambda: A * g)] if p > 2 else []) + [
            ('f+arr', lambda: f + c.arr(b)), ('arr-g', lambda: c.arr(a) - g), ('arr*g', lambda: c.arr(a) * g),
            ('f-sarr', lambda: f - c.sarr(b)), ('sarr*g', lambda: c.sarr(a) * g), ('sarr+g', lambda: c.sarr(a) + g),
            ('f*f', lambda: f * f), ('f-f', lambda: f - f), ('(f+g)-g', lambda: (f + g) - g), ('f*g-g*f', lambda: f * g - g * f), ('(f-g)*(f+g)', lambda: (f - g) * (f + g))]


def ck_ring(args, val, exc):
    p, a, b = args
    A, B, GA, GB = trim(a), trim(b), gp(p, a), gp(p, b)
    la, lb = len(a), len(b)
    s = both('a+b', cl(GA + GB), r_add(p, A, B)); d = both('a-b', cl(GA - GB), r_sub(p, A, B)); m = both('a*b', cl(GA * GB), r_mul(p, A, B))
    n = both('-a', cl(-GA), r_neg(p, A))
    sq = both('a*a', cl(GA * GA), r_mul(p, A, A))
    dsq = both('(a-b)(a+b)', cl((GA - GB) * (GA + GB)), r_sub(p, sq, r_mul(p, B, B)))
    ls, lm = max(la, lb), (la + lb - 1 if la and lb else 0)
    w = [('f+g', XP(s, ls)), ('f-g', XP(d, ls)), ('f*g', XP(m, lm)), ('-f', XP(n, la)), ('+g', XP(B, lb)), ('add', XP(s, ls)), ('sub', XP(d, ls)), ('mul', XP(m, lm)),
         ] + ([('f+B', XP(s)), ('A+g', XP(s)), ('f-B', XP(d)), ('A-g', XP(d)), ('f*B', XP(m)), ('A*g', XP(m))] if p > 2 else []) + [
         ('f+arr', XP(s, ls)), ('arr-g', XP(d, ls)), ('arr*g', XP(m, lm)), ('f-sarr', XP(d, ls)), ('sarr*g', XP(m, lm)), ('sarr+g', XP(s, ls)),
         ('f*f', XP(sq)), ('f-f', XP([])), ('(f+g)-g', XP(A)), ('f*g-g*f', XP([])), ('(f-g)*(f+g)', XP(dsq))]
    return compare(val, exc, w)


def in_ring(tier):
    yield from all_pairs(2, T(tier, 4, 5), T(tier, 4, 5))
    yield from all_pairs(3, 3, 3)
    yield from all_pairs(5, 2, T(tier, 2, 3))
    yield from pairs(21, (5, 7, 31, 257), 100, capped=False)(tier)


# ===================================================================== 3. shifts, truncate, indexing
def body_shift(c, p, a):
    f = c.sp(a)
    n = len(a)
    it = [(f'<<{k}', (lambda k: lambda: f << k)(k)) for k in (0, 1, 2, 5)] + [(f'>>{k}', (lambda k: lambda: f >> k)(k)) for k in (0, 1, 2, n, n + 2)]
    it += [(f'truncate({k})', (lambda k: lambda: f.truncate(k))(k)) for k in (0, 1, 2, n, n + 2)]
    it += [(f'[{k}]', (lambda k: lambda: f[k])(k)) for k in (0, 1, max(n - 1, 0), n, n + 3)]
    it += [('(f<<2)>>2', lambda: (f << 2) >> 2), ('(f>>1)<<1', lambda: (f >> 1) << 1)]
    return it


def ck_shift(args, val, exc):
    p, a = args
    A, G = trim(a), gp(p, a)
    n = len(a)
    w = [(f'<<{k}', XP(both('<<', cl(G << k), ([0] * k + A) if A else []), n + k if n else 0)) for k in (0, 1, 2, 5)]
    w += [(f'>>{k}', XP(both('>>', cl(G >> k), A[k:]), max(n - k, 0))) for k in (0, 1, 2, n, n + 2)]
    w += [(f'truncate({k})', XP(both('truncate', cl(G.truncate(k)), trim(A[:k])), min(k, n))) for k in (0, 1, 2, n, n + 2)]
    w += [(f'[{k}]', XF(G[k], p)) for k in (0, 1, max(n - 1, 0), n, n + 3)]
    w += [('(f<<2)>>2', XP(A)), ('(f>>1)<<1', XP(([0] + A[1:]) if A[1:] else []))]
    return compare(val, exc, w)


def in_singles_free(tier):
    yield from ((2, a) for a in tuples(2, 0, T(tier, 5, 7)))
    yield from ((3, a) for a in tuples(3, 0, T(tier, 4, 5)))
    yield from ((5, a) for a in tuples(5, 0, T(tier, 2, 3)))
    yield from singles(31, (5, 7, 31, 257), 30)(tier)


# ===================================================================== 4. division with remainder (share lengths < p, b != 0)
def body_div(c, p, a, b, full):
    S = c.secpoly
    f, g, A, B = c.sp(a), c.sp(b), c.pub(a), c.pub(b)
    core = [('f//g', lambda: f // g), ('f%g', lambda: f % g), ('divmod(f,g)', lambda: divmod(f, g))]
    if not full: return core
    return core + [('mod(f,g)', lambda: S.mod(f, g)),
            ('A//g', lambda: A // g), ('A%g', lambda: A % g), ('divmod(A,g)', lambda: divmod(A, g)),
            ('f//B', lambda: f // B), ('f%B', lambda: f % B), ('divmod(f,B)', lambda: divmod(f, B)),
            ('f//arr', lambda: f // c.arr(b)), ('f%sarr', lambda: f % c.sarr(b)), ('sarr//g', lambda: c.sarr(a) // g)
            ] + ([('f==q*g+r', lambda: f == (f // g) * g + f % g)] if a else [])


def ck_div(args, val, exc):
    p, a, b, full = args
    A, B, GA, GB = trim(a), trim(b), gp(p, a), gp(p, b)
    rq, rr = r_divmod(p, A, B)
    q = both('a//b', cl(GA // GB), rq); r = both('a%b', cl(GA % GB), rr)
    assert (cl(divmod(GA, GB)[0]), cl(divmod(GA, GB)[1])) == (q, r)
    QR = XT(XP(q), XP(r))
    w = [('f//g', XP(q)), ('f%g', XP(r)), ('divmod(f,g)', QR)]
    if full: w += [('mod(f,g)', XP(r)), ('A//g', XP(q)), ('A%g', XP(r)), ('divmod(A,g)', QR),
         ('f//B', XP(q)), ('f%B', XP(r)), ('divmod(f,B)', QR), ('f//arr', XP(q)), ('f%sarr', XP(r)), ('sarr//g', XP(q))] + ([('f==q*g+r', XF(1, p))] if a else [])
    return compare(val, exc, w)


def in_div(tier):
    yield from (x + (1,) for x in all_pairs(3, 2, 2, b_nonzero=True))
    yield from (x + (0,) for x in all_pairs(5, 2, 2, b_nonzero=True))
    if tier != 'quick':
        yield from (x + (0,) for x in all_pairs(5, 3, 2, b_nonzero=True, lo=3))
        yield from (x + (0,) for x in all_pairs(7, 2, 2, b_nonzero=True))
    yield from (x + (1,) for x in pairs(41, (5, 7, 31, 257), 70, b_nonzero=True)(tier))


# ===================================================================== 5. gcd, gcdext, invert
def _not_both_zero(p, a, b): return bool(trim(a) or trim(b)) or (not a and not b)


def body_gcd(c, p, a, b):
    S = c.secpoly
    f, g = c.sp(a), c.sp(b)
    return [('gcd(f,g)', lambda: S.gcd(f, g)), ('gcd(g,f)', lambda: S.gcd(g, f))]


def ck_gcd(args, val, exc):
    p, a, b = args
    A, B = trim(a), trim(b)
    g = both('gcd', cl(GF(p).gcd(gp(p, a), gp(p, b))), r_gcd(p, A, B))
    g2 = cl(GF(p).gcd(gp(p, b), gp(p, a)))
    return compare(val, exc, [('gcd(f,g)', XP(g)), ('gcd(g,f)', XP(g2))])


def in_gcd(tier):
    yield from (x for x in all_pairs(3, 2, 2) if _not_both_zero(*x))
    yield from (x for x in all_pairs(5, 2, 2) if _not_both_zero(*x))
    if tier != 'quick': yield from (x for x in all_pairs(7, 2, 2) if _not_both_zero(*x))
    yield from pairs(51, (5, 7, 31, 257), 100, filt=_not_both_zero)(tier)


def body_gcdext(c, p, a, b):
    S = c.secpoly
    f, g = c.sp(a), c.sp(b)
    return [('gcdext(f,g)', lambda: S.gcdext(f, g))]


def _bezout(p, a, b, d):
    """(message | None, cofactors_equal_gfpx): d = description of the triple"""
    A, B = trim(a), trim(b)
    e = [cl(y) for y in GF(p).gcdext(gp(p, a), gp(p, b))]
    both('gcdext d', e[0], r_gcd(p, A, B))
    if not (isinstance(d, tuple) and len(d) == 3 and all(isinstance(x, tuple) and x[0] == 'P' for x in d)):
        return f'expected a triple of secure polynomials, got {d!r}', False
    G, U, V = (list(x[2]) for x in d)
    if G != e[0]: return f'd = {G} != monic gcd {e[0]}', False
    if r_add(p, r_mul(p, U, A), r_mul(p, V, B)) != G: return f'Bezout identity fails: u*a + v*b != d for u = {U}, v = {V}', False
    return None, [U, V] == e[1:]


def ck_gcdext(args, val, exc):
    p, a, b = args
    if exc: return f'unexpected {type(exc).__name__}: {exc}'
    (l, d), = val
    if d[:1] == ('exc',): return f'unexpected {d[1]}: {d[2]}'
    m, same = _bezout(p, a, b, d)
    if m: return m
    if not same:
        e = [cl(y) for y in GF(p).gcdext(gp(p, a), gp(p, b))]
        msg = f'cofactors (u, v) = ({list(d[1][2])}, {list(d[2][2])}) differ from gfpx gcdext (s, t) = ({e[1]}, {e[2]}); d = {e[0]} and the Bezout identity hold'
        if len(e[0]) >= 2:
            return ('class', 'gcd-of-degree>=1:valid-cofactors-differ-from-gfpx', msg)
        return msg
    return None


def _coprime(p, a, b): return r_gcd(p, trim(a), trim(b)) == [1]


def _common(p, a, b): return len(r_gcd(p, trim(a), trim(b))) >= 2


def in_gcdext(tier):
    """pairs with gcd of degree 0 (the cofactors of minimal degree are then unique)"""
    yield from (x for x in all_pairs(3, 2, 2) if _coprime(*x))
    yield from (x for x in all_pairs(5, 2, 2) if _coprime(*x))
    if tier != 'quick': yield from (x for x in all_pairs(7, 2, 2) if _coprime(*x))
    yield from pairs(61, (5, 7, 31, 257), 120, filt=_coprime)(tier)


def in_gcdext_common(tier):
    """pairs with a common factor of degree >= 1 (incl. equal operands, one operand zero, one a multiple of the other)"""
    yield from (x for x in all_pairs(3, 2, 2) if _common(*x))
    yield from (x for x in all_pairs(5, 2, 2) if _common(*x))
    yield from pairs(62, (5, 7, 31, 257), 150, filt=_common)(tier)


def body_invert(c, p, a, b):
    S = c.secpoly
    f, g = c.sp(a), c.sp(b)
    return [('invert(f,g)', lambda: S.invert(f, g))]


def ck_invert(args, val, exc):
    p, a, b = args
    A, B = trim(a), trim(b)
    i = cl(GF(p).invert(gp(p, a), gp(p, b)))
    if len(i) >= max(len(B), 2) or r_mod(p, r_mul(p, A, i), B) != r_mod(p, [1], B): raise OracleDisagreement(f'gfpx invert {i} is not the reduced inverse')
    return compare(val, exc, [('invert(f,g)', XP(i))])


def _invertible(p, a, b): return bool(trim(b)) and r_gcd(p, trim(a), trim(b)) == [1]


def in_invert(tier):
    yield from (x for x in all_pairs(3, 2, 2, lo=1) if _invertible(*x))
    yield from (x for x in all_pairs(5, 2, 2, lo=1) if _invertible(*x))
    yield from pairs(71, (5, 7, 31, 257), 120, filt=_invertible)(tier)


# ===================================================================== 6. powers
def _pow_len(la, lb, n):
    """longest share met by _powmod(a, n, b): squares and products before reduction"""
    if n < 0: la = max(la, lb)          # the inverse comes from _gcdext on operands padded to equal length
    if abs(n) <= 1: return max(la, lb)
    return max(2 * la - 1, la + lb - 2, 2 * lb - 3, la, lb)


def body_powmod(c, p, a, b, n):
    S = c.secpoly
    f, g = c.sp(a), c.sp(b)
    return [('powmod', lambda: S.powmod(f, n, g))]


def ck_powmod(args, val, exc):
    p, a, b, n = args
    A, B = trim(a), trim(b)
    e = cl(GF(p).powmod(gp(p, a), n, gp(p, b)))
    if n >= 0: both('powmod', e, r_powmod(p, A, n, B))
    elif len(e) >= max(len(B), 2) or r_mod(p, r_mul(p, e, r_powmod(p, A, -n, B)), B) != r_mod(p, [1], B):
        raise OracleDisagreement(f'gfpx powmod {e} is not the reduced inverse power')
    return compare(val, exc, [('powmod', XP(e))])


def _pm_ok(p, a, b, n):
    A, B = trim(a), trim(b)
    if not B or _pow_len(len(a), len(b), n) >= p: return False
    if n < 0 and r_gcd(p, A, B) != [1]: return False
    if n == 1 and len(A) >= len(B): return False          # -> powmod_n1 (class of failing inputs)
    return True


def in_powmod(tier):
    ns = T(tier, (0, 1, 2, 3, 5, -1, -2), (0, 1, 2, 3, 4, 5, 6, 7, 11, -1, -2, -3, -5))
    for p, h in T(tier, ((5, 2),), ((5, 2), (7, 2))):
        for (_, a, b) in all_pairs(p, h, h, b_nonzero=True, lo=1):
            for n in T(tier, (0, 1, 2, 3, -1), ns):
                if _pm_ok(p, a, b, n): yield (p, a, b, n)
    for (p, a, b) in pairs(81, (7, 31, 257), 40, b_nonzero=True)(tier):
        for n in ns:
            if _pm_ok(p, a, b, n): yield (p, a, b, n)
    # constant modulus: every power is 0
    for p in (5, 31, 257):
        for a in ((3, 1), (1, 2, 3)[:cap(p, 3)], (0,), (2,)):
            for n in (0, 2, 3, -1):
                if _pm_ok(p, a, (3,), n): yield (p, a, (3,), n)


def body_pow(c, p, a):
    f = c.sp(a)
    return [(f'**{n}', (lambda n: lambda: f ** n)(n)) for n in (0, 1, 2, 3, 5)] + [('**-1', lambda: f ** -1), ('**-3', lambda: f ** -3)]


def ck_pow(args, val, exc):
    p, a = args
    A, G = trim(a), gp(p, a)
    w = [(f'**{n}', XP(both('**', cl(G ** n), r_pow(p, A, n)))) for n in (0, 1, 2, 3, 5)] + [('**-1', XE('ValueError')), ('**-3', XE('ValueError'))]
    return compare(val, exc, w)


def in_pow(tier):
    yield from ((2, a) for a in tuples(2, 0, 4))
    yield from ((3, a) for a in tuples(3, 0, 3))
    yield from singles(91, (5, 7, 31, 257), 12, maxlen=T(tier, 5, 9))(tier)


# ===================================================================== 7. evaluation
def _pub_xs(p, n):
    xs = list(range(-2, min(p, 8) + 2)) + [p - 1, p, p + 1, -p, 2 * p + 1, 100, -100]
    return [x for x in dict.fromkeys(xs) if abs(x) ** max(n - 1, 0) < 2 ** 63]          # larger powers -> evaluate_large_x (class of failing inputs)


def body_eval(c, p, a):
    f = c.sp(a)
    n = len(a)
    return ([(f'f({x})', (lambda x: lambda: f(x))(x)) for x in _pub_xs(p, n)]
            + [(f'f(sec {x})', (lambda x: lambda: f(c.F(x)))(x)) for x in sorted({0, 1, 2 % p, 3 % p, p // 2, p - 2, p - 1})])


def _ev(p, A, x):
    e = r_eval(p, A, x % p)
    if not (p == 2 and x % 2 == 0):          # BinaryPolynomial.__call__ returns 0 at even x (listed finding of C23): reference implementation only
        g = GF(p)(list(A))(x)
        if g != e: raise OracleDisagreement(f'evaluation at {x}: GFpX gives {g}, reference {e}')
    return e


def ck_eval(args, val, exc):
    p, a = args
    A = trim(a)
    w = [(f'f({x})', XF(_ev(p, A, x), p)) for x in _pub_xs(p, len(a))] + [(f'f(sec {x})', XF(_ev(p, A, x), p)) for x in sorted({0, 1, 2 % p, 3 % p, p // 2, p - 2, p - 1})]
    return compare(val, exc, w)


# ===================================================================== 8. degree, reverse, monic (degree: length <= p, else < p)
def body_degree(c, p, a):
    f = c.sp(a)
    n = len(a)
    g = c.sp((1, 1))
    it = [('degree', lambda: f.degree()), ('reverse()', lambda: f.reverse())]
    it += [(f'reverse({d})', (lambda d: lambda: f.reverse(d))(d)) for d in range(-1, n + 2)]
    if n < p:
        it += [('degree(f*f)', lambda: (f * f).degree())] if 2 * n - 1 <= p else []
        it += [(f'reverse(F {d})', (lambda d: lambda: f.reverse(c.F(d)))(d)) for d in range(-1, n)]
        it += [(f'reverse(I {d})', (lambda d: lambda: f.reverse(c.mpc.SecInt(16)(d)))(d)) for d in range(-1, n)]
        if trim(a): it += [('monic', lambda: f.monic())]
        it += [('reverse(reverse)', lambda: f.reverse().reverse())]
    return it


def ck_degree(args, val, exc):
    p, a = args
    A, G = trim(a), gp(p, a)
    n = len(a)

    def rev(d): return both('reverse', cl(G.reverse(d)), r_reverse(A, d))
    w = [('degree', XF(G.degree(), p)), ('reverse()', XP(rev(None)))]
    w += [(f'reverse({d})', XP(rev(d), d + 1)) for d in range(-1, n + 2)]
    if n < p:
        w += [('degree(f*f)', XF((G * G).degree(), p))] if 2 * n - 1 <= p else []
        w += [(f'reverse(F {d})', XP(rev(d))) for d in range(-1, n)]
        w += [(f'reverse(I {d})', XP(rev(d))) for d in range(-1, n)]
        if A: w += [('monic', XP(both('monic', cl(G.monic()), r_monic(p, A)), n))]
        w += [('reverse(reverse)', XP(r_reverse(r_reverse(A, None), None)))]
    return compare(val, exc, w)


def in_degree(tier):
    yield from ((2, a) for a in tuples(2, 0, 2))
    yield from ((3, a) for a in tuples(3, 0, 3))
    yield from ((5, a) for a in tuples(5, 0, T(tier, 3, 5)))
    if tier != 'quick': yield from ((7, a) for a in tuples(7, 0, 3))
    yield from (x for x in singles(101, (7, 31, 257), 40, capped=False, maxlen=9)(tier) if len(x[1]) <= x[0])
    yield from ((7, a) for a in ((0,) * 7, (1,) * 7, (0, 0, 0, 0, 0, 0, 3), (1, 2, 3, 0, 0, 0, 0)))          # length p


# ===================================================================== 9. comparisons
def body_cmp(c, p, a, b, full):
    import operator as o
    f, g, A, B = c.sp(a), c.sp(b), c.pub(a), c.pub(b)
    it = [('==', lambda: f == g), ('!=', lambda: f != g), ('f==f', lambda: f == f), ('f!=f+0', lambda: f != f + c.sp((0,) * (len(a) + 1)))]
    if full: it += [('f==arr', lambda: f == c.arr(b)), ('f!=sarr', lambda: f != c.sarr(b))]
    if full and p > 2: it += [('f==B', lambda: f == B), ('f!=B', lambda: f != B)]
    if max(len(a), len(b)) < p:
        for nm, op in (('<', o.lt), ('<=', o.le), ('>', o.gt), ('>=', o.ge)):
            it += [(f'f{nm}g', (lambda op: lambda: op(f, g))(op))]
            if full: it += [(f'f{nm}arr', (lambda op: lambda: op(f, c.arr(b)))(op))]
            if full and p > 2: it += [(f'f{nm}B', (lambda op: lambda: op(f, B))(op)), (f'A{nm}g', (lambda op: lambda: op(A, g))(op))]
        it += [('f<f', lambda: f < f), ('f<=f', lambda: f <= f)]
    return it


def ck_cmp(args, val, exc):
    import operator as o
    p, a, b, full = args
    A, B, GA, GB = trim(a), trim(b), gp(p, a), gp(p, b)
    ia, ib = r_to_int(p, A), r_to_int(p, B)          # lexicographic order = order of the base-p encodings
    eq, ne = XF(int(A == B), p), XF(int(A != B), p)
    if (GA == GB) != (A == B) or (GA != GB) != (A != B): raise OracleDisagreement('==: GFpX and coefficient lists differ')
    w = [('==', eq), ('!=', ne), ('f==f', XF(1, p)), ('f!=f+0', XF(0, p))]
    if full: w += [('f==arr', eq), ('f!=sarr', ne)]
    if full and p > 2: w += [('f==B', eq), ('f!=B', ne)]
    if max(len(a), len(b)) < p:
        for nm, op in (('<', o.lt), ('<=', o.le), ('>', o.gt), ('>=', o.ge)):
            t = int(bool(op(GA, GB)))
            if t != int(op(ia, ib)): raise OracleDisagreement(f'{nm}: GFpX gives {t}, integer encodings give {op(ia, ib)}')
            w += [(f'f{nm}g', XF(t, p))]
            if full: w += [(f'f{nm}arr', XF(t, p))]
            if full and p > 2: w += [(f'f{nm}B', XF(t, p)), (f'A{nm}g', XF(t, p))]
        w += [('f<f', XF(0, p)), ('f<=f', XF(1, p))]
    return compare(val, exc, w)


def _not_both_empty(x): return bool(x[1] or x[2])


def _cmp_dom(x):
    """no comparison of two empty shares (see compare_empty): a nonempty, and not (b empty and a = 0: the public GFpX zero has an empty share)"""
    return bool(x[1]) and bool(x[2] or trim(x[1]))


def in_cmp(tier):
    yield from (x + (1,) for x in filter(_cmp_dom, all_pairs(2, 2, 2)))
    yield from (x + (1,) for x in filter(_cmp_dom, all_pairs(3, 2, 2)))
    yield from (x + (0,) for x in filter(_cmp_dom, all_pairs(5, T(tier, 2, 3), 2)))
    if tier != 'quick': yield from (x + (0,) for x in filter(_cmp_dom, all_pairs(7, 2, 2)))
    yield from (x + (1,) for x in filter(_cmp_dom, pairs(111, (5, 7, 31, 257), 60)(tier)))
    yield from (x + (1,) for x in filter(_cmp_dom, pairs(112, (2, 3, 5), 20, capped=False, maxlen=6)(tier)))          # == and != only beyond length p - 1


# ===================================================================== 10. irreducibility
def _irr_len(n):
    """longest share met by is_irreducible on a share of length n: powmod(X-power, p, a) and gcd with a"""
    return n if n <= 2 else max(3, 2 * n - 3, n)          # no round for n <= 2; else X*X, then squares of residues of length n - 1


def _irr(p, A):
    e = bool(GF(p).is_irreducible(GF(p)(list(A))))
    d = len(A) - 1
    if d < 1 or p ** (d // 2) <= 4000:          # brute-force trial division where it is affordable
        if r_is_irr(p, r_to_int(p, A)) != e: raise OracleDisagreement(f'is_irreducible: GFpX gives {e}, trial division {not e}')
    return e


def body_irr(c, p, a):
    return [('is_irreducible', lambda: c.secpoly.is_irreducible(c.sp(a)))]


def ck_irr(args, val, exc):
    p, a = args
    return compare(val, exc, [('is_irreducible', XF(int(_irr(p, trim(a))), p))])


def _irr_main(p, a):
    """outside the class irreducible_leading_zeros: reducible / constant / zero, or degree above half the length bound"""
    A = trim(a)
    if not A and len(a) >= 3: return False          # -> irreducible_zero
    return not (len(A) >= 2 and len(A) - 1 <= (len(a) - 1) // 2 and _irr(p, A))


def _irr_dom(tier):
    for p, h in ((3, 2), (5, 3), (7, 4)):
        if tier == 'quick' and p == 7: h = 3
        yield from ((p, a) for a in tuples(p, 0, h))
    for p in (7, 31, 257):
        rnd = random.Random(121 + p)
        hi = max(h for h in range(1, 10) if _irr_len(h) < p)
        for i in range(T(tier, 30, 150)):
            L = rnd.randrange(2, hi + 1)
            a = rnd_poly(rnd, p, L, (1, 2, 3, 0)[i % 4])
            if i % 6 == 5:          # a product of two factors: reducible
                f, g = rnd_poly(rnd, p, max(L // 2, 2), 1), rnd_poly(rnd, p, max(L - L // 2, 2), 1)
                a = tuple(r_mul(p, trim(f), trim(g)))[:hi]
            yield (p, a)
        for a in ((0, 1), (1, 1), (1, 0, 1), (1, 1, 1), (2, 0, 1), (3, 0, 1), (1, 1, 0, 1), (1, 0, 0, 1), (2, 1, 0, 0, 1)):
            if len(a) <= hi: yield (p, a)


def in_irr(tier): return (x for x in _irr_dom(tier) if _irr_main(*x))


# ===================================================================== 11. secure selection
def body_select(c, p, a, b):
    S, F = c.secpoly, c.F
    f, g = c.sp(a), c.sp(b)
    it = []
    for nm, cv in (('F1', lambda: F(1)), ('F0', lambda: F(0)), ('True', lambda: True), ('False', lambda: False), ('1', lambda: 1), ('0', lambda: 0)):
        it += [(f'if_else({nm})', (lambda cv: lambda: S.if_else(cv(), f, g))(cv)), (f'if_swap({nm})', (lambda cv: lambda: S.if_swap(cv(), f, g))(cv))]
    it += [('if_else(f==g)', lambda: S.if_else(f == g, f, g)), ('if_swap(f!=g)', lambda: S.if_swap(f != g, f, g))]
    return it


def ck_select(args, val, exc):
    p, a, b = args
    A, B = trim(a), trim(b)
    n = max(len(a), len(b))
    w = []
    for nm, t in (('F1', 1), ('F0', 0), ('True', 1), ('False', 0), ('1', 1), ('0', 0)):
        w += [(f'if_else({nm})', XP(A if t else B, n)), (f'if_swap({nm})', XT(XP(B if t else A, n), XP(A if t else B, n)))]
    w += [('if_else(f==g)', XP(B, n)), ('if_swap(f!=g)', XT(XP(B, n), XP(A, n)))]
    return compare(val, exc, w)


def in_select(tier):
    yield from filter(_not_both_empty, all_pairs(2, 2, 3))
    yield from filter(_not_both_empty, all_pairs(3, 2, 2))
    yield from pairs(131, (5, 7, 31, 257), 25, capped=False)(tier)


# ===================================================================== 12. only the length bound is public
def _variants(p, a):
    """other shares of the same length: all ones, and a with its top coefficient cleared / set"""
    if not a: return [a]
    return list(dict.fromkeys([a, (1,) * len(a), a[:-1] + (0,), (0,) * (len(a) - 1) + (1,)]))


def body_lengths(c, p, a, b):
    S = c.secpoly
    n = min(len(a), len(b))
    deg_ok = max(len(a), len(b)) < p and p > 2          # GF(2): _div cannot work at all (BinaryPolynomial holds ints, _div hands lists to poly._invert)
    pm_ok = _pow_len(len(a), len(b), 3) < p and p > 2

    def ops(f, g):
        it = [('+', lambda: f + g), ('-', lambda: g - f), ('*', lambda: f * g), ('neg', lambda: -f), ('<<3', lambda: f << 3), ('>>1', lambda: f >> 1), ('truncate', lambda: f.truncate(2)),
              ('**3', lambda: f ** 3), ('reverse(2)', lambda: f.reverse(2)), ('if_else', lambda: S.if_else(c.F(1), f, g)), ('copy', lambda: f.copy())]
        if deg_ok:
            it += [('reverse()', lambda: f.reverse()), ('reverse(F)', lambda: f.reverse(c.F(n - 1))), ('//', lambda: f // g), ('%', lambda: f % g), ('divmod', lambda: divmod(f, g)),
                   ('gcd', lambda: S.gcd(f, g)), ('gcdext', lambda: S.gcdext(f, g)), ('monic', lambda: g.monic()), ('invert', lambda: S.invert(f, g))]
        if pm_ok:
            it += [('powmod3', lambda: S.powmod(f, 3, g)), ('powmod0', lambda: S.powmod(f, 0, g))]
        return it

    def lens(x):
        if isinstance(x, (list, tuple)): return tuple(lens(y) for y in x)
        if not isinstance(x, S): raise TypeError(f'result is a {type(x).__name__}, not a secpoly')
        return len(x.share)

    def sec(x):
        from mpyc.sectypes import SecureObject
        return type(x).__name__ if isinstance(x, SecureObject) else ('PUBLIC', type(x).__name__)

    def rows():
        out = []
        for va in _variants(p, a):
            for vb in (v for v in _variants(p, b) if trim(v)):          # divisor nonzero
                f, g = c.sp(va), c.sp(vb)
                out.append(((va, vb), tuple((nm, lens(th())) for nm, th in ops(f, g))))
        return Plain(out)

    def kinds():
        f, g = c.sp(a), c.sp(b)
        k = [('[1]', sec(f[1])), ('f(2)', sec(f(2))), ('f(F)', sec(f(c.F(2))))]
        if a: k += [('==', sec(f == g)), ('!=', sec(f != g))]
        if len(a) <= p: k += [('degree', sec(f.degree()))]
        if deg_ok and a: k += [('<', sec(f < g)), ('>=', sec(f >= g))]
        if _irr_len(len(a)) < p and p > 2 and (trim(a) or len(a) < 3): k += [('is_irreducible', sec(S.is_irreducible(f)))]
        return Plain(k)
    return [('lengths', rows), ('secure', kinds)]


def ck_lengths(args, val, exc):
    p, a, b = args
    if exc: return f'unexpected {type(exc).__name__}: {exc}'
    d = dict(val)
    r = d['lengths']
    if r[0] != 'plain': return f'lengths: {r!r}'
    first = r[1][0]
    for inp, row in r[1]:
        if row != first[1]:
            bad = [(x, y) for x, y in zip(first[1], row) if x != y]
            return (f'share lengths of the results depend on the VALUES of the operands: shares {first[0]} give {bad[0][0]}, shares {inp} of the same lengths give {bad[0][1]}')
    k = d['secure']
    if k[0] != 'plain': return f'secure: {k!r}'
    pub = [x for x in k[1] if isinstance(x[1], tuple)]
    if pub: return f'{pub[0][0]} returns a public {pub[0][1][1]} instead of a secure object'
    return None


def in_lengths(tier):
    for p in PRIMES:
        rnd = random.Random(141 + p)
        for la in range(0, T(tier, 5, 8)):
            for lb in range(1, T(tier, 4, 6)):
                yield (p, rnd_poly(rnd, p, la, 0), rnd_poly(rnd, p, lb, 1))


# ===================================================================== 13. documented errors
def body_errors(c, p, a):
    S, F, np = c.secpoly, c.F, c.np
    f = c.sp(a)
    q = 3 if p != 3 else 5
    from mpyc.gfpx import GFpX
    other = S(np.array([1, 1]), sectype=c.mpc.SecFld(q))
    return [('secpoly(int)', lambda: S(5, sectype=F)), ('secpoly(list)', lambda: S([1, 0], sectype=F)), ('secpoly(tuple)', lambda: S((1,), F)), ('secpoly(secfld)', lambda: S(F(1))),
            ('secpoly(None)', lambda: S(None, F)), ('secpoly(secint array)', lambda: S(c.mpc.SecInt(16).array(np.array([1, 2])))),
            ('f+1', lambda: f + 1), ('1+f', lambda: 1 + f), ('f*2', lambda: f * 2), ('2-f', lambda: 2 - f), ('f*F(2)', lambda: f * F(2)), ('f+[1]', lambda: f + [1]), ('f//1', lambda: f // 1),
            ('f%2', lambda: f % 2), ('f==1', lambda: f == 1), ('f<1', lambda: f < 1),
            ('f+other', lambda: f + other), ('f-other', lambda: f - other), ('other*f', lambda: other * f), ('f//other', lambda: f // other), ('f==other', lambda: f == other),
            ('f<other', lambda: f < other), ('secpoly(GFpX(q))+f', lambda: S(GFpX(q)([1, 1])) + f),
            ('reverse(-2)', lambda: f.reverse(-2)), ('f[-1]', lambda: f[-1]), ('f[1.0]', lambda: f[1.0]), ('f[0:1]', lambda: f[0:1]), ("f['0']", lambda: f['0']),
            ('bool(f)', lambda: bool(f)), ('bool(f==f)', lambda: bool(f == f)), ('f**-1', lambda: f ** -1), ('hash', lambda: hash(f))]


def ck_errors(args, val, exc):
    Ty, Ix, V = XE('TypeError'), XE('IndexError'), XE('ValueError')
    w = [('secpoly(int)', Ty), ('secpoly(list)', Ty), ('secpoly(tuple)', Ty), ('secpoly(secfld)', Ty), ('secpoly(None)', XE('AssertionError', 'TypeError', 'ValueError')),
         ('secpoly(secint array)', XE('TypeError', 'ValueError', 'AttributeError')),
         ('f+1', Ty), ('1+f', Ty), ('f*2', Ty), ('2-f', Ty), ('f*F(2)', Ty), ('f+[1]', Ty), ('f//1', Ty), ('f%2', Ty), ('f==1', Ty), ('f<1', Ty),
         ('f+other', Ty), ('f-other', Ty), ('other*f', Ty), ('f//other', Ty), ('f==other', Ty), ('f<other', Ty), ('secpoly(GFpX(q))+f', Ty),
         ('reverse(-2)', V), ('f[-1]', Ix), ('f[1.0]', Ix), ('f[0:1]', Ix), ("f['0']", Ix), ('bool(f)', Ty), ('bool(f==f)', Ty), ('f**-1', V), ('hash', Ty)]
    return compare(val, exc, w)


def in_errors(tier):
    for p in PRIMES:
        for a in ((0,), (1,), (0, 1), (1, 0, 1)):
            yield (p, a)


# ===================================================================== classes of failing inputs (unchanged tree), isolated
def body_monic_zero(c, p, a):
    return [('monic', lambda: c.sp(a).monic())]


def ck_monic_zero(args, val, exc):
    p, a = args
    if isinstance(exc, CallTimeout):
        return ('class', 'zero-polynomial-nonempty-share:does-not-return',
                f'monic() of the zero polynomial with a share of length {len(a)} does not return (docstring: "Zero polynomial remains unchanged"): {exc}')
    return compare(val, exc, [('monic', XP([], len(a)))])


def in_monic_zero(tier):
    yield (31, ())
    for p, n in ((31, 1), (5, 2), (257, 3)) + T(tier, (), ((7, 4), (31, 9))):
        yield (p, (0,) * n)


def body_gcd_zero(c, p, a, b):
    S = c.secpoly
    return [('gcd', lambda: S.gcd(c.sp(a), c.sp(b)))]


def body_gcdext_zero(c, p, a, b):
    S = c.secpoly
    return [('gcdext', lambda: S.gcdext(c.sp(a), c.sp(b)))]


def ck_gcd_zero(which):
    def ck(args, val, exc):
        p, a, b = args
        if isinstance(exc, CallTimeout):
            return ('class', 'both-operands-zero-nonempty-share:does-not-return',
                    f'{which}(0, 0) with shares of lengths ({len(a)}, {len(b)}) does not return (gfpx: {which}(0, 0) = ' + ('0' if which == 'gcd' else '(0, 1, 0)') + f'): {exc}')
        if which == 'gcd':
            return compare(val, exc, [('gcd', XP([]))])
        if exc: return f'unexpected {type(exc).__name__}: {exc}'
        (l, d), = val
        if d[:1] == ('exc',):
            if not a and not b:
                return ('class', 'both-shares-empty:raises', f'gcdext of two polynomials with empty shares raises {d[1]}: {d[2]} (gfpx: (0, 1, 0))')
            return f'unexpected {d[1]}: {d[2]}'
        m, _ = _bezout(p, a, b, d)
        return m
    return ck


def in_gcd_zero(tier):
    yield (31, (), ())
    yield (31, (0,), ()); yield (5, (0, 0), (0,)); yield (257, (0, 0, 0), (0, 0, 0))


def body_eval_large(c, p, a, x):
    f = c.sp(a)
    return [('f(x)', lambda: f(x)), ('f(sec x)', lambda: f(c.F(x % p)))]


def ck_eval_large(args, val, exc):
    p, a, x = args
    e = _ev(p, trim(a), x)
    m = compare(val, exc, [('f(x)', XF(e, p)), ('f(sec x)', XF(e, p))])
    if (m and not exc and m.startswith('f(x):') and abs(x) ** (len(a) - 1) >= 2 ** 63 and tuple(val[1][1]) == ('F', e)
            and (val[0][1][0] == 'F' or val[0][1][:2] in (('exc', 'TypeError'), ('exc', 'OverflowError')))):
        got = val[0][1][1] if val[0][1][0] == 'F' else f'{val[0][1][1]} ({val[0][1][2]})'
        return ('class', 'public-x-with-|x|^(len-1)>=2^63:wrong-value-or-TypeError',
                f'evaluation at the PUBLIC point x = {x} of a share of length {len(a)} over GF({p}) gives {got}, gfpx and evaluation at the secret point give {e} '
                f'(x is not reduced modulo p and np.vander computes its powers in int64 / uint64 / float)')
    return m


def in_eval_large(tier):
    rnd = random.Random(151)
    for p, n, xs in ((257, 9, (234, 235, 255, 256, 257, 258, 1000, -256)), (257, 8, (255, 256, 511, 513, 600)), (31, 9, (233, 235, 2 ** 20 + 1, 10 ** 9)),
                     (31, 3, (2 ** 31, 2 ** 32 + 5, -2 ** 33)), (7, 2, (2 ** 62, 2 ** 63 - 1, 2 ** 63, -2 ** 63, 2 ** 64 + 3, 10 ** 30)), (2, 5, (2 ** 16 + 1, 3 ** 11))):
        for i in range(T(tier, 2, 6)):
            a = rnd_poly(rnd, p, n, i % 2)
            for x in xs:
                yield (p, a, x)


def _pm1(p, a, b): return bool(trim(b)) and len(trim(a)) >= len(trim(b))


def ck_powmod_n1(args, val, exc):
    p, a, b, n = args
    m = ck_powmod(args, val, exc)
    if m and n == 1 and not exc and val[0][1][0] == 'P' and list(val[0][1][2]) == trim(a) and len(trim(a)) >= len(trim(b)):
        return ('class', 'n=1-and-deg(a)>=deg(b):result-not-reduced', f'powmod(a, 1, b) returns a itself, not a mod b: {m}')
    return m


def in_powmod_n1(tier):
    for (_, a, b) in all_pairs(5, 2, 2, b_nonzero=True, lo=1):
        if _pm1(5, a, b): yield (5, a, b, 1)
    for (p, a, b) in pairs(161, (7, 31, 257), 40, b_nonzero=True, filt=_pm1)(tier):
        yield (p, a, b, 1)


def ck_irr_lz(args, val, exc):
    p, a = args
    m = ck_irr(args, val, exc)
    A = trim(a)
    if m and not exc and val[0][1] == ('F', 0) and len(A) - 1 <= (len(a) - 1) // 2:
        return ('class', 'irreducible-of-degree<=(len-1)//2:reported-reducible',
                f'is_irreducible of the irreducible polynomial {A} (degree {len(A) - 1}) held in a share of length {len(a)} gives 0: the test runs (len-1)//2 rounds instead of degree//2')
    return m


def in_irr_lz(tier): return (x for x in _irr_dom(tier) if not _irr_main(*x) and trim(x[1]))


def body_cmp_empty(c, p):
    import operator as o
    f, g, Z = c.sp(()), c.sp(()), c.pub(())
    it = []
    for nm, op in (('==', o.eq), ('!=', o.ne), ('<', o.lt), ('<=', o.le), ('>', o.gt), ('>=', o.ge)):
        it += [(f'f{nm}g', (lambda op: lambda: op(f, g))(op)), (f'f{nm}Z', (lambda op: lambda: op(f, Z))(op))]
    return it


def ck_cmp_empty(args, val, exc):
    p, = args
    w = []
    for nm, t in (('==', 1), ('!=', 0), ('<', 0), ('<=', 1), ('>', 0), ('>=', 1)):
        w += [(f'f{nm}g', XF(t, p)), (f'f{nm}Z', XF(t, p))]
    m = compare(val, exc, w)
    if m and not exc and all(d[0] == 'exc' and d[1] == 'IndexError' for _, d in val):
        return ('class', 'both-shares-empty:IndexError', 'every comparison of two secure polynomials with empty shares (e.g. secpoly(GFpX(p)(0)) == secpoly(GFpX(p)(0))) raises IndexError: ' + m)
    return m


def body_gf2_value(c, p, a, b):
    S, F = c.secpoly, c.F
    f, g, A, B = c.sp(a), c.sp(b), c.pub(a), c.pub(b)
    return [('secpoly(A)', lambda: S(A)), ('secpoly(A,sectype)', lambda: S(A, sectype=F)), ('f+B', lambda: f + B), ('A+g', lambda: A + g), ('f*B', lambda: f * B), ('A-g', lambda: A - g),
            ('f==B', lambda: f == B), ('f!=B', lambda: f != B), ('secpoly(A)(1)', lambda: S(A)(1))]


def ck_gf2_value(args, val, exc):
    p, a, b = args
    A, B = trim(a), trim(b)
    s, m = r_add(p, A, B), r_mul(p, A, B)
    w = [('secpoly(A)', XP(A, len(A))), ('secpoly(A,sectype)', XP(A, len(A))), ('f+B', XP(s)), ('A+g', XP(s)), ('f*B', XP(m)), ('A-g', XP(s)),
         ('f==B', XF(int(A == B), p)), ('f!=B', XF(int(A != B), p)), ('secpoly(A)(1)', XF(sum(A), p))]
    msg = compare(val, exc, w)
    if msg and not exc and (A or B):
        bad = [l for (l, d), (_, x) in zip(val, w) if mismatch(d, x)]
        uses_nonzero = {'secpoly(A)': A, 'secpoly(A,sectype)': A, 'f+B': B, 'A+g': A, 'f*B': B, 'A-g': A, 'f==B': B, 'f!=B': B, 'secpoly(A)(1)': A}
        if all(uses_nonzero[l] for l in bad):          # only results built from a NONZERO GF(2)[x] polynomial deviate
            return ('class', 'nonzero-GFpX(2)-polynomial-as-value:share-holds-polynomial-objects',
                    'secpoly(value) for a nonzero GFpX(2) polynomial (constructor and public operands) builds a share of GF(2)[x] objects instead of field elements '
                    f'(value._to_list(value) fits the list classes only); deviating results: {bad}; first: {msg}')
    return msg


def in_gf2_value(tier):
    yield from (x for x in all_pairs(2, T(tier, 3, 4), 2) if x[1] or trim(x[2]))          # not (empty share against the zero polynomial): see compare_empty


def body_ndarray_left(c, p, a, b):
    import operator as o
    g = c.sp(b)
    it = [('arr//g', lambda: c.arr(a) // g), ('arr%g', lambda: c.arr(a) % g), ('divmod(arr,g)', lambda: divmod(c.arr(a), g))]
    it += [(f'arr{nm}g', (lambda op: lambda: op(c.arr(a), g))(op)) for nm, op in (('<', o.lt), ('<=', o.le), ('>', o.gt), ('>=', o.ge), ('==', o.eq), ('!=', o.ne))]
    return it


def _nd_want(p, a, b):
    import operator as o
    A, B = trim(a), trim(b)
    q, r = r_divmod(p, A, B)
    ia, ib = r_to_int(p, A), r_to_int(p, B)
    return [('arr//g', XP(q)), ('arr%g', XP(r)), ('divmod(arr,g)', XT(XP(q), XP(r)))] + [(f'arr{nm}g', XF(int(op(ia, ib)), p)) for nm, op in
                                                                                      (('<', o.lt), ('<=', o.le), ('>', o.gt), ('>=', o.ge), ('==', o.eq), ('!=', o.ne))]


def ck_ndarray_left(args, val, exc):
    p, a, b = args
    msg = compare(val, exc, _nd_want(p, a, b))
    if msg and not exc and trim(a) and not compare(val[3:], None, _nd_want(p, a, b)[3:]) and not compare(val[:3], None, _nd_want(p, b, a)[:3]):
        return ('class', 'int-array-left-operand-of-//-%-divmod:operands-swapped',
                'an int array as LEFT operand of // % divmod is evaluated with the operands swapped (SecureObject.__array_ufunc__ of mpyc/sectypes.py calls op(inputs[1], inputs[0]) '
                f'for floor_divide, remainder and divmod; the comparisons are reflected correctly): {msg}')
    return msg


def in_ndarray_left(tier):
    yield from (x for x in all_pairs(5, 2, 2, b_nonzero=True, lo=1) if trim(x[1]))
    yield from (x for x in pairs(171, (7, 31, 257), 20, b_nonzero=True)(tier) if trim(x[1]))


def ck_irr_zero(args, val, exc):
    p, a = args
    m = ck_irr(args, val, exc)
    if m and not exc and val[0][1][:2] == ('exc', 'AssertionError') and not trim(a) and len(a) >= 3:
        return ('class', 'zero-polynomial-share-length>=3:AssertionError', f'is_irreducible of the zero polynomial with a share of length {len(a)} raises AssertionError (division by the zero polynomial inside powmod; gfpx: False): {m}')
    return m


def in_irr_zero(tier):
    for p, n in ((5, 3), (7, 3), (31, 3), (31, 6), (257, 9)):
        yield (p, (0,) * n)


# ===================================================================== Native entries
NATIVE = {}


def _add(name, meth, body, check, inputs, bound, limit=None):
    n = Native(name, meth if meth.startswith('mpyc.') else FN + meth, mk_call(body, limit), check, inputs, bound, module='contracts.secpols_native')
    assert name not in NATIVE
    NATIVE[name] = n
    return n


DEG = 'every share of length < p (supported domain of the degree-dependent operations)'
SPEC = 'zero polynomial, constants, monic / non-monic, equal operands, one operand a multiple of the other, common factor, divisor of higher degree than dividend, trailing zeros in the share'

_add('construct', '__init__,copy,__pos__,_input,_output', body_construct, ck_construct, in_construct,
     'p in {2,3,5,7,31,257}: all shares of length <= 4 (p=2), 3 (p=3), 2 (p=5,7), 1 (p=31,257) (thorough +1 for p<=5) + 12 (48) sampled shares of length 3..9 per p >= 5; '
     'int array (also unreduced residues, object dtype), secure array, GFpX value (share length deg+1), copy, +f, mpc.input, mpc.output of lists, '
     'secret zero z = f*g - g*f: z, z+f, f+z, f-z, (z+f)*g, (z+f)(1); opened value and share length')
_add('ring', '__add__,__sub__,__mul__,__neg__,__radd__,__rsub__,__rmul__,add,sub,mul', body_ring, ck_ring, in_ring,
     'all pairs of shares of length <= 4 over GF(2) (thorough 5), <= 3 over GF(3), <= 2 over GF(5) (thorough 2 x 3) + 100 (400) sampled pairs of length 1..9 per p in {5,7,31,257} ('
     + SPEC + '); secret-secret, public GFpX / int array / secure array on either side; value vs GFpX and reference implementation, share lengths max / sum-1')
_add('shift', '__lshift__,__rshift__,truncate,__getitem__', body_shift, ck_shift, in_singles_free,
     'all shares of length <= 5 (p=2), 4 (p=3), 2 (p=5) (thorough 7 / 5 / 3) + 30 (120) sampled shares of length 1..9 per p in {5,7,31,257}; << by 0,1,2,5; >> and truncate by 0,1,2,len,len+2; f[i] up to len+3')
_add('divmod', '__floordiv__,__mod__,__divmod__,mod,__rfloordiv__,__rmod__,__rdivmod__', body_div, ck_div, in_div,
     'b != 0; all pairs of shares of length <= 2 over GF(3) (all operand forms) and GF(5) (secret operands only; thorough also dividends of length 3 over GF(5), length <= 2 over GF(7)) + 70 (280) sampled pairs per p in {5,7,31,257} of length 1..min(9,p-1), all operand forms ('
     + SPEC + '); f//g, f%g, divmod, mod(), public GFpX dividend / divisor, int array divisor, secure array dividend / divisor, f == (f//g)*g + f%g; ' + DEG)
_add('gcd', 'gcd', body_gcd, ck_gcd, in_gcd,
     'not both operands zero; all pairs of shares of length <= 2 over GF(3), GF(5) (thorough GF(7)) + 100 (400) sampled pairs per p in {5,7,31,257} of length 1..min(9,p-1) (' + SPEC + '); both operand orders; ' + DEG)
_add('gcdext', 'gcdext', body_gcdext, ck_gcdext, in_gcdext,
     'pairs with gcd of degree 0 (incl. one operand zero and the other a nonzero constant): all such pairs of shares of length 1..2 over GF(3), GF(5) (thorough GF(7)) + the coprime ones of 120 (480) sampled pairs per p in {5,7,31,257}; '
     'd = monic gcd, Bezout identity, (u, v) equal to gfpx gcdext; ' + DEG)
_add('invert', 'invert', body_invert, ck_invert, in_invert,
     'b != 0 and gcd(a, b) = 1 ("Inverse is assumed to exist"): all such pairs of shares of length 1..2 over GF(3), GF(5) + those of 120 (480) sampled pairs per p in {5,7,31,257}; equal to gfpx invert (which the contract checks to be the reduced inverse); ' + DEG)
_add('powmod', 'powmod', body_powmod, ck_powmod, in_powmod,
     'b != 0; n in {0,1,2,3,5,-1,-2} (thorough {0..7,11,-1,-2,-3,-5}), negative n only for gcd(a,b) = 1, n = 1 only for deg a < deg b (see powmod_n1); all pairs of shares of length 1..2 over GF(5) with n in {0,1,2,3,-1} (thorough: all n, and GF(7)) and '
     '40 (160) sampled pairs per p in {7,31,257}, kept when every intermediate product has length < p; constant modulus 3 over GF(5), GF(31), GF(257)')
_add('pow', '__pow__', body_pow, ck_pow, in_pow,
     'all shares of length <= 4 over GF(2), <= 3 over GF(3) + 12 (48) sampled shares per p in {5,7,31,257} of length <= 5 (9); f ** n for n in {0,1,2,3,5}; n in {-1,-3} must raise ValueError')
_add('evaluate', '__call__', body_eval, ck_eval, in_singles_free,
     'shares as for shift; public x in -2..min(p,8)+1, p-1, p, p+1, -p, 2p+1, +-100 with |x|^(len-1) < 2^63 (see evaluate_large_x), secret x in {0,1,2,3,p//2,p-2,p-1}; value vs reference implementation and GFpX '
     '(GF(2), even x: reference implementation only, BinaryPolynomial.__call__ is a listed finding of C23)')
_add('degree_reverse_monic', 'degree,reverse,monic', body_degree, ck_degree, in_degree,
     'all shares of length <= 2 (p=2), 3 (p=3, p=5; thorough 5 for p=5, 3 for p=7) + 40 (160) sampled shares of length 1..9 per p in {7,31,257} + 4 shares of length 7 over GF(7); degree(), reverse(), reverse(d) for public d in -1..len+1 '
     '(length <= p); for length < p also secret d in -1..len-1 as SecFld and SecInt(16) element, monic() of nonzero polynomials (see monic_zero), degree of f*f')
_add('compare', '__lt__,__le__,__eq__,__ne__,__ge__,__gt__', body_cmp, ck_cmp, in_cmp,
     'not both shares empty (see compare_empty); all pairs of shares of length <= 2 over GF(2), GF(3) (all operand forms), GF(5) (secret operands only; thorough: length 3 over GF(5), GF(7)) + 60 (240) sampled pairs per p in {5,7,31,257} of length 1..min(9,p-1) + 20 (80) pairs of length <= 6 '
     'over GF(2), GF(3), GF(5); == and != for every length, < <= > >= (secret-secret, public GFpX on either side, int array on the right) for lengths < p; truth value = GFpX comparison = order of the base-p encodings; results must be secure field elements')
_add('is_irreducible', 'is_irreducible', body_irr, ck_irr, in_irr,
     'all shares of length <= 2 (p=3), 3 (p=5), 3 (p=7; thorough 4) + 30 (150) sampled shares per p in {7,31,257} of length 2..min(9, longest with all intermediate products < p) + 9 fixed polynomials, EXCEPT irreducible polynomials of degree <= (len-1)//2 '
     '(see irreducible_leading_zeros); vs GFpX.is_irreducible and trial division')
_add('select', 'if_else,if_swap', body_select, ck_select, in_select,
     'all pairs of shares of length <= 2 x 3 over GF(2), <= 2 over GF(3) + 25 (100) sampled pairs of length 1..9 per p in {5,7,31,257}; condition 0/1 as secure field element, bool, int, and the secret f == g / f != g; equal and unequal lengths')
_add('length_public', '(all operators)', body_lengths, ck_lengths, in_lengths,
     'per p in {2,3,5,7,31,257}: lengths (la, lb) in 0..4 x 1..3 (thorough 0..7 x 1..5); every operator is run on up to 12 pairs of shares of the same lengths (sampled, all ones, top coefficient cleared, x^(len-1)): the share lengths of all results '
     'must be the same (function of the public lengths only); degree, comparisons, f[i], f(x), is_irreducible must return secure objects')
_add('errors', '__init__,_coerce,reverse,__getitem__', body_errors, ck_errors, in_errors,
     'p in {2,3,5,7,31,257}, shares (0,), (1,), (0,1), (1,0,1): ints, lists, tuples, secure field elements as value / operand -> TypeError; operands over another field -> TypeError; reverse(-2) -> ValueError; negative / non-int / slice index -> '
     'IndexError; bool(f), hash(f) -> TypeError; f ** -1 -> ValueError')
# ---- classes of failing inputs on the unchanged tree
_add('monic_zero', 'monic', body_monic_zero, ck_monic_zero, in_monic_zero,
     'zero polynomial: empty share and shares (0,)*n for (p, n) in {(31,1), (5,2), (257,3)} (thorough also (7,4), (31,9)); documented: "Zero polynomial remains unchanged"', limit=HANG_LIMIT_S)
_add('gcd_zero_zero', 'gcd', body_gcd_zero, ck_gcd_zero('gcd'), in_gcd_zero, 'gcd(0, 0) for share lengths (0,0), (1,0), (2,1), (3,3); gfpx: 0', limit=HANG_LIMIT_S)
_add('gcdext_zero_zero', 'gcdext', body_gcdext_zero, ck_gcd_zero('gcdext'), in_gcd_zero, 'gcdext(0, 0) for share lengths (0,0), (1,0), (2,1), (3,3); d = 0 and the Bezout identity', limit=HANG_LIMIT_S)
_add('gcdext_common_factor', 'gcdext', body_gcdext, ck_gcdext, in_gcdext_common,
     'pairs with a common factor of degree >= 1 (equal operands, one operand zero, one a multiple of the other, ...): all such pairs of shares of length 1..2 over GF(3), GF(5) + those of 150 (600) sampled pairs per p in {5,7,31,257}; '
     'd = monic gcd and the Bezout identity are demanded; (u, v) equal to gfpx gcdext is demanded as well (property text: same results as gfpx)')
_add('evaluate_large_x', '__call__', body_eval_large, ck_eval_large, in_eval_large,
     'public points with |x|^(len-1) >= 2^63 and just below: (p, len, x) in GF(257) len 9 and 8, GF(31) len 9 and 3, GF(7) len 2, GF(2) len 5; 2 (6) sampled shares each; f(x) for the public int x and for the secret x mod p vs gfpx')
_add('powmod_n1', 'powmod', body_powmod, ck_powmod_n1, in_powmod_n1,
     'n = 1, b != 0, deg a >= deg b: all such pairs of shares of length 1..2 over GF(5) + those of 40 (160) sampled pairs per p in {7,31,257}; gfpx: a mod b')
_add('irreducible_leading_zeros', 'is_irreducible', body_irr, ck_irr_lz, in_irr_lz,
     'the irreducible polynomials of degree <= (len-1)//2 of the is_irreducible domain (share with enough trailing zeros)')
_add('compare_empty', '__lt__,__le__,__eq__,__ne__,__ge__,__gt__', lambda c, p: body_cmp_empty(c, p), ck_cmp_empty, lambda tier: ((p,) for p in (2, 31)),
     'two secure polynomials with empty shares, and an empty share against the public GFpX zero, p in {2, 31}: all six comparisons')

_add('irreducible_zero', 'is_irreducible', body_irr, ck_irr_zero, in_irr_zero, 'zero polynomial with a share of length n: (p, n) in {(5,3), (7,3), (31,3), (31,6), (257,9)}; gfpx: False')
_add('gf2_gfpx_value', '__init__', body_gf2_value, ck_gf2_value, in_gf2_value,
     'GF(2): all pairs of shares of length <= 3 x 2 (thorough 4 x 2), not both empty; GFpX(2) polynomial as constructor value and as public operand of + - * == !=')
_add('ndarray_left_operand', 'mpyc.sectypes.SecureObject.__array_ufunc__', body_ndarray_left, ck_ndarray_left, in_ndarray_left,
     'int array as LEFT operand, a != 0, b != 0: all such pairs of shares of length 1..2 over GF(5) + 20 (80) sampled pairs per p in {7,31,257}; // % divmod (listed class) and < <= > >= == != (must be right)')

HANG_NATIVES = ('monic_zero', 'gcd_zero_zero', 'gcdext_zero_zero')          # every failing case costs CALL_LIMIT_S seconds: one pool task each
FINDING_NATIVES = ('monic_zero', 'gcd_zero_zero', 'gcdext_zero_zero', 'gcdext_common_factor', 'evaluate_large_x', 'powmod_n1', 'irreducible_leading_zeros', 'compare_empty',
                   'irreducible_zero', 'gf2_gfpx_value', 'ndarray_left_operand')


def run_slice(name, tier, i, k):
    """pool task: the i-th of k slices of the input domain of one Native (same name, so replays work unchanged)."""
    n = NATIVE[name]
    s = Native(n.name, n.func, n.call, n.check, lambda t: itertools.islice(n.inputs(t), i, None, k), f'{n.bound} [slice {i + 1}/{k}]', module=n.module)
    o = s.run(tier)
    o.name = f'{o.name}[{i + 1}/{k}]'
    return [o] + s.known


def run_group(names, tier):
    return [o for n in names for o in NATIVE[n].run_all(tier)]
