"""Bounded executable contract for the pending-level bookkeeping of mpc_coro (C35): rt._pc_level == (#MPyC coroutines started) - (#finished),
on every completion path (value / exception, with or without declared return type, synchronous or as a Task), and the program counter is
restored by _ProgramCounterWrapper."""
import asyncio, sys, itertools
from lib.native import Native


def call_pclevel(no_async, behaviour, nyield, annotated, nested, pending=0):
    sys.argv = [sys.argv[0] if sys.argv else 'x', '--no-log']
    from mpyc.runtime import mpc
    from mpyc import asyncoro
    rt = mpc
    old = (rt.options.no_async, rt._pc_level, list(rt._program_counter))
    rt.options.no_async = no_async
    rt._pc_level += pending        # other MPyC coroutines still pending when this one is called (the level is then above the caller's depth)
    loop = rt._loop
    old_handler = loop.get_exception_handler(); loop.set_exception_handler(lambda lp, ctx: None)      # the raising behaviours are intended
    log = []
    started = [0]; finished = [0]
    futs = []
    try:
        secint = rt.SecInt(8)

        async def body(depth):
            try:
                if behaviour == 'raise0': raise KeyError('before the first await, no declared type')      # the except-Exception branch of the first send
                if behaviour == 'declnone':
                    await rt.returnType(None)          # declared to return nothing (e.g. Runtime.peek-like logging coroutines): stays pending like any other
                elif not annotated and behaviour != 'nodecl':
                    await rt.returnType(secint)
                log.append(('in', rt._pc_level, started[0] - finished[0]))
                for j in range(nyield):
                    f = asyncio.Future(loop=loop); futs.append(f)
                    await f
                    log.append(('resumed', rt._pc_level, started[0] - finished[0]))
                if nested and depth == 0:
                    started[0] += 1            # an MPyC coroutine counts as started from the call that schedules it
                    inner = coro(1)
                    if behaviour != 'nodecl' or True:
                        try: await rt.gather(inner)
                        except Exception: pass
                if behaviour == 'raise': raise KeyError('boom')
                return None if behaviour == 'declnone' else (secint(7) if behaviour != 'nodecl' else 7)
            finally:
                finished[0] += 1
        if annotated:
            async def body_a(depth) -> secint:
                return await body(depth)
            coro = asyncoro.mpc_coro(body_a)
        else:
            coro = asyncoro.mpc_coro(body)
        base = rt._pc_level
        pc0 = list(rt._program_counter)
        exc = None
        started[0] += 1
        try:
            r = coro(0)
        except KeyError as e:
            exc = 'KeyError'; r = None
        log.append(('after-call', rt._pc_level - base, started[0] - finished[0]))
        # complete the futures one by one (async mode)
        guard = 0
        while guard < 50:
            guard += 1
            loop.call_soon(loop.stop); loop.run_forever()
            pend = [f for f in futs if not f.done()]
            if not pend:
                if not loop._ready: break
                continue
            pend[0].set_result(None)
            log.append(('step', rt._pc_level - base, started[0] - finished[0]))
        for _ in range(5):
            loop.call_soon(loop.stop); loop.run_forever()
        return dict(log=log, final_level=rt._pc_level - base, balance=started[0] - finished[0], pc_restored=(list(rt._program_counter)[1] == pc0[1]), exc=exc,
                    pc_advanced=list(rt._program_counter)[0] - pc0[0])
    finally:
        rt.options.no_async = old[0]; rt._pc_level = old[1]; rt._program_counter = old[2]
        loop.set_exception_handler(old_handler)
        for f in futs:
            if not f.done(): f.cancel()


def ck_pclevel(args, res, exc):
    if exc: return f'unexpected {type(exc).__name__}: {exc}'
    for tag, level, bal in res['log']:
        if tag in ('after-call', 'step') and level != bal:
            return f'_pc_level - base = {level} but started - finished = {bal} at {tag}: {res["log"]}'
    if res['final_level'] != res['balance']: return f"at the end _pc_level - base = {res['final_level']} but started - finished = {res['balance']}"
    if not res['pc_restored']: return 'program-counter depth not restored'
    return True


def in_pclevel(tier):
    for no_async in (True, False):
        for behaviour in ('return', 'raise', 'nodecl', 'declnone'):
            for nyield in (0, 1, 2):
                for annotated in (False, True):
                    for nested in (False, True):
                        if annotated and behaviour in ('nodecl', 'declnone'): continue
                        if behaviour == 'nodecl' and (nyield or nested): continue      # without a declared type the coroutine must finish at its first step
                        if no_async and nyield: continue           # synchronous mode cannot suspend on an unfinished future
                        for pending in (0, 2):
                            yield (no_async, behaviour, nyield, annotated, nested, pending)
        for pending in (0, 2):
            yield (no_async, 'raise0', 0, False, False, pending)


NATIVE = {'pc_level': Native('pc_level', 'mpyc.asyncoro.mpc_coro/typed_asyncoro/_reconcile/_ProgramCounterWrapper', call_pclevel, ck_pclevel, in_pclevel,
                             'behaviours {return, raise, raise before the first await, no declared type, declared None} x yields 0..2 x return annotation x nesting x no_async x {0, 2} other coroutines pending')}
NATIVE['pc_level'].module = 'contracts.asyncoro_pclevel'
