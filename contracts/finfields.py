"""Sidecar contracts for mpyc/finfields.py (non-NumPy part: GF, pGF, xGF, the three element classes, find_prime_root)
and for sectypes._pfield as reached through SecInt/SecFxp.  Bounded executable contracts only (properties C20, C21, C22, C26).

Conventions
  * a field is named by a descriptor made of literals:
      ('p', p)            GF(p)                       finfields.GF(p)
      ('pt', p, n, w)     GF(p) with root data        finfields.GF((p, n, w))
      ('x', p, m)         GF(p^d), modulus = the monic polynomial whose base-p integer encoding is m (d = its degree)
                                                      finfields.GF(gfpx.GFpX(p)(<coefficient list of m>))
  * an element is named by its integer encoding e in range(q): for prime fields the residue, for extension fields the
    base-p digits of e are the coefficients (constant term first).
  * every `call` runs the real mpyc code and returns plain data (encodings / 'raise <Exc>' strings / flags) extracted
    from the real result objects by `_enc`, which also enforces "values stay reduced" (0 <= value < p, resp. a polynomial of
    the field's own polynomial type, degree < d, digits in range(p), no trailing zero digit).
  * every `check` computes the expected data with the oracle `OF` below: integers mod p, resp. coefficient-list arithmetic
    modulo the modulus, inverses and square sets by exhaustive search, powers by repeated multiplication.  Nothing from
    mpyc is used on the expected side.
"""
import functools, itertools, pickle
from lib.native import Native


# ===================================================================================== oracle (independent of mpyc)
_MR_BASES = (2, 3, 5, 7, 11, 13, 17, 19, 23, 29, 31, 37, 41, 43, 47, 53, 59, 61, 67, 71, 73, 79, 83, 89, 97, 101, 103, 107, 109, 113,
             127, 131, 137, 139, 149, 151, 157, 163, 167, 173, 179, 181, 191, 193, 197, 199, 211, 223, 227, 229)


def o_is_prime(n):
    """trial division below 10^6; Miller-Rabin with the first 12 prime bases is a proof for n < 3.3e24, for larger n the
    first 50 prime bases are used (error < 4^-50, stated in the evidence)"""
    if n < 2: return False
    for s in (2, 3, 5, 7, 11, 13):
        if n % s == 0: return n == s
    if n < 10 ** 6:
        d = 17
        while d * d <= n:
            if n % d == 0: return False
            d += 2
        return True
    d, r = n - 1, 0
    while d % 2 == 0: d //= 2; r += 1
    for a in (_MR_BASES[:12] if n < 3 * 10 ** 24 else _MR_BASES):
        if a % n == 0: continue
        x = pow(a, d, n)
        if x in (1, n - 1): continue
        for _ in range(r - 1):
            x = x * x % n
            if x == n - 1: break
        else:
            return False
    return True


def o_prime_factors(n):
    f = []; d = 2
    while d * d <= n:
        if n % d == 0:
            f.append(d)
            while n % d == 0: n //= d
        d += 1
    if n > 1: f.append(n)
    return f


def digits(n, p):
    c = []
    while n:
        n, r = divmod(n, p); c.append(r)
    return c


def undigits(c, p):
    s = 0
    for ci in reversed(c): s = s * p + ci
    return s


def _polymod(c, mod, p):
    """remainder of coefficient list c (constant first) modulo monic `mod`"""
    c = [ci % p for ci in c]; d = len(mod) - 1
    for i in range(len(c) - 1, d - 1, -1):
        t = c[i]
        if t:
            for j in range(d + 1):
                c[i - d + j] = (c[i - d + j] - t * mod[j]) % p
    c = c[:d]
    while c and c[-1] == 0: c.pop()
    return c


def o_irreducible(mod, p):
    """monic `mod` of degree d >= 1 has no monic divisor of degree 1..d//2 (trial division over all of them)"""
    d = len(mod) - 1
    if d < 1 or mod[-1] != 1: return False
    for k in range(1, d // 2 + 1):
        for low in itertools.product(range(p), repeat=k):
            if not _polymod(mod, list(low) + [1], p): return False
    return True


class OF:
    """oracle field; elements are encodings in range(q)"""

    def __init__(self, desc):
        self.desc = desc; kind = desc[0]
        self.p = p = desc[1]
        if not o_is_prime(p): raise ValueError(f'descriptor {desc}: p not prime')
        if kind in ('p', 'pt'):
            self.d = 1; self.mod = None
        else:
            self.mod = digits(desc[2], p); self.d = len(self.mod) - 1
            if not o_irreducible(self.mod, p): raise ValueError(f'descriptor {desc}: modulus not monic irreducible')
        self.q = p ** self.d
        self.kind = 'prime' if self.d == 1 else 'binary' if p == 2 else 'oddext'
        self._mul = {}; self._inv = None; self._sq = None

    # --- ring operations on encodings
    def red(self, coeffs):
        """element encoded by an arbitrary integer coefficient list (extension fields)"""
        return undigits(_polymod(coeffs, self.mod, self.p), self.p)

    def add(self, a, b):
        p = self.p
        if self.d == 1: return (a + b) % p
        x, y = digits(a, p), digits(b, p)
        n = max(len(x), len(y)); x += [0] * (n - len(x)); y += [0] * (n - len(y))
        return undigits([(s + t) % p for s, t in zip(x, y)], p)

    def neg(self, a):
        p = self.p
        if self.d == 1: return -a % p
        return undigits([-s % p for s in digits(a, p)], p)

    def sub(self, a, b): return self.add(a, self.neg(b))

    def mul(self, a, b):
        p = self.p
        if self.d == 1: return a * b % p
        r = self._mul.get((a, b))
        if r is None:
            x, y = digits(a, p), digits(b, p)
            c = [0] * (len(x) + len(y))
            for i, s in enumerate(x):
                for j, t in enumerate(y): c[i + j] += s * t
            r = self._mul[(a, b)] = self.red(c)
        return r

    def inv(self, a):
        """None for a == 0; found by exhaustive search (table), big prime fields: search replaced by built-in pow(a,-1,p)"""
        if a == 0: return None
        if self.q > 5000: return pow(a, -1, self.p)
        if self._inv is None:
            t = {}
            for x in range(1, self.q):
                if x in t: continue
                for y in range(1, self.q):
                    if self.mul(x, y) == 1: t[x] = y; t[y] = x; break
                else:
                    raise AssertionError('oracle: no inverse found')
            self._inv = t
        return self._inv[a]

    def div(self, a, b):
        return RZ if b == 0 else self.mul(a, self.inv(b))

    def pow(self, a, e):
        if e < 0:
            if a == 0: return RZ
            a = self.inv(a); e = -e
        r = 1
        for _ in range(e): r = self.mul(r, a)
        return r

    def conv(self, n):
        """the field element an integer n stands for: n mod p in prime fields; in extension fields the polynomial with the
        base-p digits of n, negated for negative n (== what the element constructor documents via gfpx)"""
        if self.d == 1: return n % self.p
        if n < 0: return self.neg(self.conv(-n))
        return self.red(digits(n, self.p))

    def squares(self):
        if self._sq is None:
            self._sq = {self.mul(b, b) for b in range(self.q)}
        return self._sq


RZ = 'raise ZeroDivisionError'


@functools.cache
def _O(desc): return OF(desc)


# ===================================================================================== access to the real code
_FCACHE = {}


def _F(desc):
    """the real field class for a descriptor (cached here as well, so that one check run uses one class per field)"""
    F = _FCACHE.get(desc)
    if F is None:
        from mpyc import finfields, gfpx
        if desc[0] == 'p': F = finfields.GF(desc[1])
        elif desc[0] == 'pt': F = finfields.GF((desc[1], desc[2], desc[3]))
        else: F = finfields.GF(gfpx.GFpX(desc[1])(digits(desc[2], desc[1])))
        _FCACHE[desc] = F
    return F


def _fresh(desc):
    """a new, uncached class for the same field (bypasses functools.cache of pGF/xGF without clearing it)"""
    from mpyc import finfields, gfpx
    if desc[0] == 'p':
        p = desc[1]; return finfields.pGF.__wrapped__(p, *((1, 1) if p == 2 else (2, p - 1)))
    if desc[0] == 'pt': return finfields.pGF.__wrapped__(desc[1], desc[2], desc[3])
    return finfields.xGF.__wrapped__(gfpx.GFpX(desc[1])(digits(desc[2], desc[1])))


def _P(desc, m):
    """gfpx polynomial over GF(p) with integer encoding m >= 0 (built from my own digit list)"""
    from mpyc import gfpx
    return gfpx.GFpX(desc[1])(digits(m, desc[1]))


def _enc(F, r):
    """integer encoding of a real field element, or a 'BAD ...' string when it is not a reduced element of F"""
    if r is NotImplemented: return 'NotImplemented'
    if type(r) is not F: return f'BAD type {type(r).__name__} (expected {F.__name__})'
    v = r.value; p = F.characteristic
    if F.ext_deg == 1 and isinstance(F.modulus, int):
        if type(v) is not int: return f'BAD value type {type(v).__name__}'
        if not 0 <= v < p: return f'BAD unreduced value {v}'
        return v
    if type(v) is not type(F.modulus): return f'BAD value type {type(v).__name__}'
    raw = v.value; d = F.ext_deg
    if p == 2:
        if type(raw) is not int or not 0 <= raw < 2 ** d: return f'BAD unreduced value {raw!r}'
        return raw
    if type(raw) is not list or len(raw) > d or any(type(c) is not int or not 0 <= c < p for c in raw) or (raw and raw[-1] == 0):
        return f'BAD unreduced value {raw!r}'
    return undigits(raw, p)


def _o(F, thunk):
    try:
        r = thunk()
    except TimeoutError:
        raise
    except Exception as e:      # noqa: the contract decides
        return 'raise ' + type(e).__name__
    return _enc(F, r)


def _ob(thunk):
    try:
        return thunk()
    except TimeoutError:
        raise
    except Exception as e:      # noqa
        return 'raise ' + type(e).__name__


def _cmp(res, exp, exc):
    if exc is not None: return f'unexpected {type(exc).__name__}: {exc}'
    for k, v in exp.items():
        if k not in res: return f'{k}: not observed'
        if res[k] != v or type(res[k]) is not type(v): return f'{k}: got {res[k]!r}, expected {v!r}'
    extra = set(res) - set(exp)
    if extra: return f'observations without expectation: {sorted(extra)}'
    return True


# ===================================================================================== domains
def T(tier, q, th): return q if tier == 'quick' else th


def _x(p, d):
    """descriptor of GF(p^d) with the smallest (by encoding) monic irreducible modulus, found by the oracle's trial division"""
    for m in range(p ** d, 2 * p ** d):
        if o_irreducible(digits(m, p), p): return ('x', p, m)


PRIMES_257 = [p for p in range(2, 258) if o_is_prime(p)]
# moduli: smallest irreducible of each degree (own search) + a few other irreducible moduli (AES polynomial, x^2+2x+2, ...)
BIN_Q = [('x', 2, 7), ('x', 2, 11), ('x', 2, 13), ('x', 2, 19), ('x', 2, 25)]                     # GF(4), GF(8) x2, GF(16) x2
BIN_T = BIN_Q + [('x', 2, 37), ('x', 2, 61), ('x', 2, 283), ('x', 2, 285)]                        # GF(32) x2, GF(256) x2
ODD_Q = [('x', 3, 10), ('x', 3, 17), ('x', 5, 27), ('x', 3, 34)]                                   # GF(9) x2, GF(25), GF(27)
ODD_T = ODD_Q + [('x', 5, 38), ('x', 7, 50), ('x', 3, 86), ('x', 3, 46)]                           # GF(25), GF(49), GF(81), GF(27)


def fields(kind, tier):
    if kind == 'prime':
        return [('p', p) for p in T(tier, [2, 3, 5, 7, 11, 13, 31, 101, 251], PRIMES_257)]
    return T(tier, BIN_Q, BIN_T) if kind == 'binary' else T(tier, ODD_Q, ODD_T)


def small(desc, tier, full=False):
    """fields whose elements are enumerated completely: q <= 27; thorough: q <= 257 for the entries that range over pairs of
    elements or single elements (full=True), q <= 61 for those that range over (element, int/exponent/polynomial)"""
    q = _O(desc).q
    return q <= T(tier, 27, 257 if full else 61)


def lattice(lo, hi, extra=()):
    """sample of range(lo, hi): both ends, the middle, a stride, and the given extra points"""
    n = hi - lo
    if n <= 40: return list(range(lo, hi))
    s = set(range(lo, lo + 5)) | set(range(hi - 5, hi)) | set(range(lo + n // 2 - 2, lo + n // 2 + 3)) | set(range(lo, hi, max(1, n // 13)))
    s |= {e for e in extra if lo <= e < hi}
    return sorted(s)


def elems(desc, tier, full=False):
    O = _O(desc)
    if small(desc, tier, full): return list(range(O.q))
    return lattice(0, O.q, extra=[O.p - 1, O.p, O.p + 1, O.q // O.p, O.q // O.p - 1])


def ints_for(desc, tier):
    """integers -2q..2q (all of them for enumerated fields, else a lattice with the multiples of p and q and neighbours)"""
    O = _O(desc); q, p = O.q, O.p
    if small(desc, tier): return list(range(-2 * q, 2 * q + 1))
    ex = [s * k + e for s in (1, -1) for k in (p, 2 * p, q, 2 * q, q // p) for e in (-1, 0, 1)]
    return lattice(-2 * q, 2 * q + 1, extra=ex)


def in_pairs(kind):
    return lambda tier: ((f, a, b) for f in fields(kind, tier) for a in elems(f, tier, True) for b in elems(f, tier, True))


def in_elem_int(kind):
    return lambda tier: ((f, a, n) for f in fields(kind, tier) for a in elems(f, tier) for n in ints_for(f, tier))


def in_elems(kind):
    return lambda tier: ((f, a) for f in fields(kind, tier) for a in elems(f, tier, True))


def in_elem_poly(kind):
    def gen(tier):
        for f in fields(kind, tier):
            O = _O(f); q = O.q
            ms = list(range(0, 2 * q + 1)) if small(f, tier) else lattice(0, 2 * q + 1, extra=[f[2] - 1, f[2], f[2] + 1, q - 1, q, q + 1])
            ms += [f[2] * O.p, f[2] * O.p + 1, f[2] * (O.p + 1), q * q + 1, q * q * O.p + q + 2]     # degree > d, multiples of the modulus
            for a in elems(f, tier):
                for m in ms: yield (f, a, m)
    return gen


def in_pow(kind, zero_neg):
    """zero_neg=False: every (a, e) except 0 ** negative; zero_neg=True: exactly those (own entry: the exception class asked of
    0 ** negative is a clause of its own and must not hide the value clauses)"""
    def gen(tier):
        for f in fields(kind, tier):
            q = _O(f).q
            es = list(range(-q, 2 * q + 1)) if small(f, tier) else lattice(-q, 2 * q + 1, extra=[-2, -1, 0, 1, 2, 3, q - 2, q - 1, q, q + 1, -q + 1, -q + 2])
            for a in elems(f, tier):
                for e in es:
                    if (a == 0 and e < 0) == zero_neg: yield (f, a, e)
    return gen


def in_triples(kind, part, parts):
    """the triples are dealt over `parts` entries by the index of a (only to use more cores)"""
    def gen(tier):
        for f in fields(kind, tier):
            q = _O(f).q
            if q <= T(tier, 27, 32):
                E = range(q)
            else:
                E = lattice(0, q)[:: T(tier, 3, 1)]
            for a in list(E)[part::parts]:
                for b in E:
                    for c in E: yield (f, a, b, c)
    return gen


def in_shift(kind):
    def gen(tier):
        for f in fields(kind, tier):
            E = range(_O(f).q) if _O(f).q <= T(tier, 101, 257) else elems(f, tier)
            for a in E:
                for n in range(0, 9): yield (f, a, n)
    return gen


def in_construct(kind):
    return lambda tier: ((f, n) for f in fields(kind, tier) for n in ints_for(f, tier))


# ===================================================================================== C20: operators
# ---- binary operators on two elements
def c_binop(f, a, b):
    F = _F(f); x, y = F(a), F(b)
    out = dict(add=_o(F, lambda: x + y), sub=_o(F, lambda: x - y), mul=_o(F, lambda: x * y), div=_o(F, lambda: x / y))
    out['x'] = _enc(F, x); out['y'] = _enc(F, y)          # operands are not changed by the binary forms
    return out


def k_binop(args, res, exc):
    f, a, b = args; O = _O(f)
    return _cmp(res, dict(add=O.add(a, b), sub=O.sub(a, b), mul=O.mul(a, b), div=O.div(a, b), x=a, y=b), exc)


# ---- element op int  ("mixing in integers equals converting first")
def c_mixint(f, a, n):
    F = _F(f); x = F(a)
    return dict(add=_o(F, lambda: x + n), sub=_o(F, lambda: x - n), mul=_o(F, lambda: x * n), div=_o(F, lambda: x / n), x=_enc(F, x))


def k_mixint(args, res, exc):
    f, a, n = args; O = _O(f); b = O.conv(n)
    return _cmp(res, dict(add=O.add(a, b), sub=O.sub(a, b), mul=O.mul(a, b), div=O.div(a, b), x=a), exc)


# ---- int op element (reflected forms)
def c_rmixint(f, a, n):
    F = _F(f); x = F(a)
    return dict(radd=_o(F, lambda: n + x), rsub=_o(F, lambda: n - x), rmul=_o(F, lambda: n * x), rdiv=_o(F, lambda: n / x), x=_enc(F, x))


def k_rmixint(args, res, exc):
    f, a, n = args; O = _O(f); b = O.conv(n)
    return _cmp(res, dict(radd=O.add(b, a), rsub=O.sub(b, a), rmul=O.mul(b, a), rdiv=O.div(b, a), x=a), exc)


# ---- element op polynomial, polynomial op element (extension fields)
def c_mixpoly(f, a, m):
    F = _F(f); x = F(a); P = _P(f, m)
    return dict(add=_o(F, lambda: x + P), sub=_o(F, lambda: x - P), mul=_o(F, lambda: x * P), div=_o(F, lambda: x / P),
                radd=_o(F, lambda: P + x), rsub=_o(F, lambda: P - x), rmul=_o(F, lambda: P * x), rdiv=_o(F, lambda: P / x),
                eq=_ob(lambda: x == P), ne=_ob(lambda: x != P), conv=_o(F, lambda: F(P)), x=_enc(F, x),
                P=_ob(lambda: undigits(list(P), f[1])))


def k_mixpoly(args, res, exc):
    f, a, m = args; O = _O(f); b = O.red(digits(m, O.p))
    return _cmp(res, dict(add=O.add(a, b), sub=O.sub(a, b), mul=O.mul(a, b), div=O.div(a, b),
                          radd=O.add(b, a), rsub=O.sub(b, a), rmul=O.mul(b, a), rdiv=O.div(b, a),
                          eq=(a == b), ne=(a != b), conv=b, x=a, P=m), exc)


# ---- in-place operators
_IOPS = dict(iadd=lambda x, y: x.__iadd__(y), isub=lambda x, y: x.__isub__(y), imul=lambda x, y: x.__imul__(y), idiv=lambda x, y: x.__itruediv__(y))


def _inplace(op, x, y):
    # the statement forms, so that Python's own dispatch (incl. fallback to the binary operator) is what is exercised
    if op == 'iadd': x += y
    elif op == 'isub': x -= y
    elif op == 'imul': x *= y
    elif op == 'idiv': x /= y
    elif op == 'ilsh': x <<= y
    elif op == 'irsh': x >>= y
    return x


def c_inplace(f, a, b):
    F = _F(f); O = _O(f); out = {}
    rks = ['el', 'int', 'negint', 'self'] + (['poly'] if F.ext_deg > 1 else [])
    for op in ('iadd', 'isub', 'imul', 'idiv'):
        for rk in rks:
            x0 = x = F(a)
            y = F(b) if rk == 'el' else b if rk == 'int' else b - 2 * O.q if rk == 'negint' else _P(f, b + O.q) if rk == 'poly' else x0
            if rk == 'self' and a != b: continue
            try:
                x = _inplace(op, x, y)
                r = _enc(F, x)
            except TimeoutError:
                raise
            except Exception as e:      # noqa
                r = 'raise ' + type(e).__name__
            # (result, left operand object afterwards, right operand afterwards when it is a distinct element, result is left object)
            out[f'{op}:{rk}'] = (r, _enc(F, x0), _enc(F, y) if rk == 'el' else None, x is x0)
    return out


def k_inplace(args, res, exc):
    f, a, b = args; O = _O(f)
    if exc is not None: return f'unexpected {type(exc).__name__}: {exc}'
    fn = dict(iadd=O.add, isub=O.sub, imul=O.mul, idiv=O.div)
    rks = ['el', 'int', 'negint'] + (['self'] if a == b else []) + (['poly'] if O.d > 1 else [])
    for op in fn:
        for rk in rks:
            k = f'{op}:{rk}'
            if k not in res: return f'{k}: not observed'
            r, left, right, same = res[k]
            bb = b if rk in ('el', 'self') else O.conv(b) if rk == 'int' else O.conv(b - 2 * O.q) if rk == 'negint' else O.red(digits(b + O.q, O.p))
            e = fn[op](a, bb)
            if r != e: return f'{k}: got {r!r}, expected {e!r} (the value of the binary operator)'
            if rk == 'el' and right != b: return f'{k}: right operand changed to {right!r}'
            if e == RZ:
                if left != a: return f'{k}: left operand changed to {left!r} although the operation raised'
            elif same:
                if left != e: return f'{k}: returned self but self holds {left!r}'
            elif left != a:
                return f'{k}: returned a new object and changed the old one to {left!r}'
    return True


# ---- unary operators, bool, reciprocal, no aliasing between results and operands
def c_unary(f, a):
    F = _F(f); x = F(a)
    out = dict(neg=_o(F, lambda: -x), pos=_o(F, lambda: +x), bool=_ob(lambda: bool(x)), recip=_o(F, lambda: x.reciprocal()), x=_enc(F, x))
    y = +x; y += 1; z = -x; z *= 2; w = x + 0; w -= 1; u = x * 1; u += x
    out['x_after_inplace_on_results'] = _enc(F, x)
    out['pos_iadd1'] = _enc(F, y); out['neg_imul2'] = _enc(F, z); out['add0_isub1'] = _enc(F, w); out['mul1_iaddx'] = _enc(F, u)
    return out


def k_unary(args, res, exc):
    f, a = args; O = _O(f)
    inv = O.inv(a)
    return _cmp(res, dict(neg=O.neg(a), pos=a, bool=(a != 0), recip=RZ if a == 0 else inv, x=a, x_after_inplace_on_results=a,
                          pos_iadd1=O.add(a, O.conv(1)), neg_imul2=O.mul(O.neg(a), O.conv(2)), add0_isub1=O.sub(a, O.conv(1)),
                          mul1_iaddx=O.add(a, a)), exc)


# ---- ** (repeated multiplication; negative exponents via the inverse; 0**0 == 1; 0**negative raises)
def c_pow(f, a, e):
    F = _F(f); x = F(a)
    return dict(pow=_o(F, lambda: x ** e), pow3=_o(F, lambda: pow(x, e)), x=_enc(F, x))


def k_pow(args, res, exc):
    f, a, e = args; O = _O(f); r = O.pow(a, e)
    return _cmp(res, dict(pow=r, pow3=r, x=a), exc)


def k_pow0neg(args, res, exc):
    """0 ** negative has no value ("only zero has no inverse"): every form must raise; the property does not fix the exception
    class, so ZeroDivisionError and ValueError (what the gmpy2 stub's pow() raises) are both accepted"""
    if exc is not None: return f'unexpected {type(exc).__name__} outside the operators'
    bad = {k: v for k, v in res.items() if k != 'x' and v not in ('raise ZeroDivisionError', 'raise ValueError')}
    return True if not bad else f'0 ** negative must raise, got {bad}'


# ---- == != hash between elements
def c_eqhash(f, a, b):
    F = _F(f); O = _O(f); x, y = F(a), F(b)
    out = dict(eq=_ob(lambda: x == y), ne=_ob(lambda: x != y), hash_eq=_ob(lambda: hash(x) == hash(y)))
    if a == b:
        # the same value reached along other routes must be ==, hash equal, and collapse in a set
        others = [F(a) + 0, -(-F(a)), F(a) * 1, pickle.loads(pickle.dumps(F(a))), _inplace('iadd', F(0), F(a)), F(a) - F(1) + F(1)]
        others.append(F(a + O.p) if O.d == 1 else F(_P(f, a) + F.modulus))
        others.append(F(a - O.p) if O.d == 1 else F(_P(f, a) + F.modulus * O.p))
        out['routes_eq'] = _ob(lambda: all(o == x and x == o and not (o != x) for o in others))
        out['routes_hash'] = _ob(lambda: all(hash(o) == hash(x) for o in others))
        out['routes_set'] = _ob(lambda: len({x, y, *others}))
    return out


def k_eqhash(args, res, exc):
    f, a, b = args
    exp = dict(eq=(a == b), ne=(a != b))
    if a == b:
        exp.update(hash_eq=True, routes_eq=True, routes_hash=True, routes_set=1)
    else:
        res = dict(res); res.pop('hash_eq', None)          # unequal elements may collide
    return _cmp(res, exp, exc)


# ---- == != with integers on either side
def c_eqint(f, a, n):
    F = _F(f); x = F(a)
    return dict(eq=_ob(lambda: x == n), req=_ob(lambda: n == x), ne=_ob(lambda: x != n), rne=_ob(lambda: n != x))


def k_eqint(args, res, exc):
    f, a, n = args; e = _O(f).conv(n) == a
    return _cmp(res, dict(eq=e, req=e, ne=not e, rne=not e), exc)


# ---- field axioms on triples, evaluated with the real operators only
def c_axioms(f, a, b, c):
    F = _F(f); x, y, z = F(a), F(b), F(c); E = lambda v: _enc(F, v)
    out = dict(add_assoc=(E((x + y) + z), E(x + (y + z))), mul_assoc=(E((x * y) * z), E(x * (y * z))),
               distr_l=(E(x * (y + z)), E(x * y + x * z)), distr_r=(E((x + y) * z), E(x * z + y * z)),
               add_comm=(E(x + y), E(y + x)), mul_comm=(E(x * y), E(y * x)),
               zero=(E(x + F(0)), E(x)), one=(E(x * F(1)), E(x)), neg=(E(x + (-x)), 0), sub=(E((x - y) + y), E(x)),
               sub_def=(E(x - y), E(x + (-y))))
    if b:
        out['inv'] = (E(y * y.reciprocal()), 1 if F.order > 1 else 0)
        out['div'] = (E((x / y) * y), E(x))
        out['div_def'] = (E(x / y), E(x * y.reciprocal()))
    return out


def k_axioms(args, res, exc):
    if exc is not None: return f'unexpected {type(exc).__name__}: {exc}'
    f, a, b, c = args
    need = {'add_assoc', 'mul_assoc', 'distr_l', 'distr_r', 'add_comm', 'mul_comm', 'zero', 'one', 'neg', 'sub', 'sub_def'} | ({'inv', 'div', 'div_def'} if b else set())
    if set(res) != need: return f'observed laws {sorted(res)} != required {sorted(need)}'
    for k, (l, r) in res.items():
        if l != r or type(l) is not int: return f'law {k} fails: {l!r} != {r!r}'
    if res['zero'][1] != a: return 'F(a) does not encode a'
    return True


# ---- shifts: a << n == a * two^n, a >> n == a / two^n, where two = the element with integer encoding 2
#      (1+1 in odd characteristic; X in binary fields, whose shifts act on the polynomial; 0 in GF(2) where >> n>=1 must raise)
def c_shift(f, a, n):
    F = _F(f); x = F(a)
    out = dict(lsh=_o(F, lambda: x << n), rsh=_o(F, lambda: x >> n), round=_o(F, lambda: (x << n) >> n),
               mul_int=_o(F, lambda: x * (1 << n)), x=_enc(F, x))
    return out


def k_shift(args, res, exc):
    f, a, n = args; O = _O(f)
    t = O.pow(O.conv(2), n)
    l = O.mul(a, t); r = O.div(a, t)
    # "mixing in integers equals converting first": a * 2^n (the int) is a * F(2^n); recorded to show the three-way disagreement
    exp = dict(lsh=l, rsh=r, round=a if t != 0 else RZ, mul_int=O.mul(a, O.conv(1 << n)), x=a)
    msg = _cmp(res, exp, exc)
    if msg is not True and exc is None and O.kind == 'oddext' and isinstance(res, dict):
        # listed known finding, delimited exactly by what the code computes instead: a << n == a * X^n (X the element encoded by the integer p)
        # and a >> n == a / (element encoded by the integer 2^n); operand unchanged, int mixing as specified.  Anything else is a different violation
        X = O.conv(O.p); e2 = O.conv(1 << n)
        try:
            if (res.get('lsh') == O.mul(a, O.pow(X, n)) and (e2 == 0 or res.get('rsh') == O.div(a, e2)) and res.get('x') == a and res.get('mul_int') == exp['mul_int']):
                return ('class', 'lshift-times-X^n/rshift-by-element-encoded-by-2^n', msg)
        except Exception:
            pass
    return msg


# ---- in-place shifts agree with the binary shifts (whatever those compute: entry of its own, so that a defect in the meaning
#      of the shifts does not hide a disagreement between the two forms)
def c_ishift(f, a, n):
    F = _F(f); x = F(a); out = dict(lsh=_o(F, lambda: x << n), rsh=_o(F, lambda: x >> n))
    for op in ('ilsh', 'irsh'):
        y0 = y = F(a)
        try:
            y = _inplace(op, y, n); r = _enc(F, y)
        except TimeoutError:
            raise
        except Exception as e:      # noqa
            r = 'raise ' + type(e).__name__
        out[op] = (r, _enc(F, y0), y is y0)
    out['x'] = _enc(F, x)
    return out


def k_ishift(args, res, exc):
    f, a, n = args
    if exc is not None: return f'unexpected {type(exc).__name__}: {exc}'
    if res['x'] != a: return f'operand of the binary shifts changed to {res["x"]!r}'
    for op, b in (('ilsh', 'lsh'), ('irsh', 'rsh')):
        r, left, same = res[op]; e = res[b]
        if isinstance(e, str) and not e.startswith('raise '): return f'{b}: {e}'
        if r != e: return f'{op}: got {r!r}, but the binary operator gives {e!r}'
        if isinstance(e, str):
            if left != a: return f'{op}: left operand changed to {left!r} although the operation raised'
        elif same:
            if left != e: return f'{op}: returned self but self holds {left!r}'
        elif left != a:
            return f'{op}: returned a new object and changed the old one to {left!r}'
    return True


# ---- constructor: F(n) for any integer n is the reduced element conv(n)
def c_construct(f, n):
    F = _F(f)
    return dict(F=_o(F, lambda: F(n)), int=_ob(lambda: int(F(n)) % F.order if F.ext_deg == 1 else int(F(n))))


def k_construct(args, res, exc):
    f, n = args; e = _O(f).conv(n)
    return _cmp(res, dict(F=e, int=e), exc)


_C20 = []
_AX_PARTS = dict(prime=3, binary=2, oddext=5)
for _k in ('prime', 'binary', 'oddext'):
    _kd = {'prime': 'prime fields GF(p): all elements for p in {2,3,5,7,11,13}, lattice sample of ~30 elements (both ends, middle, stride) for p in {31,101,251}; '
                    'thorough: all 55 primes <= 257, all elements for p <= 61 and, in the entries over element pairs / single elements, for every p',
           'binary': 'binary fields GF(4), GF(8) (2 moduli), GF(16) (2 moduli), all elements; thorough: + GF(32) (2 moduli) all elements, GF(256) (2 moduli) all elements in the '
                     'entries over element pairs / single elements, lattice sample elsewhere',
           'oddext': 'odd-characteristic extension fields GF(9) (2 moduli), GF(25), GF(27), all elements; thorough: + other moduli of GF(25), GF(27), and GF(49), GF(81) all elements '
                     '(GF(81): in the entries over element pairs / single elements, lattice sample elsewhere)'}[_k]
    _C20 += [
        Native(f'binop_{_k}', 'mpyc.finfields.FiniteFieldElement.__add__/__sub__/__mul__/__truediv__', c_binop, k_binop, in_pairs(_k), f'{_kd}; all pairs of the listed elements'),
        Native(f'mixint_{_k}', 'mpyc.finfields.FiniteFieldElement.__add__/__sub__/__mul__/__truediv__ (int operand)', c_mixint, k_mixint, in_elem_int(_k),
               f'{_kd}; int operand n in -2q..2q (all for enumerated fields, lattice incl. multiples of p and q otherwise)'),
        Native(f'rmixint_{_k}', 'mpyc.finfields.FiniteFieldElement.__radd__/__rsub__/__rmul__/__rtruediv__', c_rmixint, k_rmixint, in_elem_int(_k),
               f'{_kd}; int left operand n in -2q..2q'),
        Native(f'inplace_{_k}', 'mpyc.finfields.FiniteFieldElement.__iadd__/__isub__/__imul__/__itruediv__', c_inplace, k_inplace, in_pairs(_k),
               f'{_kd}; all pairs; right operand as element, int b, int b-2q, the element itself (a==b), polynomial b+q (extension fields)'),
        Native(f'unary_{_k}', 'mpyc.finfields.FiniteFieldElement.__neg__/__pos__/__bool__/reciprocal', c_unary, k_unary, in_elems(_k), f'{_kd}'),
        Native(f'pow_{_k}', 'mpyc.finfields.PrimeFieldElement.__pow__' if _k == 'prime' else 'mpyc.finfields.ExtensionFieldElement.__pow__', c_pow, k_pow, in_pow(_k, False),
               f'{_kd}; exponents -q..2q (all for enumerated fields, lattice otherwise); all (a, e) except 0 ** negative'),
        Native(f'pow0neg_{_k}', 'mpyc.finfields.PrimeFieldElement.__pow__ (0 ** negative)' if _k == 'prime' else 'mpyc.finfields.ExtensionFieldElement.__pow__ (0 ** negative)',
               c_pow, k_pow0neg, in_pow(_k, True), f'{_kd}; 0 ** e for e in -q..-1 must raise (ZeroDivisionError or ValueError)'),
        Native(f'eqhash_{_k}', 'mpyc.finfields.FiniteFieldElement.__eq__/__hash__', c_eqhash, k_eqhash, in_pairs(_k), f'{_kd}; all pairs; 8 routes to the same value'),
        Native(f'eqint_{_k}', 'mpyc.finfields.FiniteFieldElement.__eq__ (int operand)', c_eqint, k_eqint, in_elem_int(_k), f'{_kd}; int n in -2q..2q on either side'),
    ] + [
        Native(f'axioms_{_k}_{_i}', 'mpyc.finfields.FiniteFieldElement (field axioms)', c_axioms, k_axioms, in_triples(_k, _i, _AX_PARTS[_k]),
               f'{_kd}; all triples for q <= 27 (thorough 32), triples over a thinned lattice otherwise; part {_i + 1} of {_AX_PARTS[_k]} (by index of the first element)')
        for _i in range(_AX_PARTS[_k])
    ] + [
        Native(f'shift_{_k}', 'mpyc.finfields.PrimeFieldElement.__lshift__/__rshift__/__ilshift__/__irshift__' if _k == 'prime'
               else 'mpyc.finfields.ExtensionFieldElement.__lshift__/__rshift__/__ilshift__/__irshift__', c_shift, k_shift, in_shift(_k),
               f'{_kd}; all elements for q <= 101 (thorough 257); shift counts 0..8'),
        Native(f'ishift_{_k}', 'mpyc.finfields.PrimeFieldElement.__ilshift__/__irshift__' if _k == 'prime' else 'mpyc.finfields.ExtensionFieldElement.__ilshift__/__irshift__',
               c_ishift, k_ishift, in_shift(_k), f'{_kd}; all elements for q <= 101 (thorough 257); shift counts 0..8; reference = the real binary shift'),
        Native(f'construct_{_k}', 'mpyc.finfields.PrimeFieldElement.__init__' if _k == 'prime' else 'mpyc.finfields.ExtensionFieldElement.__init__', c_construct, k_construct,
               in_construct(_k), f'{_kd}; F(n) for n in -2q..2q'),
    ]
    if _k != 'prime':
        _C20.append(Native(f'mixpoly_{_k}', 'mpyc.finfields.FiniteFieldElement operators (polynomial operand)', c_mixpoly, k_mixpoly, in_elem_poly(_k),
                           f'{_kd}; polynomial operand with encoding 0..2q (incl. the modulus) + five of degree > d, on either side, also == and F(poly)'))


# ===================================================================================== C21: is_sqr, sqrt
PRIMES_1009 = [p for p in range(2, 1010) if o_is_prime(p)]
SQ_EXT_Q1 = [('x', 3, 10), ('x', 3, 17), ('x', 5, 27), ('x', 7, 50), ('x', 3, 86), ('x', 11, 122), ('x', 5, 131), ('x', 13, 171), ('x', 17, 292)]   # q % 4 == 1: 9,9,25,49,81,121,125,169,289
SQ_EXT_Q3 = [('x', 3, 34), ('x', 3, 46), ('x', 7, 345), ('x', 3, 250)]                                                                            # q % 4 == 3: 27,27,343,243
SQ_BIN = [('x', 2, 7), ('x', 2, 11), ('x', 2, 13), ('x', 2, 19), ('x', 2, 25), ('x', 2, 37), ('x', 2, 283)]                                          # 4,8,8,16,16,32,256


def sq_fields(cls, tier):
    if cls in ('p3', 'p1', 'p2'):
        ps = T(tier, PRIMES_257, PRIMES_1009 + [65537, 65539])
        return [('p', p) for p in ps if (p == 2) == (cls == 'p2') and (p == 2 or (p % 4 == 3) == (cls == 'p3'))]
    return dict(q1=SQ_EXT_Q1, q3=SQ_EXT_Q3, bin=SQ_BIN)[cls]


def in_sq(cls):
    return lambda tier: ((f, a) for f in sq_fields(cls, tier) for a in range(_O(f).q))


def c_sqrt(f, a, fresh=False):
    F = _fresh(f) if fresh else _F(f)
    x = F(a)
    return dict(is_sqr=_ob(lambda: x.is_sqr()), sqrt=_o(F, lambda: x.sqrt()), isqrt=_o(F, lambda: x.sqrt(INV=True)),
                isqrt_pos=_o(F, lambda: x.sqrt(True)), x=_enc(F, x))


def k_sqrt(args, res, exc):
    f, a = args[:2]; O = _O(f)
    if exc is not None: return f'unexpected {type(exc).__name__}: {exc}'
    sq = a in O.squares()                                  # exists b: b*b == a, by exhaustive search
    if res.get('x') != a: return f'operand changed to {res.get("x")!r}'
    if res['is_sqr'] is not sq: return f'is_sqr: got {res["is_sqr"]!r}, expected {sq}'
    if a == 0:
        if res['isqrt'] != RZ or res['isqrt_pos'] != RZ: return f'inverse square root of 0 must raise ZeroDivisionError, got {res["isqrt"]!r}'
    if not sq: return True                                 # sqrt of a non-square: unspecified (anything, incl. an exception)
    r = res['sqrt']
    if type(r) is not int: return f'sqrt of a square: {r}'
    if O.mul(r, r) != a: return f'sqrt: {r}^2 = {O.mul(r, r)} != {a}'
    if a:
        for k in ('isqrt', 'isqrt_pos'):
            i = res[k]
            if type(i) is not int: return f'sqrt(INV=True) of a nonzero square: {i}'
            if O.mul(O.mul(i, i), a) != 1: return f'sqrt(INV=True): {i}^2 * {a} = {O.mul(O.mul(i, i), a)} != 1 (not the inverse of a square root)'
    return True


_SQ_B = {'p3': 'all elements of all prime fields p = 3 mod 4, p <= 257 (thorough: p <= 1009 and 65539)',
         'p1': 'all elements of all prime fields p = 1 mod 4, p <= 257 (thorough: p <= 1009 and 65537)',
         'p2': 'GF(2), both elements',
         'q1': 'all elements of GF(9) (2 moduli), GF(25), GF(49), GF(81), GF(121), GF(125), GF(169), GF(289) (q = 1 mod 4: Tonelli-Shanks; 2-adic valuations of q-1: 3,3,3,4,4,3,2,3,5)',
         'q3': 'all elements of GF(27) (2 moduli), GF(243), GF(343) (q = 3 mod 4)',
         'bin': 'all elements of GF(4), GF(8) x2, GF(16) x2, GF(32), GF(256)'}
_C21 = []
for _c, _fn in (('p3', 'PrimeFieldElement'), ('p1', 'PrimeFieldElement'), ('p2', 'PrimeFieldElement'), ('q1', 'ExtensionFieldElement'), ('q3', 'ExtensionFieldElement'),
                ('bin', 'BinaryFieldElement')):
    _C21.append(Native(f'sqrt_{_c}', f'mpyc.finfields.{_fn}.sqrt/is_sqr', c_sqrt, k_sqrt, in_sq(_c), _SQ_B[_c]))
# _least_qnr is cached on the class by the first sqrt call: the contract must also hold on a class whose first call is this one
_C21.append(Native('sqrt_q1_fresh_class', 'mpyc.finfields.ExtensionFieldElement._sqrt (_least_qnr cache)', lambda f, a: c_sqrt(f, a, True), k_sqrt,
                   lambda tier: ((f, a) for f in SQ_EXT_Q1 for a in (range(_O(f).q) if tier != 'quick' or _O(f).q <= 81 else lattice(0, _O(f).q))),
                   _SQ_B['q1'] + '; each call on a newly created class (xGF.__wrapped__), quick: lattice for q > 81'))



def c_sqrt_after(fprev, f, a):
    """class-level state (_least_qnr) set by a square root in one field must not leak into another field: both classes new"""
    G = _fresh(fprev); G(1).sqrt(); (G(2) * G(2)).sqrt(INV=True)          # squares only: sqrt of a non-square is unspecified
    return c_sqrt(f, a, True)


_C21.append(Native('sqrt_q1_after_other_field', 'mpyc.finfields.ExtensionFieldElement._sqrt (_least_qnr cache, two fields)', c_sqrt_after,
                   lambda args, res, exc: k_sqrt(args[1:], res, exc),
                   lambda tier: ((g, f, a) for f in SQ_EXT_Q1 for g in SQ_EXT_Q1 if g != f for a in (range(_O(f).q) if tier != 'quick' else lattice(0, _O(f).q)[::2])),
                   'every ordered pair (g, f) of distinct fields of sqrt_q1: sqrt in a new class of g first, then the contract for elements of a new class of f '
                   '(quick: every second lattice element; thorough: all)'))

# ===================================================================================== C22: bytes, pickle, integer views
P64A, P64B = 2 ** 64 - 59, 2 ** 64 + 13
BY_PRIME = [('p', p) for p in (2, 3, 5, 7, 13, 127, 251, 257, 65521, 65537, 16777213, 16777259, 2 ** 31 - 1, 4294967291, 4294967311, 2 ** 61 - 1, P64A, P64B, 2 ** 127 - 1)]
BY_EXT = [('x', 2, 7), ('x', 2, 11), ('x', 2, 19), ('x', 2, 37), ('x', 2, 131), ('x', 2, 283), ('x', 2, 285), ('x', 2, 515), ('x', 2, 69643),   # 4,8,16,32,128,256,256,512,2^16
          ('x', 3, 10), ('x', 5, 27), ('x', 3, 34), ('x', 7, 50), ('x', 3, 86), ('x', 11, 122), ('x', 5, 131), ('x', 3, 250), ('x', 3, 734),  # 9,25,27,49,81,121,125,243,729
          ('x', 17, 292), ('x', 251, 63002), ('x', 257, 66052)]                                                                                     # 289, 251^2, 257^2


def in_bytes(flds):
    def gen(tier):
        for f in flds:
            q = _O(f).q
            if q <= 5:
                for n in range(0, T(tier, 6, 7)):
                    for l in itertools.product(range(q), repeat=n): yield (f, list(l))
                continue
            S = lattice(0, q, extra=[255, 256, 257, 65535, 65536, 65537, 2 ** 24 - 1, 2 ** 24, 2 ** 32 - 1, 2 ** 32, 2 ** 64 - 1, 2 ** 64])
            yield (f, [])
            for a in S: yield (f, [a])
            for a in S[:: T(tier, 3, 1)]:
                for b in S[:: T(tier, 3, 1)]: yield (f, [a, b])
            ext = [0, q - 1, 1, q // 2, q - 2, 255 % q, 256 % q]
            for n in (3, 4, 5):
                for s in range(len(ext)):
                    yield (f, [ext[(s + i * (n - 1)) % len(ext)] for i in range(n)])
                yield (f, [q - 1] * n); yield (f, [0] * n)
            if tier != 'quick':
                for n in (3, 4):
                    for l in itertools.product(S[::5], repeat=n): yield (f, list(l))
    return gen


def c_bytes(f, lst):
    F = _F(f)
    els = [F(v) for v in lst]
    data = F.to_bytes([e.value for e in els])              # as the runtime does: the values of the elements
    back = F.from_bytes(data)
    data_int = F.to_bytes(list(lst))                       # "list of integers", as the docstring says
    return dict(type=type(data).__name__, len=len(data), r=F.byte_length, back=back, els=[_enc(F, F(v)) for v in back],
                back_int=F.from_bytes(data_int), same=(data == data_int))


def k_bytes(args, res, exc):
    f, lst = args
    if exc is not None: return f'unexpected {type(exc).__name__}: {exc}'
    if res['type'] != 'bytes': return f'to_bytes returned {res["type"]}'
    if type(res['r']) is not int or res['r'] < 1: return f'byte_length {res["r"]!r}'
    if res['len'] != len(lst) * res['r']: return f'length {res["len"]} != {len(lst)} * byte_length {res["r"]}'
    if res['back'] != lst or any(type(v) is not int for v in res['back']): return f'from_bytes(to_bytes(values)) = {res["back"]!r}'
    if res['els'] != lst: return f'elements rebuilt from the decoded values: {res["els"]!r}'
    if res['back_int'] != lst: return f'from_bytes(to_bytes(ints)) = {res["back_int"]!r}'
    return True


PK_PRIME = [('p', p) for p in (2, 3, 5, 7, 11, 13, 31, 101, 251, 257, 65537, 2 ** 61 - 1, P64B)] + \
           [('pt', 31, 5, 2), ('pt', 31, 5, 4), ('pt', 31, 3, 5), ('pt', 7, 3, 2), ('pt', 7, 1, 1), ('pt', 43, 7, 4), ('pt', 2, 1, 1), ('pt', 3, 2, 2), ('pt', 1543, 257, 7)]
PK_EXT = [('x', 2, 7), ('x', 2, 11), ('x', 2, 13), ('x', 2, 19), ('x', 2, 283), ('x', 2, 285), ('x', 3, 10), ('x', 3, 17), ('x', 5, 27), ('x', 3, 34), ('x', 7, 50),
          ('x', 3, 86), ('x', 257, 66052)]


def in_pickle(flds):
    return lambda tier: ((f, a) for f in flds for a in (range(_O(f).q) if _O(f).q <= T(tier, 101, 300) else lattice(0, _O(f).q)))


def c_pickle(f, a):
    F = _F(f); e = F(a); out = {}
    for proto in range(0, pickle.HIGHEST_PROTOCOL + 1):
        g = pickle.loads(pickle.dumps(e, protocol=proto))
        out[proto] = (_enc(type(g), g), type(g) is type(e), _ob(lambda: g == e and e == g and not (g != e)), hash(g) == hash(e),
                      _o(F, lambda: g + e), type(g).__name__ == F.__name__, getattr(type(g), 'modulus', None) == F.modulus,
                      (getattr(type(g), 'nth', None), getattr(type(g), 'root', None)) == (getattr(F, 'nth', None), getattr(F, 'root', None)))
    l = pickle.loads(pickle.dumps([e, e, F(0)]))
    out['list'] = ([_enc(F, v) for v in l], l[0] is l[1])
    out['e'] = _enc(F, e)
    return out


def k_pickle(args, res, exc):
    f, a = args; O = _O(f)
    if exc is not None: return f'unexpected {type(exc).__name__}: {exc}'
    for proto in range(0, pickle.HIGHEST_PROTOCOL + 1):
        enc, same_type, eq, heq, s, nm, md, rt = res[proto]
        if enc != a: return f'protocol {proto}: unpickled element encodes {enc!r}, expected {a}'
        if not same_type: return f'protocol {proto}: type(unpickled) is not type(original) (name equal: {nm}, modulus equal: {md}, nth/root equal: {rt})'
        if eq is not True: return f'protocol {proto}: unpickled != original ({eq!r})'
        if not heq: return f'protocol {proto}: hash differs'
        if s != O.add(a, a): return f'protocol {proto}: unpickled + original = {s!r}'
    if res['list'] != ([a, a, 0], True): return f'list round trip: {res["list"]!r}'
    if res['e'] != a: return 'original changed by pickling'
    return True


def c_intviews(f, a):
    F = _F(f); e = F(a)
    if F.ext_deg == 1:
        G = _fresh(f); G.is_signed = False; g = G(a)       # an own class, so that the shared one is not altered
        H = _fresh(f); H.is_signed = True; h = H(a)
        return dict(default_signed=F.is_signed, int=_ob(lambda: int(e)), signed=_ob(e.signed_), unsigned=_ob(e.unsigned_), abs=_ob(lambda: abs(e)),
                    int_unsigned_cls=_ob(lambda: int(g)), int_signed_cls=_ob(lambda: int(h)), back=_o(F, lambda: F(int(e))), back_u=_o(F, lambda: F(e.unsigned_())),
                    x=_enc(F, e))
    return dict(int=_ob(lambda: int(e)), back=_o(F, lambda: F(int(e))), x=_enc(F, e))


def k_intviews(args, res, exc):
    f, a = args; O = _O(f); p = O.p
    if O.d > 1: return _cmp(res, dict(int=a, back=a, x=a), exc)
    if exc is not None: return f'unexpected {type(exc).__name__}: {exc}'
    s, u = res['signed'], res['unsigned']
    if type(s) is not int or type(u) is not int: return f'signed_/unsigned_ returned {s!r}, {u!r}'
    if u != a: return f'unsigned_ = {u}, expected the reduced value {a}'
    if (s - a) % p != 0: return f'signed_ = {s} is not congruent to {a} mod {p}'
    if not -p < 2 * s <= p: return f'signed_ = {s} outside (-p/2, p/2]'
    exp = dict(default_signed=res['default_signed'], int=s if res['default_signed'] else u, signed=s, unsigned=u, abs=abs(s), int_unsigned_cls=u, int_signed_cls=s, back=a, back_u=a, x=a)
    return _cmp(res, exp, None)


IV_PRIME = [('p', p) for p in PRIMES_257] + [('p', p) for p in (65521, 65537, 2 ** 61 - 1, P64A, P64B)]
_C22 = [
    Native('bytes_prime', 'mpyc.finfields.FiniteFieldElement.to_bytes/from_bytes (prime fields)', c_bytes, k_bytes, in_bytes(BY_PRIME),
           'p in {2,3,5,7,13,127,251,257,65521,65537,2^24-3,2^24+43,2^31-1,2^32-5,2^32+15,2^61-1,2^64-59,2^64+13,2^127-1}; all lists of length 0..5 (thorough 0..6) for q <= 5, '
           'else lists of length 0,1 (whole lattice incl. 0, q-1 and values around 2^8,2^16,2^24,2^32,2^64), 2 (thinned lattice squared), 3..5 (extreme patterns)'),
    Native('bytes_ext', 'mpyc.finfields.FiniteFieldElement.to_bytes/from_bytes (extension fields)', c_bytes, k_bytes, in_bytes(BY_EXT),
           'GF(2^d) d in {2,3,4,5,7,8 (2 moduli),9,16}, GF(9),GF(25),GF(27),GF(49),GF(81),GF(121),GF(125),GF(243),GF(729),GF(289),GF(251^2),GF(257^2); lists as for prime fields'),
    Native('pickle_prime', 'mpyc.finfields.PrimeFieldElement.__reduce__/createGF', c_pickle, k_pickle, in_pickle(PK_PRIME),
           'GF(p) p in {2,3,5,7,11,13,31,101,251,257,65537,2^61-1,2^64+13} and GF((p,n,w)) for nine (p,n,w) with 0 < w < p of order n; all elements for p <= 101 (thorough 300), lattice otherwise; '
           'all pickle protocols'),
    # (tuples GF((p,n,w)) with w outside range(p) are not produced by find_prime_root / _pfield and are outside the domain: pickling
    #  such a class is not covered -- observation recorded in DESIGN.md section 9)
    Native('pickle_ext', 'mpyc.finfields.ExtensionFieldElement.__reduce__/createGF', c_pickle, k_pickle, in_pickle(PK_EXT),
           'GF(4),GF(8) x2,GF(16),GF(256) x2,GF(9) x2,GF(25),GF(27),GF(49),GF(81),GF(257^2); all elements for q <= 101 (thorough 300), lattice otherwise; all pickle protocols'),
    Native('intviews_prime', 'mpyc.finfields.PrimeFieldElement.__int__/signed_/unsigned_', c_intviews, k_intviews,
           lambda tier: ((f, a) for f in IV_PRIME for a in (range(f[1]) if f[1] <= 257 else lattice(0, f[1], extra=[f[1] // 2 - 1, f[1] // 2, f[1] // 2 + 1, f[1] // 2 + 2]))),
           'all elements of GF(p), p <= 257; lattice incl. the neighbourhood of p/2 for p in {65521, 65537, 2^61-1, 2^64-59, 2^64+13}'),
    Native('intviews_ext', 'mpyc.finfields.ExtensionFieldElement.__int__', c_intviews, k_intviews, in_pickle(PK_EXT), 'fields of pickle_ext'),
]


# ===================================================================================== C26: find_prime_root, _pfield
NS = (1, 2, 3, 5, 7, 11, 13, 17, 257, 4, 9, 100)


def c_fpr(l, blum, n):
    from mpyc import finfields
    return finfields.find_prime_root(l, blum, n)


def c_fpr_default(l):
    from mpyc import finfields
    return finfields.find_prime_root(l)


def k_fpr(args, res, exc):
    l, blum, n = args if len(args) == 3 else (args[0], True, 1)
    if exc is not None:
        # the code guards its two unsupported argument combinations by `assert`; nothing else may be raised
        if isinstance(exc, AssertionError) and not blum and (n > 2 or (l <= 2 and n != 1)): return True
        return f'unexpected {type(exc).__name__}: {exc}'
    if type(res) is not tuple or len(res) != 3 or any(type(v) is not int for v in res): return 'result is not a triple of ints'
    p, n2, w = res
    if not o_is_prime(p): return f'p = {p} is not prime'
    if p.bit_length() < l: return f'bit length {p.bit_length()} < {l}'
    if n <= 2 and p.bit_length() != l: return f'bit length {p.bit_length()} != {l} although n <= 2'
    if blum and p % 4 != 3: return f'p = {p} is not 3 mod 4'
    if n2 < n:
        msg = f'returned order n = {n2} below the requested {n}'
        # listed known finding, delimited exactly: l <= 2, blum, n > 2 gives the fixed triple (3, 2, 2)
        return ('class', 'l<=2-blum-n>2-returns-(3,2,2)', msg) if (l <= 2 and blum and n > 2 and res == (3, 2, 2)) else msg
    if not 0 < w < p: return f'w = {w} not in (0, p)'
    if n2 == 1: return w == 1 or f'n = 1 but w = {w}'
    if (p - 1) % n2 != 0: return f'n = {n2} does not divide p - 1'
    if pow(w, n2, p) != 1: return f'w^{n2} != 1'
    for r in o_prime_factors(n2):
        if pow(w, n2 // r, p) == 1: return f'order of w divides {n2 // r} < {n2}'
    if n2 == 2 and w != p - 1: return 'n = 2 but w != p - 1'
    return True


def _mpc():
    import sys
    sys.argv = ['x', '--no-log']                            # the runtime parses sys.argv when imported
    from mpyc.runtime import mpc
    return mpc


def c_sectype(kind, l, f, k, p, n):
    mpc = _mpc()
    from mpyc import sectypes, finfields
    old = mpc.options.sec_param
    mpc.options.sec_param = k
    sectypes._SecInt.cache_clear(); sectypes._SecFxp.cache_clear()
    try:
        if kind == 'int':
            S = mpc.SecInt(l, p=p, n=n) if p is not None or n != 2 else mpc.SecInt(l)
        else:
            S = mpc.SecFxp(l, f, p=p, n=n) if p is not None or n != 2 else mpc.SecFxp(l, f)
        F = S.field
        return dict(order=F.order, modulus=F.modulus, char=F.characteristic, deg=F.ext_deg, nth=F.nth, root=F.root, m=len(mpc.parties), t=mpc.threshold,
                    bit_length=S.bit_length, frac=getattr(S, 'frac_length', 0), k=mpc.options.sec_param, prime_base=issubclass(F, finfields.PrimeFieldElement))
    finally:
        mpc.options.sec_param = old
        sectypes._SecInt.cache_clear(); sectypes._SecFxp.cache_clear()


def k_sectype(args, res, exc):
    kind, l, f, k, p, n = args
    bound = 2 ** (l + f + k + 1)
    if p is not None and p <= bound:
        return isinstance(exc, ValueError) or f'given prime p <= 2^(l+f+k+1) = 2^{l + f + k + 1} must be rejected with ValueError'
    if exc is not None: return f'unexpected {type(exc).__name__}: {exc}'
    q = res['order']
    if res['k'] != k: return 'sec_param not in effect'
    if not (res['prime_base'] and res['deg'] == 1 and res['char'] == q == res['modulus']): return 'not a prime field'
    if not o_is_prime(q): return f'field order {q} is not prime'
    if not q > bound: return f'field order {q} <= 2^(l+f+k+1) = 2^{l + f + k + 1}'
    if not q > res['m']: return f'field order {q} <= number of parties {res["m"]}'
    if p is not None and q != p: return f'given prime {p} not used'
    if res['bit_length'] != l or res['frac'] != f: return 'bit_length/frac_length of the secure type differ from the request'
    nth, w = res['nth'], res['root']
    if p is None:
        if nth < n: return f'root order {nth} below requested {n}'
        if q % 4 != 3: return 'generated prime is not a Blum prime'
    if not (0 < w < q and pow(w, nth, q) == 1 and all(pow(w, nth // r, q) != 1 for r in o_prime_factors(nth))): return f'root {w} does not have order {nth}'
    return True


def _prime_below(x):
    x -= 1
    while not o_is_prime(x): x -= 1
    return x


def _prime_above(x):
    x += 1
    while not o_is_prime(x): x += 1
    return x


def in_sectype(kind, explicit):
    def gen(tier):
        L = T(tier, 64, 128)
        for k in (2, 8, 30):
            for l in range(1, L + 1):
                fs = [0] if kind == 'int' else sorted({0, 1, l // 4, l // 2 - 1, l // 2} & set(range(0, l // 2 + 1))) if tier == 'quick' else range(0, l // 2 + 1)
                for f in fs:
                    if not explicit:
                        yield (kind, l, f, k, None, 2)
                        if (l + f) % 7 == 1:
                            for n in (1, 3, 5, 257): yield (kind, l, f, k, None, n)
                    elif l % T(tier, 4, 1) == 1 or l == L:
                        b = 2 ** (l + f + k + 1)
                        yield (kind, l, f, k, _prime_below(b), 2)            # largest prime that is too small
                        yield (kind, l, f, k, _prime_above(b), 2)            # smallest prime that is large enough
                        yield (kind, l, f, k, _prime_below(b // 2), 2)
                        yield (kind, l, f, k, _prime_above(2 * b), 2)
                        yield (kind, l, f, k, 3, 2)
    return gen


_C26 = [
    Native('fpr_l2', 'mpyc.finfields.find_prime_root (l <= 2)', c_fpr, k_fpr, lambda tier: ((2, b, n) for b in (True, False) for n in NS), 'l = 2, blum in {True, False}, n in ' + repr(NS)),
    Native('fpr_n12', 'mpyc.finfields.find_prime_root (n <= 2)', c_fpr, k_fpr,
           lambda tier: ((l, b, n) for l in range(3, T(tier, 65, 257)) for b in (True, False) for n in (1, 2)), 'l in 3..64 (thorough 3..256), blum in {True, False}, n in {1, 2}'),
    Native('fpr_root', 'mpyc.finfields.find_prime_root (n > 2)', c_fpr, k_fpr,
           lambda tier: ((l, b, n) for l in range(3, T(tier, 65, 257)) for b in (True, False) for n in NS if n > 2),
           'l in 3..64 (thorough 3..256), blum in {True, False}, n in {3,5,7,11,13,17,257} and the composite requests {4,9,100} '
           '(AssertionError accepted for blum=False: guarded by assert in the code)'),
    Native('fpr_default', 'mpyc.finfields.find_prime_root (defaults)', c_fpr_default, k_fpr, lambda tier: ((l,) for l in range(2, T(tier, 65, 257))), 'l in 2..64 (thorough 2..256), default blum=True, n=1'),
    Native('pfield_secint', 'mpyc.sectypes._pfield (via SecInt)', c_sectype, k_sectype, in_sectype('int', False),
           'SecInt(l), l in 1..64 (thorough 128), sec_param k in {2,8,30}, default n=2 and n in {1,3,5,257} for every 7th l; m=1 party'),
    Native('pfield_secfxp', 'mpyc.sectypes._pfield (via SecFxp)', c_sectype, k_sectype, in_sectype('fxp', False),
           'SecFxp(l,f), l in 1..64 (thorough 128), f in {0,1,l//4,l//2-1,l//2} (thorough all f <= l//2), k in {2,8,30}; m=1 party'),
    Native('pfield_explicit_p', 'mpyc.sectypes._pfield (given p)', lambda *a: c_sectype(*a), k_sectype,
           lambda tier: itertools.chain(in_sectype('int', True)(tier), in_sectype('fxp', True)(tier)),
           'SecInt(l,p)/SecFxp(l,f,p) for every 4th l (thorough every l) with p the nearest primes on both sides of 2^(l+f+k+1), of 2^(l+f+k) and 2^(l+f+k+2), and p = 3'),
]


# ---- every call runs under a CPU-time alarm (user time of this process, so machine load does not matter): an edit that makes
#      the real code loop forever is reported as a violation (TimeoutError is in no contract) instead of hanging the check
CALL_LIMIT_S = 30


def _limited(call):
    def run(*args):
        import signal, threading
        if threading.current_thread() is not threading.main_thread() or not hasattr(signal, 'setitimer'):
            return call(*args)

        def on_alarm(signum, frame):
            raise TimeoutError(f'call used more than {CALL_LIMIT_S} s of CPU time without returning')
        old = signal.signal(signal.SIGVTALRM, on_alarm)
        signal.setitimer(signal.ITIMER_VIRTUAL, CALL_LIMIT_S)
        try:
            return call(*args)
        finally:
            signal.setitimer(signal.ITIMER_VIRTUAL, 0)
            signal.signal(signal.SIGVTALRM, old)
    return run


NATIVE = {n.name: n for n in _C20 + _C21 + _C22 + _C26}
for _n in NATIVE.values():
    _n.call = _limited(_n.call)
    _n.func = _n.func.split(' ')[0]          # witness keys (function:name:args) must not contain blanks; the qualifier stays in the bound text and the entry name
for _n in NATIVE.values(): _n.module = 'contracts.finfields'
C20_NATIVES = [n.name for n in _C20]
C21_NATIVES = [n.name for n in _C21]
C22_NATIVES = [n.name for n in _C22]
C26_NATIVES = [n.name for n in _C26]


# ---- find_prime_root / _pfield depend on the randomised primality test: a REPLAY evaluates the same input up to 50 times (see contracts/gmpy.py)
from contracts.gmpy import _RepeatOnReplay as _Rep
for _nm, _nv in list(NATIVE.items()):
    if _nm.startswith(('fpr_', 'pfield_')) and type(_nv).__name__ == 'Native':
        _nv.__class__ = _Rep
