"""Engine-A (deductive) contracts for mpyc/asyncoro.py: MessageExchanger.send / data_received / receive  (C10, C09, C36).

Model.  A is the byte stream of the connection (every byte the peer ever sends), fixed; self.bytes is the window [lo, hi) of A:
hi = number of bytes received so far, lo = first byte not yet consumed.  data_received(data) appends: data == A[hi : hi+len(data)].
Frames are a function of the stream alone:  FPOS(0) = h0 (first byte after the handshake),
    FPOS(g+1) = FPOS(g) + 12 + U32(FPOS(g)+8),   frame g = (pc = S64(FPOS(g)), payload = A[FPOS(g)+12 : FPOS(g+1)]),
    complete(g, hi)  <=>  FPOS(g)+12 <= hi  and  FPOS(g+1) <= hi.
Class invariant INV(hi): lo == FPOS(nd), every frame g < nd is complete and was handed over exactly once with its own (pc, payload
window) -- to the waiting future if receive(pc) came first, else stored in buffers[pc] -- and frame nd is NOT complete at hi.
data_received: requires INV(hi), ensures INV(hi + len(data)).  Because FPOS/complete do not mention chunk boundaries, the
delivered sequence depends on the stream only: any chunking delivers the same frames (C10), only complete frames (C36).
S64/U32 are the decoders of struct '<q' / '<I' (trusted codec contract: unpack(pack(v)) == v), as functions of the bytes.
"""
import ast, z3
from vc.engine import (Contract, LoopSpec, And, Or, Not, Implies, If, I, ARR, BOOL, VList, VObj, VTuple, VBytes, VDict, VStr, NONE, OutsideSubset,
                       zint, Ref, is_z3)

A = z3.Const('A', ARR)                                  # the stream
DEC8 = z3.Function('DEC8', I, I, I, I, I, I, I, I, I)   # little-endian signed 64-bit decode of 8 byte values
DEC4 = z3.Function('DEC4', I, I, I, I, I)               # little-endian unsigned 32-bit decode of 4 byte values
FPOS = z3.Function('FPOS', I, I)
g_ = z3.Int('g_')
k_ = z3.Int('k_')
h0 = z3.Int('h0')


def S64(arr, pos): return DEC8(*[arr[pos + k] for k in range(8)])
def U32(arr, pos): return DEC4(*[arr[pos + k] for k in range(4)])
def fsize(g): return U32(A, FPOS(g) + 8)
def unfold(g): return And(FPOS(g + 1) == FPOS(g) + 12 + fsize(g), fsize(g) >= 0, fsize(g) < 2 ** 32)
def complete(g, hi): return And(FPOS(g) + 12 <= hi, FPOS(g + 1) <= hi)


def delivered_ok(E, nd, hi):
    dpc, dst, dsz, dk = E['__dpc'], E['__dst'], E['__dsz'], E['__dkind']
    return And(dpc.n == nd, dst.n == nd, dsz.n == nd, dk.n == nd,
               z3.ForAll([g_], Implies(And(0 <= g_, g_ < nd),
                                       And(FPOS(g_ + 1) <= hi, FPOS(g_) + 12 <= FPOS(g_ + 1), dpc.arr[g_] == S64(A, FPOS(g_)), dst.arr[g_] == FPOS(g_) + 12,
                                           dsz.arr[g_] == fsize(g_)))))


def _dr_params(vc, P):
    lo0, hi0, nd0, dlen = z3.Ints('lo0 hi0 nd0 dlen')
    D = z3.Const('D', ARR)
    bytes_ = vc.alloc(P, VBytes(A, lo0, hi0))
    buffers = vc.alloc(P, VDict(z3.Const('bhas', z3.ArraySort(I, BOOL)), z3.Const('bval', ARR)))
    self_ = vc.alloc(P, VObj('MessageExchanger', runtime=VObj('rt'), peer_pid=z3.Int('peer_pid'), bytes=bytes_, buffers=buffers, transport=VObj('transport'),
                             nbytes_sent=z3.Int('nbytes_sent')))
    mk = lambda nm: vc.alloc(P, VList(z3.Const(nm, ARR), nd0))
    return dict(self=self_, data=VBytes(D, 0, dlen), __dpc=mk('dpc0'), __dst=mk('dst0'), __dsz=mk('dsz0'), __dkind=mk('dk0'), __nd=nd0,
                __lo0=lo0, __hi0=hi0, __nd0=nd0, __dlen=dlen, __D=D)


def _log(vc, P, pc, start, size, kind):
    for nm, v in (('__dpc', pc), ('__dst', start), ('__dsz', size), ('__dkind', kind)):
        r = P.env[nm]; L = P.heap[r.id]
        P.heap[r.id] = VList(z3.Store(L.arr, L.n, zint(v)), L.n + 1)
    P.env['__nd'] = P.env['__nd'] + 1


def _bytes_extend(vc, P, recv, obj, d):
    # contract of bytearray.extend on the stream window: the new bytes are the next bytes of the stream
    vc.assume(P, And(d.lo == 0, z3.ForAll([k_], Implies(And(0 <= k_, k_ < d.n), obj.arr[obj.hi + k_] == d.arr[d.lo + k_]))))
    P.heap[recv.id] = VBytes(obj.arr, obj.lo, obj.hi + d.n)
    return NONE


def _unpack_from(vc, P, args, kw, e):
    fmt = P.deref(args[0]); buf = P.deref(args[1]); off = P.deref(args[2]) if len(args) > 2 else 0
    if not isinstance(fmt, VStr) or not isinstance(buf, VBytes): raise OutsideSubset('unpack_from arguments')
    if fmt.s == '<qI':
        vc.oblige(f'unpack_from-needs-12-bytes@{e.lineno}', P, And(off >= 0, buf.n - off >= 12), line=e.lineno)
        pos = buf.lo + off
        u = U32(buf.arr, pos + 8)
        vc.assume(P, And(u >= 0, u < 2 ** 32))
        return VTuple([S64(buf.arr, pos), u])
    if fmt.s.startswith('{') and fmt.s.endswith('}s'):
        nexpr = ast.parse(fmt.s[1:-2], mode='eval').body
        for nn in ast.walk(nexpr): nn.lineno = e.lineno
        n = P.deref(vc.ev(nexpr, P))
        vc.oblige(f'unpack_from-needs-payload-bytes@{e.lineno}', P, And(off >= 0, n >= 0, buf.n - off >= n), line=e.lineno)
        return VTuple([VBytes(buf.arr, buf.lo + off, buf.lo + off + n)])
    raise OutsideSubset('struct format ' + fmt.s)


def _dict_pop(vc, P, recv, obj, args, e):
    key = zint(P.deref(args[0]))
    if len(args) == 1:
        vc.oblige(f'pop-key-present@{e.lineno}', P, z3.Select(obj.has, key), line=e.lineno)
        P.heap[recv.id] = VDict(z3.Store(obj.has, key, False), obj.val)
        return VObj('slot', present=True, handle=obj.val[key], key=key)
    P.heap[recv.id] = VDict(z3.Store(obj.has, key, False), obj.val)
    return VObj('slot', present=z3.Select(obj.has, key), handle=obj.val[key], key=key)


def _set_result(vc, P, recv, args, kw, e):
    slot = P.deref(recv); payload = P.deref(args[0])
    if not (isinstance(slot, VObj) and slot.cls == 'slot' and isinstance(payload, VBytes)): raise OutsideSubset('set_result receiver')
    # the popped entry must be a waiting Future (a second frame with a label still buffered would hit a bytes object here)
    _log(vc, P, slot.f['key'], payload.lo, payload.hi - payload.lo, 1)
    return NONE


def _dict_setitem(vc, P, ref, obj, key, val):
    key = zint(key)
    if isinstance(val, VBytes):
        h = vc.fresh('payload_handle')
        P.heap[ref.id] = VDict(z3.Store(obj.has, key, True), z3.Store(obj.val, key, h))
        _log(vc, P, key, val.lo, val.hi - val.lo, 0)
        return
    if isinstance(val, VObj) and val.cls == 'future':
        P.heap[ref.id] = VDict(z3.Store(obj.has, key, True), z3.Store(obj.val, key, val.f['id']))
        P.env['__stored_future'] = val.f['id']
        return
    raise OutsideSubset('buffers[pc] = ' + repr(val))


def _dr_contract():
    hi1 = lambda Ax: Ax['__hi0'] + Ax['__dlen']

    def requires(Ax):
        lo0, hi0, nd0 = Ax['__lo0'], Ax['__hi0'], Ax['__nd0']
        return And(h0 >= 0, h0 <= lo0, lo0 <= hi0, Ax['__dlen'] >= 0, nd0 >= 0, FPOS(0) == h0, lo0 == FPOS(nd0),
                   delivered_ok(Ax, nd0, hi0), Not(complete(nd0, hi0)), unfold(nd0))

    def inv(Ax, E):
        b = E['data']; nd = E['__nd']; s = E['self']
        sb = E.P.deref(s.f['bytes'])
        return And(b.lo == FPOS(nd), b.hi == hi1(Ax), b.lo <= b.hi, nd >= Ax['__nd0'], delivered_ok(E, nd, hi1(Ax)), unfold(nd),
                   s.f['peer_pid'] == Ax['self'].f['peer_pid'], s.f['nbytes_sent'] == Ax['self'].f['nbytes_sent'])

    def ensures(Ax, res, E):
        s = E['self']; b = E.P.deref(s.f['bytes']); nd = E['__nd']
        return And(b.hi == hi1(Ax), b.lo == FPOS(nd), nd >= Ax['__nd0'], delivered_ok(E, nd, hi1(Ax)), Not(complete(nd, hi1(Ax))),
                   s.f['peer_pid'] == Ax['self'].f['peer_pid'], s.f['nbytes_sent'] == Ax['self'].f['nbytes_sent'])

    def compare(vc, P, op, l, r, line):
        if isinstance(op, (ast.Is, ast.IsNot)) and is_z3(l) and r is NONE:      # self.peer_pid is None: case "handshake done"
            return isinstance(op, ast.IsNot)
        return NotImplemented
    return Contract('mpyc.asyncoro.MessageExchanger.data_received', _dr_params, requires, ensures, case='after-handshake',
                    calls={'bytes.extend': _bytes_extend, 'struct.unpack_from': _unpack_from, 'dict.pop': _dict_pop, 'method:set_result': _set_result,
                           'dict.__setitem__': _dict_setitem, 'compare': compare},
                    loops={'0': LoopSpec(inv, ghost_vars=['__nd', '__dpc', '__dst', '__dsz', '__dkind'],
                                         reveal=[lambda Ax, E: unfold(E['__nd'])],
                                         reveal_post=[lambda Ax, pre, E: unfold(E['__nd'])],
                                         reveal_exit=[lambda Ax, E: unfold(E['__nd'])], reveal_break=[lambda Ax, E: unfold(E['__nd'])])})


data_received = _dr_contract()


# ---------------------------------------------------------------- data_received, first call(s) on the server side: handshake
KEYLEN = z3.Function('KEYLEN', I, I)       # contract of Runtime._prss_keys_from_peer(peer) without data: the packet length, 16 bytes per key
def LE2(arr, pos): return arr[pos] + 256 * arr[pos + 1]


def _hs_params(no_prss):
    def params(vc, P):
        hi0, dlen = z3.Ints('hi0 dlen')
        D = z3.Const('D', ARR)
        bytes_ = vc.alloc(P, VBytes(A, 0, hi0))
        buffers = vc.alloc(P, VDict(z3.Const('bhas', z3.ArraySort(I, BOOL)), z3.Const('bval', ARR)))
        rt = VObj('rt', options=VObj('options', no_prss=no_prss))
        self_ = vc.alloc(P, VObj('MessageExchanger', runtime=rt, peer_pid=NONE, bytes=bytes_, buffers=buffers, transport=VObj('transport'),
                                 nbytes_sent=z3.Int('nbytes_sent')))
        mk = lambda nm: vc.alloc(P, VList(z3.Const(nm, ARR), 0))
        return dict(self=self_, data=VBytes(D, 0, dlen), __dpc=mk('dpc0'), __dst=mk('dst0'), __dsz=mk('dsz0'), __dkind=mk('dk0'), __nd=0,
                    __hi0=hi0, __dlen=dlen, __keys_lo=z3.IntVal(-1), __keys_n=z3.IntVal(-1), __keys_peer=z3.IntVal(-1), __registered=z3.IntVal(-1))
    return params


def _hs_contract(no_prss):
    hi1 = lambda Ax: Ax['__hi0'] + Ax['__dlen']
    peer = LE2(A, 0)
    klen = 0 if no_prss else KEYLEN(peer)
    H0 = 2 + klen

    def requires(Ax):
        # handshake not finished before this call: fewer bytes than the handshake needs
        hi0 = Ax['__hi0']
        return And(hi0 >= 0, Ax['__dlen'] >= 0, Or(hi0 < 2, hi0 < H0), FPOS(0) == H0, unfold(0),
                   z3.ForAll([k_], And(0 <= A[k_], A[k_] < 256)), z3.ForAll([k_], KEYLEN(k_) >= 0))

    def inv(Ax, E):
        b = E['data']; nd = E['__nd']; s = E['self']
        return And(b.lo == FPOS(nd), b.hi == hi1(Ax), b.lo <= b.hi, nd >= 0, delivered_ok(E, nd, hi1(Ax)), unfold(nd),
                   s.f['peer_pid'] == peer, E['__registered'] == peer,
                   True if no_prss else And(E['__keys_lo'] == 2, E['__keys_peer'] == peer, E['__keys_n'] >= klen))

    def ensures(Ax, res, E):
        s = E['self']; b = E.P.deref(s.f['bytes']); nd = E['__nd']
        pp = s.f['peer_pid']
        if pp is NONE:
            # handshake still incomplete: nothing consumed, nothing delivered, nobody registered
            return And(b.lo == 0, b.hi == hi1(Ax), Or(hi1(Ax) < 2, hi1(Ax) < H0), nd == 0, E['__registered'] == -1, E['__keys_lo'] == -1)
        return And(hi1(Ax) >= H0, pp == peer, E['__registered'] == peer,
                   True if no_prss else And(E['__keys_lo'] == 2, E['__keys_peer'] == peer, E['__keys_n'] >= klen),     # keys read from A[2 : 2+len_packet]
                   b.hi == hi1(Ax), b.lo == FPOS(nd), delivered_ok(E, nd, hi1(Ax)), Not(complete(nd, hi1(Ax))))

    def from_bytes(vc, P, args, kw, e):
        w = P.deref(args[0]); order = P.deref(args[1])
        if not (isinstance(w, VBytes) and isinstance(order, VStr) and order.s == 'little'): raise OutsideSubset('int.from_bytes arguments')
        vc.oblige(f'from_bytes-reads-exactly-2-bytes@{e.lineno}', P, w.hi - w.lo == 2, line=e.lineno)
        return LE2(w.arr, w.lo)

    def keys_from_peer(vc, P, args, kw, e):
        pid = P.deref(args[0])
        if len(args) == 1:
            return KEYLEN(pid)
        w = P.deref(args[1])
        P.env['__keys_lo'] = w.lo; P.env['__keys_n'] = w.n; P.env['__keys_peer'] = pid
        return KEYLEN(pid)

    def set_protocol(vc, P, args, kw, e):
        P.env['__registered'] = P.deref(args[0])
        return NONE

    def compare(vc, P, op, l, r, line):
        if isinstance(op, (ast.Is, ast.IsNot)) and is_z3(l) and r is NONE: return isinstance(op, ast.IsNot)
        return NotImplemented
    return Contract('mpyc.asyncoro.MessageExchanger.data_received', _hs_params(no_prss), requires, ensures, case=f'handshake,no_prss={no_prss}',
                    calls={'bytes.extend': _bytes_extend, 'struct.unpack_from': _unpack_from, 'dict.pop': _dict_pop, 'method:set_result': _set_result,
                           'dict.__setitem__': _dict_setitem, 'compare': compare, 'int.from_bytes': from_bytes,
                           'rt._prss_keys_from_peer': keys_from_peer, 'rt.set_protocol': set_protocol},
                    loops={'0': LoopSpec(inv, ghost_vars=['__nd', '__dpc', '__dst', '__dsz', '__dkind'],
                                         reveal=[lambda Ax, E: unfold(E['__nd'])], reveal_post=[lambda Ax, pre, E: unfold(E['__nd'])],
                                         reveal_exit=[lambda Ax, E: unfold(E['__nd'])], reveal_break=[lambda Ax, E: unfold(E['__nd'])])})


data_received_hs_prss = _hs_contract(False)
data_received_hs_noprss = _hs_contract(True)


# ---------------------------------------------------------------- send(pc, payload)
def _send_params(vc, P):
    W = vc.alloc(P, VBytes(z3.Const('W', ARR), 0, z3.Int('whi0')))       # ghost: everything written to the transport so far
    self_ = vc.alloc(P, VObj('MessageExchanger', transport=VObj('transport'), nbytes_sent=z3.Int('nbytes_sent')))
    return dict(self=self_, pc=z3.Int('pc'), payload=VBytes(z3.Const('PL', ARR), 0, z3.Int('plen')), __W=W, __whi0=z3.Int('whi0'))


def _pack(vc, P, args, kw, e):
    fmt = P.deref(args[0])
    if not isinstance(fmt, VStr) or fmt.s != '<qI{payload_size}s': raise OutsideSubset('struct.pack format ' + repr(fmt))
    pc, size, payload = P.deref(args[1]), P.deref(args[2]), P.deref(args[3])
    # contract of struct.pack('<qI<n>s', pc, n, payload): raises struct.error outside the ranges (obligations); 12 + n bytes, decodable
    vc.oblige(f'pack-pc-fits-int64@{e.lineno}', P, And(-2 ** 63 <= pc, pc < 2 ** 63), line=e.lineno)
    vc.oblige(f'pack-size-fits-uint32@{e.lineno}', P, And(0 <= size, size < 2 ** 32), line=e.lineno)
    B = vc.fresh('packed', ARR)
    vc.assume(P, And(S64(B, 0) == pc, U32(B, 8) == size,
                     z3.ForAll([k_], Implies(And(0 <= k_, k_ < size, k_ < payload.n), B[12 + k_] == payload.arr[payload.lo + k_])),
                     z3.ForAll([k_], Implies(And(payload.n <= k_, k_ < size), B[12 + k_] == 0))))
    return VBytes(B, 0, 12 + size)


def _write(vc, P, recv, args, kw, e):
    d = P.deref(args[0]); r = P.env['__W']; W = P.heap[r.id]
    arr = vc.fresh('W', ARR)
    vc.assume(P, And(z3.ForAll([k_], Implies(And(0 <= k_, k_ < W.hi), arr[k_] == W.arr[k_])),
                     z3.ForAll([k_], Implies(And(0 <= k_, k_ < d.n), arr[W.hi + k_] == d.arr[d.lo + k_]))))
    P.heap[r.id] = VBytes(arr, 0, W.hi + d.n)
    return NONE


send = Contract('mpyc.asyncoro.MessageExchanger.send', _send_params,
                requires=lambda Ax: And(-2 ** 63 <= Ax['pc'], Ax['pc'] < 2 ** 63, 0 <= Ax['payload'].n, Ax['payload'].n < 2 ** 32, Ax['__whi0'] >= 0),
                ensures=lambda Ax, res, E: And(
                    E['__W'].hi == Ax['__whi0'] + 12 + Ax['payload'].n,                                   # exactly one frame appended
                    S64(E['__W'].arr, Ax['__whi0']) == Ax['pc'], U32(E['__W'].arr, Ax['__whi0'] + 8) == Ax['payload'].n,   # header decodes to (pc, size)
                    z3.ForAll([k_], Implies(And(0 <= k_, k_ < Ax['payload'].n), E['__W'].arr[Ax['__whi0'] + 12 + k_] == Ax['payload'].arr[k_])),
                    z3.ForAll([k_], Implies(And(0 <= k_, k_ < Ax['__whi0']), E['__W'].arr[k_] == Ax['__W'].arr[k_])),     # earlier bytes untouched
                    E['self'].f['nbytes_sent'] == Ax['self'].f['nbytes_sent'] + 12 + Ax['payload'].n),
                calls={'struct.pack': _pack, 'method:write': _write})


# ---------------------------------------------------------------- receive(pc)
def _recv_params(vc, P):
    buffers = vc.alloc(P, VDict(z3.Const('bhas', z3.ArraySort(I, BOOL)), z3.Const('bval', ARR)))
    self_ = vc.alloc(P, VObj('MessageExchanger', runtime=VObj('rt', _loop=VObj('loop')), buffers=buffers))
    return dict(self=self_, pc=z3.Int('pc'), __stored_future=z3.IntVal(-1))


def _recv_contract():
    def compare(vc, P, op, l, r, line):
        if isinstance(op, (ast.Is, ast.IsNot)) and isinstance(l, VObj) and l.cls == 'slot' and r is NONE:
            c = Not(l.f['present'])
            return c if isinstance(op, ast.Is) else Not(c)
        return NotImplemented

    def future(vc, P, args, kw, e):
        return VObj('future', id=vc.fresh('future_id'))

    def ensures(Ax, res, E):
        b0 = Ax['self'].f['buffers']; b0 = Ax.P.deref(b0); b1 = E.P.deref(E['self'].f['buffers']); pc = Ax['pc']
        others = z3.ForAll([k_], Implies(k_ != pc, And(b1.has[k_] == b0.has[k_], b1.val[k_] == b0.val[k_])))       # frame: no other label touched
        if isinstance(res, VObj) and res.cls == 'slot':
            # payload (or earlier future) was buffered: it is returned and the label is removed
            return And(b0.has[pc], res.f['handle'] == b0.val[pc], Not(b1.has[pc]), others)
        if isinstance(res, VObj) and res.cls == 'future':
            # nothing buffered: a fresh future is stored under the label and returned
            return And(Not(b0.has[pc]), b1.has[pc], b1.val[pc] == res.f['id'], others)
        return False
    return Contract('mpyc.asyncoro.MessageExchanger.receive', _recv_params, lambda Ax: True, ensures,
                    calls={'dict.pop': _dict_pop, 'dict.__setitem__': _dict_setitem, 'compare': compare, 'Future': future})


receive = _recv_contract()
CONTRACTS = [data_received, data_received_hs_prss, data_received_hs_noprss, send, receive]


def tasks(tier, prop):
    return [('vc.tasks', 'run_contract', ('contracts.asyncoro', a, None, tier)) for a in ('data_received', 'data_received_hs_prss', 'data_received_hs_noprss', 'send', 'receive')]
