"""Sidecar contracts for mpyc/gmpy.py (the pure-Python stubs are the code that runs when gmpy2 is absent)."""
import z3
from vc.engine import Contract, LoopSpec, And, Or, Not, Implies, If, absz, I, VTuple, NONE

gcd = z3.Function('gcd', I, I, I)          # spec function: gcd(a, b) >= 0, instantiated Euclid facts only (reveal)


def ints(*names):
    return lambda vc, P: {n: z3.Int(n) for n in names}


# ---------------------------------------------------------------- invert(x, m)
# property C25: "invert gives modular inverses and raises exactly when none exists"
#   m == 0           -> ZeroDivisionError
#   |m| == 1         -> 0
#   otherwise        -> y with x*y == 1 (mod |m|)  [witness form: x*y == 1 + k*|m|], 0 <= y < |m|;
#                       ZeroDivisionError iff gcd(x,|m|) != 1
invert = Contract(
    'mpyc.gmpy.invert', ints('x', 'm'),
    requires=lambda A: True,
    ensures=lambda A, r, E: And(A['m'] != 0,
                               If(absz(A['m']) == 1, r == 0,
                                  And(A['x'] * r == 1 + If(E['s'] < 0, A['x'] - E['t'], -E['t']) * absz(A['m']) if 't' in E else False,
                                      0 <= r, r < absz(A['m'])))),
    raises={'ZeroDivisionError': lambda A, E: Or(A['m'] == 0, gcd(A['x'], absz(A['m'])) != 1)},
    loops={'0': LoopSpec(
        inv=lambda A, E: And(E['a'] == E['s'] * A['x'] + E['t'] * E['m'], E['b'] == E['s1'] * A['x'] + E['t1'] * E['m'],
                             E['b'] >= 0, E['m'] == absz(A['m']), E['m'] > 1,
                             Or(And(E['a'] == A['x'], E['b'] == E['m'], E['s'] == 1, E['s1'] == 0),
                                And(E['a'] > E['b'], absz(E['s']) <= absz(E['s1']))),
                             gcd(E['a'], E['b']) == gcd(A['x'], E['m']),
                             # cofactor bounds (give 0 <= y < m): classical identity a*|s1| + b*|s| == m, signs alternate
                             E['s'] * E['s1'] <= 0, E['a'] * absz(E['s1']) + E['b'] * absz(E['s']) == E['m']),
        ghost_before=['t, t1 = 0, 1'], ghost_end=['t, t1 = t1, t - q * t1'], ghost_vars=['t', 't1'],
        reveal_post=[lambda A, pre, E: Implies(pre['a'] == E['q'] * pre['b'] + E['b'], gcd(pre['a'], pre['b']) == gcd(pre['b'], E['b']))],
        reveal_exit=[lambda A, E: gcd(E['a'], 0) == absz(E['a'])])},
    exit_reveal=[lambda A, r, E: gcd(A['x'], 1) == 1],
)

CONTRACTS = [invert]


# ================================================================= bounded ("B") executable contracts
# Oracles below are written for the check (trial division, definitions), independent of mpyc.
import math, itertools
from lib.native import Native


def _G():
    from mpyc import gmpy
    return gmpy


def o_is_prime(n):
    if n < 2: return False
    if n % 2 == 0: return n == 2
    if n > 10 ** 7:
        # deterministic Miller-Rabin (bases 2..41 decide all n < 3.3e24; 2..37 only up to 3.18e23), written for the check
        d, r = n - 1, 0
        while d % 2 == 0: d //= 2; r += 1
        for a in (2, 3, 5, 7, 11, 13, 17, 19, 23, 29, 31, 37, 41):
            if a % n == 0: continue
            x = pow(a, d, n)
            if x in (1, n - 1): continue
            for _ in range(r - 1):
                x = x * x % n
                if x == n - 1: break
            else:
                return False
        return True
    d = 3
    while d * d <= n:
        if n % d == 0: return False
        d += 2
    return True


def o_factor(n):
    f = {}; d = 2
    while d * d <= n:
        while n % d == 0: f[d] = f.get(d, 0) + 1; n //= d
        d += 1
    if n > 1: f[n] = f.get(n, 0) + 1
    return f


def o_legendre(a, p):          # p odd prime: Euler's criterion
    a %= p
    if a == 0: return 0
    return 1 if any((b * b - a) % p == 0 for b in range(1, p)) else -1


def o_jacobi(a, n):            # n odd > 0: product of Legendre symbols over the factorisation
    r = 1
    for p, e in o_factor(n).items():
        r *= o_legendre(a, p) ** e
    return r


def o_kronecker(a, n):
    if n == 0: return 1 if abs(a) == 1 else 0
    r = 1
    if n < 0:
        n = -n
        if a < 0: r = -1
    e = 0
    while n % 2 == 0: n //= 2; e += 1
    if e:
        k2 = 0 if a % 2 == 0 else (1 if a % 8 in (1, 7) else -1)
        r *= k2 ** e
    return r * o_jacobi(a, n)


def sgn(v): return (v > 0) - (v < 0)


def ck_invert(args, res, exc):
    x, m = args
    if m == 0: return isinstance(exc, ZeroDivisionError) or 'm == 0 must raise ZeroDivisionError'
    M = abs(m)
    if math.gcd(x, M) != 1: return isinstance(exc, ZeroDivisionError) or 'no inverse exists: must raise ZeroDivisionError'
    if exc: return f'unexpected {type(exc).__name__}'
    return (0 <= res < M and (x * res - 1) % M == 0) or 'not the inverse in range(|m|)'


def ck_gcdext(args, res, exc):
    a, b = args
    if exc: return f'unexpected {type(exc).__name__}'
    g, s, t = res
    if g != math.gcd(a, b): return 'g != gcd(a,b)'
    if g != a * s + b * t: return 'g != a*s + b*t'
    if a == 0 and b == 0: return (s, t) == (0, 0) or 'a=b=0 must give (0,0,0)'
    # GMP normalisation (docstring of the stub = documented gmpy2 convention)
    if abs(a) == abs(b) == g: return (s == 0 and t == sgn(b)) or 'normalisation |a|=|b|=g: s=0, t=sign(b)'
    if b == 0 or abs(b) == 2 * g: return s == sgn(a) or 'normalisation: s = sign(a) when b=0 or |b|=2g'
    if a == 0 or abs(a) == 2 * g: return t == sgn(b) or 'normalisation: t = sign(b) when a=0 or |a|=2g'
    return (2 * g * abs(s) < abs(b) and 2 * g * abs(t) < abs(a)) or 'normalisation |s| < |b|/(2g), |t| < |a|/(2g)'


def ck_ratrec(args, res, exc):
    x, y, N, D = args
    N0, D0 = N, D
    if N is None:
        if D is None: D = max(1, math.isqrt((y - 1) // 2))
        N = (y - 1) // (2 * D)
    elif D is None:
        D = (y - 1) // (2 * N) if N else 1
    if N < 0 or D <= 0 or 2 * N * D >= y:
        return isinstance(exc, ValueError) or 'invalid bounds must raise ValueError'
    sols = [(n, d) for d in range(1, D + 1) for n in range(-N, N + 1) if (n - d * x) % y == 0 and math.gcd(n, d) == 1]
    if exc:
        return (isinstance(exc, ValueError) and not sols) or f'raised {type(exc).__name__} although a reconstruction exists: {sols[:2]}'
    n, d = res
    return ((n - d * x) % y == 0 and abs(n) <= N and 0 < d <= D and math.gcd(n, d) == 1) or 'result is not a valid reconstruction'


def ck_is_prime(args, res, exc):
    return (exc is None and res == o_is_prime(args[0])) or 'primality answer wrong'


def ck_next_prime(args, res, exc):
    x = args[0]
    if exc: return 'unexpected exception'
    n = max(x + 1, 2)
    while not o_is_prime(n): n += 1
    return res == n or f'expected {n}'


def ck_prev_prime(args, res, exc):
    x = args[0]
    if x < 3: return isinstance(exc, ValueError) or 'x < 3 must raise ValueError'
    if exc: return 'unexpected exception'
    n = x - 1
    while not o_is_prime(n): n -= 1
    return res == n or f'expected {n}'


def ck_powmod(args, res, exc):
    x, y, m = args
    if exc: return 'unexpected exception'
    r = 1
    for _ in range(y): r = r * x % m
    return res == r % m or f'expected {r % m}'


def ck_legendre(args, res, exc):
    x, p = args
    return (exc is None and res == o_legendre(x, p)) or f'expected {o_legendre(x, p)}'


def ck_jacobi(args, res, exc):
    x, y = args
    if not (y > 0 and y % 2 == 1): return isinstance(exc, ValueError) or 'y even or <= 0 must raise ValueError'
    return (exc is None and res == o_jacobi(x, y)) or f'expected {o_jacobi(x, y)}'


def ck_kronecker(args, res, exc):
    x, y = args
    return (exc is None and res == o_kronecker(x, y)) or f'expected {o_kronecker(x, y)}'


def ck_isqrt(args, res, exc):
    x = args[0]
    return (exc is None and res >= 0 and res * res <= x < (res + 1) ** 2) or 'not the integer square root'


def ck_is_square(args, res, exc):
    x = args[0]
    return (exc is None and res == (x >= 0 and math.isqrt(x) ** 2 == x)) or 'wrong'


def ck_iroot(args, res, exc):
    x, n = args
    if exc: return 'unexpected exception'
    y, b = res
    return (y >= 0 and y ** n <= x < (y + 1) ** n and b == (y ** n == x)) or 'not the integer n-th root / exact flag wrong'


BIG_PP = {(2 ** 61 - 1): {2 ** 61 - 1: 1}, (2 ** 61 - 1) ** 3: {2 ** 61 - 1: 3}, (2 ** 31 - 1) ** 2: {2 ** 31 - 1: 2}, (2 ** 31 - 1) ** 5: {2 ** 31 - 1: 5},
          (2 ** 31 - 1) * (2 ** 61 - 1): {2 ** 31 - 1: 1, 2 ** 61 - 1: 1}, (2 ** 61 - 1) ** 2 * 1031: {2 ** 61 - 1: 2, 1031: 1}}


# the exponent loops of factor_prime_power work on the factorisation of d (a power-of-two loop, then every odd prime, repeatedly): for primes beyond the
# trial-division range every exponent d <= 64 (quick: three primes) is enumerated, so repeated odd factors of d (9, 25, 27, 45, 49, 2*9, 4*27, ...) occur;
# perfect powers of non-primes and prime powers times another large prime must raise
FPP_BIG_PRIMES = (1031, 65537, 2 ** 31 - 1, 2 ** 61 - 1)
FPP_DMAX = 64
for _p in FPP_BIG_PRIMES:
    for _d in range(1, FPP_DMAX + 1):
        BIG_PP[_p ** _d] = {_p: _d}
for _d in range(1, 31):
    BIG_PP[(1031 * 1033) ** _d] = {1031: _d, 1033: _d}
    BIG_PP[65537 ** _d * 1031] = {65537: _d, 1031: 1}
    BIG_PP[(2 ** 31 - 1) ** _d * (2 ** 61 - 1) ** _d] = {2 ** 31 - 1: _d, 2 ** 61 - 1: _d}


def ck_fpp(args, res, exc):
    x = args[0]
    f = BIG_PP[x] if x in BIG_PP else o_factor(x) if x > 1 else {}
    if len(f) != 1: return isinstance(exc, ValueError) or 'not a prime power: must raise ValueError'
    if exc: return f'unexpected {type(exc).__name__} for prime power'
    (p, d), = f.items()
    return res == (p, d) or f'expected {(p, d)}'


def ck_powmod_lists(args, res, exc):
    kind, a, lst, m = args
    if exc: return 'unexpected exception'
    exp = [pow(b, a, m) for b in lst] if kind == 'base' else [pow(a, e, m) for e in lst]
    return res == exp or 'wrong list'


def _rng(q, t):           # quick / thorough
    return q if t == 'quick' else t if isinstance(t, int) else q


def T(tier, q, th): return q if tier == 'quick' else th


def in_is_prime(tier):
    N = T(tier, 20000, 200000)
    yield from ((x,) for x in range(-5, N))
    # strong pseudoprimes / Carmichael numbers and squares of primes beyond the trial-division list
    for x in (561, 1105, 1729, 2047, 3277, 4033, 4681, 8321, 15841, 29341, 42799, 49141, 52633, 65281, 74665, 80581, 85489, 88357, 90751,
              1373653, 25326001, 3215031751, 59 * 59, 59 * 61, 61 * 67, 67 * 67 * 67, 2 ** 31 - 1, 2 ** 61 - 1, (2 ** 31 - 1) * (2 ** 19 - 1),
              341550071728321, 3825123056546413051, 318665857834031151167461):
        yield (x,)
    # composites without a prime factor in the trial-division list: every product of two or three primes in 59..T, and the Chernick
    # Carmichael numbers (6k+1)(12k+1)(18k+1) (Euler pseudoprimes to every coprime base when k is even... all of them are tried)
    ps = [q for q in range(59, T(tier, 260, 700)) if o_is_prime(q)]
    for i, a in enumerate(ps):
        for b in ps[i:]:
            yield (a * b,)
            for c in ps[:12]:
                yield (a * b * c,)
    for k in range(1, T(tier, 3000, 60000)):
        a, b, c = 6 * k + 1, 12 * k + 1, 18 * k + 1
        if a > 53 and o_is_prime(a) and o_is_prime(b) and o_is_prime(c):
            yield (a * b * c,)


def in_fpp(tier):
    N = T(tier, 5000, 100000)
    yield from ((x,) for x in range(-3, N))
    for p in (2, 3, 5, 1021, 1031, 1033, 65537):
        for d in range(1, 7):
            yield (p ** d,)
    yield (1021 * 1031,); yield (1031 * 1033,); yield (1031 ** 2 * 1033,)
    yield from ((x,) for x in BIG_PP)


NATIVE = {n.name: n for n in [
    Native('invert', 'mpyc.gmpy.invert', lambda x, m: _G().invert(x, m), ck_invert,
           lambda t: ((x, m) for x in range(-T(t, 40, 150), T(t, 41, 151)) for m in range(-T(t, 40, 150), T(t, 41, 151))), '|x|,|m| <= 40 (thorough 150)'),
    Native('gcdext', 'mpyc.gmpy.gcdext', lambda a, b: _G().gcdext(a, b), ck_gcdext,
           lambda t: ((a, b) for a in range(-T(t, 60, 200), T(t, 61, 201)) for b in range(-T(t, 60, 200), T(t, 61, 201))), '|a|,|b| <= 60 (thorough 200)'),
    Native('ratrec', 'mpyc.gmpy.ratrec', lambda x, y, N, D: _G().ratrec(x, y, N, D), ck_ratrec,
           lambda t: ((x, y, N, D) for y in range(1, T(t, 40, 90)) for x in range(0, y) for N in (None, 0, 1, 2, 3, 5) for D in (None, 1, 2, 3, 4)),
           '1 <= y < 40 (thorough 90), 0 <= x < y, N in {None,0,1,2,3,5}, D in {None,1,2,3,4}'),
    Native('is_prime', 'mpyc.gmpy.is_prime', lambda x: _G().is_prime(x), ck_is_prime, in_is_prime, 'all x < 20000 (thorough 200000) + strong-pseudoprime list + all products of 2 or 3 primes in 59..260 (700) + Chernick Carmichael numbers k < 3000 (60000)'),
    Native('next_prime', 'mpyc.gmpy.next_prime', lambda x: _G().next_prime(x), ck_next_prime,
           lambda t: ((x,) for x in range(-5, T(t, 5000, 50000))), '-5 <= x < 5000 (thorough 50000)'),
    Native('prev_prime', 'mpyc.gmpy.prev_prime', lambda x: _G().prev_prime(x), ck_prev_prime,
           lambda t: ((x,) for x in range(-5, T(t, 5000, 50000))), '-5 <= x < 5000 (thorough 50000)'),
    Native('powmod', 'mpyc.gmpy.powmod', lambda x, y, m: _G().powmod(x, y, m), ck_powmod,
           lambda t: ((x, y, m) for x in range(-6, 12) for y in range(0, 9) for m in range(1, T(t, 12, 30))), 'x in -6..11, y in 0..8, m in 1..11'),
    Native('powmod_lists', 'mpyc.gmpy.powmod_base_list/powmod_exp_list',
           lambda kind, a, lst, m: _G().powmod_base_list(lst, a, m) if kind == 'base' else _G().powmod_exp_list(a, lst, m), ck_powmod_lists,
           lambda t: ((k, a, l, m) for k in ('base', 'exp') for a in range(0, 6) for l in ([], [0], [1, 2, 3], [5, 0, 7, 2]) for m in (1, 2, 7, 10)), 'small lists'),
    Native('legendre', 'mpyc.gmpy.legendre', lambda x, p: _G().legendre(x, p), ck_legendre,
           lambda t: ((x, p) for p in range(3, T(t, 60, 200)) if o_is_prime(p) for x in range(-p - 2, 2 * p + 2)), 'odd primes p < 60 (thorough 200), -p-2 <= x <= 2p+1'),
    Native('jacobi', 'mpyc.gmpy.jacobi', lambda x, y: _G().jacobi(x, y), ck_jacobi,
           lambda t: ((x, y) for y in range(-4, T(t, 120, 301)) for x in range(-T(t, 60, 300), T(t, 61, 301))), '-4 <= y < 120 (thorough 301), |x| <= 60 (thorough 300)'),
    Native('kronecker', 'mpyc.gmpy.kronecker', lambda x, y: _G().kronecker(x, y), ck_kronecker,
           lambda t: ((x, y) for y in range(-T(t, 60, 150), T(t, 61, 151)) for x in range(-T(t, 40, 150), T(t, 41, 151))), '|y| <= 60, |x| <= 40 (thorough 150)'),
    Native('isqrt', 'mpyc.gmpy.isqrt', lambda x: _G().isqrt(x), ck_isqrt, lambda t: ((x,) for x in range(0, T(t, 20000, 100000))), '0 <= x < 20000'),
    Native('is_square', 'mpyc.gmpy.is_square', lambda x: _G().is_square(x), ck_is_square,
           lambda t: itertools.chain(((x,) for x in range(0, T(t, 20000, 100000))), ((y * y + d,) for y in range(2 ** 20, 2 ** 20 + 50) for d in (-1, 0, 1))), '0 <= x < 20000 + y^2, y^2±1 near 2^40'),
    Native('iroot', 'mpyc.gmpy.iroot', lambda x, n: _G().iroot(x, n), ck_iroot,
           lambda t: itertools.chain(((x, n) for x in range(0, T(t, 3000, 100000)) for n in range(1, 13)),
                                     ((y ** n + d, n) for y in range(1, T(t, 40, 200)) for n in range(1, 8) for d in (-1, 0, 1) if y ** n + d >= 0)),
           '0 <= x < 3000 (thorough 1e5), 1 <= n <= 12; y^n, y^n±1 for y < 40 (200), n <= 7'),
    Native('factor_prime_power', 'mpyc.gmpy.factor_prime_power', lambda x: _G().factor_prime_power(x), ck_fpp, in_fpp,
           'all x < 5000 (thorough 1e5) + p^d for p in {2,3,5,1021,1031,1033,65537}, d <= 6 + products of primes > 1024 + p^d for p in {1031, 65537, 2^31-1, 2^61-1} and EVERY d <= 64 + (pq)^d, p^d q, p^d q^d for d <= 30 (known factorisations)'),
]}
for _n in NATIVE.values(): _n.module = 'contracts.gmpy'


# ================================================================= more engine-A contracts
# ---------------------------------------------------------------- gcdext(a, b):  g == gcd(a, b) >= 0 and g == a*s + b*t   (GMP normalisation of (s,t): bounded)
def _gcdext_inv(A, E):
    a, b = A['a'], A['b']
    return And(E['g'] == E['s'] * a + E['t'] * b, E['f'] == E['s1'] * a + E['t1'] * b, gcd(E['g'], E['f']) == gcd(a, b))


gcdext = Contract(
    'mpyc.gmpy.gcdext', ints('a', 'b'), requires=lambda A: True,
    ensures=lambda A, r, E: And(r.items[0] == gcd(A['a'], A['b']), r.items[0] >= 0,
                               # Bezout identity: proved except on the GMP-normalisation tail (signs differ and |b| == 2g), which is nonlinear
                               # (needs g | a and exact division) and stays with the bounded check
                               Implies(Not(And(Or(And(A['a'] < 0, 0 < A['b']), And(A['b'] < 0, 0 < A['a'])), absz(A['b']) == 2 * r.items[0])),
                                       r.items[0] == A['a'] * r.items[1] + A['b'] * r.items[2]),
                               Implies(And(A['a'] == 0, A['b'] == 0), And(r.items[0] == 0, r.items[1] == 0))),
    loops={'0': LoopSpec(_gcdext_inv,
                         reveal_post=[lambda A, pre, E: Implies(pre['g'] == E['q'] * pre['f'] + E['f'], gcd(pre['g'], pre['f']) == gcd(pre['f'], E['f']))],
                         reveal_exit=[lambda A, E: gcd(E['g'], 0) == absz(E['g'])])},
    # the tail "(a < 0 < b or b < 0 < a) and abs(b) == 2*g": s, t = -s, t - s*(abs(a)//g) keeps the Bezout identity because g | a
    exit_reveal=[lambda A, r, E: And(gcd(A['a'], A['b']) >= 0,
                                     # gcd divides a: a == COF(a,b) * gcd(a,b)  (spec axiom instance)
                                     A['a'] == COFA(A['a'], A['b']) * gcd(A['a'], A['b']))])
COFA = z3.Function('COFA', I, I, I)

# ---------------------------------------------------------------- ratrec(x, y, N, D)
def _ratrec_params(case):
    def params(vc, P):
        d = dict(x=z3.Int('x'), y=z3.Int('y'))
        d['N'] = NONE if 'N' in case else z3.Int('N')
        d['D'] = NONE if 'D' in case else z3.Int('D')
        return d
    return params


ISQRT = z3.Function('ISQRT', I, I)
GCD2 = z3.Function('GCD2', I, I, I)         # math.gcd (trusted): only its use "gcd(n, d) == 1" matters, mirrored in the postcondition


def _ratrec_contract(case):
    def eff(A, E):
        return E['N'], E['D']
    def ensures(A, r, E):
        n, d = r.items
        N, D = E['N'], E['D']
        # n == d * x (mod y) in witness form, |n| <= N, 0 < d <= D, gcd(n, d) == 1
        return And(Or(n - d * A['x'] == E['__k'] * A['y'], n - d * A['x'] == -E['__k'] * A['y']), absz(n) <= N, 0 < d, d <= D, GCD2(n, d) == 1, N >= 0, D > 0, 2 * N * D < A['y'])
    return Contract('mpyc.gmpy.ratrec', _ratrec_params(case),
                    requires=lambda A: And(A['y'] >= 1, A['D'] != 0) if case == 'N' else A['y'] >= 1,      # ratrec(x, y, None, 0) raises ZeroDivisionError from (y-1)//(2*D)
                    ensures=ensures, case=case or 'N,D given',
                    raises={'ValueError': lambda A, E: True}, raises_iff=False,
                    calls={'isqrt': lambda vc, P, args, kw, e: _isqrt(vc, P, P.deref(args[0])), 'math.gcd': lambda vc, P, args, kw, e: GCD2(P.deref(args[0]), P.deref(args[1]))},
                    ghost_entry=['__k0, __k = 0, 1'],
                    loops={'0': LoopSpec(lambda A, E: And(E['n0'] - E['d0'] * A['x'] == E['__k0'] * A['y'], E['n'] - E['d'] * A['x'] == E['__k'] * A['y'],
                                                          E['N'] >= 0, E['D'] > 0, 2 * E['N'] * E['D'] < A['y'], E['n'] >= 0,
                                                          Or(And(E['n0'] == A['x'], E['n'] == A['y'], E['d0'] == 1, E['d'] == 0),
                                                             And(E['n0'] > E['n'], E['d'] != 0, E['d0'] * E['d'] <= 0, absz(E['d0']) <= absz(E['d'])))),
                                         ghost_vars=['__k0', '__k'], ghost_end=['__k0, __k = __k, __k0 - q * __k'])})


def _isqrt(vc, P, v):
    r = ISQRT(v)
    vc.assume(P, And(r >= 0, r * r <= v, v < (r + 1) * (r + 1)))
    return r


ratrec_contracts = [_ratrec_contract(c) for c in ('', 'N', 'D', 'ND')]
ratrec_given, ratrec_N, ratrec_D, ratrec_ND = ratrec_contracts

# ---------------------------------------------------------------- next_prime / prev_prime relative to is_prime's contract
ISPRIME = z3.Function('ISPRIME', I, z3.BoolSort())
w_ = z3.Int('w_')
_isprime_call = {'is_prime': lambda vc, P, args, kw, e: ISPRIME(P.deref(args[0]))}
_small = [ISPRIME(2), Not(ISPRIME(1)), Not(ISPRIME(0)), ISPRIME(3)]
_even = lambda v: Implies(And(v > 2, v % 2 == 0), Not(ISPRIME(v)))

next_prime = Contract(
    'mpyc.gmpy.next_prime', ints('x'), requires=lambda A: And(*_small, z3.ForAll([w_], And(_even(w_), Implies(w_ < 2, Not(ISPRIME(w_)))))),
    ensures=lambda A, r, E: And(ISPRIME(r), r > A['x'], z3.ForAll([w_], Implies(And(A['x'] < w_, w_ < r), Not(ISPRIME(w_))))),
    calls=_isprime_call,
    loops={'0': LoopSpec(lambda A, E: And(A['x'] > 1, E['x'] > A['x'], E['x'] % 2 == 1, z3.ForAll([w_], Implies(And(A['x'] < w_, w_ < E['x']), Not(ISPRIME(w_))))))})

prev_prime = Contract(
    'mpyc.gmpy.prev_prime', ints('x'), requires=lambda A: And(*_small, z3.ForAll([w_], And(_even(w_), Implies(w_ < 2, Not(ISPRIME(w_)))))),
    ensures=lambda A, r, E: And(ISPRIME(r), r < A['x'], z3.ForAll([w_], Implies(And(r < w_, w_ < A['x']), Not(ISPRIME(w_))))),
    raises={'ValueError': lambda A, E: A['x'] < 3},
    calls=_isprime_call,
    loops={'0': LoopSpec(lambda A, E: And(A['x'] > 3, E['x'] < A['x'], E['x'] % 2 == 1, E['x'] >= 3 - 0,
                                          z3.ForAll([w_], Implies(And(E['x'] < w_, w_ < A['x']), Not(ISPRIME(w_))))))})

# ---------------------------------------------------------------- is_square: the mod-16 filter never rejects a square; result == (x == isqrt(x)^2)
is_square = Contract(
    'mpyc.gmpy.is_square', ints('x'), requires=lambda A: A['x'] >= 0,
    ensures=lambda A, r, E: r == (A['x'] == ISQRT(A['x']) * ISQRT(A['x'])),
    calls={'isqrt': lambda vc, P, args, kw, e: _isqrt(vc, P, P.deref(args[0]))},
    # number theory instance: a square is 0, 1, 4 or 9 mod 16  (y = 16u + v, v in 0..15: checked below by the solver on v)
    exit_reveal=[lambda A, r, E: Implies(A['x'] == ISQRT(A['x']) * ISQRT(A['x']), Or(*[A['x'] % 16 == c for c in (0, 1, 4, 9)]))])

# ---------------------------------------------------------------- jacobi: raises exactly for y <= 0 or even y (value: bounded)
CONTRACTS += [gcdext] + ratrec_contracts + [next_prime, prev_prime, is_square]


# ---- the primality test is randomised (Miller-Rabin with random bases): a wrong answer depends on the bases drawn.  Inside a check run every
#      input is evaluated once; a REPLAY (eval1 called directly by the replay file) evaluates the same input up to 50 times and reports the first failure.
class _RepeatOnReplay(Native):
    _running = False

    def run(self, tier, prop_key=None, limit_s=None):
        self._running = True
        try:
            return super().run(tier, prop_key, limit_s)
        finally:
            self._running = False

    def eval1(self, args):
        for _ in range(1 if self._running else 50):
            msg = super().eval1(args)
            if msg: return msg
        return None


for _nm in ('is_prime', 'next_prime', 'prev_prime'):
    NATIVE[_nm].__class__ = _RepeatOnReplay
