"""Bounded executable contracts (NATIVE) of /repo/mpyc/thresha.py, non-NumPy functions, for C12, C13, C15, C17.

Every check calls the REAL function and compares with an oracle written here: own arithmetic of GF(p^d) on integer
encodings (base-p digits, little endian; tables for small q), own Lagrange interpolation, own restatement of the PRF
construction (hashlib.shake_128).  mpyc is never asked for an expected value, with two stated exceptions: the modulus
of an extension field is READ from `field.modulus` (which polynomial `find_irreducible` picks is not the subject here;
the oracle verifies that it defines a field), and the C15 checks take the subset PRF outputs from `thresha.PRF` (the
property is stated in terms of these outputs; PRF itself is pinned to its documented construction by the C17 checks).

Fields are named by literals: ('p', 7) = finfields.GF(7); ('x', p, d) = finfields.GF(finfields.find_irreducible(p, d)), d >= 2.

Dealer randomness: during a call `thresha.secrets` is replaced by a scripted source (`Script`: returns the values given
in the argument tuple, logs the bounds asked for) or by an enumerating source (`Tree`: explores EVERY outcome of every
`randbelow(n)` call, each leaf weighted 1/prod(n)) and restored in `finally`.

`tasks(tier, prop)` returns the pool tasks of one property for the drivers.
"""
import itertools, functools, hashlib, math
from fractions import Fraction
from lib.native import Native

MODULE = 'contracts.thresha_native'
M31 = 2 ** 31 - 1


# ------------------------------------------------------------------------------------------------ mpyc side (real code)
def mfield(lit):
    from mpyc import finfields
    if lit[0] == 'p':
        return finfields.GF(lit[1])
    assert lit[0] == 'x' and lit[2] >= 2
    return finfields.GF(finfields.find_irreducible(lit[1], lit[2]))


def _T():
    from mpyc import thresha
    return thresha


def lit_q(lit):
    return lit[1] if lit[0] == 'p' else lit[1] ** lit[2]


def lit_name(lit):
    return f'GF({lit[1]})' if lit[0] == 'p' else f'GF({lit[1]}^{lit[2]})'


def to_raw(F, k):
    """int encoding -> the raw value type of the field (int, or polynomial over GF(p) via the base-p encoding)"""
    tp = type(F.modulus)
    return k if tp is int else tp(k)


class Script:
    """scripted stand-in for the `secrets` module inside thresha"""

    def __init__(self, values):
        self.values, self.pos, self.log = list(values), 0, []

    def randbelow(self, n):
        self.log.append(n)
        if self.pos >= len(self.values):
            raise RuntimeError(f'dealer drew more than the {len(self.values)} scripted random values')
        v = self.values[self.pos]
        self.pos += 1
        return v


class Tree:
    """enumerating stand-in: depth-first over all outcomes of all randbelow(n) calls"""

    def __init__(self, cap):
        self.script, self.pos, self.cap, self.leaves = [], 0, cap, 0

    def randbelow(self, n):
        if not isinstance(n, int) or n <= 0:
            raise ValueError('randbelow: upper bound must be positive')
        k = self.pos
        self.pos += 1
        if k < len(self.script):
            return self.script[k][0]
        self.script.append((0, n))
        return 0

    def runs(self, fn):
        """yield (weight, bounds, values, result of fn()) for every leaf"""
        while True:
            self.pos = 0
            res = fn()
            del self.script[self.pos:]
            w = Fraction(1)
            for _, b in self.script:
                w /= b
            yield w, [b for _, b in self.script], [v for v, _ in self.script], res
            self.leaves += 1
            if self.leaves > self.cap:
                raise RuntimeError(f'more than {self.cap} randomness outcomes')
            while self.script and self.script[-1][0] == self.script[-1][1] - 1:
                self.script.pop()
            if not self.script:
                return
            v, b = self.script[-1]
            self.script[-1] = (v + 1, b)


class patched:
    def __init__(self, stub): self.stub = stub

    def __enter__(self):
        T = _T()
        self.T, self.old = T, T.secrets
        T.secrets = self.stub
        return self.stub

    def __exit__(self, *a):
        self.T.secrets = self.old
        return False


class Res(dict):
    """result record with a bounded repr (goes into violation messages)"""

    def __repr__(self):
        r = dict.__repr__(self)
        return r if len(r) <= 700 else r[:700] + '...'


# ------------------------------------------------------------------------------------------------ oracle side
def _is_prime(n):
    if n < 2: return False
    i = 2
    while i * i <= n:
        if n % i == 0: return False
        i += 1
    return True


class OF:
    """GF(p^d) on integer encodings, written for the checks.  d == 1: integers mod p.  d >= 2: element = sum a_k p^k,
    a_k the coefficient of X^k, arithmetic modulo the monic degree-d polynomial `mod` (coefficient list, low to high)."""

    def __init__(self, p, d, mod=None):
        assert _is_prime(p)
        self.p, self.d, self.q, self.mod = p, d, p ** d, mod
        if d > 1:
            assert len(mod) == d + 1 and mod[d] == 1 and all(0 <= c < p for c in mod)
            assert self.q <= 64
            q = self.q
            self.addt = [[self._add(a, b) for b in range(q)] for a in range(q)]
            self.mult = [[self._mul(a, b) for b in range(q)] for a in range(q)]
            self.negt = [next(b for b in range(q) if self.addt[a][b] == 0) for a in range(q)]
            self.invt = [None] + [next((b for b in range(q) if self.mult[a][b] == 1), None) for a in range(1, q)]
            assert all(v is not None for v in self.invt[1:]), 'modulus does not define a field'

    def digits(self, a):
        out = []
        while a:
            out.append(a % self.p); a //= self.p
        return out

    def undigits(self, ds):
        return sum(c * self.p ** k for k, c in enumerate(ds))

    def reduce_coeffs(self, cs):
        """coefficient list (any length, any ints) -> encoding of the residue"""
        p, d = self.p, self.d
        cs = [c % p for c in cs]
        if d == 1:
            raise TypeError
        for k in range(len(cs) - 1, d - 1, -1):
            c = cs[k]
            if c:
                for j in range(d + 1):
                    cs[k - d + j] = (cs[k - d + j] - c * self.mod[j]) % p
        return self.undigits(cs[:d])

    def _add(self, a, b):
        da, db = self.digits(a), self.digits(b)
        n = max(len(da), len(db))
        da += [0] * (n - len(da)); db += [0] * (n - len(db))
        return self.undigits([(x + y) % self.p for x, y in zip(da, db)])

    def _mul(self, a, b):
        da, db = self.digits(a), self.digits(b)
        cs = [0] * (len(da) + len(db) + 1)
        for i, x in enumerate(da):
            for j, y in enumerate(db):
                cs[i + j] += x * y
        return self.reduce_coeffs(cs + [0] * self.d)

    def from_int(self, a):
        """the field element an integer is read as by the code: a mod p (prime field), base-p digits as coefficients otherwise"""
        if self.d == 1: return a % self.p
        assert a >= 0
        return a if a < self.q else self.reduce_coeffs(self.digits(a) + [0] * self.d)

    def add(self, a, b): return (a + b) % self.p if self.d == 1 else self.addt[a][b]
    def neg(self, a): return -a % self.p if self.d == 1 else self.negt[a]
    def sub(self, a, b): return (a - b) % self.p if self.d == 1 else self.addt[a][self.negt[b]]
    def mul(self, a, b): return a * b % self.p if self.d == 1 else self.mult[a][b]

    def inv(self, a):
        if a == 0: raise ZeroDivisionError
        if self.d > 1: return self.invt[a]
        r = pow(a, self.p - 2, self.p)
        assert a * r % self.p == 1
        return r

    def pow(self, a, e):
        r = 1
        for _ in range(e): r = self.mul(r, a)
        return r

    def sum(self, it):
        r = 0
        for a in it: r = self.add(r, a)
        return r

    def lagrange_coeffs(self, xs, x):
        out = []
        for i, xi in enumerate(xs):
            nu = de = 1
            for j, xj in enumerate(xs):
                if j != i:
                    nu = self.mul(nu, self.sub(x, xj))
                    de = self.mul(de, self.sub(xi, xj))
            out.append(self.mul(nu, self.inv(de)))
        return out

    def interpolate(self, xs, ys, x):
        return self.sum(self.mul(l, y) for l, y in zip(self.lagrange_coeffs(xs, x), ys))

    def sharing_poly(self, s, c, x):
        """f(x) for f(X) = s + c[t-1] X + ... + c[0] X^t (coefficients in drawing order c[0..t-1])"""
        t = len(c)
        return self.sum([s] + [self.mul(c[k], self.pow(x, t - k)) for k in range(t)])


def poly_coeffs(v):
    """coefficient list of a gfpx polynomial, read off its representation (bit mask for p = 2, list otherwise)"""
    val = v.value
    if isinstance(val, int):
        return [(val >> k) & 1 for k in range(val.bit_length())]
    return list(val)


@functools.lru_cache(None)
def ofield(lit):
    if lit[0] == 'p':
        return OF(lit[1], 1)
    F = mfield(lit)
    return OF(lit[1], lit[2], tuple(poly_coeffs(F.modulus)))


def enc_red(F, of, v):
    """raw value (int or polynomial) -> encoding; raises ValueError when it is not a reduced raw value of the field"""
    tp = type(F.modulus)
    if type(v) is not tp:
        raise ValueError(f'value {v!r} has type {type(v).__name__}, expected {tp.__name__}')
    if tp is int:
        if not 0 <= v < of.p: raise ValueError(f'{v} not reduced modulo {of.p}')
        return v
    cs = poly_coeffs(v)
    if len(cs) > of.d or any(not (isinstance(c, int) and 0 <= c < of.p) for c in cs) or (cs and cs[-1] == 0):
        raise ValueError(f'{v!r} not a reduced polynomial')
    return of.undigits(cs)


def enc_any(F, of, v):
    """raw value, possibly not reduced -> encoding of its residue class"""
    tp = type(F.modulus)
    if tp is int:
        if type(v) is not int: raise ValueError(f'value {v!r} has type {type(v).__name__}, expected int')
        return v % of.p
    if type(v) is int:      # a sum that never met a polynomial, e.g. over zero terms
        return of.from_int(v) if v >= 0 else of.neg(of.from_int(-v))
    if type(v) is not tp: raise ValueError(f'value {v!r} has type {type(v).__name__}, expected {tp.__name__}')
    return of.reduce_coeffs(poly_coeffs(v) + [0] * of.d)


def enc_elt(F, of, v):
    if type(v) is not F: raise ValueError(f'value {v!r} has type {type(v).__name__}, expected field element of {F.__name__}')
    return enc_red(F, of, v.value)


# ------------------------------------------------------------------------------------------------ domains
def T(tier, q, th): return q if tier == 'quick' else th


P_FIELDS = [('p', 2), ('p', 3), ('p', 5), ('p', 7), ('p', 11), ('p', 13), ('p', 101), ('p', M31)]
X_QUICK = [('x', 2, 2), ('x', 2, 3), ('x', 3, 2), ('x', 2, 4)]
X_THOROUGH = X_QUICK + [('x', 3, 3)]
C12_FIELDS = P_FIELDS + X_THOROUGH          # GF(27) entries yield no quick inputs: tasks() leaves them out of the quick tier
PRSS_FIELDS = [('p', 7), ('p', 11), ('p', 101), ('p', M31), ('x', 2, 3), ('x', 3, 2), ('x', 2, 4)]
RCAP = 4096


def in_tier(lit, tier):
    return tier != 'quick' or lit not in (('x', 3, 3),)


def lattice(q):
    """all of range(q) for q <= 27, else boundary and interior points"""
    if q <= 27: return list(range(q))
    return sorted({0, 1, 2, 3, q - 1, q - 2, q // 2, q // 2 + 1, 7 % q, 100 % q, 65537 % q, 123456789 % q})


def tm_pairs(q):
    return [(t, m) for m in range(1, min(5, q - 1) + 1) for t in range(m)]


def _lcg(seed):
    x = (seed * 2654435761 + 12345) % 2 ** 32
    while True:
        x = (x * 1103515245 + 12345) % 2 ** 31
        yield x >> 8


def rand_sample(q, k, count, seed):
    """deterministic sample of count tuples from range(q)^k, corner tuples first"""
    out = [(0,) * k, (q - 1,) * k, (1,) * k]
    for j in range(k):
        out.append(tuple(1 if i == j else 0 for i in range(k)))
        out.append(tuple(q - 1 if i == j else 0 for i in range(k)))
    g = _lcg(seed)
    while len(out) < count + 3 + 2 * k:
        out.append(tuple(next(g) % q for _ in range(k)))
    seen, res = set(), []
    for r in out:
        if r not in seen:
            seen.add(r); res.append(r)
    return res[:max(count, 1)]


def all_rands(q, k):
    return itertools.product(range(q), repeat=k)


def spaced(lst, k):
    if len(lst) <= k: return list(lst)
    return [lst[(i * (len(lst) - 1)) // (k - 1)] for i in range(k)] if k > 1 else [lst[0]]


def xpoints(q, m, short=False):
    """recombination points: the whole field when small, else 0, the share coordinates, neighbours and far points"""
    if short: return sorted({0, 1, m, min(m + 1, q - 1), q - 1})
    if q <= 27: return list(range(q))
    return sorted({0, *range(1, m + 2), q - 1, q - 2, q // 2, 7 % q, 65537 % q})


def subsets_ge(m, k):
    return [A for r in range(k, m + 1) for A in itertools.combinations(range(m), r)]


# ================================================================================================ C12
def _mk_secrets(F, kind, s):
    return [F(a) for a in s] if kind == 'elt' else [to_raw(F, a) for a in s]


def call_split(lit, t, m, s, kind, rand):
    F = mfield(lit)
    s_in = _mk_secrets(F, kind, s)
    with patched(Script(rand)) as stub:
        shares = _T().random_split(F, s_in, t, m)
    return Res(shares=shares, draws=stub.log)


def _ck_shares(lit, t, m, s, rand, res):
    """shares == oracle polynomial values, shape, raw type, reducedness, randomness discipline.  Returns (msg, encoded shares)"""
    F, of = mfield(lit), ofield(lit)
    q, n = of.q, len(s)
    draws = res['draws']
    if len(draws) != t * n: return f'{len(draws)} randbelow calls, expected t*len(s) = {t * n}', None
    if any(b != q for b in draws): return f'randbelow called with {sorted(set(draws))}, expected field order {q} only', None
    shares = res['shares']
    if not (isinstance(shares, list) and len(shares) == m and all(isinstance(r, list) and len(r) == n for r in shares)):
        return f'shares is not an m x len(s) = {m} x {n} list matrix', None
    enc = [[None] * n for _ in range(m)]
    for i in range(m):
        x = of.from_int(i + 1)
        for h in range(n):
            try:
                v = enc_red(F, of, shares[i][h])
            except ValueError as e:
                return f'share[{i}][{h}]: {e}', None
            exp = of.sharing_poly(s[h], rand[h * t:(h + 1) * t], x)
            if v != exp:
                return f'share[{i}][{h}] = {v}, expected f({i + 1}) = {exp} for f = {s[h]} + sum_k c[k] X^(t-k), c = {rand[h * t:(h + 1) * t]}', None
            enc[i][h] = v
    return None, enc


def ck_split(args, res, exc):
    lit, t, m, s, kind, rand = args
    if exc: return f'unexpected {type(exc).__name__}: {exc}'
    return _ck_shares(lit, t, m, s, rand, res)[0]


def secret_lists(q, tier):
    """secret tuples of length 1..3"""
    S1 = [(a,) for a in lattice(q)]
    pts = spaced(lattice(q), 3)
    S2 = [(a, b) for a in pts for b in pts]
    S3 = [(0, 0, 0), (pts[-1], pts[0], pts[1 % len(pts)]), (1 % q, pts[-1], pts[-1])]
    return S1, S2, S3


def rands_for(q, k, tier, sample, seed):
    """all of range(q)^k when q^k <= RCAP, else a deterministic sample"""
    if q ** k <= RCAP: return list(all_rands(q, k)), True
    return rand_sample(q, k, sample, seed), False


def in_split(lit):
    def gen(tier):
        if not in_tier(lit, tier): return
        q = lit_q(lit)
        S1, S2, S3 = secret_lists(q, tier)
        cap = T(tier, 3000, 40000)
        for t, m in tm_pairs(q):
            for kind in ('raw', 'elt'):
                R, full = rands_for(q, t, tier, T(tier, 48, 400), 11 * t + m)
                if len(S1) * len(R) <= cap:
                    prod = [(s, r) for s in S1 for r in R]
                else:       # every randomness with a few secrets, every secret with a few randomness values
                    k = max(2, cap // len(R))
                    few_r = spaced(R, max(3, cap // (4 * len(S1))))
                    prod = [(s, r) for s in spaced(S1, k) for r in R] + [(s, r) for s in S1 for r in few_r]
                for s, r in prod:
                    yield (lit, t, m, s, kind, r)
                for S in (S2, S3):
                    n = len(S[0])
                    R, full = rands_for(q, t * n, tier, T(tier, 24, 200), 7 * t + m + n)
                    if len(R) * len(S) > cap // 4: R = spaced(R, max(3, cap // (4 * len(S))))
                    for s in S:
                        for r in R:
                            yield (lit, t, m, s, kind, r)
    return gen


# ---- split + recombine end to end
def call_split_recombine(lit, t, m, s, kind, rand, xl):
    F, T_ = mfield(lit), _T()
    q = lit_q(lit)
    s_in = _mk_secrets(F, kind, s)
    with patched(Script(rand)) as stub:
        shares = T_.random_split(F, s_in, t, m)
    out = Res(shares=shares, draws=stub.log)
    rows = [[F(v) for v in row] for row in shares] if kind == 'elt' else shares     # recombine is fed what its callers feed it
    xl = list(xl)
    rec = {}
    for A in subsets_ge(m, t + 1):
        pts = [(i + 1, rows[i]) for i in A]
        rec[A] = (T_.recombine(F, pts), T_.recombine(F, pts, xl))
    out['rec'] = rec
    # forms of x_rs on the rotated full point list (the order `output` builds: predecessors first, own share last)
    pts = [((1 + j) % m + 1, rows[(1 + j) % m]) for j in range(m)]
    out['forms'] = dict(empty=T_.recombine(F, pts, []), single=T_.recombine(F, pts, [xl[-1]]), scalar=T_.recombine(F, pts, xl[-1]),
                        zero_kw=T_.recombine(F, pts, x_rs=0), zero_list=T_.recombine(F, pts, [0]))
    return out


def _enc_out(F, of, kind, v):
    """recombine output entry -> encoding (field element, reduced, when the shares were field elements; raw value otherwise)"""
    return enc_elt(F, of, v) if kind == 'elt' else enc_any(F, of, v)


def _ck_row(F, of, kind, row, exp, what):
    if not (isinstance(row, list) and len(row) == len(exp)): return f'{what}: not a list of {len(exp)} entries: {row!r}'
    for h, (v, e) in enumerate(zip(row, exp)):
        try:
            g = _enc_out(F, of, kind, v)
        except ValueError as ex:
            return f'{what}[{h}]: {ex}'
        if g != e: return f'{what}[{h}] = {g}, expected {e}'
    return None


def ck_split_recombine(args, res, exc):
    lit, t, m, s, kind, rand, xl = args
    if exc: return f'unexpected {type(exc).__name__}: {exc}'
    msg, enc = _ck_shares(lit, t, m, s, rand, res)
    if msg: return msg
    F, of = mfield(lit), ofield(lit)
    n, q = len(s), of.q
    fx = {x: [of.sharing_poly(s[h], rand[h * t:(h + 1) * t], of.from_int(x)) for h in range(n)] for x in xl}
    want = subsets_ge(m, t + 1)
    if sorted(res['rec']) != sorted(want): return 'internal: subset family'
    for A in want:
        r0, rl = res['rec'][A]
        msg = _ck_row(F, of, kind, r0, list(s), f'recombine(shares of parties {A}) at 0')
        if msg: return msg + ' (the secrets)'
        if not (isinstance(rl, list) and len(rl) == len(xl)): return f'recombine(parties {A}, x_rs list of {len(xl)}): {len(rl)} rows'
        for x, row in zip(xl, rl):
            msg = _ck_row(F, of, kind, row, fx[x], f'recombine(shares of parties {A}) at x={x}')
            if msg: return msg + ' (value of the sharing polynomial)'
    fm = res['forms']
    if fm['empty'] != []: return f'recombine(..., []) = {fm["empty"]!r}, expected []'
    x = xl[-1]
    if not (isinstance(fm['single'], list) and len(fm['single']) == 1): return 'recombine(..., [x]) is not a 1-row list'
    for what, row, exp in (('recombine(rotated points, [x])[0]', fm['single'][0], fx[x]), ('recombine(rotated points, x)', fm['scalar'], fx[x]),
                           ('recombine(rotated points, x_rs=0)', fm['zero_kw'], list(s)), ('recombine(rotated points, [0])[0]', fm['zero_list'][0], list(s))):
        msg = _ck_row(F, of, kind, row, exp, what)
        if msg: return msg
    return None


def in_split_recombine(lit, kind):
    def gen(tier):
        if not in_tier(lit, tier): return
        q = lit_q(lit)
        S1, S2, S3 = secret_lists(q, tier)
        cap = T(tier, 300, 5000)
        for t, m in tm_pairs(q):
            R, full = rands_for(q, t, tier, T(tier, 32, 300), 13 * t + m)
            xl = tuple(xpoints(q, m))
            # quick tier: the runs over > 200 coefficient tuples recombine at 0 and at 5 points only (thorough: always the full list)
            xl_all_r = tuple(xpoints(q, m, short=tier == 'quick' and len(R) > 200))
            if len(S1) * len(R) <= cap:
                prod = [(s, r, xl) for s in S1 for r in R]
            else:
                k = max(1, cap // len(R))
                few_r = spaced(R, max(2, cap // (4 * len(S1))))
                prod = [(s, r, xl_all_r) for s in spaced(S1, k) for r in R] + [(s, r, xl) for s in S1 for r in few_r]
            for s, r, x in prod:
                yield (lit, t, m, s, kind, r, x)
            for S in (S2, S3):
                n = len(S[0])
                R, full = rands_for(q, t * n, tier, T(tier, 12, 100), 5 * t + m + n)
                R = spaced(R, max(2, min(len(R), cap // (8 * len(S)))))
                for s in S:
                    for r in R:
                        yield (lit, t, m, s, kind, r, xl)
    return gen


# ---- _recombination_vector
def call_recvec(lit, xs, x_r):
    T_ = _T()
    T_._recombination_vector.cache_clear()
    return T_._recombination_vector(mfield(lit), xs, x_r)


def ck_recvec(args, res, exc):
    lit, xs, x_r = args
    if exc: return f'unexpected {type(exc).__name__}: {exc}'
    F, of = mfield(lit), ofield(lit)
    exp = of.lagrange_coeffs([of.from_int(x) for x in xs], of.from_int(x_r))
    if not (isinstance(res, list) and len(res) == len(xs)): return f'not a list of len(xs) = {len(xs)} entries'
    try:
        got = [enc_red(F, of, v) for v in res]
    except ValueError as e:
        return str(e)
    return got == exp or f'vector {got}, expected Lagrange coefficients {exp}'


def in_recvec(lit):
    def gen(tier):
        if not in_tier(lit, tier): return
        q = lit_q(lit)
        mm = min(T(tier, 5, 7), q - 1)
        fam = [A for r in range(1, mm + 1) for A in itertools.combinations(range(1, mm + 1), r)]
        # orders the callers produce: `output` rotates ((pid - t + j) % m + 1, own last), `_reshare` starts at uci
        extra = [(3, 1, 2), (2, 3, 1), (5, 1, 2), (4, 5, 1, 2, 3), (3, 4, 5, 1), (2, 5, 7), (7, 2), (1, 4, 6), (6, 5, 4, 3, 2, 1), (q - 1, 1), (q - 1, q - 2, 1)]
        fam += [A for A in extra if all(1 <= x < q for x in A) and len(set(A)) == len(A) and A not in fam]
        xs_r = list(range(q)) if q <= 27 else sorted({0, *range(1, 9), q - 1, q - 2, q // 2, 65537 % q})
        for A in fam:
            for x in xs_r:
                yield (lit, A, x)
    return gen


# ================================================================================================ C13
class Counts:
    def __init__(self, runs, bad): self.runs, self.bad = runs, bad
    def __repr__(self): return f'<{len(self.runs)} randomness outcomes>'


def call_split_uniform(lit, t, m, s, kind):
    F = mfield(lit)
    s_in = _mk_secrets(F, kind, s)
    T_ = _T()
    tree = Tree(3 * RCAP)
    runs = []
    with patched(tree):
        for w, bounds, values, shares in tree.runs(lambda: T_.random_split(F, s_in, t, m)):
            runs.append((w, bounds, values, shares))
    return Counts(runs, None)


def ck_split_uniform(args, res, exc):
    lit, t, m, s, kind = args
    if exc: return f'unexpected {type(exc).__name__}: {exc}'
    F, of = mfield(lit), ofield(lit)
    q, n = of.q, len(s)
    if sum(w for w, *_ in res.runs) != 1: return 'internal: leaf weights do not sum to 1'
    enc = []
    W = 1
    for w, *_ in res.runs:
        W = W * w.denominator // math.gcd(W, w.denominator)
    for w, bounds, values, shares in res.runs:
        if len(bounds) != t * n or any(b != q for b in bounds):
            return f'randomness discipline: randbelow bounds {bounds} in a run, expected exactly t*len(s) = {t * n} calls with field order {q}'
        try:
            enc.append((int(w * W), [[enc_red(F, of, v) for v in row] for row in shares]))
        except ValueError as e:
            return f'share not in field: {e} (coefficients {values})'
    for k in range(1, t + 1):
        for A in itertools.combinations(range(m), k):
            dist = {}
            for w, sh in enc:
                view = tuple(sh[i][h] for i in A for h in range(n))
                dist[view] = dist.get(view, 0) + w
            size = q ** (k * n)
            if len(dist) != size or any(pr * size != W for pr in dist.values()):
                worst = max(dist.items(), key=lambda kv: kv[1])
                return (f'view of coalition {A} for secret(s) {s} is not uniform: {len(dist)} of {size} value tuples occur, '
                        f'e.g. {worst[0]} with probability {Fraction(worst[1], W)} instead of 1/{size}')
    return None


def in_split_uniform(lit):
    def gen(tier):
        if not in_tier(lit, tier): return
        q = lit_q(lit)
        for t, m in tm_pairs(q):
            if t < 1: continue
            for n in (1, 2, 3):
                if q ** (t * n) > RCAP: continue
                if n == 1:
                    S = [(a,) for a in range(q)] if q <= 27 else [(a,) for a in lattice(q)]
                else:
                    pts = spaced(list(range(q)), 3)
                    S = list(itertools.product(pts, repeat=n))
                if tier == 'quick':         # leaves budget per (t, m, n); thorough: every secret
                    S = spaced(S, max(3 if n == 1 else 2, 6000 // q ** (t * n)))
                for k, s in enumerate(S):
                    for kind in (('raw', 'elt') if tier != 'quick' else ('raw', 'elt')[k % 2:k % 2 + 1]):
                        yield (lit, t, m, s, kind)
    return gen


# randomness discipline on its own (all fields, incl. those too large to enumerate): distinct stream values, so that any
# reuse or reordering of coefficients between secrets shows in the shares
def in_split_draws(tier):
    for lit in C12_FIELDS:
        if not in_tier(lit, tier): continue
        q = lit_q(lit)
        for t, m in tm_pairs(q):
            for n in (1, 2, 3):
                for kind in ('raw', 'elt'):
                    for seed in range(T(tier, 3, 12)):
                        g = _lcg(1000 * t + 100 * m + 10 * n + seed)
                        s = tuple(next(g) % q for _ in range(n))
                        off = next(g) % q
                        if q >= t * n:          # pairwise distinct stream values
                            rand = tuple((off + j * (1 + seed % 2 if q > 2 * t * n else 1)) % q for j in range(t * n))
                        else:
                            rand = tuple(next(g) % q for _ in range(t * n))
                        yield (lit, t, m, s, kind, rand)


# ================================================================================================ C15
def prss_key(m, t, S, mode):
    if mode == 'equal': return b'\x5a' * 16
    if mode == 'empty': return b''
    return hashlib.blake2b(repr((m, t, S)).encode(), digest_size=16).digest()


def prss_subsets(m, t):
    return list(itertools.combinations(range(m), m - t))      # the runtime's key type: tuples from itertools.combinations


def mk_prfs(m, t, i, mode, bound):
    """the prfs dict of party i, as Runtime.prfs builds it from _prss_keys: own subsets (smallest member == i) first,
    then the peers' in pid order ('rev': reversed insertion order)"""
    T_ = _T()
    subs = [S for S in prss_subsets(m, t) if i in S]
    order = [S for S in subs if S[0] == i] + [S for S in subs if S[0] != i]
    kmode = mode
    if mode == 'rev':
        order, kmode = order[::-1], 'distinct'
    return {S: T_.PRF(prss_key(m, t, S, kmode), bound) for S in order}


def _clear():
    T_ = _T()
    T_._f_S_i.cache_clear(); T_._recombination_vector.cache_clear()


def call_prss(fn):
    def call(lit, m, t, mode, bound, uci, n):
        F = mfield(lit)
        b = F.order if bound == 0 else bound
        _clear()
        return [getattr(_T(), fn)(F, m, i, mk_prfs(m, t, i, mode, b), uci, n) for i in range(m)]
    return call


def _enc_party_shares(lit, m, n, res):
    F, of = mfield(lit), ofield(lit)
    if not (isinstance(res, list) and len(res) == m): return 'internal', None
    out = []
    for i, row in enumerate(res):
        if not (isinstance(row, list) and len(row) == n): return f'party {i}: result is not a list of n = {n} shares: {row!r}', None
        try:
            out.append([enc_elt(F, of, v) for v in row])
        except ValueError as e:
            return f'party {i}: {e}', None
    return None, out


def _prf_outputs(lit, m, t, mode, bound, uci, count):
    """{S: [field encodings of PRF_S(uci, count)]} for ALL subsets"""
    F, of = mfield(lit), ofield(lit)
    b = of.q if bound == 0 else bound
    kmode = 'distinct' if mode == 'rev' else mode
    T_ = _T()
    return {S: [of.from_int(r) for r in T_.PRF(prss_key(m, t, S, kmode), b)(uci, count)] for S in prss_subsets(m, t)}


def ck_prss_share(args, res, exc):
    lit, m, t, mode, bound, uci, n = args
    if exc: return f'unexpected {type(exc).__name__}: {exc}'
    of = ofield(lit)
    msg, sh = _enc_party_shares(lit, m, n, res)
    if msg: return msg
    prl = _prf_outputs(lit, m, t, mode, bound, uci, n)
    xs = [of.from_int(i + 1) for i in range(m)]
    for h in range(n):
        ys = [sh[i][h] for i in range(m)]
        for j in range(t + 1, m):
            e = of.interpolate(xs[:t + 1], ys[:t + 1], xs[j])
            if ys[j] != e:
                return f'number {h}: share of party {j} is {ys[j]}, but the degree-<={t} polynomial through parties 0..{t} gives {e} (shares {ys})'
        sec = of.interpolate(xs[:t + 1], ys[:t + 1], 0)
        exp = of.sum(prl[S][h] for S in prl)
        if sec != exp: return f'number {h}: shared secret {sec}, expected the sum of the {len(prl)} subset PRF outputs = {exp}'
    return None


def ck_prss_zero(args, res, exc):
    lit, m, t, mode, bound, uci, n = args
    if exc: return f'unexpected {type(exc).__name__}: {exc}'
    of = ofield(lit)
    msg, sh = _enc_party_shares(lit, m, n, res)
    if msg: return msg
    xs = [of.from_int(i + 1) for i in range(m)]
    d = 2 * t
    for h in range(n):
        ys = [sh[i][h] for i in range(m)]
        for j in range(d + 1, m):
            e = of.interpolate(xs[:d + 1], ys[:d + 1], xs[j])
            if ys[j] != e:
                return f'zero-sharing {h}: share of party {j} is {ys[j]}, but the degree-<={d} polynomial through parties 0..{d} gives {e} (shares {ys})'
        sec = of.interpolate(xs[:d + 1], ys[:d + 1], 0)
        if sec != 0: return f'zero-sharing {h}: shared secret is {sec}, expected 0 (shares {ys})'
    return None


def ck_prss_zero_formula(args, res, exc):
    """the documented construction: share_i = sum_S f_S(i+1) * (i+1) * g_S(i+1) with g_S of degree t-1 whose coefficients are
    the t = m-|S| PRF outputs of S (highest first).  Restated with oracle arithmetic; pins that the masking polynomial uses all
    degree-2t coefficients (a lower-degree zero sharing still meets the letter of C15 but no longer hides a degree-2t product)"""
    lit, m, t, mode, bound, uci, n = args
    if exc: return f'unexpected {type(exc).__name__}: {exc}'
    of = ofield(lit)
    msg, sh = _enc_party_shares(lit, m, n, res)
    if msg: return msg
    prl = _prf_outputs(lit, m, t, mode, bound, uci, n * t)
    for i in range(m):
        x = of.from_int(i + 1)
        for h in range(n):
            tot = 0
            for S in prl:
                if i not in S: continue
                outside = [of.from_int(j + 1) for j in range(m) if j not in S]
                fS = of.interpolate([0] + outside, [1] + [0] * len(outside), x)
                g = of.sum(of.mul(prl[S][h * t + j], of.pow(x, t - j)) for j in range(t))
                tot = of.add(tot, of.mul(fS, g))
            if sh[i][h] != tot: return f'zero-sharing {h}, party {i}: share {sh[i][h]}, expected {tot} from the documented construction'
    return None


def mt_pairs(tier, q):
    return [(m, t) for m in range(1, T(tier, 6, 7) + 1) if m < q for t in range(0, (m + 1) // 2) if 2 * t < m]


UCIS = (b'', b'\x01\x00\x00\x00\x00\x00\x00\x00', b'\xfe\xff\xff\xff\xff\xff\xff\x7f', b'abc')


def in_prss(lit, which):
    def gen(tier):
        q = lit_q(lit)
        for m, t in mt_pairs(tier, q):
            for mode in ('distinct', 'equal', 'rev', 'empty'):
                for bound in ((0, 2) if which != 'share' else (0, 1, 2, 4)):
                    for uci in UCIS:
                        for n in (0, 1, 3):
                            if mode in ('rev', 'empty') and (uci != UCIS[1] or bound != 0): continue
                            if bound in (1, 4) and uci != UCIS[1]: continue
                            if which == 'formula' and tier == 'quick' and (bound != 0 or uci not in (UCIS[1], UCIS[3])): continue
                            yield (lit, m, t, mode, bound, uci, n)
    return gen


def call_f_S_i(lit, m, i, S):
    _clear()
    return _T()._f_S_i(mfield(lit), m, i, S)


def ck_f_S_i(args, res, exc):
    lit, m, i, S = args
    if exc: return f'unexpected {type(exc).__name__}: {exc}'
    F, of = mfield(lit), ofield(lit)
    outside = [j for j in range(m) if j not in S]
    exp = of.interpolate([0] + [of.from_int(j + 1) for j in outside], [1] + [0] * len(outside), of.from_int(i + 1))
    if i == -1 and exp != 1 or i in outside and exp != 0: return 'internal: oracle'
    try:
        got = enc_any(F, of, res)
    except ValueError as e:
        return str(e)
    return got == exp or f'f_S({i + 1}) = {got}, expected {exp} (f_S of degree <= {len(outside)}, 1 at 0, 0 at parties {outside})'


def in_f_S_i(tier):
    for lit in PRSS_FIELDS:
        q = lit_q(lit)
        for m in range(1, T(tier, 6, 7) + 1):
            if m >= q: continue
            for t in range(0, m):
                if 2 * t >= m and tier == 'quick' and t > 3: continue
                for S in itertools.combinations(range(m), m - t):
                    for i in range(-1, m):
                        yield (lit, m, i, S)


# ================================================================================================ C17
PRF_KEYS = (b'', b'\x00' * 16, bytes(range(0xa0, 0xb0)))
PRF_BOUNDS = tuple(sorted({1, 3, 5, 7, 255, 257, 2 ** 16 + 1, 2 ** 31 - 1, 2 ** 64 + 13, 10 ** 30}
                          | {2 ** j for j in range(0, 41)} | {2 ** j for j in (47, 48, 55, 56, 63, 64, 65, 127, 128)}
                          | {2 ** j - 1 for j in (7, 8, 15, 16, 23, 24, 31, 32)} | {2 ** j + 1 for j in (7, 8, 15, 16, 24, 32)}))
PRF_INPUTS = (b'', b'\x00', b'abc', bytes(range(256)) + bytes(range(44)))
PRF_NS = (None, 0, 1, 2, 5, 17)


def o_prf(key, bound, s, count):
    """documented construction, restated: value_i = le(shake_128(key+s).digest(count*L)[i*L:(i+1)*L]) mod bound,
    L = ceil(bitlen(bound-1)/8), plus len(key) extra bytes unless bound is a power of two (statistical closeness to uniform)"""
    L = -(-(bound - 1).bit_length() // 8)
    if bin(bound).count('1') != 1: L += len(key)
    if L == 0 or count == 0: return [0] * count
    dk = hashlib.shake_128(key + s).digest(count * L)
    out = []
    for i in range(count):
        v = 0
        for k, byte in enumerate(dk[i * L:(i + 1) * L]):
            v += byte << (8 * k)
        out.append(v % bound)
    return out


def _ck_prf_shape(bound, n, v, what):
    if n is None:
        if type(v) is not int or not 0 <= v < bound: return f'{what}: scalar call returned {v!r}, expected an int in range({bound})'
        return None
    if not (isinstance(v, list) and len(v) == n): return f'{what}: expected a list of exactly n = {n} values, got {v!r}'
    for a in v:
        if type(a) is not int or not 0 <= a < bound: return f'{what}: value {a!r} not an int in range({bound})'
    return None


def call_prf(key, bound, s, n):
    return _T().PRF(key, bound)(s, n)


def ck_prf_spec(args, res, exc):
    key, bound, s, n = args
    if exc: return f'unexpected {type(exc).__name__}: {exc}'
    msg = _ck_prf_shape(bound, n, res, 'PRF(key, bound)(s, n)')
    if msg: return msg
    exp = o_prf(key, bound, s, 1)[0] if n is None else o_prf(key, bound, s, n)
    return res == exp or f'differs from the documented construction: expected {exp!r}'


def call_prf_det(key, bound, s, n):
    T_ = _T()
    f = T_.PRF(key, bound)
    a = f(s, n)
    other = f(s + b'\x01', 3)           # an unrelated call in between must not matter
    b = f(s, n)
    g = T_.PRF(bytes(bytearray(key)), int(bound))     # separately constructed, equal key / bound
    c = g(bytes(bytearray(s)), n)
    return Res(a=a, b=b, c=c, state=(f.key, f.max), other=other)


def ck_prf_det(args, res, exc):
    key, bound, s, n = args
    if exc: return f'unexpected {type(exc).__name__}: {exc}'
    for k in 'abc':
        msg = _ck_prf_shape(bound, n, res[k], f'call {k}')
        if msg: return msg
    if res['a'] != res['b']: return 'two calls on the same PRF object differ'
    if res['a'] != res['c']: return 'two PRF objects with equal key and bound differ'
    if res['state'] != (key, bound): return 'PRF object changed by a call'
    return None


def call_prf_prefix(key, bound, s, n):
    f = _T().PRF(key, bound)
    return Res(scalar=f(s), lst=f(s, n), longer=f(s, n + 5), one=f(s, 1))


def ck_prf_prefix(args, res, exc):
    key, bound, s, n = args
    if exc: return f'unexpected {type(exc).__name__}: {exc}'
    for what, nn, v in (('scalar', None, res['scalar']), ('n-list', n, res['lst']), ('(n+5)-list', n + 5, res['longer']), ('1-list', 1, res['one'])):
        msg = _ck_prf_shape(bound, nn, v, what)
        if msg: return msg
    if res['one'] != [res['scalar']]: return f'1-list {res["one"]} is not [scalar output {res["scalar"]}]'
    if n >= 1 and res['lst'][0] != res['scalar']: return f'element 0 of the n-list ({res["lst"][0]}) differs from the scalar output ({res["scalar"]})'
    if res['longer'][:n] != res['lst']: return 'the n-list is not a prefix of the (n+5)-list'
    if res['longer'][0] != res['scalar']: return 'element 0 of the (n+5)-list differs from the scalar output'
    return None


def call_prf_sens(key, bound, s, n):
    T_ = _T()
    k2 = key + b'\x01' if len(key) < 16 else key[:-1] + bytes([key[-1] ^ 1])
    return Res(base=T_.PRF(key, bound)(s, n), other_key=T_.PRF(k2, bound)(s, n), other_s=T_.PRF(key, bound)(s + b'\x00', n))


def ck_prf_sens(args, res, exc):
    # sanity, not part of C17: for bounds >= 2^64 and n >= 1 outputs for different keys / inputs differ
    if exc: return f'unexpected {type(exc).__name__}: {exc}'
    if res['base'] == res['other_key']: return 'output does not depend on the key'
    if res['base'] == res['other_s']: return 'output does not depend on the input bytes'
    return None


def in_prf(tier):
    for key in PRF_KEYS:
        for bound in PRF_BOUNDS + (() if tier == 'quick' else (6, 9, 2 ** 8 - 3, 2 ** 32, 2 ** 127 - 1, 2 ** 128, 2 ** 255 - 19)):
            for s in PRF_INPUTS:
                for n in PRF_NS + (() if tier == 'quick' else (3, 64, 257)):
                    yield (key, bound, s, n)


def in_prf_prefix(tier):
    for a in in_prf(tier):
        if a[3] is not None: yield a


def in_prf_sens(tier):
    for a in in_prf(tier):
        if a[1] >= 2 ** 64 and a[3] != 0: yield a


# ================================================================================================ registry
_L = []
for _lit in C12_FIELDS:
    _nm = lit_name(_lit)
    _L.append(Native(f'split_polynomial:{_nm}', 'mpyc.thresha.random_split', call_split, ck_split, in_split(_lit),
                     f'{_nm}: all 0 <= t < m <= min(5, q-1); secrets as raw values and as field elements; single secrets: all of the field (q <= 27) '
                     f'or 12 lattice points; lists of 2 and 3 secrets from 3 spaced values; dealer coefficients: all q^(t*len(s)) tuples when <= {RCAP} '
                     f'(subsampled for the secret lists when the product exceeds the case cap), else corner + LCG sample; share i == f(i+1) '
                     f'computed in oracle arithmetic, shape m x len(s), raw type, reduced, t*len(s) randbelow(order) calls'))
    for _kind, _kd in (('raw', 'shares passed as lists of raw values (ints / gfpx polynomials), results raw values congruent to the expected element'),
                       ('elt', 'secrets and shares passed as field elements, results reduced field elements')):
        _L.append(Native(f'split_recombine:{_nm}:{_kind}', 'mpyc.thresha.recombine', call_split_recombine, ck_split_recombine, in_split_recombine(_lit, _kind),
                         f'{_nm}, {_kd}: split as in split_polynomial (smaller case cap), then EVERY subset of >= t+1 of the m <= 5 shares recombined at 0 (== secrets) and at the '
                         f'list of points given in the case (whole field for q <= 27 incl. the shares\' own coordinates, else 0, 1..m+1, q-1, q-2, q/2, 7, 65537; quick tier: 0, 1, m, m+1, q-1 '
                         f'for the runs over more than 200 coefficient tuples) == f(x); points = list of (x, row) tuples as the runtime builds them; x_rs forms [], [x], x, x_rs=0, [0] on the rotated point order'))
    _L.append(Native(f'recombination_vector:{_nm}', 'mpyc.thresha._recombination_vector', call_recvec, ck_recvec, in_recvec(_lit),
                     f'{_nm}: every nonempty subset of 1..min(5, q-1) (thorough 7) as xs, rotated/reversed/non-contiguous orders such as (2,5,7), (3,1,2), (q-1,1); '
                     f'x_r: whole field (q <= 27) or 13 points; == Lagrange coefficients by the oracle, reduced raw values; cache cleared before each call'))
    _L.append(Native(f'split_uniform:{_nm}', 'mpyc.thresha.random_split', call_split_uniform, ck_split_uniform, in_split_uniform(_lit),
                     f'{_nm}: all 1 <= t < m <= min(5, q-1) with q^(t*len(s)) <= {RCAP}; every single secret, 2 and 3 secrets from 3 spaced '
                     f'values (quick: spaced subset of max(3 resp. 2, 6000 / q^(t len(s))) secret tuples); ALL outcomes of all randbelow calls enumerated (weights 1/prod bounds); every coalition of 1..t parties: every value tuple of its '
                     f'joint view has probability exactly q^-(|A| len(s)); exactly t*len(s) randbelow(order) calls on every path'))
_L.append(Native('split_draws', 'mpyc.thresha.random_split', call_split, ck_split, in_split_draws,
                 'all fields of the C12 list, all 0 <= t < m <= min(5, q-1), 1..3 secrets, pairwise distinct coefficient streams: exactly t randbelow(order) '
                 'calls per secret, block h of the stream used for secret h only (shares == oracle polynomial of that block)'))
for _lit in PRSS_FIELDS:
    _nm = lit_name(_lit)
    _dom = (f'{_nm}: all (m, t) with 2t < m <= 6 (thorough 7), m < q; prfs dicts keyed by itertools.combinations tuples as Runtime.prfs builds them; key assignments: distinct '
            f'16-byte keys, all keys equal, distinct keys with reversed dict order, empty keys; PRF bound: field order, 2, and 1, 4 with one uci (zero-sharings: order, 2); 4 uci byte strings; n in 0, 1, 3; caches cleared before each case')
    _L.append(Native(f'prss_share:{_nm}', 'mpyc.thresha.pseudorandom_share', call_prss('pseudorandom_share'), ck_prss_share, in_prss(_lit, 'share'),
                     _dom + '; the m parties\' shares lie on the degree <= t polynomial through parties 0..t; its value at 0 == sum over ALL subsets of PRF_S(uci, n)[h]'))
    _L.append(Native(f'prss_zero:{_nm}', 'mpyc.thresha.pseudorandom_share_zero', call_prss('pseudorandom_share_zero'), ck_prss_zero, in_prss(_lit, 'zero'),
                     _dom + '; shares lie on the degree <= 2t polynomial through parties 0..2t, value 0 at 0'))
    _L.append(Native(f'prss_zero_formula:{_nm}', 'mpyc.thresha.pseudorandom_share_zero', call_prss('pseudorandom_share_zero'), ck_prss_zero_formula, in_prss(_lit, 'formula'),
                     _dom + ' (quick: bound = order and 2 uci strings only); share_i == sum_S f_S(i+1) (i+1) g_S(i+1), g_S built from the t PRF outputs of S (documented construction)'))
_L.append(Native('f_S_i', 'mpyc.thresha._f_S_i', call_f_S_i, ck_f_S_i, in_f_S_i,
                 'fields GF(7), GF(11), GF(101), GF(2^31-1), GF(8), GF(9), GF(16); m <= 6 (thorough 7), m < q, every 0 <= t < m (quick: t <= 3 when 2t >= m), every subset S of size m-t, '
                 'every i in -1..m-1: == value at i+1 of the polynomial that is 1 at 0 and 0 at the parties outside S (oracle Lagrange); caches cleared before each case'))
_PRF_DOM = ('keys: empty, 16 zero bytes, 16 pattern bytes; bounds: every power of two 2^0..2^40 and 2^47,48,55,56,63,64,65,127,128, 2^j-1 and 2^j+1 around byte boundaries, 3,5,7,10^30 (thorough more); '
            'inputs b"", b"\\x00", b"abc", 300 bytes; n in None,0,1,2,5,17 (thorough 3,64,257)')
_L.append(Native('prf_spec', 'mpyc.thresha.PRF.__call__', call_prf, ck_prf_spec, in_prf, _PRF_DOM + ': in range(bound), exactly n values / scalar, == documented construction recomputed with hashlib'))
_L.append(Native('prf_determinism', 'mpyc.thresha.PRF.__call__', call_prf_det, ck_prf_det, in_prf, _PRF_DOM + ': repeated call, call after an unrelated call, second PRF object with equal key/bound agree'))
_L.append(Native('prf_prefix', 'mpyc.thresha.PRF.__call__', call_prf_prefix, ck_prf_prefix, in_prf_prefix, _PRF_DOM + ' (n not None): scalar == element 0, 1-list == [scalar], n-list is a prefix of the (n+5)-list'))
_L.append(Native('prf_sensitivity', 'mpyc.thresha.PRF.__call__', call_prf_sens, ck_prf_sens, in_prf_sens, _PRF_DOM + ' restricted to bounds >= 2^64, n != 0: other key / other input give other output (sanity)'))

NATIVE = {n.name: n for n in _L}
for _n in NATIVE.values(): _n.module = MODULE

PROP_PREFIXES = {
    'C12': ('split_polynomial:', 'split_recombine:', 'recombination_vector:'),
    'C13': ('split_uniform:', 'split_draws'),
    'C15': ('prss_share:', 'prss_zero:', 'prss_zero_formula:', 'f_S_i'),
    'C17': ('prf_spec', 'prf_determinism', 'prf_prefix', 'prf_sensitivity'),
}


def names(prop, tier='thorough'):
    out = []
    for nm, n in NATIVE.items():
        if not nm.startswith(PROP_PREFIXES[prop]): continue
        if tier == 'quick' and ':GF(3^3)' in nm: continue        # quick tier: up to GF(9) plus GF(16)
        if nm.startswith('split_uniform:') and nm.split(':')[1] in ('GF(2)', f'GF({M31})'): continue      # no (t >= 1, q^t <= 4096) instance
        out.append(nm)
    out.sort(key=_weight)           # longest first: the pool hands tasks out in list order
    return out


def _weight(nm):
    kind_w = next((w for k, w in (('split_recombine', 0), ('split_uniform', 0), ('split_polynomial', 1), ('prss', 2)) if nm.startswith(k)), 3)
    field_w = next((i for i, f in enumerate(('GF(3^3)', 'GF(2^4)', 'GF(3^2)', 'GF(2^3)', 'GF(13)', 'GF(11)')) if f in nm), 9)
    return (kind_w * 3 + field_w, nm)


def tasks(tier, prop):
    """pool tasks (module, function, args) for lib.common.run_tasks: one task per Native of property `prop`
    ('C12', 'C13', 'C15' or 'C17'); each returns a list of lib.common.Ob"""
    return [('lib.native', 'run_natives', (MODULE, [nm], tier)) for nm in names(prop, tier)]
