"""Bounded executable contracts for the secure NumPy arrays of mpyc (property C37): runtime.Runtime.np_* methods, the
SecureArray classes of sectypes.py, finfields.FiniteFieldArray and the np_* functions of thresha.py.  NumPy must be enabled
(interpreter /verif/.venv/bin/python, MPYC_NONUMPY unset; `_rt()` removes the variable before mpyc is first imported, so that
replays started by lib.common work).

A case of the operation families is the tuple of Python literals

    (tname, opname, operands, params)
      tname     'i16' / 'i32' / 'i64' = SecInt(l);  'x32.16' = SecFxp(32,16);  'f11' = SecFld(11) (order: 16 = GF(2^4), 9 = GF(3^2))
      operands  tuple of (okind, shape, seed, mode):  okind 'A' secure array, 'S' secure scalar, 'P' public Python scalar,
                'N' public numpy array;  the data is a deterministic function of (tname, shape, seed, mode), see `gen`
      params    literals of the operation (call form, axis, keepdims, ...)

and is evaluated in three "worlds" by ONE definition of the operation (`OPS[opname]`):
  1  the real code on secure arrays (mpc.np_* / operators / numpy dispatch), results opened with mpc.output
  2  plain NumPy on object arrays of exact values: Python ints, Fractions (fixed point), `FE` (own field arithmetic, `thresha_native.OF`)
  3  the real code on secure SCALARS, elementwise: object arrays holding mpc.SecInt(l)(a) etc., where the family has a scalar analogue
Contract: world 1 == world 2 exactly for secure integers and fields, within the stated number of units 2^-f for fixed point
(`tolerance`: one product 1 unit, sums exact, product by a public float 2(1+|x|) units, matmul with inner dimension n: n units,
division 16(1+|x|)+2|x/y| units, product trees (k-1)M^(k-1) units with M = max(1, max |factor|)); world 3 satisfies the same
bound; shapes equal NumPy's; the shape declared by the placeholder equals the shape of the value that arrives; the integral flag
of a fixed-point result is a bool and True only if every exact value is an integer.

`mp_*` natives run slices of the same cases with m parties (in-process harness sx/mp.py, real asynchronous mode, inputs dealt
with runtime.input, i.e. thresha.np_random_split, results opened with np_recombine), all parties must obtain the same values.

Further natives: `random_bits` (np_random_bits: shape, range, flag), `ffarray` (public finfields.FiniteFieldArray arithmetic against the
own field arithmetic and against field elements), `np_split_recombine` (thresha.np_random_split / np_recombine against own polynomial
evaluation and against random_split / recombine with the SAME dealer coefficients: the draws are scripted, the two functions consume
them in different orders), `np_prss` (np_pseudorandom_share / np_pseudorandom_share_0 against the list versions with the same PRF keys).

Classes of inputs that deviate on the unchanged tree are delimited by the predicates EXC_CLASSES / MSG_CLASSES / MP_KNOWN (and in ck_ff,
ck_prss); the contract stays strict, the check returns ('class', key, message) for them (lib/native.py), everything else is a violation.

Covered np_* methods of Runtime: absolute add all amax amin any append argmax argmin block (arrays) column_stack concatenate convolve copy
cumsum cumulative_sum det diag diagflat diagonal divide dsplit dstack equal expand_dims find (public s, e default / -1) flatten flip fliplr
flipud from_bits fromlist getitem hsplit hstack if_swap is_zero_public left_shift less lsb matmul maximum minimum multiply negative outer
pow (public integer exponent; public integer base) prod random_bits reciprocal (through /) reshape roll rot90 sgn sort split squeeze stack
subtract sum swapaxes to_bits (and add_bits through it) tolist trace transpose trunc unit_vector update vander vsplit vstack where; all
operators, methods and properties of SecureArray.  Not covered: np_exp / np_exp2 / np_log / np_log2 / np_log10 and np_pow with float
exponent or base (approximations without a stated bound), np_find with f / cs_f / e=None / secret s, np_block with scalar entries,
np_row_stack, key functions other than -x, np_roll with tuple shifts, error cases.  Not offered by the runtime (AttributeError through the
numpy dispatch): np.tile, np.dot, np.inner, np.tensordot, np.min / np.max (NumPy 2 names; np.amin / np.amax work), np_convert
(mpc.convert does not accept arrays), SecFlt arrays.
"""
import sys, os, math, itertools, random, hashlib
from fractions import Fraction
from lib.native import Native

MODULE = 'contracts.secarray_native'


# ================================================================================================ runtime / types
def _np():
    import numpy
    return numpy


def _rt():
    """one-party runtime with NumPy enabled"""
    if 'mpyc.numpy' not in sys.modules:
        os.environ.pop('MPYC_NONUMPY', None)          # lib.common replays set it; C37 is about the NumPy code paths
    if 'mpyc.runtime' not in sys.modules:
        sys.argv = [sys.argv[0] if sys.argv else 'x', '--no-log']      # mpyc.runtime parses sys.argv at import time
    from mpyc.runtime import mpc
    from mpyc.numpy import np
    if np is None:
        raise RuntimeError('NumPy is disabled in mpyc (MPYC_NONUMPY set before mpyc was imported, or numpy missing)')
    mp = sys.modules.get('sx.mp')
    if mp is not None and mp._state.get('mods'):
        mp.CUR.set(mpc)                # the module-global `runtime` is a ContextVar proxy once the m-party harness is loaded
    assert len(mpc.parties) == 1 and mpc.options.no_async
    return mpc, np


def _ty(mpc, t):
    if t[0] == 'i': return mpc.SecInt(int(t[1:]))
    if t[0] == 'x':
        l, f = t[1:].split('.')
        return mpc.SecFxp(int(l), int(f))
    if t[0] == 'f': return mpc.SecFld(int(t[1:]))
    raise ValueError(t)


def _frac(t): return int(t.split('.')[1]) if t[0] == 'x' else 0


def _bitlen(t): return int(t[1:].split('.')[0]) if t[0] in 'ix' else 0


def _seed(mpc, seed):
    """deterministic PRSS key for the single party (keys are otherwise drawn from `secrets`)"""
    mpc.prfs.cache_clear()
    mpc._prss_keys = {(0,): hashlib.sha256(b'verif-c37-%d' % seed).digest()[:16]}
    mpc._program_counter[0] = 0


def _prime_factor(q):
    p = 2
    while q % p: p += 1
    d = 0
    while q > 1: q //= p; d += 1
    return p, d


class FE:
    """oracle field element: encoding v over `thresha_native.OF` (own GF(p^d) arithmetic), usable as entry of an object ndarray"""
    __slots__ = ('o', 'v')

    def __init__(s, o, v): s.o, s.v = o, v

    def _w(s, b):
        if isinstance(b, FE): return b.v
        if isinstance(b, bool): b = int(b)
        if hasattr(b, '__index__'):
            b = int(b)
            return s.o.from_int(b) if b >= 0 or s.o.d == 1 else s.o.neg(s.o.from_int(-b))
        raise TypeError(f'FE: operand {b!r}')

    def __add__(s, b): return FE(s.o, s.o.add(s.v, s._w(b)))
    __radd__ = __add__
    def __sub__(s, b): return FE(s.o, s.o.sub(s.v, s._w(b)))
    def __rsub__(s, b): return FE(s.o, s.o.sub(s._w(b), s.v))
    def __mul__(s, b): return FE(s.o, s.o.mul(s.v, s._w(b)))
    __rmul__ = __mul__
    def __neg__(s): return FE(s.o, s.o.neg(s.v))
    def __pos__(s): return s
    def __truediv__(s, b): return FE(s.o, s.o.mul(s.v, s.o.inv(s._w(b))))
    def __rtruediv__(s, b): return FE(s.o, s.o.mul(s._w(b), s.o.inv(s.v)))

    def __pow__(s, e):
        e = int(e)
        if e < 0: return FE(s.o, s.o.pow(s.o.inv(s.v), -e))
        return FE(s.o, s.o.pow(s.v, e))

    def __eq__(s, b): return s.v == s._w(b)
    def __ne__(s, b): return s.v != s._w(b)
    def __hash__(s): return hash(s.v)
    def __repr__(s): return f'FE({s.v})'


def _ofield(q, mod):
    from contracts import thresha_native as TN
    p, d = _prime_factor(q)
    return TN.OF(p, d, tuple(mod) if d > 1 else None)


_OF_CACHE = {}


def ofield(q, mod):
    k = (q, tuple(mod or ()))
    if k not in _OF_CACHE: _OF_CACHE[k] = _ofield(q, mod)
    return _OF_CACHE[k]


class Cx:
    """evaluation context of one case: runtime, secure type, oracle field"""

    def __init__(s, mpc, np, tname, senders=None):
        s.mpc, s.np, s.tname, s.kind = mpc, np, tname, tname[0]
        s.T = _ty(mpc, tname)
        s.A = s.T.array
        s.f = _frac(tname)
        s.senders = senders           # None: operands are built locally; else list of pids dealing the operands in turn (m-party runs)
        s.nsent = 0
        s.mod = None
        if s.kind == 'f':
            F = s.T.field
            if F.ext_deg > 1:
                from contracts import thresha_native as TN
                s.mod = tuple(TN.poly_coeffs(F.modulus))

    def enc(s, v):
        """opened value -> canonical Python value (int / Fraction / field encoding)"""
        if s.kind == 'i':
            if isinstance(v, bool) or not hasattr(v, '__index__'): raise ValueError(f'secure integer opened as {type(v).__name__} {v!r}')
            return int(v)
        if s.kind == 'x':
            if isinstance(v, bool) or not isinstance(v, (int, float, s.np.floating, s.np.integer)): raise ValueError(f'fixed-point number opened as {type(v).__name__} {v!r}')
            return Fraction(float(v))
        F = s.T.field
        if isinstance(v, F): v = v.value
        if F.ext_deg == 1:
            if isinstance(v, bool) or not hasattr(v, '__index__') or not 0 <= int(v) < F.order: raise ValueError(f'field element opened as {v!r}')
            return int(v)
        from contracts import thresha_native as TN
        if type(v) is not type(F.modulus): raise ValueError(f'field element opened as {type(v).__name__} {v!r}')
        cs = TN.poly_coeffs(v)
        p = F.characteristic
        if len(cs) > F.ext_deg or any(not 0 <= c < p for c in cs): raise ValueError(f'unreduced field element {v!r}')
        return sum(c * p ** k for k, c in enumerate(cs))


# ================================================================================================ data
# value modes (encodings: secure integers the value itself; fixed point k meaning k/16; fields the integer encoding 0..q-1)
def gen(tname, spec):
    """flat list of encodings of an operand: deterministic function of (tname, shape, seed, mode)"""
    okind, shape, seed, mode = spec
    n = math.prod(shape)
    r = random.Random(f'{tname}|{okind}|{shape}|{seed}|{mode}')
    k = tname[0]
    if mode[0] == 'P':                  # 'P<d>': the constant d
        return [int(mode[1:]) * (16 if k == 'x' else 1)] * n
    if k == 'f':
        q = int(tname[1:])
        if mode == 'b': return [r.randrange(2) for _ in range(n)]
        if mode == 'nz': return [r.randrange(1, q) for _ in range(n)]
        if mode == 's': return [r.randrange(min(q, 3)) for _ in range(n)]
        return [r.randrange(q) for _ in range(n)]
    one = 16 if k == 'x' else 1
    l = _bitlen(tname)
    if mode == 'b': return [one * r.randrange(2) for _ in range(n)]
    if mode in ('i', 'F'): return [one * r.randrange(-6, 7) for _ in range(n)]              # integral values (fixed point: integral flag set; 'F': public float array holding integers)
    if mode == 's': return [r.randrange(-3, 4) * (one // 4 or 1) for _ in range(n)]         # few values: many ties
    if mode == 'p': return [r.randrange(1, 9) * one for _ in range(n)]                      # positive integers
    if mode == 'e': return [r.randrange(0, 7) * one for _ in range(n)]                      # small exponents
    if mode == 'u': return [r.choice((-2, -1, 1, 2) if k == 'i' else (-24, -16, -8, 8, 16, 24)) for _ in range(n)]    # factors of products
    if mode == 'nz': return [r.choice((-1, 1)) * r.randrange(1, 9) for _ in range(n)] if k == 'i' else [r.choice((-1, 1)) * r.randrange(4, 65) for _ in range(n)]
    if mode == 'w':                     # wide: up to a quarter of the range, so that differences fit
        h = 1 << (l - 2 if k == 'i' else l - _frac(tname) - 2 + 4)
        return [r.choice((-h + 1, h - 1, 0, r.randrange(-h + 1, h))) for _ in range(n)]
    if mode == 'm': return [r.randrange(-60, 61) for _ in range(n)] if k == 'i' else [r.randrange(-64, 65) for _ in range(n)]
    raise ValueError(mode)


def exact_val(tname, e, of=None):
    if tname[0] == 'i': return e
    if tname[0] == 'x': return Fraction(e, 16)
    return FE(of, e)


def plain_val(tname, e, mode):
    """the Python number handed to mpyc for an encoding"""
    if tname[0] == 'x':
        if (mode in ('i', 'b', 'p', 'e') or mode[0] == 'P') and e % 16 == 0: return e // 16          # an int: integral operand
        return e / 16
    return e


def objarr(np, flat, shape):
    a = np.empty(len(flat), dtype=object)
    for i, v in enumerate(flat): a[i] = v
    return a.reshape(shape)


def mk_exact(np, tname, spec, of):
    okind, shape, seed, mode = spec
    vs = [exact_val(tname, e, of) for e in gen(tname, spec)]
    if okind in 'AN': return objarr(np, vs, shape)
    return vs[0]


def _pub_array(np, tname, spec):
    okind, shape, seed, mode = spec
    es = gen(tname, spec)
    if tname[0] == 'x' and mode == 'F': return np.array([float(e // 16 * 16) / 16 for e in es], dtype=float).reshape(shape)     # float dtype, integral values
    vs = [plain_val(tname, e, mode) for e in es]
    if tname[0] == 'x' and any(isinstance(v, float) for v in vs): return np.array([float(v) for v in vs], dtype=float).reshape(shape)
    return np.array(vs, dtype=int).reshape(shape)


def mk_sec(cx, spec):
    """world 1 operand"""
    np, T = cx.np, cx.T
    okind, shape, seed, mode = spec
    if okind == 'N': return _pub_array(np, cx.tname, spec)
    es = gen(cx.tname, spec)
    if okind == 'P': return plain_val(cx.tname, es[0], mode)
    if okind == 'S':
        x = T(plain_val(cx.tname, es[0], mode))
    else:
        x = cx.A(_pub_array(np, cx.tname, spec))
    if cx.senders is not None:
        x = cx.mpc.input(x, senders=cx.senders[cx.nsent % len(cx.senders)])
        cx.nsent += 1
    return x


def mk_scal(cx, spec):
    """world 3 operand: object array of secure scalars"""
    np, T = cx.np, cx.T
    okind, shape, seed, mode = spec
    es = gen(cx.tname, spec)
    if okind == 'P': return plain_val(cx.tname, es[0], mode)
    if okind == 'N': return objarr(np, [plain_val(cx.tname, e, mode) for e in es], shape)
    vs = [T(plain_val(cx.tname, e, mode)) for e in es]
    if okind == 'S': return vs[0]
    return objarr(np, vs, shape)


class World:
    """n = 1: secure arrays; 2: exact object arrays; 3: object arrays of secure scalars"""

    def __init__(s, n, np, cx=None, tname=None, of=None, elt=None):
        s.n, s.np, s.cx, s.mpc = n, np, cx, cx.mpc if cx else None
        s.elt = elt or (cx.T if cx else None)          # constructor of the scalars of world 3
        s.tname = tname or cx.tname
        s.kind = s.tname[0]
        s.of = of
        s.f = _frac(s.tname)

    def ew(s, fn, *xs):
        """apply fn elementwise with NumPy broadcasting (worlds 2 and 3)"""
        np = s.np
        ys = []
        for x in xs:
            if not isinstance(x, np.ndarray):
                y = np.empty((), dtype=object); y[()] = x; x = y
            elif x.dtype != object:
                x = objarr(np, [v.item() for v in x.reshape(-1)], x.shape)
            ys.append(x)
        bs = np.broadcast_arrays(*ys)
        out = np.empty(bs[0].shape, dtype=object)
        for idx in np.ndindex(out.shape):
            out[idx] = fn(*(b[idx] for b in bs))
        return out

    def const(s, c):
        """exact counterpart of a public constant"""
        if s.n != 2: return c
        if s.kind == 'f': return FE(s.of, s.of.from_int(c))
        return Fraction(c) if s.kind == 'x' else c


# ================================================================================================ results
class Res(dict):
    """result record with a bounded repr (goes into violation messages)"""

    def __repr__(self):
        r = dict.__repr__(self)
        return r if len(r) <= 900 else r[:900] + '...'


def _is_secure(cx, x): return isinstance(x, cx.mpc.SecureObject)


def _walk(cx, R, leaves):
    """structure of a result: secure leaves are collected, public values are normalised"""
    np = cx.np
    if _is_secure(cx, R):
        leaves.append(R)
        return ('s', len(leaves) - 1)
    if isinstance(R, (list, tuple)):
        return ('L' if isinstance(R, list) else 'T', [_walk(cx, x, leaves) for x in R])
    if isinstance(R, np.ndarray) and R.dtype == object:
        return ('O', tuple(R.shape), [_walk(cx, x, leaves) for x in R.reshape(-1)])
    if isinstance(R, np.ndarray):
        return ('P', tuple(R.shape), [v.item() for v in R.reshape(-1)])
    if isinstance(R, (np.generic,)):
        return ('P', (), [R.item()])
    if R is None or isinstance(R, (bool, int, float, str)):
        return ('P', (), [R])
    F = getattr(cx.T, 'field', None)
    if F is not None and isinstance(R, (F, F.array)):           # public field values (e.g. an opened argument passed through)
        return ('P', tuple(getattr(R, 'shape', ())), [cx.enc(v) for v in (R.value.reshape(-1) if hasattr(R, 'shape') else [R])])
    raise TypeError(f'result of type {type(R).__name__}')


async def _open(cx, leaves):
    """open all secure leaves; per leaf: dict(kind, type, decl (declared shape), integral, shape (of the opened value), share (shape of the share), v (flat values))"""
    np, mpc = cx.np, cx.mpc
    out = []
    for x in leaves:
        isarr = isinstance(x, mpc.SecureArray)
        d = dict(kind='a' if isarr else 'n', type=type(x).__name__, decl=tuple(x.shape) if isarr else (), integral=getattr(x, 'integral', None) if cx.kind == 'x' else None)
        if (isarr and not isinstance(x, cx.A)) or (not isarr and not isinstance(x, cx.T)):
            d['foreign'] = True          # another secure type (never expected)
        v = await mpc.output(x)
        if isarr:
            if hasattr(v, 'value') and hasattr(v, 'shape'): vv = v.value          # finite field array
            else: vv = v
            if not isinstance(vv, np.ndarray):
                if d['decl'] != () and tuple(getattr(x.share.result() if hasattr(x.share, 'result') else x.share, 'shape', (1,))) != ():
                    raise ValueError(f'secure array opened as {type(v).__name__}')
                vv = objarr(np, [vv], ())          # a 0-d fixed-point array is opened as a Python float (the output conversion divides by 2^f)
            d['shape'] = tuple(vv.shape)
            d['v'] = [cx.enc(a) for a in vv.reshape(-1)]
            sh = x.share
            if hasattr(sh, 'result') and not hasattr(sh, 'shape'): sh = sh.result()
            d['share'] = tuple(sh.shape) if hasattr(sh, 'shape') else None
        else:
            d['shape'] = ()
            try:
                d['v'] = [cx.enc(v)]
            except ValueError as e:
                if not (hasattr(v, 'shape') and v.shape == () and hasattr(v, 'value')): raise
                d['encerr'] = f'secure number opened as {type(v).__name__} of shape (): {e}'
                d['v'] = [cx.enc(v.value[()])]
            d['share'] = ()
        out.append(d)
    return out


async def eval_case(cx, args, worlds=(1, 3)):
    """worlds 1 and 3 of one case on the real code -> Res"""
    tname, opname, operands, pr = args
    op = OPS[opname]
    res = Res(mod=cx.mod)
    if 1 in worlds:
        w = World(1, cx.np, cx)
        xs = [mk_sec(cx, sp) for sp in operands]
        R = op.fn(w, xs, pr)
        if hasattr(R, '__await__') and not _is_secure(cx, R): R = await R          # public results arrive as futures (np_is_zero_public)
        leaves = []
        res['struct'] = _walk(cx, R, leaves)
        res['leaves'] = await _open(cx, leaves)
    if 3 in worlds and op.scalar:
        try:
            w = World(3, cx.np, cx)
            xs = [mk_scal(cx, sp) for sp in operands]
            R = (op.sfn or op.fn)(w, xs, pr)
            leaves = []
            res['sstruct'] = _walk(cx, R, leaves)
            res['sleaves'] = await _open(cx, leaves)
        except Exception as e:
            res['sexc'] = f'{type(e).__name__}: {e}'
    return res


def call_case(tname, opname, operands, pr):
    mpc, np = _rt()
    cx = Cx(mpc, np, tname)
    _seed(mpc, 1 + sum(sp[2] for sp in operands) % 5)
    return mpc.run(eval_case(cx, (tname, opname, operands, pr)))


# ------------------------------------------------------------------ oracle side
def _flat_struct(np, E, tname):
    """exact result -> same structure as `_walk` gives, leaves ('e', shape, flat exact values)"""
    if isinstance(E, (list, tuple)):
        return ('L' if isinstance(E, list) else 'T', [_flat_struct(np, x, tname) for x in E])
    if isinstance(E, np.ndarray):
        return ('e', tuple(E.shape), [_ex(v) for v in E.reshape(-1)])
    return ('e', (), [_ex(E)])


def _ex(v):
    if isinstance(v, FE): return v.v
    if isinstance(v, bool): return int(v)
    if hasattr(v, 'item') and not isinstance(v, (int, Fraction)): v = v.item()
    if isinstance(v, bool): return int(v)
    return v


def _cmp(tname, st, leaves, E, tol, path='result'):
    """compare opened structure with the exact structure; tol: number of units 2^-f or structure/array of these"""
    k = st[0]
    if E[0] in ('L', 'T'):
        if k not in ('L', 'T', 'O') or len(st[-1]) != len(E[1]):
            return f'{path}: expected a sequence of {len(E[1])} results, got {_sdesc(st, leaves)}'
        for i, (a, b) in enumerate(zip(st[-1], E[1])):
            m = _cmp(tname, a, leaves, b, tol[i] if isinstance(tol, (list, tuple)) else tol, f'{path}[{i}]')
            if m: return m
        return None
    _, eshape, evals = E
    if k == 's':
        lf = leaves[st[1]]
        if lf.get('foreign'): return f'{path}: secure type {lf["type"]} is not the type of the operands'
        if lf['decl'] != lf['shape'] or (lf['share'] is not None and lf['share'] != lf['shape']):
            return f'{path}: PLACEHOLDER-SHAPE the placeholder declares shape {lf["decl"]}, the value that arrives has shape {lf["share"]} (opened: {lf["shape"]}); NumPy: {eshape}'
        if lf['shape'] != eshape: return f'{path}: shape {lf["shape"]}, NumPy gives {eshape}'
        if 'encerr' in lf: return f'{path}: OPENED-TYPE {lf["encerr"]}'
        got = lf['v']
        if tname[0] == 'x':
            fl = lf['integral']
            if not isinstance(fl, bool): return f'{path}: INTEGRAL-FLAG of the fixed-point result is {fl!r}, not a bool'
            if fl and any(Fraction(e).denominator != 1 for e in evals):
                return f'{path}: integral flag True but exact values are not all integers: {[str(e) for e in evals][:6]}'
            if fl and any(g.denominator != 1 for g in got):
                return f'{path}: integral flag True but opened values are not all integers: {[str(g) for g in got][:6]}'
    elif k in ('P', 'O'):
        if k == 'O':             # object array of secure scalars / public numbers (world 3)
            got = []
            for c in st[2]:
                if c[0] == 's': got.append(leaves[c[1]]['v'][0])
                elif c[0] == 'P': got.append(_pubnum(tname, c[2][0]))
                else: return f'{path}: nested result'
        else:
            got = [_pubnum(tname, v) for v in st[2]]
        if tuple(st[1]) != eshape: return f'{path}: shape {tuple(st[1])}, NumPy gives {eshape}'
    else:
        return f'{path}: expected an array or number, got {_sdesc(st, leaves)}'
    if len(got) != len(evals): return f'{path}: {len(got)} values, expected {len(evals)}'
    f = _frac(tname)
    for i, (g, e) in enumerate(zip(got, evals)):
        if tname[0] == 'x':
            t = tol
            if hasattr(tol, 'reshape'): t = tol.reshape(-1)[i] if tol.size > 1 else tol.reshape(-1)[0]
            e = Fraction(e)
            if abs(g - e) * 2 ** f > t:
                return f'{path}: element {i}: {float(g)} but exact value {float(e)} (off by {float(abs(g - e) * 2 ** f):.2f} units, allowed {float(t):.2f})'
        elif tname[0] == 'i' and tol:
            if not (g == e or abs(g - Fraction(e)) < tol): return f'{path}: element {i}: {g} but exact value {float(e)} (allowed: less than {tol} off)'
        elif g != e:
            return f'{path}: element {i}: {g} but NumPy gives {e}; got {got[:12]} expected {evals[:12]}'
    return None


def _pubnum(tname, v):
    if tname[0] == 'x': return Fraction(v) if not isinstance(v, bool) else Fraction(int(v))
    return int(v) if isinstance(v, bool) else v


def _sdesc(st, leaves):
    if st[0] == 's':
        lf = leaves[st[1]]
        return f'{lf["type"]} of shape {lf["shape"]}'
    if st[0] in ('L', 'T'): return f'sequence of {len(st[1])}'
    return f'{st[0]} {st[1]}'


def oracle(np, args, mod):
    """world 2: exact result and tolerance (units 2^-f) of a case"""
    tname, opname, operands, pr = args
    op = OPS[opname]
    of = ofield(int(tname[1:]), mod) if tname[0] == 'f' else None
    w = World(2, np, tname=tname, of=of)
    xs = [mk_exact(np, tname, sp, of) for sp in operands]
    E = (op.ofn or op.fn)(w, xs, pr)
    tol = 0
    if tname[0] == 'x' and op.tol is not None:
        tol = op.tol(w, xs, pr, E, operands)
    if tname[0] == 'i' and op.itol is not None:
        tol = op.itol
    return E, tol


def check_res(args, res, np=None):
    """contract of one case given the Res of worlds 1 and 3"""
    np = np or _np()
    tname, opname, operands, pr = args
    try:
        E, tol = oracle(np, args, res.get('mod'))
    except Exception as e:
        return f'oracle: NumPy on the exact data raised {type(e).__name__}: {e} (input generator error)'
    ES = _flat_struct(np, E, tname)
    if opname in NOFLAG_OPS:         # mpc.trunc and mpc.np_trunc alike return fixed-point placeholders without an integral flag (None): not a difference between arrays and scalars
        for lf in res['leaves'] + res.get('sleaves', []):
            if lf.get('integral') is None: lf['integral'] = False
    m = _cmp(tname, res['struct'], res['leaves'], ES, tol)
    if m: return m
    if 'sexc' in res: return f'elementwise secure-scalar version raised {res["sexc"]}'
    if 'sstruct' in res:
        op = OPS[opname]
        stol = tol
        if tname[0] == 'x' and op.stol is not None:
            stol = op.stol(World(2, np, tname=tname), [mk_exact(np, tname, sp, None) for sp in operands], pr, E, operands)
        m = _cmp(tname, res['sstruct'], res['sleaves'], ES, stol, 'secure-scalar version')
        if m: return m
    return None


def ck_case(args, res, exc):
    if exc is not None:
        k = classify_exc(args, exc)
        msg = f'unexpected {type(exc).__name__}: {exc}'
        return ('class', k, msg) if k else msg
    m = check_res(args, res)
    if m is None or m is True: return None
    if isinstance(m, tuple): return m
    k = classify_msg(args, res, m)
    return ('class', k, m) if k else m


def classify_exc(args, exc):
    """class keys of exceptions on delimited classes of inputs (strict contract kept; see report)"""
    for pred, key in EXC_CLASSES:
        try:
            if pred(args, exc): return key
        except Exception:
            pass
    return None


def classify_msg(args, res, msg):
    for pred, key in MSG_CLASSES:
        try:
            if pred(args, res, msg): return key
        except Exception:
            pass
    return None


def _all_zero_dim(args):
    """elementwise operation whose array operands are all 0-dimensional (the other operand, if any, a scalar: explicit, or the constant inside np_pow / _rec)"""
    ops = args[2]
    return args[1] in ELEMENTWISE and any(sp[0] == 'A' for sp in ops) and all(sp[1] == () for sp in ops)


def _shape1_for_0d(args, res, msg):
    return _all_zero_dim(args) and ('PLACEHOLDER-SHAPE the placeholder declares shape (1,)' in msg or 'shape (1,), NumPy gives ()' in msg)


def _empty_float_operand(args, exc):
    return (args[0][0] == 'x' and isinstance(exc, ValueError) and 'vectorize' in str(exc)
            and any(sp[0] in 'AN' and math.prod(sp[1]) == 0 and sp[3] not in ('i', 'b', 'p', 'e') for sp in args[2]))


ELEMENTWISE = ('add', 'sub', 'mul', 'div', 'div_exact', 'pow', 'lshift', 'abs', 'lt', 'le', 'eq', 'ne', 'ge', 'gt', 'minimum', 'maximum', 'where', 'if_swap')

# delimited classes of failing inputs on the unchanged tree (the strict contract is kept; listed in known_findings.txt by class key)
EXC_CLASSES = [
    (lambda a, e: a[1] in ('div', 'div_exact') and a[0][0] in 'if' and a[2][1][0] == 'S' and a[2][0][0] == 'A', 'int-or-field-array-divided-by-secure-scalar'),
    (_empty_float_operand, 'fxp-array-from-empty-float-ndarray'),
    (lambda a, e: a[1] == 'det' and a[0][0] == 'f' and isinstance(e, TypeError) and 'finite field element required' in str(e), 'det-of-secure-field-array:TypeError'),
    (lambda a, e: (a[1] in _CMP or a[1] in ('minimum', 'maximum')) and a[2][0][0] == 'S' and a[2][1][0] == 'A' and isinstance(e, (AssertionError, AttributeError, TypeError)),
     'secure-scalar-compared-with-secure-array:exception'),
    (lambda a, e: a[1] == 'aminmax' and a[3][3] is True and isinstance(a[3][2], int) and a[3][2] % len(a[2][0][1]) == 0 and isinstance(e, UnboundLocalError),
     'amin-amax:axis-0-with-keepdims:UnboundLocalError'),
    (lambda a, e: a[1] == 'argminmax' and a[3][2] is not None and a[2][0][1][a[3][2]] == 1 and math.prod(a[2][0][1]) > 1 and isinstance(e, ValueError) and 'cannot reshape array of size 1' in str(e),
     'argmin-argmax:axis-of-length-1-with-several-rows:ValueError'),
    (lambda a, e: a[1] in ('prod', 'allany') and math.prod(a[2][0][1]) == 0 and isinstance(e, (IndexError, ZeroDivisionError)), 'prod-all-any:empty-array:exception'),
    (lambda a, e: _split_by_indices(a) and isinstance(e, IndexError), 'split:index-list:wrong-number-of-parts'),
    (lambda a, e: a[1] == 'np.hsplit' and len(a[2][0][1]) == 1 and isinstance(e, IndexError), 'hsplit:1-D-array:IndexError'),
    (lambda a, e: a[1] == 'lsb' and a[2][0][1] == () and isinstance(e, TypeError) and 'reshape' in str(e), 'np_lsb:0-dim-array:TypeError'),
    (lambda a, e: a[1] == 'matmul' and a[0][0] == 'x' and a[2][0][0] == 'N' and len(a[2][0][1]) == 1 and len(a[2][1][1]) == 1 and isinstance(e, TypeError) and 'finite field element required' in str(e),
     'fxp:public-1d-ndarray-matmul-secure-1d-array:TypeError'),
    (lambda a, e: a[1] in ('to_bits', 'bits_roundtrip') and a[0][0] == 'f' and _prime_factor(int(a[0][1:]))[1] == 1 and math.prod(a[2][0][1]) == 0 and isinstance(e, IndexError),
     'prime-field-to_bits:empty-array:IndexError'),
]


def _split_by_indices(args):
    return args[1] in ('np.split', 'np.hsplit', 'np.vsplit', 'np.dsplit') and isinstance(args[3][0][0], list)


def _rot90_even(args, res, msg):
    if args[1] != 'np.rot90' or 'PLACEHOLDER-SHAPE' not in msg: return False
    pargs = args[3][0]
    k = pargs[0] if pargs else 1
    return k % 2 == 0


def _stack_negative_axis(args, res, msg):
    return args[1] == 'np.stack' and 'PLACEHOLDER-SHAPE' in msg and dict(args[3][1]).get('axis', 0) < 0


def _argm_axis_order(args, res, msg):
    """index / extreme-value output of argmin/argmax for >= 3 dimensions along an axis that is not one of the last two: np_swapaxes(axis, -1) permutes the remaining axes"""
    if args[1] != 'argminmax' or 'element' not in msg: return False
    s, axis = args[2][0][1], args[3][2]
    return axis is not None and len(s) >= 3 and axis % len(s) < len(s) - 2


def _argm_values_2d(args, res, msg):
    if args[1] != 'argminmax' or not msg.startswith('result[1]: shape'): return False
    which, form, axis, keepdims, unary, only = args[3]
    return axis is not None and not keepdims and not only and f'shape ({math.prod(args[2][0][1]) // args[2][0][1][axis]}, 1)' in msg


def _reflected_compare(args, res, msg):
    """np.less / less_equal / greater / greater_equal whose FIRST operand is public (np.less(2, a), np.array(..) < a): SecureObject.__array_ufunc__ evaluates op(a, public)"""
    tname, opn, ops, pr = args
    return opn in ('lt', 'le', 'ge', 'gt') and ops[0][0] in 'PN' and ops[1][0] == 'A' and (pr[0] == 'ufunc' or ops[0][0] == 'N') and 'element' in msg


MSG_CLASSES = [
    (_reflected_compare, 'comparison-ufunc-public-first-operand:operands-swapped'),
    (_argm_axis_order, 'argmin-argmax:ndim>=3-axis-before-the-last-two:remaining-axes-permuted'),
    (_argm_values_2d, 'argmin-argmax:extreme-values-without-keepdims:shape-(n,1)-instead-of-1D'),
    (lambda a, r, m: a[1] == 'find' and math.prod(a[2][0][1]) == 0 and 'shape ()' in m, 'find:empty-array:scalar-instead-of-array'),
    (lambda a, r, m: a[0][0] == 'x' and a[1] in JOINS and any(sp[0] == 'N' for sp in a[2]) and ('element' in m or 'integral flag True' in m),
     'fxp-join-with-public-ndarray:public-values-not-scaled'),
    (lambda a, r, m: a[0][0] == 'x' and a[1] == 'roll_secret' and 'element' in m, 'fxp-roll-with-secret-shift:result-scaled-by-2^f'),
    (lambda a, r, m: a[0][0] == 'f' and 'OPENED-TYPE' in m and a[1] in ('getitem', 'matmul'), 'field:secure-scalar-holds-0-dim-array'),
    (lambda a, r, m: a[0][0] == 'x' and a[1] == 'sum' and a[3][3] is not None and 'integral flag True' in m, 'fxp-sum-with-non-integral-initial:integral-flag-True'),
    (lambda a, r, m: a[0][0] == 'x' and a[1] == 'np.dstack' and 'INTEGRAL-FLAG' in m, 'fxp-dstack:integral-flag-None'),
    (_rot90_even, 'rot90:even-k:placeholder-shape-with-axes-swapped'),
    (_stack_negative_axis, 'stack:negative-axis:placeholder-shape'),
    (lambda a, r, m: _split_by_indices(a) and 'expected a sequence of' in m, 'split:index-list:wrong-number-of-parts'),
    (_shape1_for_0d, '0-dim-array-operands:result-shape-(1,)'),
]
NOFLAG_OPS = ('trunc',)
JOINS = ('np.concatenate', 'np.stack', 'np.hstack', 'np.vstack', 'np.dstack', 'np.column_stack', 'np.append', 'np.block')


# ================================================================================================ operations
class Op:
    def __init__(s, name, fn, ofn=None, sfn=None, scalar=False, tol=None, stol=None, itol=None):
        s.name, s.fn, s.ofn, s.sfn, s.scalar, s.tol, s.stol, s.itol = name, fn, ofn, sfn, scalar, tol, stol, itol


OPS = {}


def defop(name, **kw):
    def deco(fn):
        OPS[name] = Op(name, fn, **kw)
        return fn
    return deco


def _absmax(np, x):
    """max |entry| of an exact array or scalar (0 for empty)"""
    if isinstance(x, np.ndarray):
        return max((abs(Fraction(v)) for v in x.reshape(-1)), default=Fraction(0))
    return abs(Fraction(x))


def _tree_tol(k, M):
    """any product tree over k factors of magnitude <= M (>= 1), every multiplication within 1 unit (error terms of second order: factor 2)"""
    M = max(Fraction(1), M)
    return 2 * max(k - 1, 0) * M ** max(k - 1, 0)


# ------------------------------------------------------------------ elementwise arithmetic
import operator as _o

_BIN = {'add': (_o.add, 'add'), 'sub': (_o.sub, 'subtract'), 'mul': (_o.mul, 'multiply'), 'div': (_o.truediv, 'divide')}


def _binop(name):
    pyop, uname = _BIN[name]

    def fn(w, xs, pr):
        a, b = xs
        form = pr[0]
        if w.n == 1:
            if form == 'ufunc': return getattr(w.np, uname)(a, b)
            if form == 'mpc': return getattr(w.mpc, 'np_' + uname)(a, b)
            return pyop(a, b)
        return w.ew(pyop, a, b)
    return fn


for _n in ('add', 'sub', 'mul', 'div'):
    OPS[_n] = Op(_n, _binop(_n), scalar=True)


def _is_pubfloat(sp):
    return sp[0] in 'PN' and sp[3] not in ('i', 'b', 'p', 'e') and sp[3][0] != 'P'


def _tol_mul(w, xs, pr, E, operands):
    """product: 1 unit; with a public float factor: 2(1+|x|) units for the secret factor x"""
    a, b = xs
    if _is_pubfloat(operands[1]): return w.ew(lambda x, y: 2 * (1 + abs(Fraction(x))), a, b)
    if _is_pubfloat(operands[0]): return w.ew(lambda x, y: 2 * (1 + abs(Fraction(y))), a, b)
    return 1


OPS['mul'].tol = _tol_mul


def _tol_div(w, xs, pr, E, operands):
    a, b = xs
    return w.ew(lambda x, y: 16 * (1 + abs(Fraction(x))) + 2 * abs(Fraction(x) / Fraction(y)), a, b)


OPS['div'].tol = _tol_div


@defop('neg', scalar=True)
def _neg(w, xs, pr):
    a, = xs
    if w.n == 1:
        return w.np.negative(a) if pr[0] == 'ufunc' else -a
    return w.ew(_o.neg, a)


@defop('div_exact', scalar=True)
def _div_exact(w, xs, pr):
    """secure integers: (q*b)/b (division is exact in the field when the divisor divides)"""
    q, b = xs
    if w.n == 1: return (q * b) / b
    if w.n == 3: return w.ew(lambda x, y: (x * y) / y, q, b)
    return w.ew(lambda x, y: x, q, b)


def _tol_pow(w, xs, pr, E, operands):
    a, = xs
    e = pr[0]
    if e < 0: return w.ew(lambda x: 16 * 2 + 2 * abs(1 / Fraction(x)) + _tree_tol(-e, abs(1 / Fraction(x)) + 1) * 20, a)
    return _tree_tol(e, _absmax(w.np, a))


@defop('pow', scalar=True, tol=_tol_pow)
def _pow(w, xs, pr):
    a, = xs
    e = pr[0]
    if w.n == 1:
        return w.np.pow(a, e) if pr[1] == 'ufunc' else a ** e
    if w.n == 2 and w.kind in 'ix' and e >= 0: return w.ew(lambda x: x ** e, a)
    return w.ew(lambda x: x ** e, a)


@defop('rpow')
def _rpow(w, xs, pr):
    """public integer base, secret nonnegative integral exponents"""
    a, = xs
    base = pr[0]
    if w.n == 1:
        return w.np.pow(base, a) if pr[1] == 'ufunc' else base ** a
    if w.n == 3: return w.ew(lambda x: base ** x, a)
    return w.ew(lambda x: Fraction(base) ** int(x) if w.kind == 'x' else base ** int(x), a)


@defop('lshift', scalar=True)
def _lshift(w, xs, pr):
    a, k = xs
    if w.n == 1:
        return w.np.left_shift(a, k) if pr[0] == 'ufunc' else a << k
    if w.n == 3: return w.ew(lambda x, s: x << int(s), a, k)
    return w.ew(lambda x, s: x * 2 ** int(s), a, k)


# ------------------------------------------------------------------ matmul and relatives
def _tol_inner(w, xs, pr, E, operands):
    a, b = xs
    n = a.shape[-1] if getattr(a, 'ndim', 0) else 1
    return max(n, 1)


@defop('matmul', scalar=True, tol=_tol_inner)
def _matmul(w, xs, pr):
    a, b = xs
    form = pr[0]
    if w.n == 1:
        if form == 'self': return a @ a
        if form == 'np': return w.np.matmul(a, b)
        if form == 'mpc': return w.mpc.np_matmul(a, b)
        return a @ b
    if form == 'self': b = a
    return _omatmul(w.np, a, b, w)


def _omatmul(np, a, b, w):
    """matrix product of object arrays by the definition (np.matmul semantics incl. 1-D operands and batch broadcasting)"""
    if a.ndim == 0 or b.ndim == 0: raise ValueError('matmul: 0-d operand')
    a2 = a.reshape(1, -1) if a.ndim == 1 else a
    b2 = b.reshape(-1, 1) if b.ndim == 1 else b
    if a2.shape[-1] != b2.shape[-2]: raise ValueError('matmul: inner dimensions differ')
    batch = np.broadcast_shapes(a2.shape[:-2], b2.shape[:-2])
    a3 = np.broadcast_to(a2, batch + a2.shape[-2:]); b3 = np.broadcast_to(b2, batch + b2.shape[-2:])
    out = np.empty(batch + (a2.shape[-2], b2.shape[-1]), dtype=object)
    zero = w.const(0)
    for idx in np.ndindex(out.shape):
        bi, i, j = idx[:-2], idx[-2], idx[-1]
        s = None
        for k in range(a2.shape[-1]):
            t = a3[bi + (i, k)] * b3[bi + (k, j)]
            s = t if s is None else s + t
        out[idx] = zero if s is None else s
    if a.ndim == 1: out = out.reshape(out.shape[:-2] + out.shape[-1:])
    if b.ndim == 1: out = out.reshape(out.shape[:-1])
    return out


@defop('outer', scalar=True, tol=lambda w, xs, pr, E, ops: 1)
def _outer(w, xs, pr):
    a, b = xs
    if w.n == 1: return w.mpc.np_outer(a, b) if pr[0] == 'mpc' else w.np.outer(a, b)
    return w.ew(_o.mul, a.reshape(-1, 1), b.reshape(1, -1))


@defop('convolve', scalar=True, tol=lambda w, xs, pr, E, ops: max(1, min(len(xs[0]), len(xs[1]))))
def _convolve(w, xs, pr):
    a, b = xs
    mode = pr[0]
    if w.n == 1: return w.np.convolve(a, b, mode=mode)
    m, n = len(a), len(b)
    full = []
    for k in range(m + n - 1):
        s = None
        for i in range(m):
            if 0 <= k - i < n:
                t = a[i] * b[k - i]
                s = t if s is None else s + t
        full.append(s)
    if mode == 'same':
        lo = (min(m, n) - 1) // 2; full = full[lo:lo + max(m, n)]
    elif mode == 'valid':
        full = full[min(m, n) - 1:max(m, n)]
    return objarr(w.np, full, (len(full),))


def _tol_vander(w, xs, pr, E, operands):
    a, = xs
    N = pr[0] if pr[0] is not None else len(a)
    return _tree_tol(max(N - 1, 1), _absmax(w.np, a))


@defop('vander', tol=_tol_vander)
def _vander(w, xs, pr):
    a, = xs
    N, inc = pr
    if w.n == 1: return w.np.vander(a, N, increasing=inc)
    n = len(a)
    N = n if N is None else N
    one = w.const(1)
    cols = []
    for j in range(N):
        col = []
        for x in a:
            v = one
            for _ in range(j): v = v * x
            col.append(v)
        cols.append(col)
    if not inc: cols.reverse()
    out = w.np.empty((n, N), dtype=object)
    for j, col in enumerate(cols):
        for i, v in enumerate(col): out[i, j] = v
    return out


@defop('det')
def _det(w, xs, pr):
    a, = xs
    if w.n == 1: return w.np.linalg.det(a)

    def det(m):
        n = len(m)
        if n == 0: return w.const(1)
        if n == 1: return m[0][0]
        s = None
        for j in range(n):
            minor = [row[:j] + row[j + 1:] for row in m[1:]]
            t = m[0][j] * det(minor)
            if j % 2: t = -t
            s = t if s is None else s + t
        return s
    return det([list(r) for r in a])


# ------------------------------------------------------------------ comparisons and selection
_CMP = {'lt': (_o.lt, 'less'), 'le': (_o.le, 'less_equal'), 'eq': (_o.eq, 'equal'), 'ne': (_o.ne, 'not_equal'), 'ge': (_o.ge, 'greater_equal'), 'gt': (_o.gt, 'greater')}


def _cmpop(name):
    pyop, uname = _CMP[name]

    def fn(w, xs, pr):
        a, b = xs
        form = pr[0]
        if w.n == 1:
            if form == 'ufunc': return getattr(w.np, uname)(a, b)
            if form == 'mpc': return getattr(w.mpc, 'np_' + uname)(a, b)
            return pyop(a, b)
        if w.n == 3: return w.ew(pyop, a, b)
        return w.ew(lambda x, y: int(pyop(x, y)), a, b)
    return fn


for _n in _CMP:
    OPS[_n] = Op(_n, _cmpop(_n), scalar=True)


def _sgnval(x, LT, EQ):
    if LT: return int(x < 0)
    if EQ: return int(x == 0)
    return (x > 0) - (x < 0)


@defop('sgn', scalar=True)
def _sgn(w, xs, pr):
    a, = xs
    l, LT, EQ = pr
    if w.n == 1: return w.mpc.np_sgn(a, l=l, LT=LT, EQ=EQ)
    if w.n == 3: return w.ew(lambda x: w.mpc.sgn(x, l=l, LT=LT, EQ=EQ), a)
    return w.ew(lambda x: _sgnval(x, LT, EQ), a)


@defop('abs', scalar=True)
def _abs(w, xs, pr):
    a, = xs
    form = pr[0]
    if w.n == 1:
        if form == 'ufunc': return w.np.absolute(a)
        if form == 'mpc': return w.mpc.np_absolute(a, l=pr[1])
        return abs(a)
    return w.ew(abs, a)


@defop('minimum', scalar=True)
def _minimum(w, xs, pr):
    a, b = xs
    if w.n == 1: return w.np.minimum(a, b) if pr[0] == 'ufunc' else w.mpc.np_minimum(a, b)
    if w.n == 3: return w.ew(lambda x, y: w.mpc.min(x, y), a, b)
    return w.ew(min, a, b)


@defop('maximum', scalar=True)
def _maximum(w, xs, pr):
    a, b = xs
    if w.n == 1: return w.np.maximum(a, b) if pr[0] == 'ufunc' else w.mpc.np_maximum(a, b)
    if w.n == 3: return w.ew(lambda x, y: w.mpc.max(x, y), a, b)
    return w.ew(max, a, b)


@defop('where', scalar=True)
def _where(w, xs, pr):
    c, a, b = xs
    if w.n == 1: return w.np.where(c, a, b) if pr[0] == 'np' else w.mpc.np_where(c, a, b)
    if w.n == 3: return w.ew(lambda z, x, y: w.mpc.if_else(z, x, y), c, a, b)
    return w.ew(lambda z, x, y: x if z == 1 else y, c, a, b)


@defop('if_swap', scalar=True)
def _if_swap(w, xs, pr):
    c, a, b = xs
    if w.n == 1: return tuple(w.mpc.np_if_swap(c, a, b))
    if w.n == 3:
        r = w.ew(lambda z, x, y: tuple(w.mpc.if_swap(z, x, y)), c, a, b)
        return (w.ew(lambda t: t[0], r), w.ew(lambda t: t[1], r))
    return (w.ew(lambda z, x, y: y if z == 1 else x, c, a, b), w.ew(lambda z, x, y: x if z == 1 else y, c, a, b))


@defop('is_zero_public')
def _izp(w, xs, pr):
    a, = xs
    if w.n == 1: return w.mpc.np_is_zero_public(a)
    return w.ew(lambda x: int(x == 0), a)


def _along(w, a, axis, fn, keep=None):
    """apply fn(list) -> value (or list of the same length when keep == 'same') along an axis of an object array; axis None: flattened"""
    np = w.np
    if axis is None:
        r = fn(list(a.reshape(-1)))
        if keep == 'same': return objarr(np, r, (a.size,))
        return r
    b = np.moveaxis(a, axis, -1)
    rows = b.reshape(-1, b.shape[-1]) if b.size or b.shape[-1] else b.reshape(math.prod(b.shape[:-1]), b.shape[-1])
    if keep == 'same':
        out = np.empty(rows.shape, dtype=object)
        for i in range(rows.shape[0]):
            r = fn(list(rows[i]))
            for j, v in enumerate(r): out[i, j] = v
        return np.moveaxis(out.reshape(b.shape), -1, axis)
    out = np.empty(rows.shape[0], dtype=object)
    for i in range(rows.shape[0]): out[i] = fn(list(rows[i]))
    return out.reshape(b.shape[:-1])


@defop('sort', scalar=True)
def _sort(w, xs, pr):
    a, = xs
    form, axis, desc = pr
    if w.n == 1:
        kw = {} if not desc else {'key': (lambda x: -x)}
        if form == 'np' and not desc: return w.np.sort(a, axis=axis)
        if form == 'meth': return a.sort(axis=axis, **kw)
        return w.mpc.np_sort(a, axis=axis, **kw)
    if w.n == 3: return _along(w, a, axis, lambda r: w.mpc.sorted(r, reverse=desc), keep='same')
    return _along(w, a, axis, lambda r: sorted(r, reverse=desc), keep='same')


def _keep(np, r, a, axis, keepdims):
    """reshape a reduction result to NumPy's keepdims shape"""
    if not keepdims: return r
    if axis is None: shape = (1,) * a.ndim
    else:
        ax = axis if isinstance(axis, tuple) else (axis,)
        ax = [i % a.ndim for i in ax]
        shape = tuple(1 if i in ax else s for i, s in enumerate(a.shape))
    if isinstance(r, np.ndarray): return r.reshape(shape)
    out = np.empty((), dtype=object); out[()] = r
    return out.reshape(shape)


def _along_axes(w, a, axis, fn):
    """reduce over one axis, a tuple of axes, or all (None)"""
    np = w.np
    if axis is None or isinstance(axis, int): return _along(w, a, axis, fn)
    ax = sorted(i % a.ndim for i in axis)
    rest = [i for i in range(a.ndim) if i not in ax]
    b = np.transpose(a, rest + ax)
    b = b.reshape(tuple(a.shape[i] for i in rest) + (math.prod(a.shape[i] for i in ax),))
    return _along(w, b, -1, fn)


@defop('aminmax', scalar=True)
def _aminmax(w, xs, pr):
    a, = xs
    which, form, axis, keepdims = pr
    if w.n == 1:
        if form == 'np': return getattr(w.np, 'a' + which)(a, axis=axis, keepdims=keepdims)
        return getattr(w.mpc, 'np_a' + which)(a, axis=axis, keepdims=keepdims)
    f = (w.mpc.min if which == 'min' else w.mpc.max) if w.n == 3 else (min if which == 'min' else max)
    return _keep(w.np, _along_axes(w, a, axis, lambda r: f(r) if len(r) > 1 else r[0]), a, axis, keepdims)


@defop('argminmax', scalar=True)
def _argminmax(w, xs, pr):
    """params: which ('min'/'max'), form ('np': np.argmin, 'mpc': mpc.np_argmin, 'meth': a.argmin), axis, keepdims, arg_unary, arg_only"""
    a, = xs
    which, form, axis, keepdims, unary, only = pr
    np = w.np
    if w.n == 1:
        if form == 'np': return getattr(np, 'arg' + which)(a, axis=axis, keepdims=keepdims)
        kw = dict(axis=axis, keepdims=keepdims, arg_unary=unary, arg_only=only)
        r = getattr(a, 'arg' + which)(**kw) if form == 'meth' else getattr(w.mpc, 'np_arg' + which)(a, **kw)
        return r if only else tuple(r)
    pick_ = min if which == 'min' else max

    def first(r):          # index of the first occurrence of the extreme value
        if w.n == 3:
            i, m = (w.mpc.argmin if which == 'min' else w.mpc.argmax)(r)
            return (i, m)
        m = pick_(r)
        return (r.index(m), m)
    if unary:
        def uv(r):
            i, m = first(r)
            if w.n == 3: return w.mpc.unit_vector(i, len(r)) if len(r) > 1 else [type(r[0])(1)]
            return [int(j == i) for j in range(len(r))]
        u = _along(w, a, axis, uv, keep='same')
    else:
        u = _along(w, a, axis, lambda r: first(r)[0])
        u = _keep(np, u, a, axis, keepdims)
    if only: return u
    m = _keep(np, _along(w, a, axis, lambda r: first(r)[1]), a, axis, keepdims)
    if axis is not None and not keepdims: m = m.reshape(-1)          # documented: "a 1D array of minimum values ... with one entry per element of a with the given axis removed"
    return (u, m)


# ------------------------------------------------------------------ reductions
def _red_kw(axis, keepdims):
    kw = {}
    if axis != 'default': kw['axis'] = axis
    if keepdims: kw['keepdims'] = True
    return kw


@defop('sum', scalar=True)
def _sum(w, xs, pr):
    a = xs[0]
    form, axis, keepdims, init = pr
    kw = _red_kw(axis, keepdims)
    if w.n == 1:
        if init == 'S': kw['initial'] = xs[1]
        elif init is not None: kw['initial'] = init
        if form == 'meth': return a.sum(**kw)
        if form == 'mpc': return w.mpc.np_sum(a, **kw)
        return w.np.sum(a, **kw)
    ax = None if axis == 'default' else axis
    zero = w.const(0) if w.n == 2 else w.elt(0)

    def f(r):
        s = zero
        for v in r: s = s + v
        return s
    r = _keep(w.np, _along_axes(w, a, ax, f), a, ax, keepdims)
    if init is not None:
        i0 = xs[1] if init == 'S' else (w.const(init) if w.n == 2 else init)
        r = w.ew(lambda x: x + i0, r) if isinstance(r, w.np.ndarray) else r + i0
    return r


def _tol_prod(w, xs, pr, E, operands):
    a = xs[0]
    axis = pr[1]
    if axis is None: k = a.size
    else: k = math.prod(a.shape[i] for i in (axis if isinstance(axis, tuple) else (axis,)))
    return _tree_tol(k, _absmax(w.np, a))


@defop('prod', scalar=True, tol=_tol_prod)
def _prod(w, xs, pr):
    a, = xs
    form, axis = pr
    if w.n == 1:
        if form == 'mpc': return w.mpc.np_prod(a, axis=axis)
        return w.np.prod(a, axis=axis)
    one = w.const(1) if w.n == 2 else w.elt(1)

    def f(r):
        s = None
        for v in r: s = v if s is None else s * v
        return one if s is None else s
    return _along_axes(w, a, axis, f)


@defop('allany', scalar=True)
def _allany(w, xs, pr):
    a, = xs
    which, form, axis = pr
    if w.n == 1:
        if form == 'mpc': return getattr(w.mpc, 'np_' + which)(a, axis=axis)
        return getattr(w.np, which)(a, axis=axis)
    if w.n == 3: return _along_axes(w, a, axis, lambda r: getattr(w.mpc, which)(r) if r else w.cx.T(int(which == 'all')))
    return _along_axes(w, a, axis, lambda r: int(all(v == 1 for v in r)) if which == 'all' else int(any(v == 1 for v in r)))


@defop('cumsum')
def _cumsum(w, xs, pr):
    a, = xs
    form, axis, incl = pr
    if w.n == 1:
        if form == 'cumulative_sum': return w.np.cumulative_sum(a, axis=axis, include_initial=incl)
        return w.np.cumsum(a, axis=axis)
    zero = w.const(0)

    def f(r):
        out, s = ([zero] if incl else []), zero
        for v in r:
            s = s + v; out.append(s)
        return out
    np = w.np
    if a.ndim == 0: a = a.reshape(1)
    if axis is None: return objarr(np, f(list(a.reshape(-1))), (a.size + (1 if incl else 0),))
    b = np.moveaxis(a, axis, -1)
    out = np.empty(b.shape[:-1] + (b.shape[-1] + (1 if incl else 0),), dtype=object)
    for idx in np.ndindex(b.shape[:-1]):
        for j, v in enumerate(f(list(b[idx]))): out[idx + (j,)] = v
    return np.moveaxis(out, -1, axis)


@defop('trace')
def _trace(w, xs, pr):
    a, = xs
    form, offset, ax1, ax2 = pr
    if w.n == 1:
        if form == 'meth': return a.trace(offset, ax1, ax2)
        return w.np.trace(a, offset=offset, axis1=ax1, axis2=ax2)
    d = w.np.diagonal(a, offset=offset, axis1=ax1, axis2=ax2)
    zero = w.const(0)

    def f(r):
        s = zero
        for v in r: s = s + v
        return s
    return _along(w, d, -1, f)


# ------------------------------------------------------------------ shape manipulation (data movement only: NumPy on the object array is the oracle)
def _np_generic(name, world1=None):
    """operation that is the NumPy function `name` in every world; params = (args tuple, kwargs items tuple)"""
    def fn(w, xs, pr):
        pargs, kw = pr[0], dict(pr[1])
        f = getattr(w.np, name)
        if w.n == 1 and world1: return world1(w, xs, pargs, kw)
        return f(*xs, *pargs, **kw)
    return fn


for _n in ('reshape', 'expand_dims', 'squeeze', 'transpose', 'swapaxes', 'flip', 'fliplr', 'flipud', 'roll', 'rot90', 'diag', 'diagflat', 'diagonal', 'copy'):
    OPS['np.' + _n] = Op('np.' + _n, _np_generic(_n))


def _seq_generic(name):
    """NumPy function taking a sequence of arrays first"""
    def fn(w, xs, pr):
        pargs, kw = pr[0], dict(pr[1])
        return getattr(w.np, name)(tuple(xs), *pargs, **kw)
    return fn


for _n in ('concatenate', 'stack', 'hstack', 'vstack', 'dstack', 'column_stack'):
    OPS['np.' + _n] = Op('np.' + _n, _seq_generic(_n))


def _split_generic(name):
    def fn(w, xs, pr):
        a, = xs
        pargs, kw = pr[0], dict(pr[1])
        pargs = tuple(w.np.array(p) if isinstance(p, list) else p for p in pargs)
        return list(getattr(w.np, name)(a, *pargs, **kw))
    return fn


for _n in ('split', 'hsplit', 'vsplit', 'dsplit'):
    OPS['np.' + _n] = Op('np.' + _n, _split_generic(_n))


@defop('np.append')
def _append(w, xs, pr):
    a, b = xs
    return w.np.append(a, b, axis=pr[0])


@defop('np.block')
def _block(w, xs, pr):
    """params: nesting pattern as nested lists of operand indices"""
    def build(p): return [build(q) for q in p] if isinstance(p, list) else xs[p]
    return w.np.block(build(pr[0]))


@defop('meth')
def _meth(w, xs, pr):
    """array method / property of SecureArray with NumPy's ndarray as oracle: params (name, args, kwargs items)"""
    a = xs[0]
    name, pargs, kw = pr[0], pr[1], dict(pr[2])
    if name == 'T': return a.T
    if name == 'len': return len(a)
    if name == 'iter': return list(a)
    if name == 'flat': return list(a.flat)
    if name == 'ndim': return a.ndim
    if name == 'size': return int(a.size)
    if name == 'bool': return bool(a) if w.n == 1 else bool(a.size)
    if name == 'tolist':
        r = a.tolist()
        return r
    return getattr(a, name)(*pargs, **kw)


def _key(np, k):
    """index key from literals: ('s', start, stop, step) slice, 'E' Ellipsis, 'N' newaxis, ('a', list) index array, ('m', list) bool mask, int, tuple of these"""
    if isinstance(k, tuple) and k and k[0] == 's': return slice(k[1], k[2], k[3])
    if isinstance(k, tuple) and k and k[0] == 'a': return np.array(k[1], dtype=int)
    if isinstance(k, tuple) and k and k[0] == 'm': return np.array(k[1], dtype=bool)
    if isinstance(k, tuple) and k and k[0] == 't': return tuple(_key(np, q) for q in k[1:])
    if k == 'E': return Ellipsis
    if k == 'N': return None
    return k


@defop('getitem')
def _getitem(w, xs, pr):
    a, = xs
    key = _key(w.np, pr[0])
    if w.n == 1 and pr[1] == 'mpc': return w.mpc.np_getitem(a, key)
    return a[key]


@defop('update')
def _update(w, xs, pr):
    a, v = xs
    key = _key(w.np, pr[0])
    if w.n == 1: return w.mpc.np_update(a, key, v)
    a = a.copy()
    a[key] = v
    return a


@defop('fromlist')
def _fromlist(w, xs, pr):
    a, = xs
    if w.n == 1: return w.mpc.np_fromlist(w.mpc.np_tolist(a) if pr[0] == 'mpc' else a.tolist())
    return a.copy()


@defop('roll_secret', tol=lambda w, xs, pr, E, ops: 0)
def _roll_secret(w, xs, pr):
    a, s = xs
    if w.n == 1: return w.np.roll(a, s)
    return w.np.roll(a, int(s))


# ------------------------------------------------------------------ input / output
@defop('io')
def _io(w, xs, pr):
    a, = xs
    how = pr[0]
    if w.n != 1: return [a] if how == 'input_all' else a
    mpc = w.mpc
    if how == 'input0': return mpc.input(a, senders=0)
    if how == 'input_all': return mpc.input(a)
    if how == 'input_list': return mpc.input([a], senders=0)[0]
    if how == 'reshare': return mpc._reshare(a)
    if how == 'output_list': return a
    return a


# ------------------------------------------------------------------ bits
def _bits_of(v, l):
    return [(int(v) >> i) & 1 for i in range(l)]


@defop('to_bits', scalar=True)
def _to_bits(w, xs, pr):
    a, = xs
    l = pr[0]
    np = w.np
    if w.n == 1: return w.mpc.np_to_bits(a, l=l)
    L = l
    if L is None: L = _bitlen(w.tname) if w.kind != 'f' else (int(w.tname[1:]) - 1).bit_length()
    out = np.empty(a.shape + (L,), dtype=object)
    for idx in np.ndindex(a.shape):
        if w.n == 3: bs = w.mpc.to_bits(a[idx], l)
        elif w.kind == 'f': bs = _bits_of(a[idx].v, L)
        else: bs = _bits_of(Fraction(a[idx]) * 2 ** w.f, L)          # two's complement bits of the scaled integer
        for j, b in enumerate(bs): out[idx + (j,)] = b
    return out


@defop('from_bits', scalar=True)
def _from_bits(w, xs, pr):
    a, = xs
    np = w.np
    if w.n == 1: return w.mpc.np_from_bits(a)
    out = np.empty(a.shape[:-1], dtype=object)
    for idx in np.ndindex(a.shape[:-1]):
        r = list(a[idx])
        if w.n == 3: out[idx] = w.mpc.from_bits(r)
        elif w.kind == 'f': out[idx] = FE(w.of, w.of.from_int(sum(int(b.v) << i for i, b in enumerate(r))))
        else: out[idx] = sum(int(b) << i for i, b in enumerate(r))
    return out


@defop('bits_roundtrip')
def _bits_rt(w, xs, pr):
    a, = xs
    if w.n == 1: return w.mpc.np_from_bits(w.mpc.np_to_bits(a))
    return a


@defop('trunc', scalar=True, tol=lambda w, xs, pr, E, ops: 1, itol=1)
def _trunc(w, xs, pr):
    """secure integers / fixed point: a / 2^f up to one unit (probabilistic rounding); compared in units of the result"""
    a, = xs
    f = pr[0]
    if w.n == 1: return w.mpc.np_trunc(a, f=f)
    if w.n == 3: return w.ew(lambda x: w.mpc.trunc(x, f=f), a)
    return w.ew(lambda x: Fraction(x) / 2 ** (w.f if f is None else f), a)


@defop('lsb', scalar=True)
def _lsb(w, xs, pr):
    a, = xs
    if w.n == 1: return w.mpc.np_lsb(a)
    if w.n == 3: return w.ew(lambda x: w.mpc.lsb(x), a)
    return w.ew(lambda x: int(Fraction(x) * 2 ** w.f) % 2 if w.kind == 'i' else Fraction(int(Fraction(x) * 2 ** w.f) % 2, 1), a)


@defop('unit_vector', scalar=True)
def _unit_vector(w, xs, pr):
    a, = xs
    n = pr[0]
    if w.n == 1: return w.mpc.np_unit_vector(a, n)
    if w.n == 3: return objarr(w.np, w.mpc.unit_vector(a, n), (n,))
    return objarr(w.np, [int(i == int(a) % n) for i in range(n)], (n,))


@defop('find')
def _find(w, xs, pr):
    """np_find along the last axis: index of the first occurrence of the public value s (bits=True: 0/1 data), e if absent"""
    a, = xs
    s, bits, e = pr
    if w.n == 1:
        kw = {} if e == 'default' else {'e': e}
        return w.mpc.np_find(a, s, bits=bits, **kw)

    def f(r):
        for i, v in enumerate(r):
            if v == s: return i
        return len(r) if e == 'default' else e
    return _along(w, a, -1, f)


# ================================================================================================ input domains
def Tq(tier, q, th): return q if tier == 'quick' else th


def shapes_upto(maxrank, sizes):
    out = []
    for r in range(maxrank + 1):
        out += list(itertools.product(sizes, repeat=r))
    return out


def _bvariants(shape):
    """shapes that broadcast to `shape`: drop leading axes, set any axes to 1"""
    out = set()
    for d in range(len(shape) + 1):
        s = shape[d:]
        for mask in itertools.product((0, 1), repeat=len(s)):
            out.add(tuple(1 if m else a for a, m in zip(s, mask)))
    return sorted(out)


_BP = {}


def bpairs(sizes=(0, 1, 2, 3), maxrank=3):
    """all pairs of shapes (rank <= maxrank, axis sizes from `sizes`) that broadcast with each other, in a fixed order"""
    key = (sizes, maxrank)
    if key not in _BP:
        seen, out = set(), []
        for r in shapes_upto(maxrank, sizes):
            vs = _bvariants(r)
            for a in vs:
                for b in vs:
                    # the pair must broadcast to r: in every axis one of them carries the size
                    ra = (1,) * (len(r) - len(a)) + a; rb = (1,) * (len(r) - len(b)) + b
                    if all(max(x, y) == z or (0 in (x, y) and z == 0) for x, y, z in zip(ra, rb, r)) and (a, b) not in seen:
                        try:
                            import numpy
                            if numpy.broadcast_shapes(a, b) != r: continue
                        except ValueError:
                            continue
                        seen.add((a, b)); out.append((a, b))
        _BP[key] = out
    return _BP[key]


CORNER_PAIRS = [((), ()), ((0,), (0,)), ((1,), (0,)), ((3,), ()), ((2, 3), (3,)), ((2, 1), (1, 3)), ((2, 1, 3), (4, 1)), ((3, 1, 2), (3, 2, 1)), ((0, 3), (1, 3)),
                ((2, 0, 2), (1, 2)), ((1,), (2, 2, 2)), ((4, 4), (4, 4)), ((3, 3, 3), (3, 3, 3))]


def pick(lst, n, salt):
    """deterministic sample of n entries"""
    if n >= len(lst): return list(lst)
    return random.Random(f'pick|{salt}').sample(lst, n)


def pair_sample(tier, salt, nq, nt, corners=True):
    ps = bpairs()
    return (CORNER_PAIRS if corners or tier != 'quick' else CORNER_PAIRS[:4]) + pick(ps, Tq(tier, nq, nt), salt)


KIND_TYPES = {'i': ('i16',), 'x': ('x32.16',), 'f': ('f11', 'f16')}
KIND_TYPES_TH = {'i': ('i16', 'i32'), 'x': ('x32.16', 'x24.12'), 'f': ('f11', 'f16', 'f9', 'f257')}          # fixed point: l <= 2f+1 (division of wider types is a listed C02 finding)


def types_of(kind, tier): return (KIND_TYPES if tier == 'quick' else KIND_TYPES_TH)[kind]


def _modes(kind, j):
    """value modes of a pair of operands, rotating with j (fixed point: integral / non-integral combinations)"""
    if kind == 'x': return (('m', 'm'), ('i', 'm'), ('m', 'i'), ('i', 'i'))[j % 4]
    return ('m', 'm')


OPERAND_FORMS = [('A', 'A'), ('A', 'S'), ('S', 'A'), ('A', 'P'), ('P', 'A'), ('A', 'N'), ('N', 'A')]


def _mkops(k1, k2, s1, s2, j, m1, m2):
    if k1 in 'SP': s1 = ()
    if k2 in 'SP': s2 = ()
    return ((k1, s1, j, m1), (k2, s2, j + 1, m2))


def in_arith(kind):
    def gen_(tier):
        j = 0
        for tname in types_of(kind, tier):
            for opn in ('add', 'sub', 'mul'):
                for form in ('op', 'ufunc', 'mpc'):
                    for k1, k2 in OPERAND_FORMS:
                        if form == 'mpc' and (k1, k2) != ('A', 'A'): continue          # mpc.np_add etc. take coerced operands
                        for s1, s2 in pair_sample(tier, f'{opn}{form}{k1}{k2}', 6, 60):
                            j += 1
                            m1, m2 = _modes(kind, j)
                            if kind == 'x' and 'N' in (k1, k2) and j % 3 == 0:
                                m1, m2 = ('F' if k1 == 'N' else m1), ('F' if k2 == 'N' else m2)
                            yield (tname, opn, _mkops(k1, k2, s1, s2, j, m1, m2), (form,))
            for form in ('op', 'ufunc'):
                for s1 in pick(shapes_upto(3, (0, 1, 2, 3)), Tq(tier, 12, 85), 'neg'):
                    j += 1
                    yield (tname, 'neg', (('A', s1, j, _modes(kind, j)[0]),), (form,))
            # powers with a public exponent
            exps = {'i': (0, 1, 2, 3, 5), 'x': (0, 1, 2, 3, -1), 'f': (0, 1, 2, 3, 7, -1, -2, 254)}[kind]
            for e in exps:
                for form in ('op', 'ufunc'):
                    for s1 in pick(shapes_upto(3, (0, 1, 2, 3)), Tq(tier, 4, 30), f'pow{e}'):
                        j += 1
                        mode = 'nz' if e < 0 else ('u' if kind == 'x' else 's' if kind == 'i' else 'm')
                        yield (tname, 'pow', (('A', s1, j, mode),), (e, form))
            if kind != 'f':
                for base in (2, 3):
                    for form in ('op', 'ufunc'):
                        for s1 in pick(shapes_upto(2, (0, 1, 2, 3)), Tq(tier, 3, 16), f'rpow{base}'):
                            j += 1
                            yield (tname, 'rpow', (('A', s1, j, 'e'),), (base, form))
                for form in ('op', 'ufunc'):
                    for s1, s2 in pair_sample(tier, 'lshift', 4, 40):
                        j += 1
                        yield (tname, 'lshift', (('A', s1, j, _modes(kind, j)[0]), ('P', (), j, 'e')), (form,))
                        yield (tname, 'lshift', (('A', s1, j, _modes(kind, j)[0]), ('N', s2, j, 'e')), (form,))
    return gen_


def in_div(kind):
    def gen_(tier):
        j = 0
        for tname in types_of(kind, tier):
            for form in ('op', 'ufunc'):
                for k1, k2 in OPERAND_FORMS:
                    for s1, s2 in pair_sample(tier, f'div{form}{k1}{k2}', 4, 50):
                        j += 1
                        if kind == 'i':
                            if (k1, k2) not in (('A', 'A'), ('A', 'S'), ('A', 'P'), ('A', 'N')) or form != 'op': continue
                            yield (tname, 'div_exact', _mkops(k1, k2, s1, s2, j, 's', 'nz'), (form,))
                        else:
                            yield (tname, 'div', _mkops(k1, k2, s1, s2, j, 'm', 'nz'), (form,))
    return gen_


def mm_shapes(sizes=(0, 1, 2, 3)):
    out = []
    for n in sizes:
        out.append(((n,), (n,)))
        for m in sizes:
            out += [((m, n), (n,)), ((n,), (n, m))]
            for k in sizes:
                out.append(((m, n), (n, k)))
    for b in (2, 1, 0, 3):
        for m, n, k in ((2, 3, 2), (1, 2, 3), (2, 0, 2), (0, 2, 1), (3, 1, 1), (2, 2, 2)):
            out += [((b, m, n), (n, k)), ((m, n), (b, n, k)), ((b, m, n), (b, n, k)), ((1, m, n), (b, n, k)), ((b, m, n), (1, n, k)), ((b, m, n), (n,)), ((n,), (b, n, k))]
    seen, res = set(), []
    for p in out:
        if p not in seen: seen.add(p); res.append(p)
    return res


def in_matmul(kind):
    def gen_(tier):
        j = 0
        for tname in types_of(kind, tier):
            shp = mm_shapes()
            for form in ('@', 'np', 'mpc'):
                for k1, k2 in (('A', 'A'), ('A', 'N'), ('N', 'A')):
                    if form == 'mpc' and (k1, k2) != ('A', 'A'): continue
                    for s1, s2 in pick(shp, Tq(tier, 40, len(shp)), f'mm{form}{k1}{k2}'):
                        j += 1
                        m1, m2 = _modes(kind, j)
                        if kind == 'x' and j % 5 == 0: m1, m2 = ('F' if k1 == 'N' else m1), ('F' if k2 == 'N' else m2)
                        if kind == 'i': m1 = m2 = 's' if j % 2 else 'i'
                        yield (tname, 'matmul', ((k1, s1, j, m1), (k2, s2, j + 1, m2)), (form,))
            for n in (1, 2, 3):
                for s1 in ((n, n), (2, n, n), (n,)):
                    j += 1
                    yield (tname, 'matmul', (('A', s1, j, _modes(kind, j)[0] if kind != 'i' else 's'), ('A', s1, j, 'i' if kind != 'f' else 'm')), ('self',))
                for form in ('@', 'np'):          # public 1-D @ secret 1-D and the reverse (scalar results)
                    j += 1
                    yield (tname, 'matmul', (('N', (n,), j, 'm'), ('A', (n,), j + 1, 'm')), (form,))
                    yield (tname, 'matmul', (('A', (n,), j, 'm'), ('N', (n,), j + 1, 'm')), (form,))
            vs = shapes_upto(2, (0, 1, 2, 3))
            for form in ('np', 'mpc'):
                for k1, k2 in (('A', 'A'), ('A', 'N'), ('N', 'A')):
                    if kind == 'x' and 'N' in (k1, k2): continue          # np_outer: "TODO: handle a or b public integral value" (documented restriction)
                    for s1 in pick(vs, Tq(tier, 5, len(vs)), f'outer{form}{k1}{k2}'):
                        for s2 in pick(vs, Tq(tier, 2, 6), f'outer2{s1}'):
                            j += 1
                            m1, m2 = _modes(kind, j)
                            yield (tname, 'outer', ((k1, s1, j, m1), (k2, s2, j + 1, m2)), (form,))
            for mode in ('full', 'same', 'valid'):
                for k1, k2 in (('A', 'A'), ('A', 'N'), ('N', 'A')):
                    for m in range(1, Tq(tier, 4, 6)):
                        for n in range(1, Tq(tier, 4, 6)):
                            j += 1
                            m1, m2 = _modes(kind, j)
                            yield (tname, 'convolve', ((k1, (m,), j, m1), (k2, (n,), j + 1, m2)), (mode,))
            for n in range(0, 4):
                for N in (None, 0, 1, 2, 3, 4):
                    for inc in (False, True):
                        j += 1
                        yield (tname, 'vander', (('A', (n,), j, 'u' if kind != 'f' else 'm'),), (N, inc))
        if kind != 'x':
            for tname in (('i32',) if kind == 'i' else ('f257', 'f11')):
                for n in (1, 2, 3):
                    for sd in range(Tq(tier, 6, 40)):
                        a = (tname, 'det', (('A', (n, n), 7000 + sd, 's' if kind == 'i' else 'm'),), ())
                        if _nonsingular(a): yield a
    return gen_


def _int_det(m):
    n = len(m)
    if n == 0: return 1
    if n == 1: return m[0][0]
    return sum((-1) ** c * m[0][c] * _int_det([r[:c] + r[c + 1:] for r in m[1:]]) for c in range(n))


def _nonsingular(args):
    """np_det is documented for nonsingular matrices only"""
    tname, _, (sp,), _ = args
    n = sp[1][0]
    es = gen(tname, sp)
    d = _int_det([es[i * n:(i + 1) * n] for i in range(n)])
    return d % int(tname[1:]) != 0 if tname[0] == 'f' else d != 0


CMP_FORMS = [('A', 'A'), ('A', 'S'), ('S', 'A'), ('A', 'P'), ('P', 'A'), ('A', 'N'), ('N', 'A')]


def in_compare(kind):
    def gen_(tier):
        j = 0
        types = types_of(kind, tier) + (('i64',) if kind == 'i' else ())          # SecInt(64): equality by the probabilistic _np_is_zero (l/2 > k, Blum prime)
        for tname in types:
            for opn in (('lt', 'le', 'eq', 'ne', 'ge', 'gt') if kind != 'f' else ('eq', 'ne')):
                for form in ('op', 'ufunc', 'mpc'):
                    if form == 'mpc' and opn not in ('lt', 'eq'): continue
                    for k1, k2 in CMP_FORMS:
                        if form == 'mpc' and (k1, k2) != ('A', 'A'): continue
                        for s1, s2 in pair_sample(tier, f'{opn}{form}{k1}{k2}', 3, 40, corners=opn in ('lt', 'eq')):
                            j += 1
                            mode = ('s', 's', 'w', 'i' if kind == 'x' else 's')[j % 4] if kind != 'f' else 's'
                            if tname == 'i64' and j % 3: continue
                            yield (tname, opn, _mkops(k1, k2, s1, s2, j, mode, mode), (form,))
            if kind == 'f': continue
            shp = shapes_upto(3, (0, 1, 2, 3))
            l6 = 6 + _frac(tname)          # the l of np_sgn / np_absolute bounds the scaled integer: |value| < 32
            for l, LT, EQ in ((None, False, False), (None, True, False), (None, False, True), (l6, False, False), (l6, True, False), (l6, False, True)):
                for s1 in pick(shp, Tq(tier, 6, 40), f'sgn{l}{LT}{EQ}'):
                    j += 1
                    yield (tname, 'sgn', (('A', s1, j, 's' if l or j % 2 else 'w'),), (l, LT, EQ))
            for form, l in (('op', None), ('ufunc', None), ('mpc', None), ('mpc', l6)):
                for s1 in pick(shp, Tq(tier, 6, 40), f'abs{form}{l}'):
                    j += 1
                    yield (tname, 'abs', (('A', s1, j, 's' if l or j % 2 else 'm'),), (form, l))
            for opn in ('minimum', 'maximum'):
                for form in ('ufunc', 'mpc'):
                    for k1, k2 in (('A', 'A'), ('A', 'S'), ('A', 'P'), ('P', 'A'), ('S', 'A'), ('A', 'N')):
                        for s1, s2 in pair_sample(tier, f'{opn}{form}{k1}{k2}', 2, 30):
                            j += 1
                            mode = 's' if j % 2 else 'm'
                            yield (tname, opn, _mkops(k1, k2, s1, s2, j, mode, mode), (form,))
            for form in ('np', 'mpc'):
                for ka, kb in (('A', 'A'), ('A', 'P'), ('P', 'A'), ('A', 'S'), ('S', 'A'), ('P', 'P')):
                    for s1, s2 in pair_sample(tier, f'where{form}{ka}{kb}', 2, 30):
                        j += 1
                        sa = () if ka in 'SP' else s2
                        sb = () if kb in 'SP' else s2
                        m = 'i' if (kind == 'x' and 'P' in (ka, kb)) else 'm'
                        yield (tname, 'where', (('A', s1, j, 'b'), (ka, sa, j + 1, m), (kb, sb, j + 2, m)), (form,))
                        if form == 'mpc' and ka == 'A':
                            yield (tname, 'if_swap', (('A', s1, j, 'b'), (ka, sa, j + 1, m), (kb, sb, j + 2, m)), ())
            for s1 in pick(shp, Tq(tier, 8, 40), 'izp'):
                j += 1
                yield (tname, 'is_zero_public', (('A', s1, j, 's'),), ())
    return gen_


def _axes_of(shape, tuples=False, none=True):
    nd = len(shape)
    out = [None] if none else []
    out += list(range(-nd, nd))
    if tuples and nd >= 2:
        out += [(0, 1), (-1, 0)] + ([(0, 2), (1, 2), (0, 1, 2), (2, -3)] if nd == 3 else [])
    return out


def in_sort(kind):
    def gen_(tier):
        j = 0
        for tname in types_of(kind, tier):
            shp = [(n,) for n in range(0, Tq(tier, 8, 12))] + [(2, 3), (3, 2), (1, 4), (4, 1), (0, 3), (3, 0), (2, 5), (2, 2, 3), (3, 1, 2), (2, 3, 4), (2, 0, 2)]
            for form in ('np', 'meth', 'mpc'):
                for s1 in shp:
                    for axis in _axes_of(s1):
                        for desc in ((False,) if form == 'np' else (False, True)):
                            j += 1
                            if tier == 'quick' and len(s1) > 1 and j % 3: continue
                            yield (tname, 'sort', (('A', s1, j, 's' if j % 2 else 'm'),), (form, axis, desc))
            shp = [(n,) for n in range(1, Tq(tier, 7, 10))] + [(2, 3), (3, 2), (1, 4), (4, 1), (2, 5), (2, 2, 3), (3, 1, 2), (2, 3, 4)]
            for which in ('min', 'max'):
                for form in ('np', 'mpc'):
                    for s1 in shp:
                        for axis in _axes_of(s1, tuples=True):
                            for keepdims in (False, True):
                                j += 1
                                if tier == 'quick' and len(s1) > 1 and j % 4: continue
                                yield (tname, 'aminmax', (('A', s1, j, 's' if j % 2 else 'm'),), (which, form, axis, keepdims))
                for s1 in shp:
                    for axis in _axes_of(s1):
                        for keepdims in (False, True):
                            combos = [('np', False, True), ('mpc', False, True), ('mpc', True, True), ('mpc', False, False), ('mpc', True, False), ('meth', True, False)]
                            for form, unary, only in combos:
                                j += 1
                                if tier == 'quick' and j % (5 if len(s1) > 1 else 2): continue
                                yield (tname, 'argminmax', (('A', s1, j, 's' if j % 3 else 'm'),), (which, form, axis, keepdims, unary, only))
    return gen_


def in_reduce(kind):
    def gen_(tier):
        j = 0
        for tname in types_of(kind, tier):
            shp = shapes_upto(3, (0, 1, 2, 3)) + [(4,), (4, 4), (2, 4)]
            for form in ('np', 'meth', 'mpc'):
                for s1 in pick(shp, Tq(tier, 14, len(shp)), f'sum{form}'):
                    for axis in ['default'] + _axes_of(s1, tuples=True):
                        for keepdims in (False, True):
                            for init in (None, 3, 'S'):
                                j += 1
                                if init is not None and j % 4: continue
                                if tier == 'quick' and j % 3: continue
                                ops = (('A', s1, j, _modes(kind, j)[0]),) + ((('S', (), j + 1, 'm'),) if init == 'S' else ())
                                yield (tname, 'sum', ops, (form, axis, keepdims, init))
            pt = tname if kind != 'i' else 'i32'
            pshp = [s for s in shp if math.prod(s) <= 12 or (0 in s)]
            for form in ('np', 'mpc'):
                for s1 in pick(pshp, Tq(tier, 14, len(pshp)), f'prod{form}'):
                    for axis in _axes_of(s1, tuples=True):
                        j += 1
                        if tier == 'quick' and j % 2: continue
                        yield (pt, 'prod', (('A', s1, j, 'u' if kind != 'f' else 'nz'),), (form, axis))
            for which in ('all', 'any'):
                for form in ('np', 'mpc'):
                    for s1 in pick(shp, Tq(tier, 10, len(shp)), f'{which}{form}'):
                        for axis in _axes_of(s1, tuples=True):
                            j += 1
                            if tier == 'quick' and j % 2: continue
                            yield (tname, 'allany', (('A', s1, j, 'b'),), (which, form, axis))
            for s1 in pick(shp, Tq(tier, 12, len(shp)), 'cumsum'):
                for axis in _axes_of(s1):
                    j += 1
                    yield (tname, 'cumsum', (('A', s1, j, _modes(kind, j)[0]),), ('cumsum', axis, False))
                    if axis is not None or len(s1) < 2:
                        for incl in (False, True):
                            yield (tname, 'cumsum', (('A', s1, j, _modes(kind, j)[0]),), ('cumulative_sum', axis, incl))
            for s1 in ((2, 2), (2, 3), (3, 2), (1, 3), (0, 2), (2, 3, 3), (3, 2, 2), (2, 2, 0)):
                for offset in (-1, 0, 1, 2):
                    for ax1, ax2 in ((0, 1), (1, 0), (-1, -2)) + (((0, 2), (2, 1), (1, 2)) if len(s1) == 3 else ()):
                        for form in ('np', 'meth'):
                            j += 1
                            if tier == 'quick' and j % 3: continue
                            yield (tname, 'trace', (('A', s1, j, _modes(kind, j)[0]),), (form, offset, ax1, ax2))
    return gen_


def _reshapes(s):
    n = math.prod(s)
    out = {(n,), (-1,), s}
    for a in range(1, 5):
        if n % a == 0 and n:
            out |= {(a, n // a), (a, -1), (-1, a), (a, 1, n // a)}
            for b in range(1, 4):
                if (n // a) % b == 0: out.add((a, b, n // a // b))
    if n == 0: out |= {(0,), (0, 3), (2, 0), (0, -1) if False else (0, 1)}
    return sorted(out)


def _items(s):
    """index keys valid for shape s (encodings of `_key`)"""
    nd = len(s)
    keys = ['E', ('t',), ('t', 'E'), ('t', 'N'), ('t', 'N', 'E'), ('t', 'E', 'N')]
    if nd >= 1:
        n = s[0]
        keys += [('s', None, None, None), ('s', 1, None, None), ('s', None, -1, None), ('s', None, None, 2), ('s', None, None, -1), ('s', 5, 1, -2), ('s', 0, 0, None),
                 ('t', ('s', None, None, None), 'N'), ('t', 'N', ('s', 0, 2, None))]
        if n: keys += [0, -1, n - 1, ('t', 0), ('t', -1, 'E'), ('a', [0, n - 1, 0]), ('a', [[0], [n - 1]]), ('m', [i % 2 == 0 for i in range(n)]), ('t', 0, 'N')]
    if nd >= 2:
        a, b = s[0], s[1]
        keys += [('t', ('s', None, None, None), ('s', 1, None, None)), ('t', 'E', ('s', None, None, 2)), ('t', ('s', None, None, -1), 'E'), ('t', ('s', 0, 1, None), 'N', ('s', None, None, None))]
        if a and b and s[-1]: keys += [('t', 'E', 0)]
        if a and b: keys += [('t', 0, 0), ('t', -1, b - 1), ('t', ('s', None, None, None), 0), ('t', 0, ('s', None, None, None)), ('t', 0, 'E'), ('t', 0, 'N', 0),
                             ('t', ('a', [0, a - 1]), ('a', [b - 1, 0])), ('t', ('a', [0, a - 1]), ('s', None, None, None)), ('t', ('s', None, None, None), ('a', [0]))]
    if nd >= 3:
        a, b, c = s
        keys += [('t', 'E', ('s', None, 1, None)), ('t', ('s', None, None, None), 'E', ('s', 1, None, None)), ('t', ('s', None, None, None), 'N', 'E')]
        if a and b and c: keys += [('t', 0, 0, 0), ('t', 0, 'E', 0), ('t', 'E', 0, ('s', None, None, None)), ('t', -1, ('s', None, None, None), c - 1), ('t', 0, ('a', [0, b - 1]), 'E')]
    return keys


def _item_shape(s, key):
    np = _np()
    return tuple(np.empty(s)[_key(np, key)].shape)


def in_reshape(kind):
    def gen_(tier):
        j = 0
        G = lambda *a, **k: (a, tuple(sorted(k.items())))
        for tname in types_of(kind, tier):
            shp = shapes_upto(3, (0, 1, 2, 3)) + [(4,), (2, 4), (4, 1, 2)]
            for s in pick(shp, Tq(tier, 30, len(shp)), 'reshape'):
                j += 1
                md = _modes(kind, j)[0]
                A = ('A', s, j, md)
                nd = len(s)
                one = lambda op, pr, *more: (tname, op, (A,) + more, pr)
                for t in _reshapes(s):
                    yield one('np.reshape', G(t))
                    if t != (): yield one('meth', ('reshape', t, ()))
                    if len(t) > 1: yield one('meth', ('reshape', (t,), (('order', 'F'),)))
                if math.prod(s): yield one('np.reshape', G(-1)); yield one('np.reshape', G(s[::-1], order='F'))
                for o in ('C', 'F'):
                    yield one('meth', ('flatten', (), (('order', o),)))
                yield one('meth', ('flatten', (), ()))
                yield one('meth', ('copy', (), ())); yield one('np.copy', G())
                yield one('meth', ('T', (), ())); yield one('meth', ('transpose', (), ())); yield one('np.transpose', G())
                for m_ in ('len', 'iter', 'flat', 'ndim', 'size', 'bool', 'tolist'):
                    if m_ in ('len', 'iter') and nd == 0: continue
                    yield one('meth', (m_, (), ()))
                yield one('fromlist', ('mpc',)) if nd == 1 and s[0] else one('meth', ('ndim', (), ()))
                for perm in itertools.permutations(range(nd)):
                    if nd >= 2:
                        yield one('np.transpose', G(perm)); yield one('meth', ('transpose', perm, ())); yield one('meth', ('transpose', (list(perm),), ()))
                for a1 in range(-nd, nd):
                    for a2 in range(-nd, nd):
                        if (a1 + a2 + j) % 2 and tier == 'quick': continue
                        yield one('np.swapaxes', G(a1, a2)); yield one('meth', ('swapaxes', (a1, a2), ()))
                ones = [i for i, d in enumerate(s) if d == 1]
                yield one('np.squeeze', G())
                for i in ones:
                    yield one('np.squeeze', G(i)); yield one('np.squeeze', G(i - nd))
                if len(ones) >= 2: yield one('np.squeeze', G(tuple(ones[:2])))
                for ax in list(range(-nd - 1, nd + 1)) + [(0, 1), (0, -1), (nd + 1, 0)]:
                    yield one('np.expand_dims', G(ax))
                for ax in [None] + list(range(-nd, nd)) + ([(0, 1), (-1, 0)] if nd >= 2 else []):
                    yield one('np.flip', G(ax)) if ax is not None else one('np.flip', G())
                if nd >= 1: yield one('np.flipud', G())
                if nd >= 2: yield one('np.fliplr', G())
                for sh in (0, 1, -1, 2, 5):
                    yield one('np.roll', G(sh))
                    for ax in range(-nd, nd):
                        if tier == 'quick' and (sh + ax + j) % 2: continue
                        yield one('np.roll', G(sh, ax))
                if nd >= 2:
                    for k in (-1, 0, 1, 2, 3, 4):
                        yield one('np.rot90', G(k)) if k != 1 else one('np.rot90', G())
                        for axes in ((1, 0), (0, -1)) + (((0, 2), (1, 2), (2, 1)) if nd == 3 else ()):
                            if tier == 'quick' and (k + j) % 2: continue
                            yield one('np.rot90', G(k, axes))
                    for off in (-1, 0, 1, 2):
                        yield one('np.diagonal', G(off))
                        yield one('meth', ('diagonal', (off,), ()))
                        if nd == 3: yield one('np.diagonal', G(off, 2, 0)); yield one('np.diagonal', G(offset=off, axis1=-1, axis2=1))
                if nd in (1, 2):
                    for k in (-2, -1, 0, 1, 2): yield one('np.diag', G(k))
                    yield one('np.diag', G())
                for k in (-1, 0, 2): yield one('np.diagflat', G(k))
                # joining: operands of equal shape; one of them may be a public ndarray
                B = ('A', s, j + 1, _modes(kind, j)[1]); N_ = ('N', s, j + 2, 'i' if j % 2 else ('m' if kind != 'x' else 'F'))
                for others in ((B,), (B, A), (N_,), (B, N_)):
                    if tier == 'quick' and len(others) == 2 and j % 2: continue
                    if nd >= 1:
                        for ax in list(range(-nd, nd)) + [None]:
                            yield one('np.concatenate', G(axis=ax), *others)
                        yield one('np.concatenate', G(), *others)
                        yield one('np.hstack', G(), *others); yield one('np.vstack', G(), *others); yield one('np.dstack', G(), *others)
                        if nd <= 2: yield one('np.column_stack', G(), *others)
                        for ax in (None, 0, -1): yield one('np.append', (ax,), others[0])
                    for ax in range(-nd - 1, nd + 1):
                        yield one('np.stack', G(axis=ax), *others)
                    yield one('np.stack', G(), *others)
                if nd >= 1:
                    yield (tname, 'np.block', (A, B), ([0, 1],))
                    yield (tname, 'np.block', (A, B), ([[0], [1]],))
                    if nd == 2: yield (tname, 'np.block', (A, B, B, A), ([[0, 1], [2, 3]],))
                for ax in range(-nd, nd):
                    n = s[ax]
                    for k in range(1, 5):
                        if n % k == 0 and (n or k == 1):
                            yield one('np.split', G(k, ax)) if ax else one('np.split', G(k))
                    if n >= 2: yield one('np.split', G([1], ax)); yield one('np.split', G([1, n - 1], ax))
                if nd >= 2 and s[0]: yield one('np.vsplit', G(s[0])); yield one('np.vsplit', G(1))
                if nd >= 2 and s[1]: yield one('np.hsplit', G(s[1]))
                if nd == 1 and s[0]: yield one('np.hsplit', G(s[0]))
                if nd >= 3 and s[2]: yield one('np.dsplit', G(s[2])); yield one('np.dsplit', G(1))
                for key in _items(s):
                    yield one('getitem', (key, 'op'))
                    if (len(repr(key)) + j) % 3 == 0 or tier != 'quick': yield one('getitem', (key, 'mpc'))
                    try: ish = _item_shape(s, key)
                    except Exception: continue
                    vm = _modes(kind, j)[1]
                    if ish == (): yield one('update', (key,), ('S', (), j + 3, vm))
                    else:
                        yield one('update', (key,), ('A', ish, j + 3, vm))
                        yield one('update', (key,), ('S', (), j + 3, vm))
                        if len(ish) >= 1: yield one('update', (key,), ('A', ish[-1:], j + 3, vm))          # broadcast value
                    if kind != 'x': yield one('update', (key,), ('P', (), j + 3, 's'))
                if nd == 1 and s[0] and kind != 'f':
                    for sh in range(s[0] + 1):
                        yield (tname, 'roll_secret', (A, ('S', (), j, 'P%d' % sh)), ())
    return gen_


def in_io(kind):
    def gen_(tier):
        j = 0
        for tname in types_of(kind, tier):
            shp = shapes_upto(3, (0, 1, 2, 3))
            for how in ('plain', 'input0', 'input_all', 'input_list', 'reshare'):
                for s in pick(shp, Tq(tier, 20, len(shp)), f'io{how}'):
                    j += 1
                    yield (tname, 'io', (('A', s, j, _modes(kind, j)[0]),), (how,))
    return gen_


def in_bits(kind):
    def gen_(tier):
        j = 0
        for tname in types_of(kind, tier):
            L = _bitlen(tname) if kind != 'f' else (int(tname[1:]) - 1).bit_length()
            shp = [s for s in shapes_upto(3, (0, 1, 2, 3)) if math.prod(s) <= 6]
            if kind == 'f' and _prime_factor(int(tname[1:]))[1] > 1 and _prime_factor(int(tname[1:]))[0] != 2: continue        # odd extension fields: documented TypeError
            for s in pick(shp, Tq(tier, 10, len(shp)), 'to_bits'):
                for l in (None, 1, 3, L) + ((L + 2, L + _frac(tname)) if kind == 'x' else ()):
                    j += 1
                    if kind == 'f' and l not in (None, L): continue
                    for mode in (('s', 'm', 'i') if kind == 'x' else ('s', 'm')):
                        if l is not None and l > L: mode = 'p'          # bits above the bit length are not defined for negative values
                        yield (tname, 'to_bits', (('A', s, j, mode),), (l,))
                if kind != 'x':          # fixed point: from_bits reads the bits as an integer, the round trip is a * 2^f by design
                    yield (tname, 'bits_roundtrip', (('A', s, j, 'p' if kind != 'f' else 'm'),), ())
                for l in (1, 2, 5):
                    j += 1
                    yield (tname, 'from_bits', (('A', s + (l,), j, 'b'),), ())
            if kind == 'f': continue
            for s in pick(shp, Tq(tier, 10, len(shp)), 'trunc'):
                for f in ((1, 3) if kind == 'i' else (None, 2, _frac(tname))):
                    j += 1
                    yield (tname, 'trunc', (('A', s, j, 'm'),), (f,))
                j += 1
                yield (tname, 'lsb', (('A', s, j, 'm'),), ())
            yield (tname, 'lsb', (('A', (), j, 'm'),), ())
            for n in range(1, Tq(tier, 6, 9)):
                for a in range(n):
                    yield (tname, 'unit_vector', (('S', (), j, 'P%d' % a),), (n,))
            for s in pick([s for s in shapes_upto(3, (0, 1, 2, 3, 4)) if s], Tq(tier, 12, 60), 'find'):
                j += 1
                for sv in (0, 1):
                    for e in ('default', -1):
                        yield (tname, 'find', (('A', s, j, 'b'),), (sv, True, e))
                        yield (tname, 'find', (('A', s, j, 'i' if kind == 'x' else 's'),), (sv, False, e))
    return gen_


# ================================================================================================ np_random_bits
def call_random_bits(tname, n, signed, seed):
    mpc, np = _rt()
    cx = Cx(mpc, np, tname)
    _seed(mpc, seed)
    x = mpc.np_random_bits(cx.T, n, signed=signed)
    return mpc.run(_open(cx, [x]))[0]


def ck_random_bits(args, res, exc):
    tname, n, signed, seed = args
    if exc: return f'unexpected {type(exc).__name__}: {exc}'
    if res['kind'] != 'a' or res['decl'] != (n,) or res['shape'] != (n,): return f'expected a secure array of shape ({n},), got {res["type"]} declared {res["decl"]} opened {res["shape"]}'
    if tname[0] == 'x' and res['integral'] is not True: return f'integral flag {res["integral"]!r}, bits are integers'
    q = int(tname[1:]) if tname[0] == 'f' else None
    ok = {0, 1} if not signed else ({1, q - 1} if tname[0] == 'f' and _prime_factor(q)[1] == 1 else {1, -1})
    bad = [v for v in res['v'] if v not in ok]
    return not bad or f'values {bad[:5]} are not in {sorted(ok)}'


def in_random_bits(tier):
    for tname in ('i16', 'x32.16', 'f11', 'f16', 'f9', 'f257'):
        for n in (0, 1, 2, 7, 33):
            for signed in (False, True):
                if signed and tname in ('f16', 'f9'): continue
                for seed in range(Tq(tier, 3, 20)):
                    yield (tname, n, signed, seed)


# ================================================================================================ finfields.FiniteFieldArray (public arrays)
FF_OPS = ('add', 'sub', 'mul', 'div', 'neg', 'pow', 'matmul', 'eq', 'ne', 'sum', 'prod', 'cumsum', 'trace', 'np.reshape', 'np.transpose', 'np.concatenate', 'np.stack', 'np.roll', 'np.diag',
          'getitem', 'meth', 'outer', 'convolve')


def _mk_pub(cx, spec):
    """public operand: finite field array / field element / int / ndarray"""
    np, F = cx.np, cx.T.field
    okind, shape, seed, mode = spec
    es = gen(cx.tname, spec)
    if okind == 'P': return es[0]
    if okind == 'S': return F(es[0])
    a = np.array(es, dtype=object).reshape(shape) if es else np.zeros(shape, dtype=object)
    return F.array(a) if okind == 'A' else a


def _mk_elts(cx, spec):
    np, F = cx.np, cx.T.field
    okind, shape, seed, mode = spec
    es = gen(cx.tname, spec)
    if okind == 'P': return es[0]
    if okind == 'S': return F(es[0])
    return objarr(np, [F(e) if okind == 'A' else e for e in es], shape)


def call_ff(tname, opname, operands, pr):
    mpc, np = _rt()
    cx = Cx(mpc, np, tname)
    op = OPS[opname]
    res = Res(mod=cx.mod)
    w = World(1, np, cx)
    R = op.fn(w, [_mk_pub(cx, sp) for sp in operands], pr)
    res['struct'] = _walk(cx, R, [])
    res['leaves'] = []
    if op.scalar:
        w = World(3, np, cx, elt=cx.T.field)
        R = op.fn(w, [_mk_elts(cx, sp) for sp in operands], pr)
        res['sstruct'] = _walk_elts(cx, R)
        res['sleaves'] = []
    return res


def ck_ff(args, res, exc):
    tname, opname, operands, pr = args
    # np.divide as a ufunc (np.divide(a, b), and ndarray / field array, which NumPy dispatches to the ufunc) is applied to the representatives
    ufunc_div = opname == 'div' and (pr[0] == 'ufunc' or operands[0][0] == 'N')
    if exc is not None:
        msg = f'unexpected {type(exc).__name__}: {exc}'
        if ufunc_div and isinstance(exc, (ValueError, TypeError)): return ('class', 'np.divide-ufunc-on-field-array:division-of-representatives', msg)
        return msg
    m = check_res(args, res)
    if m is None or m is True: return None
    if ufunc_div: return ('class', 'np.divide-ufunc-on-field-array:division-of-representatives', m)
    return m


def _walk_elts(cx, R):
    np = cx.np
    if isinstance(R, (list, tuple)): return ('L' if isinstance(R, list) else 'T', [_walk_elts(cx, x) for x in R])
    if isinstance(R, np.ndarray): return ('P', tuple(R.shape), [cx.enc(v) if isinstance(v, cx.T.field) else _ex(v) for v in R.reshape(-1)])
    return ('P', (), [cx.enc(R) if isinstance(R, cx.T.field) else _ex(R)])


def in_ff(tier):
    j = 0
    for tname in ('f11', 'f16', 'f9', 'f257') + (('f8', 'f2', 'f4') if tier != 'quick' else ()):
        nq, nt = 4, 30
        for opn in ('add', 'sub', 'mul', 'div'):
            for form in ('op', 'ufunc'):
                for k1, k2 in OPERAND_FORMS:
                    for s1, s2 in pair_sample(tier, f'ff{opn}{form}{k1}{k2}', nq, nt):
                        j += 1
                        yield (tname, opn, _mkops(k1, k2, s1, s2, j, 'm', 'nz' if opn == 'div' else 'm'), (form,))
        shp = shapes_upto(3, (0, 1, 2, 3))
        for s1 in pick(shp, Tq(tier, 10, len(shp)), 'ffunary'):
            j += 1
            yield (tname, 'neg', (('A', s1, j, 'm'),), ('op',)); yield (tname, 'neg', (('A', s1, j, 'm'),), ('ufunc',))
            for e in (0, 1, 2, 3, 7, -1, -2):
                yield (tname, 'pow', (('A', s1, j, 'nz' if e < 0 else 'm'),), (e, 'op'))
            for opn in ('eq', 'ne'):
                yield (tname, opn, (('A', s1, j, 's'), ('A', s1, j + 1, 's')), ('op',))
                yield (tname, opn, (('A', s1, j, 's'), ('P', (), j + 1, 's')), ('op',))
            for axis in ['default'] + _axes_of(s1, tuples=True):
                for keepdims in (False, True):
                    yield (tname, 'sum', (('A', s1, j, 'm'),), ('np', axis, keepdims, None))
                    yield (tname, 'sum', (('A', s1, j, 'm'),), ('meth', axis, keepdims, None))
                if axis != 'default' and math.prod(s1) <= 12: yield (tname, 'prod', (('A', s1, j, 'nz'),), ('np', axis))
            for t in _reshapes(s1): yield (tname, 'np.reshape', (('A', s1, j, 'm'),), ((t,), ()))
            yield (tname, 'np.transpose', (('A', s1, j, 'm'),), ((), ()))
            for key in _items(s1): yield (tname, 'getitem', (('A', s1, j, 'm'),), (key, 'op'))
            if len(s1) >= 1:
                for ax in range(-len(s1), len(s1)):
                    yield (tname, 'np.concatenate', (('A', s1, j, 'm'), ('A', s1, j + 1, 'm')), ((), (('axis', ax),)))
            for ax in range(-len(s1) - 1, len(s1) + 1):
                yield (tname, 'np.stack', (('A', s1, j, 'm'), ('A', s1, j + 1, 'm')), ((), (('axis', ax),)))
        for s1, s2 in pick(mm_shapes(), Tq(tier, 40, 400), 'ffmm'):
            for k1, k2 in (('A', 'A'), ('A', 'N'), ('N', 'A')):
                j += 1
                yield (tname, 'matmul', ((k1, s1, j, 'm'), (k2, s2, j + 1, 'm')), ('@',))


# ================================================================================================ thresha: array-based sharing vs list-based
def call_split(lit, t, m, secrets_, coef, form):
    """np_random_split and random_split on the same secrets with the same dealer coefficients coef[h][d-1] (of X^d); np_recombine / recombine of every subset of >= t+1 shares"""
    mpc, np = _rt()
    from contracts import thresha_native as TN
    from mpyc import thresha
    F = TN.mfield(lit); of = TN.ofield(lit)
    n = len(secrets_)
    raw = [TN.to_raw(F, a) for a in secrets_]
    s_np = objarr(np, raw, (n,))
    if form == 'arr': s_np = F.array(s_np, check=False)
    script_np = [coef[h][d] for d in range(t) for h in range(n)]                 # C.reshape(t, n): draw k is the coefficient of X^(k//n+1) of secret k % n
    script_list = [coef[h][t - 1 - j] for h in range(n) for j in range(t)]        # per secret c[0..t-1], c[j] the coefficient of X^(t-j)
    with TN.patched(TN.Script(script_np)) as sn:
        sh_np = thresha.np_random_split(F, s_np, t, m)
    with TN.patched(TN.Script(script_list)) as sl:
        sh_list = thresha.random_split(F, list(raw), t, m) if n else []
    res = Res(draws_np=list(sn.log), draws_list=list(sl.log), q=of.q)
    res['np_type'] = type(sh_np).__name__
    res['np_shape'] = tuple(sh_np.shape)
    res['np'] = [[TN.enc_red(F, of, v) for v in row] for row in sh_np]
    res['list'] = [[TN.enc_red(F, of, v) for v in row] for row in sh_list]
    rec = {}
    for A in TN.subsets_ge(m, t + 1):
        pts = [(i + 1, sh_np[i]) for i in A]
        r = thresha.np_recombine(F, pts)
        rr = thresha.np_recombine(F, pts, [0, m + 1]) if of.q > m + 1 else None
        lst = thresha.recombine(F, [(i + 1, list(sh_np[i])) for i in A]) if n else []
        rec[A] = (type(r).__name__, tuple(r.shape), [cx_enc(F, of, v) for v in (r.value if hasattr(r, 'value') else r)],
                  None if rr is None else [[cx_enc(F, of, v) for v in row] for row in (rr.value if hasattr(rr, 'value') else rr)],
                  [TN.enc_any(F, of, v) for v in lst])
    res['rec'] = rec
    return res


def cx_enc(F, of, v):
    from contracts import thresha_native as TN
    return TN.enc_elt(F, of, v) if isinstance(v, F) else TN.enc_red(F, of, v)


def ck_split(args, res, exc):
    lit, t, m, secrets_, coef, form = args
    if exc: return f'unexpected {type(exc).__name__}: {exc}'
    from contracts import thresha_native as TN
    of = TN.ofield(lit)
    n = len(secrets_)
    if res['np_shape'] != (m, n): return f'np_random_split returns shape {res["np_shape"]}, expected one row per party ({m}, {n})'
    if res['draws_np'] != [of.q] * (t * n): return f'np_random_split drew randbelow{res["draws_np"][:6]}.., expected t*n = {t * n} draws below the field order {of.q}'
    exp = [[of.sum([secrets_[h]] + [of.mul(coef[h][d - 1], of.pow(of.from_int(i), d)) for d in range(1, t + 1)]) for h in range(n)] for i in range(1, m + 1)]
    if res['np'] != exp: return f'np_random_split shares {res["np"]} are not the values f_h(i) = s_h + sum_d c_hd i^d: {exp}'
    if n and res['list'] != exp: return f'random_split with the same coefficients gives {res["list"]}, np_random_split {res["np"]}'
    for A, (tp, shape, r, rr, lst) in res['rec'].items():
        if shape != (n,): return f'np_recombine of shares {A}: shape {shape}, expected ({n},)'
        if r != list(secrets_): return f'np_recombine of the shares of parties {A} gives {r}, secrets {list(secrets_)}'
        if n and lst != list(secrets_): return f'recombine (list version) of the shares of parties {A} gives {lst}'
        if rr is not None:
            e1 = [of.sum([secrets_[h]] + [of.mul(coef[h][d - 1], of.pow(of.from_int(m + 1), d)) for d in range(1, t + 1)]) for h in range(n)]
            if rr != [list(secrets_), e1]: return f'np_recombine at x = [0, {m + 1}] from parties {A} gives {rr}, expected {[list(secrets_), e1]}'
    return None


def in_split(tier):
    from contracts import thresha_native as TN
    fields = [('p', 7), ('p', 11), ('p', 101), ('p', TN.M31), ('x', 2, 3), ('x', 3, 2), ('x', 2, 4)]
    for lit in fields:
        q = TN.lit_q(lit)
        for m in range(1, 6):
            if m > q - 1: continue
            for t in range(m):
                for n in (0, 1, 2, 4):
                    for sd in range(Tq(tier, 2, 8)):
                        r = random.Random(f'split|{lit}|{m}|{t}|{n}|{sd}')
                        s = tuple(r.choice((0, 1, q - 1, r.randrange(q))) for _ in range(n))
                        coef = tuple(tuple(r.choice((0, q - 1, r.randrange(q))) for _ in range(t)) for _ in range(n))
                        yield (lit, t, m, s, coef, 'arr' if (sd + n) % 2 else 'raw')


def call_prss(lit, m, t, n, bound, uci, keyseed):
    """np_pseudorandom_share / np_pseudorandom_share_0 of EVERY party against the list versions with the same PRF keys"""
    mpc, np = _rt()
    from contracts import thresha_native as TN
    from mpyc import thresha
    F = TN.mfield(lit); of = TN.ofield(lit)
    thresha._f_S_i.cache_clear()
    b = of.q if bound is None else bound
    u = uci.to_bytes(8, 'little', signed=True)
    res = Res(share=[], zero=[])
    for i in range(m):
        prfs = {S: thresha.PRF(hashlib.sha256(f'{keyseed}|{S}'.encode()).digest()[:16], b) for S in itertools.combinations(range(m), m - t) if i in S}
        a = thresha.np_pseudorandom_share(F, m, i, prfs, u, n)
        l = thresha.pseudorandom_share(F, m, i, prfs, u, n)
        res['share'].append((type(a).__name__, tuple(getattr(a, 'shape', ('?',))), [cx_enc(F, of, v) for v in a.value], [cx_enc(F, of, v) for v in l]))
        if bound is None and 2 * t < m:
            a = thresha.np_pseudorandom_share_0(F, m, i, prfs, u, n)
            l = thresha.pseudorandom_share_zero(F, m, i, prfs, u, n)
            res['zero'].append((type(a).__name__, tuple(getattr(a, 'shape', ('?',))), [cx_enc(F, of, v) for v in a.value.reshape(-1)], [cx_enc(F, of, v) for v in l]))
    return res


def ck_prss(args, res, exc):
    lit, m, t, n, bound, uci, keyseed = args
    if exc: return f'unexpected {type(exc).__name__}: {exc}'
    from contracts import thresha_native as TN
    of = TN.ofield(lit)
    for i, (tp, shape, a, l) in enumerate(res['share']):
        if shape != (n,): return f'np_pseudorandom_share for party {i} returns {tp} of shape {shape}, expected ({n},)'
        if a != l: return f'party {i}: np_pseudorandom_share gives {a}, pseudorandom_share {l} (same PRF keys, same common input)'
    differ = None
    for i, (tp, shape, a, l) in enumerate(res['zero']):
        if shape != (n,): return f'np_pseudorandom_share_0 for party {i} returns {tp} of shape {shape}, expected ({n},)'
        if a != l and differ is None: differ = f'party {i}: np_pseudorandom_share_0 gives {a}, pseudorandom_share_zero {l} (same PRF keys, same common input)'
    if differ:
        # still a consistent sharing of zero? the m values lie on ONE polynomial of degree <= 2t with value 0 at 0 (own interpolation)
        xs = [of.from_int(i + 1) for i in range(2 * t + 1)]
        ok = True
        for h in range(n):
            ys = [res['zero'][i][2][h] for i in range(2 * t + 1)]
            ok = ok and of.interpolate(xs, ys, 0) == 0 and all(of.interpolate(xs, ys, of.from_int(i + 1)) == res['zero'][i][2][h] for i in range(2 * t + 1, m))
        if ok and t >= 2:
            return ('class', 'np_pseudorandom_share_0:t>=2:values-differ-from-list-version', differ + '; the array values are a consistent degree-2t sharing of 0 (the PRF outputs are used as '
                    'coefficients in the opposite order: prl @ [x, x^2, ..] against Horner ((prl0)x + prl1)x ..)')
        return differ
    return None


def in_prss(tier):
    from contracts import thresha_native as TN
    for lit in TN.PRSS_FIELDS:
        q = TN.lit_q(lit)
        for m in range(1, 6):
            if m > q - 1: continue
            for t in range(m):
                for n in (0, 1, 3):
                    for bound in (None, 1 << 3, 1):
                        if bound is not None and (bound >= q or lit[0] != 'p'): continue
                        for sd in range(Tq(tier, 2, 8)):
                            yield (lit, m, t, n, bound, 1 + 7 * sd, sd)


# ================================================================================================ m parties (sx/mp.py harness)
MP_CONFIGS = [(2, 0), (3, 1), (4, 1), (5, 2)]


def _mp_modules():
    if 'mpyc.numpy' not in sys.modules:
        os.environ.pop('MPYC_NONUMPY', None)
    from sx import mp
    mp.modules()
    from mpyc.numpy import np
    if np is None: raise RuntimeError('NumPy is disabled in mpyc')
    return mp, np


def _mp_run(m, t, no_prss, cases, seed):
    """run the cases (world 1 only, operands dealt by the parties in turn) with m parties -> per party list of Res / ('EXC', ..)"""
    mp, np = _mp_modules()
    mp.uninstall_symbolic(); mp.clear_caches(); mp.install_seeded(seed)
    loop, net, rts = mp.make_parties(m, t, no_prss=no_prss, k=30)
    try:
        async def prog(rt):
            out = []
            for a in cases:
                cx = Cx(rt, np, a[0], senders=list(range(m)))
                out.append(await eval_case(cx, a, worlds=(1,)))
            return out
        res = mp.run_all(loop, rts, prog)
        lo = net.leftovers()
        if lo['unreceived'] or lo['unmatched_receives'] or net.errors:
            return ('NET', f'network not balanced after the run: {str(lo)[:300]} {net.errors[:2]}')
        return ('OK', res)
    except mp.PartyFailure as e:
        return ('FAIL', str(e)[-1200:])
    finally:
        loop.close()
        sv = mp._state.get('saved_sec')
        if sv: mp.modules()['thresha'].secrets, mp.modules()['rtmod'].secrets = sv


def _passes_one_party(a):
    """cases of a listed class (failing with one party already) are left out of the m-party batches"""
    try:
        r = call_case(*a)
    except Exception:
        return False
    return ck_case(a, r, None) is None


_FAMSIZE = {}


def _family_size(family):
    if family not in _FAMSIZE: _FAMSIZE[family] = sum(1 for _ in NATIVE[family].inputs('quick'))
    return _FAMSIZE[family]


# classes of cases that fail with several parties only (delimited; the strict contract is kept): run alone, reported under their class key
MP_KNOWN = [
    (lambda a, m, t, no_prss: a[1] == 'lsb' and no_prss, 'np_lsb:no_prss:AttributeError'),
    (lambda a, m, t, no_prss: a[1] == 'rpow' and a[0][0] == 'i' and m > t + 1, 'public-base-power-of-secure-int-array:non-sender-party:TypeError'),
]


# cases that are part of every batch of a family (so that the classes above are met in every tier, and lsb / public-base powers are run with every configuration)
MP_FIXED = {'bits_int': [('i16', 'lsb', (('A', (2, 2), 1, 'm'),), ())], 'bits_fxp': [('x32.16', 'lsb', (('A', (3,), 1, 'm'),), ())],
            'arith_int': [('i16', 'rpow', (('A', (2, 1), 1, 'e'),), (2, 'op'))], 'arith_fxp': [('x32.16', 'rpow', (('A', (2,), 1, 'e'),), (2, 'op'))]}


def _mp_known(a, m, t, no_prss):
    for pred, key in MP_KNOWN:
        if pred(a, m, t, no_prss): return key
    return None


def call_mp(m, t, no_prss, family, batch, count, seed):
    """the batch-th batch of `count` cases of the family, spread evenly over its quick domain"""
    N = _family_size(family)
    step = max(1, N // (3 * count))
    cases = [a for a in itertools.islice(NATIVE[family].inputs('quick'), (batch * 7) % step, None, step) if a[1] not in MP_SKIP_OPS]
    cases = cases[(batch * count) % max(1, len(cases) - count):][:count * 2]
    _mp_modules()
    cases = [a for a in cases if _passes_one_party(a)][:count]
    cases += [a for a in MP_FIXED.get(family, ()) if a not in cases]
    known = [a for a in cases if _mp_known(a, m, t, no_prss)]
    cases = [a for a in cases if a not in known]
    st, res = _mp_run(m, t, no_prss, cases, seed)
    out = Res(status=st, cases=cases, known=[])
    if st != 'OK':
        out['detail'] = res
        for a in cases:                      # find a case that fails alone
            s1, r1 = _mp_run(m, t, no_prss, [a], seed)
            if s1 != 'OK':
                out['culprit'] = (a, r1[-600:] if isinstance(r1, str) else r1); break
    else:
        out['res'] = res
    for a in known:
        s1, r1 = _mp_run(m, t, no_prss, [a], seed)
        if s1 != 'OK': out['known'].append((a, _mp_known(a, m, t, no_prss), r1[-400:]))
        else:
            msg = None
            for pi in range(m):
                msg = msg or check_res(a, r1[pi][0])
            if msg: out['known'].append((a, _mp_known(a, m, t, no_prss), msg))
    return out


MP_SKIP_OPS = ('is_zero_public', 'io')


def ck_mp(args, res, exc):
    m, t, no_prss, family, batch, count, seed = args
    if exc: return f'unexpected {type(exc).__name__}: {exc}'
    if res['status'] != 'OK':
        c = res.get('culprit')
        return f'{m} parties, threshold {t}, no_prss={no_prss}: {res["detail"][:500]}' + (f'; case failing alone: {c[0]!r}: {c[1][-300:]}' if c else '')
    np = _np()
    per_party = res['res']
    if not res['cases'] and not res['known']: return 'empty batch (input generator error)'
    for ci, a in enumerate(res['cases']):
        r0 = per_party[0][ci]
        for pi in range(1, m):
            if per_party[pi][ci].get('leaves') != r0.get('leaves'):
                return f'{m} parties, threshold {t}, case {a!r}: party {pi} obtains {str(per_party[pi][ci].get("leaves"))[:300]}, party 0 {str(r0.get("leaves"))[:300]}'
        msg = check_res(a, r0, np)
        if msg: return f'{m} parties, threshold {t}, no_prss={no_prss}, case {a!r}: {msg}'
    if res['known']:
        a, key, detail = res['known'][0]
        return ('class', key, f'{m} parties, threshold {t}, no_prss={no_prss}, case {a!r}: {detail}')
    return None


MP_FAMILIES = ['arith_int', 'arith_fxp', 'arith_fld', 'div_fxp', 'div_fld', 'matmul_int', 'matmul_fxp', 'matmul_fld', 'compare_int', 'compare_fxp', 'compare_fld', 'sort_int', 'sort_fxp',
               'reduce_int', 'reduce_fxp', 'reduce_fld', 'reshape_int', 'reshape_fxp', 'reshape_fld', 'bits_int', 'bits_fxp', 'bits_fld']


def in_mp(family):
    def gen_(tier):
        k = 0
        for m, t in MP_CONFIGS:
            for no_prss in (False, True):
                for rep in range(Tq(tier, 1, 4)):
                    k += 1
                    yield (m, t, no_prss, family, k, Tq(tier, 12, 25) // (3 if family == 'div_fxp' else 1), k)
    return gen_


# ================================================================================================ natives
def _mk():
    out = []

    def add(name, func, inputs, bound, call=call_case, check=ck_case):
        out.append(Native(name, func, call, check, inputs, bound, module=MODULE))

    SH = 'shape pairs: 13 fixed corner pairs + a deterministic sample of the broadcastable pairs of rank <= 3 with axis sizes 0..3'
    for kind, nm in (('i', 'int'), ('x', 'fxp'), ('f', 'fld')):
        add(f'arith_{nm}', 'mpyc.runtime.Runtime.np_add/np_subtract/np_multiply/np_negative/np_pow/np_left_shift', in_arith(kind),
            f'+ - * (operator, numpy ufunc, mpc.np_*), operands array/secret scalar/public scalar/public ndarray in both positions, unary -, ** public exponent, '
            f'public base ** array, << ; {SH} (quick 6, thorough 60 per form); values -60..60 (fixed point: 1/16 grid |v| <= 4, integral and non-integral operands in rotation)')
        add(f'div_{nm}', 'mpyc.runtime.Runtime.np_divide/np_reciprocal', in_div(kind),
            f'/ with operands array/secret scalar/public in both positions; nonzero divisors (fixed point 1/4 <= |y| <= 4; secure integers: exact quotients); {SH} (quick 4, thorough 50 per form)')
        add(f'matmul_{nm}', 'mpyc.runtime.Runtime.np_matmul/np_outer/np_convolve/np_vander/np_det', in_matmul(kind),
            '@ / np.matmul / mpc.np_matmul: 1-D, 2-D and batched 3-D operands with all inner/outer sizes 0..3 and batch broadcasting (quick: 40 shape pairs per form), secret @ secret, '
            'secret @ public ndarray, public @ secret, A @ A; np.outer (rank <= 2 operands, flattened), np.convolve (lengths 1..3 (5), three modes), np.vander (n 0..3, N None/0..4, both orders); '
            'determinant of nonsingular 1x1..3x3 matrices (SecInt(32), prime fields)')
        add(f'compare_{nm}', 'mpyc.runtime.Runtime.np_less/np_equal/np_sgn/np_absolute/np_minimum/np_maximum/np_where/np_if_swap/np_is_zero_public', in_compare(kind),
            f'< <= == != >= > (fields: == !=) as operator, numpy ufunc and mpc.np_less/np_equal, operands array/secret scalar/public scalar/public ndarray in both positions; {SH} (quick 3, thorough 40 per form); '
            'values from -3..3 (ties) and up to a quarter of the range; SecInt(64) for the probabilistic zero test; np_sgn (l, LT, EQ), abs, minimum, maximum, where, if_swap, is_zero_public')
        if kind != 'f':
            add(f'sort_{nm}', 'mpyc.runtime.Runtime.np_sort/np_amin/np_amax/np_argmin/np_argmax', in_sort(kind),
                'np.sort / a.sort / mpc.np_sort over every axis (and None), lengths 0..7 (11) and 2-D/3-D shapes, ascending and with key=-x; amin/amax with axis None/int/tuple and keepdims; '
                'argmin/argmax with axis None/int, keepdims, arg_unary, arg_only in all combinations (first occurrence on ties); values with many ties')
        add(f'reduce_{nm}', 'mpyc.runtime.Runtime.np_sum/np_prod/np_all/np_any/np_cumsum/np_cumulative_sum/np_trace', in_reduce(kind),
            'sum (np.sum, a.sum, mpc.np_sum; axis default/None/int/tuple, keepdims, initial public/secret), prod, all, any (axis None/int/tuple), cumsum, cumulative_sum, trace (offsets, axis pairs) '
            'on shapes of rank <= 3 with axis sizes 0..3 (quick: samples of 10..14 shapes)')
        add(f'reshape_{nm}', 'mpyc.runtime.Runtime.np_reshape/np_flatten/np_transpose/np_swapaxes/np_squeeze/np_expand_dims/np_concatenate/np_stack/np_hstack/np_vstack/np_dstack/np_column_stack/np_block/np_split/np_append/np_roll/np_flip/np_rot90/np_diag/np_getitem/np_update/np_tolist/np_fromlist/np_copy',
            in_reshape(kind),
            'for shapes of rank <= 3 with axis sizes 0..3 (quick: 30 shapes): reshape (all factorisations, -1, order F), flatten, copy, T, transpose (all permutations), swapaxes (all pairs), squeeze, expand_dims, '
            'flip/fliplr/flipud, roll (public shift, all axes; secret shift for 1-D), rot90 (k = -1..4, axis pairs), diag/diagflat/diagonal, concatenate/stack/hstack/vstack/dstack/column_stack/append/block with '
            '1-2 further operands (one may be a public ndarray), split/hsplit/vsplit/dsplit (sections and index lists), getitem (ints, negative, slices with steps, tuples, Ellipsis, newaxis, index arrays, masks), '
            'np_update with scalar/array/broadcast values, len/iter/flat/ndim/size/bool/tolist/fromlist')
        add(f'io_{nm}', 'mpyc.runtime.Runtime.input/output/_reshare', in_io(kind),
            'output of an array, input by sender 0 / by all senders / as a one-element list, _reshare; shapes of rank <= 3 with axis sizes 0..3 (quick: 20 per form)')
        add(f'bits_{nm}', 'mpyc.runtime.Runtime.np_to_bits/np_from_bits/np_trunc/np_lsb/np_unit_vector/np_find', in_bits(kind),
            'np_to_bits (l None/1/3/all, fixed point also l > bit length; integral and non-integral), np_from_bits, round trip, np_trunc, np_lsb, np_unit_vector (n 1..5 (8), all a), np_find (bits and values, e default/-1) '
            'on shapes with at most 6 elements')
    add('random_bits', 'mpyc.runtime.Runtime.np_random_bits', in_random_bits, 'SecInt(16), SecFxp(32,16), GF(11), GF(2^4), GF(3^2), GF(257); n = 0, 1, 2, 7, 33; signed and unsigned; 3 (20) PRSS seeds: '
        'shape (n,), values in {0,1} (signed: {-1,1}), integral flag', call=call_random_bits, check=ck_random_bits)
    add('ffarray', 'mpyc.finfields.FiniteFieldArray', in_ff, 'public finite field arrays over GF(11), GF(2^4), GF(3^2), GF(257) (thorough: also GF(8), GF(2), GF(4)): + - * / with array/element/int/ndarray '
        'operands in both positions and broadcasting, unary -, ** (exponents -2..7), == !=, sum/prod over axes, reshape/transpose/concatenate/stack, getitem, @ with 1-D/2-D/batched shapes; against own field '
        'arithmetic and against the same operation on field elements', call=call_ff, check=ck_ff)
    add('np_split_recombine', 'mpyc.thresha.np_random_split/np_recombine', in_split, 'GF(7), GF(11), GF(101), GF(2^31-1), GF(2^3), GF(3^2), GF(2^4); all 0 <= t < m <= min(5, q-1); 0, 1, 2, 4 secrets '
        '(corner and random values) as field array and as raw ndarray; 2 (8) scripted dealer coefficient sets incl. 0 and q-1: shares equal f_h(i) computed in own arithmetic and equal random_split with the '
        'same coefficients; np_recombine of EVERY subset of >= t+1 shares at 0 and at [0, m+1], equal to recombine', call=call_split, check=ck_split)
    add('np_prss', 'mpyc.thresha.np_pseudorandom_share/np_pseudorandom_share_0', in_prss, 'fields of the C15 list; all 0 <= t < m <= min(5, q-1), every party i, n = 0, 1, 3; PRF bound = field order and '
        '2^3, 1 (prime fields); 1 (4) key sets: equal to pseudorandom_share / pseudorandom_share_zero with the same PRF keys and common input', call=call_prss, check=ck_prss)
    for fam in MP_FAMILIES:
        add(f'mp_{fam}', f'mpyc.runtime.Runtime.np_*/m-parties/{fam}', in_mp(fam), f'(m,t) in {MP_CONFIGS}, PRSS on and off, 1 (4) batches of 12 (25) cases of {fam} that pass with one party; operands dealt '
            'by the parties in turn (runtime.input: np_random_split), real asynchronous mode, results opened by all parties (np_recombine): all parties equal, contract of the family holds', call=call_mp, check=ck_mp)
    return out


NATIVE = {}


def _register():
    for n in _mk():
        NATIVE[n.name] = n


_register()


def run_slice(name, tier, i, k):
    """pool task: the i-th of k slices of the input domain of one Native (same name, so replays work unchanged)."""
    n = NATIVE[name]
    s = Native(n.name, n.func, n.call, n.check, lambda t: itertools.islice(n.inputs(t), i, None, k), f'{n.bound} [slice {i + 1}/{k}]', module=n.module)
    if getattr(n, 'classify', None): s.classify = n.classify
    o = s.run(tier)
    o.name = f'{o.name}[{i + 1}/{k}]'
    return [o] + s.known


def run_group(names, tier):
    return [o for n in names for o in NATIVE[n].run_all(tier)]


# ================================================================================================ the delimited classes (root causes), and a lister
CLASS_TEXT = {
    '0-dim-array-operands:result-shape-(1,)': 'elementwise operation on 0-dimensional secure array(s) with a scalar (explicit, or the constant inside np_pow/_rec/np_absolute/np_equal): np_add etc. use '
        "getattr(b, 'shape', (1,)), so the placeholder (fixed point: also the value) has shape (1,) instead of (); e.g. (secint.array(np.array(5)) + secint(2)).shape",
    'int-or-field-array-divided-by-secure-scalar': 'np_divide(a, b) with b a secure number handles SecureFixedPoint only; field.array(b) of a secure object: ZeroDivisionError/TypeError; e.g. secint.array(np.array([4, 6])) / secint(2)',
    'fxp-array-from-empty-float-ndarray': 'SecureFixedPointArray.__init__: np.vectorize(lambda a: a.is_integer()) without otypes raises ValueError on size-0 float arrays; e.g. secfxp.array(np.zeros((0,)))',
    'det-of-secure-field-array:TypeError': 'np_det: secnum(detU) with detU a Future; SecureFiniteField.__init__ does not accept a Future (SecureInteger does); e.g. np.linalg.det(secfld.array(..))',
    'secure-scalar-compared-with-secure-array:exception': 'secint(2) < a, secint(2) == a, np.minimum(secint(2), a): SecureNumber comparisons run the scalar protocol on the array instead of returning NotImplemented: AssertionError/AttributeError',
    'comparison-ufunc-public-first-operand:operands-swapped': 'SecureObject.__array_ufunc__ returns op(inputs[1], inputs[0]) when the first input is public: np.less(2, a) and np.array([..]) < a compute a < 2 (wrong values for < <= >= >)',
    'amin-amax:axis-0-with-keepdims:UnboundLocalError': 'np_amin/np_amax: `elif axis := axis % a.ndim:` skips the branch that sets `shape` for axis 0; e.g. np.amin(a, axis=0, keepdims=True)',
    'argmin-argmax:axis-of-length-1-with-several-rows:ValueError': '_np_argmin/_np_argmax for n == 1 return u = array([[1]]) whatever the number of rows; e.g. np.argmin(secint.array(np.array([[3], [1]])), axis=1)',
    'argmin-argmax:ndim>=3-axis-before-the-last-two:remaining-axes-permuted': 'np_argmin/np_argmax use np_swapaxes(a, axis, -1): for ndim >= 3 and an axis before the last two the remaining axes are swapped when the result is reshaped: '
        'wrong indices / extreme values; e.g. np.argmin(3-D array, axis=0)',
    'argmin-argmax:extreme-values-without-keepdims:shape-(n,1)-instead-of-1D': 'documented "a 1D array of minimum values"; returned with shape (n, 1); e.g. a.argmin(axis=1, arg_unary=False)[1].shape',
    'prod-all-any:empty-array:exception': 'np_prod (np_all, np_any): a[0] of an empty first axis / np_reshape(-1, ..0..): IndexError/ZeroDivisionError; NumPy gives 1 / True / False',
    'split:index-list:wrong-number-of-parts': 'np_split with an index array: N = indices.shape[axis] (IndexError for axis > 0) parts declared; NumPy returns len(indices)+1 parts; e.g. np.split(a, np.array([1]), axis=1)',
    'hsplit:1-D-array:IndexError': 'np_hsplit always splits axis 1; NumPy splits axis 0 of 1-D arrays',
    'rot90:even-k:placeholder-shape-with-axes-swapped': 'np_rot90 swaps the two axes in the declared shape for every k; for even k the shape does not change; e.g. np.rot90(a, 2).shape',
    'stack:negative-axis:placeholder-shape': 'np_stack: shape.insert(axis, n) with a negative axis inserts one position too early; e.g. np.stack((a, a), axis=-1).shape',
    'fxp-join-with-public-ndarray:public-values-not-scaled': 'np_concatenate/np_stack/np_hstack/np_vstack/np_column_stack/np_append for fixed point pass public ndarrays unscaled (value 2^-f times too small); e.g. np.concatenate((c, np.array([[1, 2, 3]])))',
    'fxp-roll-with-secret-shift:result-scaled-by-2^f': 'np_roll with a secret shift: np.convolve of two scaled arrays without rescaling (fixed point); e.g. np.roll(secfxp.array(np.array([1., 2., 3.])), secfxp(1))',
    'field:secure-scalar-holds-0-dim-array': 'np_getitem with a key containing Ellipsis that selects one element, and public 1-D @ secure 1-D: the share is a 0-dimensional field array, mpc.output returns an array instead of a field element',
    'fxp:public-1d-ndarray-matmul-secure-1d-array:TypeError': 'np_matmul(public 1-D float ndarray, secure 1-D fixed-point array): A @ B is a 0-d field array, stype.sectype(C) raises TypeError',
    'fxp-sum-with-non-integral-initial:integral-flag-True': 'np_sum takes the integral flag from the array only; a non-integral initial value makes it wrong',
    'fxp-dstack:integral-flag-None': 'np_dstack: returnType((type(a), shape)) without integral flag; a following flatten() fails on assert a.integral is not None',
    'find:empty-array:scalar-instead-of-array': 'np_find: `if not a.size: c = f(e)` gives one value instead of an array of the shape with the axis removed',
    'prime-field-to_bits:empty-array:IndexError': 'np_to_bits over a prime field converts through lists: convert([]) raises IndexError for empty arrays',
    'np_lsb:0-dim-array:TypeError': 'np_lsb: .reshape(*a.shape) with the empty shape of a 0-dimensional array',
    'np.divide-ufunc-on-field-array:division-of-representatives': 'FiniteFieldArray.__array_ufunc__ applies np.divide (also ndarray / field array) to the representatives: float quotients (prime fields), TypeError (extension fields)',
    'np_pseudorandom_share_0:t>=2:values-differ-from-list-version': 'np_pseudorandom_share_0 uses the PRF outputs as coefficients of x, x^2, .., pseudorandom_share_zero (Horner) of x^d, .., x: different, each consistent, sharings of 0 for t >= 2',
    'np_lsb:no_prss:AttributeError': 'np_lsb calls .reshape on the Future that _np_randoms returns without PRSS (the await comes after it); python prog.py -M3 --no-prss',
    'public-base-power-of-secure-int-array:non-sender-party:TypeError': '_np_pow_public_int_base_secret_integral_exponent: type(b)(shape=.., integral=True) at the parties that are not senders; SecureIntegerArray takes no integral argument; 2 ** a with -M3',
}


def _list_work(job):
    from lib.native import _wkey
    name, tier = job
    n = NATIVE[name]
    keys = {}
    for args in n.inputs(tier):
        msg = n.eval1(args)
        if msg:
            cls = n.last_class
            key = f'{n.func}:{n.name}:{cls or _wkey(args)}'
            if key not in keys: keys[key] = (cls, args, msg.split('; args=')[0][:200].replace('\n', ' '))
    return keys


if __name__ == '__main__':
    # python -m contracts.secarray_native [tier]: the witness keys met on the current tree, as lines for known_findings.txt (classes) or as VIOLATION candidates (no class)
    import multiprocessing
    sys.argv = [sys.argv[0], '--no-log'] + sys.argv[1:]
    tier_ = sys.argv[2] if len(sys.argv) > 2 else 'quick'
    with multiprocessing.get_context('fork').Pool(16, maxtasksperchild=1) as pool:
        found = {}
        for ks in pool.imap_unordered(_list_work, [(nm, tier_) for nm in NATIVE]): found.update(ks)
    for key, (cls, args, msg) in sorted(found.items()):
        if cls: print(f'finding: property=C37 key={key} {CLASS_TEXT.get(cls, msg)} [first witness {args!r}]')
        else: print(f'# UNCLASSED {key}: {msg}')
