"""Bounded executable contracts for the secure NumPy arrays of mpyc (property C37): runtime.Runtime.np_* methods, the
SecureArray classes of sectypes.py, finfields.FiniteFieldArray and the np_* functions of thresha.py.  NumPy must be enabled
(interpreter /verif/.venv/bin/python, MPYC_NONUMPY unset; `_rt()` removes the variable before mpyc is first imported, so that
replays started by lib.common work).

A case of the operation families is the tuple of Python literals

    (tname, opname, operands, params)
      tname     'i16' / 'i32' / 'i64' = SecInt(l);  'x32.16' = SecFxp(32,16);  'f11' = SecFld(11) (order: 16 = GF(2^4), 9 = GF(3^2))
      operands  tuple of (okind, shape, seed, mode):  okind 'A' secure array, 'S' secure scalar, 'P' public Python scalar,
                'N' public numpy array;  the data is a deterministic function of (tname, shape, seed, mode), see `gen`
      params    literals of the operation (call form, axis, keepdims, ...)

and is evaluated in three "worlds" by ONE definition of the operation (`OPS[opname]`):
  1  the real code on secure arrays (mpc.np_* / operators / numpy dispatch), results opened with mpc.output
  2  plain NumPy on object arrays of exact values: Python ints, Fractions (fixed point), `FE` (own field arithmetic, `thresha_native.OF`)
  3  the real code on secure SCALARS, elementwise: object arrays holding mpc.SecInt(l)(a) etc., where the family has a scalar analogue
Contract: world 1 == world 2 exactly for secure integers and fields, within the stated number of units 2^-f for fixed point
(`tolerance`: one product 1 unit, sums exact, product by a public float 2(1+|x|) units, matmul with inner dimension n: n units,
division 16(1+|x|)+2|x/y| units, product trees (k-1)M^(k-1) units with M = max(1, max |factor|)); world 3 satisfies the same
bound; shapes equal NumPy's; the shape declared by the placeholder equals the shape of the value that arrives; the integral flag
of a fixed-point result is a bool and True only if every exact value is an integer.

`mp_*` natives run slices of the same cases with m parties (in-process harness sx/mp.py, real asynchronous mode, inputs dealt
with runtime.input, i.e. thresha.np_random_split, results opened with np_recombine), all parties must obtain the same values.
"""
import sys, os, math, itertools, random, hashlib
from fractions import Fraction
from lib.native import Native

MODULE = 'contracts.secarray_native'


# ================================================================================================ runtime / types
def _np():
    import numpy
    return numpy


def _rt():
    """one-party runtime with NumPy enabled"""
    if 'mpyc.numpy' not in sys.modules:
        os.environ.pop('MPYC_NONUMPY', None)          # lib.common replays set it; C37 is about the NumPy code paths
    if 'mpyc.runtime' not in sys.modules:
        sys.argv = [sys.argv[0] if sys.argv else 'x', '--no-log']      # mpyc.runtime parses sys.argv at import time
    from mpyc.runtime import mpc
    from mpyc.numpy import np
    if np is None:
        raise RuntimeError('NumPy is disabled in mpyc (MPYC_NONUMPY set before mpyc was imported, or numpy missing)')
    mp = sys.modules.get('sx.mp')
    if mp is not None and mp._state.get('mods'):
        mp.CUR.set(mpc)                # the module-global `runtime` is a ContextVar proxy once the m-party harness is loaded
    assert len(mpc.parties) == 1 and mpc.options.no_async
    return mpc, np


def _ty(mpc, t):
    if t[0] == 'i': return mpc.SecInt(int(t[1:]))
    if t[0] == 'x':
        l, f = t[1:].split('.')
        return mpc.SecFxp(int(l), int(f))
    if t[0] == 'f': return mpc.SecFld(int(t[1:]))
    raise ValueError(t)


def _frac(t): return int(t.split('.')[1]) if t[0] == 'x' else 0


def _bitlen(t): return int(t[1:].split('.')[0]) if t[0] in 'ix' else 0


def _seed(mpc, seed):
    """deterministic PRSS key for the single party (keys are otherwise drawn from `secrets`)"""
    mpc.prfs.cache_clear()
    mpc._prss_keys = {(0,): hashlib.sha256(b'verif-c37-%d' % seed).digest()[:16]}
    mpc._program_counter[0] = 0


def _prime_factor(q):
    p = 2
    while q % p: p += 1
    d = 0
    while q > 1: q //= p; d += 1
    return p, d


class FE:
    """oracle field element: encoding v over `thresha_native.OF` (own GF(p^d) arithmetic), usable as entry of an object ndarray"""
    __slots__ = ('o', 'v')

    def __init__(s, o, v): s.o, s.v = o, v

    def _w(s, b):
        if isinstance(b, FE): return b.v
        if isinstance(b, bool): b = int(b)
        if hasattr(b, '__index__'):
            b = int(b)
            return s.o.from_int(b) if b >= 0 or s.o.d == 1 else s.o.neg(s.o.from_int(-b))
        raise TypeError(f'FE: operand {b!r}')

    def __add__(s, b): return FE(s.o, s.o.add(s.v, s._w(b)))
    __radd__ = __add__
    def __sub__(s, b): return FE(s.o, s.o.sub(s.v, s._w(b)))
    def __rsub__(s, b): return FE(s.o, s.o.sub(s._w(b), s.v))
    def __mul__(s, b): return FE(s.o, s.o.mul(s.v, s._w(b)))
    __rmul__ = __mul__
    def __neg__(s): return FE(s.o, s.o.neg(s.v))
    def __pos__(s): return s
    def __truediv__(s, b): return FE(s.o, s.o.mul(s.v, s.o.inv(s._w(b))))
    def __rtruediv__(s, b): return FE(s.o, s.o.mul(s._w(b), s.o.inv(s.v)))

    def __pow__(s, e):
        e = int(e)
        if e < 0: return FE(s.o, s.o.pow(s.o.inv(s.v), -e))
        return FE(s.o, s.o.pow(s.v, e))

    def __eq__(s, b): return s.v == s._w(b)
    def __ne__(s, b): return s.v != s._w(b)
    def __hash__(s): return hash(s.v)
    def __repr__(s): return f'FE({s.v})'


def _ofield(q, mod):
    from contracts import thresha_native as TN
    p, d = _prime_factor(q)
    return TN.OF(p, d, tuple(mod) if d > 1 else None)


_OF_CACHE = {}


def ofield(q, mod):
    k = (q, tuple(mod or ()))
    if k not in _OF_CACHE: _OF_CACHE[k] = _ofield(q, mod)
    return _OF_CACHE[k]


class Cx:
    """evaluation context of one case: runtime, secure type, oracle field"""

    def __init__(s, mpc, np, tname, senders=None):
        s.mpc, s.np, s.tname, s.kind = mpc, np, tname, tname[0]
        s.T = _ty(mpc, tname)
        s.A = s.T.array
        s.f = _frac(tname)
        s.senders = senders           # None: operands are built locally; else list of pids dealing the operands in turn (m-party runs)
        s.nsent = 0
        s.mod = None
        if s.kind == 'f':
            F = s.T.field
            if F.ext_deg > 1:
                from contracts import thresha_native as TN
                s.mod = tuple(TN.poly_coeffs(F.modulus))

    def enc(s, v):
        """opened value -> canonical Python value (int / Fraction / field encoding)"""
        if s.kind == 'i':
            if isinstance(v, bool) or not hasattr(v, '__index__'): raise ValueError(f'secure integer opened as {type(v).__name__} {v!r}')
            return int(v)
        if s.kind == 'x':
            if isinstance(v, bool) or not isinstance(v, (int, float, s.np.floating, s.np.integer)): raise ValueError(f'fixed-point number opened as {type(v).__name__} {v!r}')
            return Fraction(float(v))
        F = s.T.field
        if isinstance(v, F): v = v.value
        if F.ext_deg == 1:
            if isinstance(v, bool) or not hasattr(v, '__index__') or not 0 <= int(v) < F.order: raise ValueError(f'field element opened as {v!r}')
            return int(v)
        from contracts import thresha_native as TN
        if type(v) is not type(F.modulus): raise ValueError(f'field element opened as {type(v).__name__} {v!r}')
        cs = TN.poly_coeffs(v)
        p = F.characteristic
        if len(cs) > F.ext_deg or any(not 0 <= c < p for c in cs): raise ValueError(f'unreduced field element {v!r}')
        return sum(c * p ** k for k, c in enumerate(cs))


# ================================================================================================ data
# value modes (encodings: secure integers the value itself; fixed point k meaning k/16; fields the integer encoding 0..q-1)
def gen(tname, spec):
    """flat list of encodings of an operand: deterministic function of (tname, shape, seed, mode)"""
    okind, shape, seed, mode = spec
    n = math.prod(shape)
    r = random.Random(f'{tname}|{okind}|{shape}|{seed}|{mode}')
    k = tname[0]
    if k == 'f':
        q = int(tname[1:])
        if mode == 'b': return [r.randrange(2) for _ in range(n)]
        if mode == 'nz': return [r.randrange(1, q) for _ in range(n)]
        if mode == 's': return [r.randrange(min(q, 3)) for _ in range(n)]
        return [r.randrange(q) for _ in range(n)]
    one = 16 if k == 'x' else 1
    l = _bitlen(tname)
    if mode == 'b': return [one * r.randrange(2) for _ in range(n)]
    if mode in ('i', 'F'): return [one * r.randrange(-6, 7) for _ in range(n)]              # integral values (fixed point: integral flag set; 'F': public float array holding integers)
    if mode == 's': return [r.randrange(-3, 4) * (one // 4 or 1) for _ in range(n)]         # few values: many ties
    if mode == 'p': return [r.randrange(1, 9) * one for _ in range(n)]                      # positive integers
    if mode == 'e': return [r.randrange(0, 7) * one for _ in range(n)]                      # small exponents
    if mode == 'u': return [r.choice((-2, -1, 1, 2) if k == 'i' else (-24, -16, -8, 8, 16, 24)) for _ in range(n)]    # factors of products
    if mode == 'nz': return [r.choice((-1, 1)) * r.randrange(1, 9) for _ in range(n)] if k == 'i' else [r.choice((-1, 1)) * r.randrange(4, 65) for _ in range(n)]
    if mode == 'w':                     # wide: up to a quarter of the range, so that differences fit
        h = 1 << (l - 2 - (4 if k == 'x' else 0))
        return [r.choice((-h + 1, h - 1, 0, r.randrange(-h + 1, h))) for _ in range(n)]
    if mode == 'm': return [r.randrange(-60, 61) for _ in range(n)] if k == 'i' else [r.randrange(-64, 65) for _ in range(n)]
    raise ValueError(mode)


def exact_val(tname, e, of=None):
    if tname[0] == 'i': return e
    if tname[0] == 'x': return Fraction(e, 16)
    return FE(of, e)


def plain_val(tname, e, mode):
    """the Python number handed to mpyc for an encoding"""
    if tname[0] == 'x':
        if mode in ('i', 'b', 'p', 'e') and e % 16 == 0: return e // 16          # an int: integral operand
        return e / 16
    return e


def objarr(np, flat, shape):
    a = np.empty(len(flat), dtype=object)
    for i, v in enumerate(flat): a[i] = v
    return a.reshape(shape)


def mk_exact(np, tname, spec, of):
    okind, shape, seed, mode = spec
    vs = [exact_val(tname, e, of) for e in gen(tname, spec)]
    if okind in 'AN': return objarr(np, vs, shape)
    return vs[0]


def _pub_array(np, tname, spec):
    okind, shape, seed, mode = spec
    es = gen(tname, spec)
    if tname[0] == 'x' and mode == 'F': return np.array([float(e // 16 * 16) / 16 for e in es], dtype=float).reshape(shape)     # float dtype, integral values
    vs = [plain_val(tname, e, mode) for e in es]
    if tname[0] == 'x' and any(isinstance(v, float) for v in vs): return np.array([float(v) for v in vs], dtype=float).reshape(shape)
    return np.array(vs, dtype=int).reshape(shape)


def mk_sec(cx, spec):
    """world 1 operand"""
    np, T = cx.np, cx.T
    okind, shape, seed, mode = spec
    if okind == 'N': return _pub_array(np, cx.tname, spec)
    es = gen(cx.tname, spec)
    if okind == 'P': return plain_val(cx.tname, es[0], mode)
    if okind == 'S':
        x = T(plain_val(cx.tname, es[0], mode))
    else:
        x = cx.A(_pub_array(np, cx.tname, spec))
    if cx.senders is not None:
        x = cx.mpc.input(x, senders=cx.senders[cx.nsent % len(cx.senders)])
        cx.nsent += 1
    return x


def mk_scal(cx, spec):
    """world 3 operand: object array of secure scalars"""
    np, T = cx.np, cx.T
    okind, shape, seed, mode = spec
    es = gen(cx.tname, spec)
    if okind == 'P': return plain_val(cx.tname, es[0], mode)
    if okind == 'N': return objarr(np, [plain_val(cx.tname, e, mode) for e in es], shape)
    vs = [T(plain_val(cx.tname, e, mode)) for e in es]
    if okind == 'S': return vs[0]
    return objarr(np, vs, shape)


class World:
    """n = 1: secure arrays; 2: exact object arrays; 3: object arrays of secure scalars"""

    def __init__(s, n, np, cx=None, tname=None, of=None):
        s.n, s.np, s.cx, s.mpc = n, np, cx, cx.mpc if cx else None
        s.tname = tname or cx.tname
        s.kind = s.tname[0]
        s.of = of
        s.f = _frac(s.tname)

    def ew(s, fn, *xs):
        """apply fn elementwise with NumPy broadcasting (worlds 2 and 3)"""
        np = s.np
        ys = []
        for x in xs:
            if not isinstance(x, np.ndarray):
                y = np.empty((), dtype=object); y[()] = x; x = y
            elif x.dtype != object:
                x = objarr(np, [v.item() for v in x.reshape(-1)], x.shape)
            ys.append(x)
        bs = np.broadcast_arrays(*ys)
        out = np.empty(bs[0].shape, dtype=object)
        for idx in np.ndindex(out.shape):
            out[idx] = fn(*(b[idx] for b in bs))
        return out

    def const(s, c):
        """exact counterpart of a public constant"""
        if s.n != 2: return c
        if s.kind == 'f': return FE(s.of, s.of.from_int(c))
        return Fraction(c) if s.kind == 'x' else c


# ================================================================================================ results
class Res(dict):
    """result record with a bounded repr (goes into violation messages)"""

    def __repr__(self):
        r = dict.__repr__(self)
        return r if len(r) <= 900 else r[:900] + '...'


def _is_secure(cx, x): return isinstance(x, cx.mpc.SecureObject)


def _walk(cx, R, leaves):
    """structure of a result: secure leaves are collected, public values are normalised"""
    np = cx.np
    if _is_secure(cx, R):
        leaves.append(R)
        return ('s', len(leaves) - 1)
    if isinstance(R, (list, tuple)):
        return ('L' if isinstance(R, list) else 'T', [_walk(cx, x, leaves) for x in R])
    if isinstance(R, np.ndarray) and R.dtype == object:
        return ('O', tuple(R.shape), [_walk(cx, x, leaves) for x in R.reshape(-1)])
    if isinstance(R, np.ndarray):
        return ('P', tuple(R.shape), [v.item() for v in R.reshape(-1)])
    if isinstance(R, (np.generic,)):
        return ('P', (), [R.item()])
    if R is None or isinstance(R, (bool, int, float, str)):
        return ('P', (), [R])
    F = getattr(cx.T, 'field', None)
    if F is not None and isinstance(R, (F, F.array)):           # public field values (e.g. an opened argument passed through)
        return ('P', tuple(getattr(R, 'shape', ())), [cx.enc(v) for v in (R.value.reshape(-1) if hasattr(R, 'shape') else [R])])
    raise TypeError(f'result of type {type(R).__name__}')


async def _open(cx, leaves):
    """open all secure leaves; per leaf: dict(kind, type, decl (declared shape), integral, shape (of the opened value), share (shape of the share), v (flat values))"""
    np, mpc = cx.np, cx.mpc
    out = []
    for x in leaves:
        isarr = isinstance(x, mpc.SecureArray)
        d = dict(kind='a' if isarr else 'n', type=type(x).__name__, decl=tuple(x.shape) if isarr else (), integral=getattr(x, 'integral', None) if cx.kind == 'x' else None)
        if (isarr and not isinstance(x, cx.A)) or (not isarr and not isinstance(x, cx.T)):
            d['foreign'] = True          # another secure type (never expected)
        v = await mpc.output(x)
        if isarr:
            if hasattr(v, 'value') and hasattr(v, 'shape'): vv = v.value          # finite field array
            else: vv = v
            if not isinstance(vv, np.ndarray):
                if d['decl'] != () and tuple(getattr(x.share.result() if hasattr(x.share, 'result') else x.share, 'shape', (1,))) != ():
                    raise ValueError(f'secure array opened as {type(v).__name__}')
                vv = objarr(np, [vv], ())          # a 0-d fixed-point array is opened as a Python float (the output conversion divides by 2^f)
            d['shape'] = tuple(vv.shape)
            d['v'] = [cx.enc(a) for a in vv.reshape(-1)]
            sh = x.share
            if hasattr(sh, 'result') and not hasattr(sh, 'shape'): sh = sh.result()
            d['share'] = tuple(sh.shape) if hasattr(sh, 'shape') else None
        else:
            d['shape'] = ()
            d['v'] = [cx.enc(v)]
            d['share'] = ()
        out.append(d)
    return out


async def eval_case(cx, args, worlds=(1, 3)):
    """worlds 1 and 3 of one case on the real code -> Res"""
    tname, opname, operands, pr = args
    op = OPS[opname]
    res = Res(mod=cx.mod)
    if 1 in worlds:
        w = World(1, cx.np, cx)
        xs = [mk_sec(cx, sp) for sp in operands]
        R = op.fn(w, xs, pr)
        leaves = []
        res['struct'] = _walk(cx, R, leaves)
        res['leaves'] = await _open(cx, leaves)
    if 3 in worlds and op.scalar:
        try:
            w = World(3, cx.np, cx)
            xs = [mk_scal(cx, sp) for sp in operands]
            R = (op.sfn or op.fn)(w, xs, pr)
            leaves = []
            res['sstruct'] = _walk(cx, R, leaves)
            res['sleaves'] = await _open(cx, leaves)
        except Exception as e:
            res['sexc'] = f'{type(e).__name__}: {e}'
    return res


def call_case(tname, opname, operands, pr):
    mpc, np = _rt()
    cx = Cx(mpc, np, tname)
    _seed(mpc, 1 + sum(sp[2] for sp in operands) % 5)
    return mpc.run(eval_case(cx, (tname, opname, operands, pr)))


# ------------------------------------------------------------------ oracle side
def _flat_struct(np, E, tname):
    """exact result -> same structure as `_walk` gives, leaves ('e', shape, flat exact values)"""
    if isinstance(E, (list, tuple)):
        return ('L' if isinstance(E, list) else 'T', [_flat_struct(np, x, tname) for x in E])
    if isinstance(E, np.ndarray):
        return ('e', tuple(E.shape), [_ex(v) for v in E.reshape(-1)])
    return ('e', (), [_ex(E)])


def _ex(v):
    if isinstance(v, FE): return v.v
    if isinstance(v, bool): return int(v)
    if hasattr(v, 'item') and not isinstance(v, (int, Fraction)): v = v.item()
    if isinstance(v, bool): return int(v)
    return v


def _cmp(tname, st, leaves, E, tol, path='result'):
    """compare opened structure with the exact structure; tol: number of units 2^-f or structure/array of these"""
    k = st[0]
    if E[0] in ('L', 'T'):
        if k not in ('L', 'T', 'O') or len(st[-1]) != len(E[1]):
            return f'{path}: expected a sequence of {len(E[1])} results, got {_sdesc(st, leaves)}'
        for i, (a, b) in enumerate(zip(st[-1], E[1])):
            m = _cmp(tname, a, leaves, b, tol[i] if isinstance(tol, (list, tuple)) else tol, f'{path}[{i}]')
            if m: return m
        return None
    _, eshape, evals = E
    if k == 's':
        lf = leaves[st[1]]
        if lf.get('foreign'): return f'{path}: secure type {lf["type"]} is not the type of the operands'
        if lf['decl'] != lf['shape'] or (lf['share'] is not None and lf['share'] != lf['shape']):
            return f'{path}: PLACEHOLDER-SHAPE the placeholder declares shape {lf["decl"]}, the value that arrives has shape {lf["share"]} (opened: {lf["shape"]}); NumPy: {eshape}'
        if lf['shape'] != eshape: return f'{path}: shape {lf["shape"]}, NumPy gives {eshape}'
        got = lf['v']
        if tname[0] == 'x':
            fl = lf['integral']
            if not isinstance(fl, bool): return f'{path}: INTEGRAL-FLAG of the fixed-point result is {fl!r}, not a bool'
            if fl and any(Fraction(e).denominator != 1 for e in evals):
                return f'{path}: integral flag True but exact values are not all integers: {[str(e) for e in evals][:6]}'
            if fl and any(g.denominator != 1 for g in got):
                return f'{path}: integral flag True but opened values are not all integers: {[str(g) for g in got][:6]}'
    elif k in ('P', 'O'):
        if k == 'O':             # object array of secure scalars / public numbers (world 3)
            got = []
            for c in st[2]:
                if c[0] == 's': got.append(leaves[c[1]]['v'][0])
                elif c[0] == 'P': got.append(_pubnum(tname, c[2][0]))
                else: return f'{path}: nested result'
        else:
            got = [_pubnum(tname, v) for v in st[2]]
        if tuple(st[1]) != eshape: return f'{path}: shape {tuple(st[1])}, NumPy gives {eshape}'
    else:
        return f'{path}: expected an array or number, got {_sdesc(st, leaves)}'
    if len(got) != len(evals): return f'{path}: {len(got)} values, expected {len(evals)}'
    f = _frac(tname)
    for i, (g, e) in enumerate(zip(got, evals)):
        if tname[0] == 'x':
            t = tol
            if hasattr(tol, 'reshape'): t = tol.reshape(-1)[i] if tol.size > 1 else tol.reshape(-1)[0]
            e = Fraction(e)
            if abs(g - e) * 2 ** f > t:
                return f'{path}: element {i}: {float(g)} but exact value {float(e)} (off by {float(abs(g - e) * 2 ** f):.2f} units, allowed {float(t):.2f})'
        elif g != e:
            return f'{path}: element {i}: {g} but NumPy gives {e}; got {got[:12]} expected {evals[:12]}'
    return None


def _pubnum(tname, v):
    if tname[0] == 'x': return Fraction(v) if not isinstance(v, bool) else Fraction(int(v))
    return int(v) if isinstance(v, bool) else v


def _sdesc(st, leaves):
    if st[0] == 's':
        lf = leaves[st[1]]
        return f'{lf["type"]} of shape {lf["shape"]}'
    if st[0] in ('L', 'T'): return f'sequence of {len(st[1])}'
    return f'{st[0]} {st[1]}'


def oracle(np, args, mod):
    """world 2: exact result and tolerance (units 2^-f) of a case"""
    tname, opname, operands, pr = args
    op = OPS[opname]
    of = ofield(int(tname[1:]), mod) if tname[0] == 'f' else None
    w = World(2, np, tname=tname, of=of)
    xs = [mk_exact(np, tname, sp, of) for sp in operands]
    E = (op.ofn or op.fn)(w, xs, pr)
    tol = 0
    if tname[0] == 'x' and op.tol is not None:
        tol = op.tol(w, xs, pr, E, operands)
    return E, tol


def check_res(args, res, np=None):
    """contract of one case given the Res of worlds 1 and 3"""
    np = np or _np()
    tname, opname, operands, pr = args
    try:
        E, tol = oracle(np, args, res.get('mod'))
    except Exception as e:
        return f'oracle: NumPy on the exact data raised {type(e).__name__}: {e} (input generator error)'
    ES = _flat_struct(np, E, tname)
    m = _cmp(tname, res['struct'], res['leaves'], ES, tol)
    if m: return m
    if 'sexc' in res: return f'elementwise secure-scalar version raised {res["sexc"]}'
    if 'sstruct' in res:
        op = OPS[opname]
        stol = tol
        if tname[0] == 'x' and op.stol is not None:
            stol = op.stol(World(2, np, tname=tname), [mk_exact(np, tname, sp, None) for sp in operands], pr, E, operands)
        m = _cmp(tname, res['sstruct'], res['sleaves'], ES, stol, 'secure-scalar version')
        if m: return m
    return None


def ck_case(args, res, exc):
    if exc is not None:
        k = classify_exc(args, exc)
        msg = f'unexpected {type(exc).__name__}: {exc}'
        return ('class', k, msg) if k else msg
    m = check_res(args, res)
    if m is None or m is True: return None
    if isinstance(m, tuple): return m
    k = classify_msg(args, res, m)
    return ('class', k, m) if k else m


def classify_exc(args, exc):
    """class keys of exceptions on delimited classes of inputs (strict contract kept; see report)"""
    for pred, key in EXC_CLASSES:
        try:
            if pred(args, exc): return key
        except Exception:
            pass
    return None


def classify_msg(args, res, msg):
    for pred, key in MSG_CLASSES:
        try:
            if pred(args, res, msg): return key
        except Exception:
            pass
    return None


def _all_zero_dim(args):
    """elementwise operation whose array operands are all 0-dimensional (the other operand, if any, a scalar: explicit, or the constant inside np_pow / _rec)"""
    ops = args[2]
    return args[1] in ELEMENTWISE and any(sp[0] == 'A' for sp in ops) and all(sp[1] == () for sp in ops)


def _shape1_for_0d(args, res, msg):
    return _all_zero_dim(args) and ('PLACEHOLDER-SHAPE the placeholder declares shape (1,)' in msg or 'shape (1,), NumPy gives ()' in msg)


def _empty_float_operand(args, exc):
    return (args[0][0] == 'x' and isinstance(exc, ValueError) and 'vectorize' in str(exc)
            and any(sp[0] in 'AN' and math.prod(sp[1]) == 0 and sp[3] not in ('i', 'b', 'p', 'e') for sp in args[2]))


ELEMENTWISE = ('add', 'sub', 'mul', 'div', 'div_exact', 'pow', 'lt', 'le', 'eq', 'ne', 'ge', 'gt', 'minimum', 'maximum', 'where', 'if_swap')

# delimited classes of failing inputs on the unchanged tree (the strict contract is kept; listed in known_findings.txt by class key)
EXC_CLASSES = [
    (lambda a, e: a[1] in ('div', 'div_exact') and a[0][0] in 'if' and a[2][1][0] == 'S' and a[2][0][0] == 'A', 'int-or-field-array-divided-by-secure-scalar'),
    (_empty_float_operand, 'fxp-array-from-empty-float-ndarray'),
]
MSG_CLASSES = [
    (_shape1_for_0d, '0-dim-array-operands:result-shape-(1,)'),
]


# ================================================================================================ operations
class Op:
    def __init__(s, name, fn, ofn=None, sfn=None, scalar=False, tol=None, stol=None):
        s.name, s.fn, s.ofn, s.sfn, s.scalar, s.tol, s.stol = name, fn, ofn, sfn, scalar, tol, stol


OPS = {}


def defop(name, **kw):
    def deco(fn):
        OPS[name] = Op(name, fn, **kw)
        return fn
    return deco


def _absmax(np, x):
    """max |entry| of an exact array or scalar (0 for empty)"""
    if isinstance(x, np.ndarray):
        return max((abs(Fraction(v)) for v in x.reshape(-1)), default=Fraction(0))
    return abs(Fraction(x))


def _tree_tol(k, M):
    """any product tree over k factors of magnitude <= M (>= 1), every multiplication within 1 unit (error terms of second order: factor 2)"""
    M = max(Fraction(1), M)
    return 2 * max(k - 1, 0) * M ** max(k - 1, 0)


# ------------------------------------------------------------------ elementwise arithmetic
import operator as _o

_BIN = {'add': (_o.add, 'add'), 'sub': (_o.sub, 'subtract'), 'mul': (_o.mul, 'multiply'), 'div': (_o.truediv, 'divide')}


def _binop(name):
    pyop, uname = _BIN[name]

    def fn(w, xs, pr):
        a, b = xs
        form = pr[0]
        if w.n == 1:
            if form == 'ufunc': return getattr(w.np, uname)(a, b)
            if form == 'mpc': return getattr(w.mpc, 'np_' + uname)(a, b)
            return pyop(a, b)
        return w.ew(pyop, a, b)
    return fn


for _n in ('add', 'sub', 'mul', 'div'):
    OPS[_n] = Op(_n, _binop(_n), scalar=True)


def _is_pubfloat(sp):
    return sp[0] in 'PN' and sp[3] not in ('i', 'b', 'p', 'e')


def _tol_mul(w, xs, pr, E, operands):
    """product: 1 unit; with a public float factor: 2(1+|x|) units for the secret factor x"""
    a, b = xs
    if _is_pubfloat(operands[1]): return w.ew(lambda x, y: 2 * (1 + abs(Fraction(x))), a, b)
    if _is_pubfloat(operands[0]): return w.ew(lambda x, y: 2 * (1 + abs(Fraction(y))), a, b)
    return 1


OPS['mul'].tol = _tol_mul


def _tol_div(w, xs, pr, E, operands):
    a, b = xs
    return w.ew(lambda x, y: 16 * (1 + abs(Fraction(x))) + 2 * abs(Fraction(x) / Fraction(y)), a, b)


OPS['div'].tol = _tol_div


@defop('neg', scalar=True)
def _neg(w, xs, pr):
    a, = xs
    if w.n == 1:
        return w.np.negative(a) if pr[0] == 'ufunc' else -a
    return w.ew(_o.neg, a)


@defop('div_exact', scalar=True)
def _div_exact(w, xs, pr):
    """secure integers: (q*b)/b (division is exact in the field when the divisor divides)"""
    q, b = xs
    if w.n == 1: return (q * b) / b
    if w.n == 3: return w.ew(lambda x, y: (x * y) / y, q, b)
    return w.ew(lambda x, y: x, q, b)


def _tol_pow(w, xs, pr, E, operands):
    a, = xs
    e = pr[0]
    if e < 0: return w.ew(lambda x: 16 * 2 + 2 * abs(1 / Fraction(x)) + _tree_tol(-e, abs(1 / Fraction(x)) + 1) * 20, a)
    return _tree_tol(e, _absmax(w.np, a))


@defop('pow', scalar=True, tol=_tol_pow)
def _pow(w, xs, pr):
    a, = xs
    e = pr[0]
    if w.n == 1:
        return w.np.pow(a, e) if pr[1] == 'ufunc' else a ** e
    if w.n == 2 and w.kind in 'ix' and e >= 0: return w.ew(lambda x: x ** e, a)
    return w.ew(lambda x: x ** e, a)


@defop('rpow')
def _rpow(w, xs, pr):
    """public integer base, secret nonnegative integral exponents"""
    a, = xs
    base = pr[0]
    if w.n == 1:
        return w.np.pow(base, a) if pr[1] == 'ufunc' else base ** a
    if w.n == 3: return w.ew(lambda x: base ** x, a)
    return w.ew(lambda x: Fraction(base) ** int(x) if w.kind == 'x' else base ** int(x), a)


@defop('lshift', scalar=True)
def _lshift(w, xs, pr):
    a, k = xs
    if w.n == 1:
        return w.np.left_shift(a, k) if pr[0] == 'ufunc' else a << k
    if w.n == 3: return w.ew(lambda x, s: x << int(s), a, k)
    return w.ew(lambda x, s: x * 2 ** int(s), a, k)


# ================================================================================================ input domains
def Tq(tier, q, th): return q if tier == 'quick' else th


def shapes_upto(maxrank, sizes):
    out = []
    for r in range(maxrank + 1):
        out += list(itertools.product(sizes, repeat=r))
    return out


def _bvariants(shape):
    """shapes that broadcast to `shape`: drop leading axes, set any axes to 1"""
    out = set()
    for d in range(len(shape) + 1):
        s = shape[d:]
        for mask in itertools.product((0, 1), repeat=len(s)):
            out.add(tuple(1 if m else a for a, m in zip(s, mask)))
    return sorted(out)


_BP = {}


def bpairs(sizes=(0, 1, 2, 3), maxrank=3):
    """all pairs of shapes (rank <= maxrank, axis sizes from `sizes`) that broadcast with each other, in a fixed order"""
    key = (sizes, maxrank)
    if key not in _BP:
        seen, out = set(), []
        for r in shapes_upto(maxrank, sizes):
            vs = _bvariants(r)
            for a in vs:
                for b in vs:
                    # the pair must broadcast to r: in every axis one of them carries the size
                    ra = (1,) * (len(r) - len(a)) + a; rb = (1,) * (len(r) - len(b)) + b
                    if all(max(x, y) == z or (0 in (x, y) and z == 0) for x, y, z in zip(ra, rb, r)) and (a, b) not in seen:
                        try:
                            import numpy
                            if numpy.broadcast_shapes(a, b) != r: continue
                        except ValueError:
                            continue
                        seen.add((a, b)); out.append((a, b))
        _BP[key] = out
    return _BP[key]


CORNER_PAIRS = [((), ()), ((0,), (0,)), ((1,), (0,)), ((3,), ()), ((2, 3), (3,)), ((2, 1), (1, 3)), ((2, 1, 3), (4, 1)), ((3, 1, 2), (3, 2, 1)), ((0, 3), (1, 3)),
                ((2, 0, 2), (1, 2)), ((1,), (2, 2, 2)), ((4, 4), (4, 4)), ((3, 3, 3), (3, 3, 3))]


def pick(lst, n, salt):
    """deterministic sample of n entries"""
    if n >= len(lst): return list(lst)
    return random.Random(f'pick|{salt}').sample(lst, n)


def pair_sample(tier, salt, nq, nt):
    ps = bpairs()
    return CORNER_PAIRS + pick(ps, Tq(tier, nq, nt), salt)


KIND_TYPES = {'i': ('i16',), 'x': ('x32.16',), 'f': ('f11', 'f16')}
KIND_TYPES_TH = {'i': ('i16', 'i32'), 'x': ('x32.16', 'x24.8'), 'f': ('f11', 'f16', 'f9', 'f257')}


def types_of(kind, tier): return (KIND_TYPES if tier == 'quick' else KIND_TYPES_TH)[kind]


def _modes(kind, j):
    """value modes of a pair of operands, rotating with j (fixed point: integral / non-integral combinations)"""
    if kind == 'x': return (('m', 'm'), ('i', 'm'), ('m', 'i'), ('i', 'i'))[j % 4]
    return ('m', 'm')


OPERAND_FORMS = [('A', 'A'), ('A', 'S'), ('S', 'A'), ('A', 'P'), ('P', 'A'), ('A', 'N'), ('N', 'A')]


def _mkops(k1, k2, s1, s2, j, m1, m2):
    if k1 in 'SP': s1 = ()
    if k2 in 'SP': s2 = ()
    return ((k1, s1, j, m1), (k2, s2, j + 1, m2))


def in_arith(kind):
    def gen_(tier):
        j = 0
        for tname in types_of(kind, tier):
            for opn in ('add', 'sub', 'mul'):
                for form in ('op', 'ufunc', 'mpc'):
                    for k1, k2 in OPERAND_FORMS:
                        if form == 'mpc' and (k1, k2) != ('A', 'A'): continue          # mpc.np_add etc. take coerced operands
                        for s1, s2 in pair_sample(tier, f'{opn}{form}{k1}{k2}', 6, 60):
                            j += 1
                            m1, m2 = _modes(kind, j)
                            if kind == 'x' and 'N' in (k1, k2) and j % 3 == 0:
                                m1, m2 = ('F' if k1 == 'N' else m1), ('F' if k2 == 'N' else m2)
                            yield (tname, opn, _mkops(k1, k2, s1, s2, j, m1, m2), (form,))
            for form in ('op', 'ufunc'):
                for s1 in pick(shapes_upto(3, (0, 1, 2, 3)), Tq(tier, 12, 85), 'neg'):
                    j += 1
                    yield (tname, 'neg', (('A', s1, j, _modes(kind, j)[0]),), (form,))
            # powers with a public exponent
            exps = {'i': (0, 1, 2, 3, 5), 'x': (0, 1, 2, 3, -1), 'f': (0, 1, 2, 3, 7, -1, -2, 254)}[kind]
            for e in exps:
                for form in ('op', 'ufunc'):
                    for s1 in pick(shapes_upto(3, (0, 1, 2, 3)), Tq(tier, 4, 30), f'pow{e}'):
                        j += 1
                        mode = 'nz' if e < 0 else ('u' if kind == 'x' else 's' if kind == 'i' else 'm')
                        yield (tname, 'pow', (('A', s1, j, mode),), (e, form))
            if kind != 'f':
                for base in (2, 3):
                    for form in ('op', 'ufunc'):
                        for s1 in pick(shapes_upto(2, (0, 1, 2, 3)), Tq(tier, 3, 16), f'rpow{base}'):
                            j += 1
                            yield (tname, 'rpow', (('A', s1, j, 'e'),), (base, form))
                for form in ('op', 'ufunc'):
                    for s1, s2 in pair_sample(tier, 'lshift', 4, 40):
                        j += 1
                        yield (tname, 'lshift', (('A', s1, j, _modes(kind, j)[0]), ('P', (), j, 'e')), (form,))
                        yield (tname, 'lshift', (('A', s1, j, _modes(kind, j)[0]), ('N', s2, j, 'e')), (form,))
    return gen_


def in_div(kind):
    def gen_(tier):
        j = 0
        for tname in types_of(kind, tier):
            for form in ('op', 'ufunc'):
                for k1, k2 in OPERAND_FORMS:
                    for s1, s2 in pair_sample(tier, f'div{form}{k1}{k2}', 4, 50):
                        j += 1
                        if kind == 'i':
                            if (k1, k2) not in (('A', 'A'), ('A', 'S'), ('A', 'P'), ('A', 'N')) or form != 'op': continue
                            yield (tname, 'div_exact', _mkops(k1, k2, s1, s2, j, 's', 'nz'), (form,))
                        else:
                            yield (tname, 'div', _mkops(k1, k2, s1, s2, j, 'm', 'nz'), (form,))
    return gen_


# ================================================================================================ natives
def _mk():
    out = []

    def add(name, func, inputs, bound, call=call_case, check=ck_case):
        out.append(Native(name, func, call, check, inputs, bound, module=MODULE))

    SH = 'shape pairs: 13 fixed corner pairs + a deterministic sample of the broadcastable pairs of rank <= 3 with axis sizes 0..3'
    for kind, nm in (('i', 'int'), ('x', 'fxp'), ('f', 'fld')):
        add(f'arith_{nm}', 'mpyc.runtime.Runtime.np_add/np_subtract/np_multiply/np_negative/np_pow/np_left_shift', in_arith(kind),
            f'+ - * (operator, numpy ufunc, mpc.np_*), operands array/secret scalar/public scalar/public ndarray in both positions, unary -, ** public exponent, '
            f'public base ** array, << ; {SH} (quick 6, thorough 60 per form); values -60..60 (fixed point: 1/16 grid |v| <= 4, integral and non-integral operands in rotation)')
        add(f'div_{nm}', 'mpyc.runtime.Runtime.np_divide/np_reciprocal', in_div(kind),
            f'/ with operands array/secret scalar/public in both positions; nonzero divisors (fixed point 1/4 <= |y| <= 4; secure integers: exact quotients); {SH} (quick 4, thorough 50 per form)')
    return out


NATIVE = {}


def _register():
    for n in _mk():
        NATIVE[n.name] = n


_register()


def run_slice(name, tier, i, k):
    """pool task: the i-th of k slices of the input domain of one Native (same name, so replays work unchanged)."""
    n = NATIVE[name]
    s = Native(n.name, n.func, n.call, n.check, lambda t: itertools.islice(n.inputs(t), i, None, k), f'{n.bound} [slice {i + 1}/{k}]', module=n.module)
    if getattr(n, 'classify', None): s.classify = n.classify
    o = s.run(tier)
    o.name = f'{o.name}[{i + 1}/{k}]'
    return [o] + s.known


def run_group(names, tier):
    return [o for n in names for o in NATIVE[n].run_all(tier)]
