"""Engine-A contracts for mpyc.finfields.find_prime_root (C26), relative to the contracts of the layer-0 helpers it calls:
  gmpy2.is_prime(x) == ISPRIME(x);  prev_prime / next_prime: the greatest prime below / least prime above (proved for the stubs under C25);
  gmpy2.powmod(a, e, p): 0 <= r < p (value uninterpreted: PM(a, e, p)).
Proved, for ALL l, n (one contract per branch of the function):
  tiny      l <= 2: the constant triples (2, 1, 1) / (3, 2, 2)
  n_le_2    l > 2, n <= 2: p prime, p < 2^l, p = 3 mod 4 if blum, n unchanged, w = p-1 for n = 2 (and then w != 1, w*w = 1 mod p) else w = 1
  n_gt_2    l > 2, n > 2 (blum): n' prime, n' >= n, p prime, p >= 2^(l-1) + 1 (bit length >= l), p = 1 mod 2n', p = 3 mod 4,
            w = a^((p-1)/n') mod p with 0 <= w < p and w != 1
NOT proved here (bounded natives of C26): the bit length is EXACTLY l for n <= 2 (needs a prime, for blum a prime = 3 mod 4, in [2^(l-1), 2^l): Bertrand /
Dirichlet-type facts), w^n' = 1 mod p (Fermat), termination of the searches."""
import z3
from vc.engine import Contract, LoopSpec, And, Or, Not, Implies, If, I, POW2, VTuple

ISPRIME = z3.Function('ISPRIME', I, z3.BoolSort())
PM = z3.Function('PM', I, I, I, I)
w_ = z3.Int('w_')
# facts about primes used as assumptions (instances of elementary number theory): 2 and 3 are prime, 0 and 1 are not, an even number above 2 is not prime
_axioms = And(ISPRIME(2), ISPRIME(3), Not(ISPRIME(1)), Not(ISPRIME(0)), z3.ForAll([w_], Implies(And(w_ > 2, w_ % 2 == 0), Not(ISPRIME(w_)))),
              z3.ForAll([w_], Implies(w_ < 2, Not(ISPRIME(w_)))))


def _prev_prime(vc, P, args, kw, e):
    x = P.deref(args[0])
    vc.oblige(f'prev_prime-pre@{e.lineno}', P, x >= 3, line=e.lineno)            # precondition of the callee (it raises ValueError below 3)
    r = vc.fresh('pp')
    vc.assume(P, And(ISPRIME(r), r < x, z3.ForAll([w_], Implies(And(r < w_, w_ < x), Not(ISPRIME(w_))))))
    return r


def _next_prime(vc, P, args, kw, e):
    x = P.deref(args[0])
    r = vc.fresh('np')
    vc.assume(P, And(ISPRIME(r), r > x, z3.ForAll([w_], Implies(And(x < w_, w_ < r), Not(ISPRIME(w_))))))
    return r


def _powmod(vc, P, args, kw, e):
    a, ex, p = [P.deref(v) for v in args]
    vc.oblige(f'powmod-modulus-positive@{e.lineno}', P, p > 0, line=e.lineno)
    r = PM(a, ex, p)
    vc.assume(P, And(0 <= r, r < p))
    return r


CALLS = {'gmpy2.is_prime': lambda vc, P, args, kw, e: ISPRIME(P.deref(args[0])), 'gmpy2.prev_prime': _prev_prime, 'gmpy2.next_prime': _next_prime,
         'gmpy2.powmod': _powmod, 'int': lambda vc, P, args, kw, e: P.deref(args[0])}


def _params(vc, P):
    return dict(l=z3.Int('l'), blum=z3.Bool('blum'), n=z3.Int('n'))


_T = LoopSpec(lambda A, E: z3.BoolVal(True))          # loops of the other branches: unreachable under this case's precondition


def _res(r):
    return r.items if isinstance(r, VTuple) else r


tiny = Contract('mpyc.finfields.find_prime_root', _params, case='l<=2',
                requires=lambda A: And(_axioms, A['l'] <= 2, Or(A['blum'], A['n'] == 1)),
                ensures=lambda A, r, E: And(_res(r)[0] == If(A['blum'], 3, 2), _res(r)[1] == If(A['blum'], 2, 1), _res(r)[2] == If(A['blum'], 2, 1), ISPRIME(_res(r)[0])),
                calls=CALLS, loops={'0': _T, '1': _T, '2': _T})

n_le_2 = Contract('mpyc.finfields.find_prime_root', _params, case='n<=2',
                  requires=lambda A: And(_axioms, A['l'] > 2, A['n'] <= 2, POW2(A['l']) >= 8),          # 2^l >= 8 for l >= 3 (fact about the spec function POW2)
                  ensures=lambda A, r, E: And(ISPRIME(_res(r)[0]), _res(r)[0] < POW2(A['l']), _res(r)[0] >= 3, Implies(A['blum'], _res(r)[0] % 4 == 3),
                                              _res(r)[1] == A['n'],
                                              _res(r)[2] == If(A['n'] == 2, _res(r)[0] - 1, 1),
                                              Implies(A['n'] == 2, And(_res(r)[2] != 1, _res(r)[2] * _res(r)[2] == _res(r)[0] * (_res(r)[0] - 2) + 1))),
                  calls=CALLS,
                  loops={'0': LoopSpec(lambda A, E: And(ISPRIME(E['p']), E['p'] < POW2(A['l']), E['p'] >= 3)), '1': _T, '2': _T})


def _inv_search(A, E):
    # p = 1 + 2n(3 + 2j) for a ghost j >= j0 = (2^(l-3)) // n : so p = 1 mod 2n, p = 3 mod 4 for odd n, and p > 2^(l-1)
    return And(E['p'] == 1 + 2 * E['n'] * (3 + 2 * E['__j']), E['__j'] >= E['__j0'], ISPRIME(E['n']), E['n'] >= A['n'], E['n'] > 2,
               E['__j0'] * E['n'] <= POW2(A['l'] - 3), POW2(A['l'] - 3) < (E['__j0'] + 1) * E['n'], E['__j0'] >= 0)


n_gt_2 = Contract('mpyc.finfields.find_prime_root', _params, case='n>2',
                  requires=lambda A: And(_axioms, A['l'] > 2, A['n'] > 2, A['blum'], POW2(A['l'] - 1) == 4 * POW2(A['l'] - 3)),   # 2^(l-1) = 4 * 2^(l-3): fact about POW2
                  ensures=lambda A, r, E: And(ISPRIME(_res(r)[1]), _res(r)[1] >= A['n'], ISPRIME(_res(r)[0]),
                                              _res(r)[0] > POW2(A['l'] - 1),
                                              z3.Exists([w_], And(w_ >= 0, _res(r)[0] == 1 + 2 * _res(r)[1] * w_)),            # p = 1 mod 2n'
                                              _res(r)[0] % 4 == 3,
                                              0 <= _res(r)[2], _res(r)[2] < _res(r)[0], _res(r)[2] != 1),
                  calls=CALLS,
                  ghost_entry=['__j = 0', '__j0 = 0'],
                  loops={'0': _T, '1': LoopSpec(_inv_search, ghost_vars=['__j', '__j0'], ghost_before=['__j0 = (1 << l-3) // n', '__j = __j0'], ghost_end=['__j = __j + 1']),
                         '2': LoopSpec(lambda A, E: And(E['a'] >= 2, _inv_search(A, E), ISPRIME(E['p'])), ghost_vars=['__j', '__j0'])})

CONTRACTS = [tiny, n_le_2, n_gt_2]
BY_NAME = {'fpr_tiny': tiny, 'fpr_n_le_2': n_le_2, 'fpr_n_gt_2': n_gt_2}
fpr_tiny, fpr_n_le_2, fpr_n_gt_2 = tiny, n_le_2, n_gt_2
