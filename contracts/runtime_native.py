"""Bounded executable contracts for value-level protocols of mpyc/runtime.py that have no linear VC: fixed-point division, reciprocal,
sin/cos and powers on enumerated small types (C02), secure gcd family (C01), field <-> integer conversions (C06).  m = 1 runtime."""
import math, sys
from fractions import Fraction
from lib.native import Native


def _mpc():
    sys.argv = [sys.argv[0] if sys.argv else 'x', '--no-log']
    from mpyc.runtime import mpc
    return mpc


def _fx(l, f):
    mpc = _mpc()
    return mpc, mpc.SecFxp(l, f)


def _out(mpc, z):
    return mpc.run(mpc.output(z))


def call_div(l, f, a, b):
    mpc, T = _fx(l, f); one = 1 << f
    return _out(mpc, T(a / one) / T(b / one))


def ck_div(args, res, exc):
    l, f, a, b = args; one = 1 << f
    if exc: return f'unexpected {type(exc).__name__}: {exc}'
    x, y = Fraction(a, one), Fraction(b, one)
    err = abs(Fraction(res) - x / y) * one
    if err <= 16 * (1 + abs(x)): return True
    msg = f'x/y = {float(x)}/{float(y)}: got {float(res)}, off by {float(err):.2f} units > 16(1+|x|) = {float(16 * (1 + abs(x))):.2f}'
    # two listed known findings, each delimited exactly; every other excess is a different violation
    if l > 2 * f + 1 and res == 0:
        return ('class', 'l>2f+1:quotient-is-0', msg + ' (the normalisation constant 2^(f-l+1) of _norm is below the resolution 2^-f and rounds to 0)')
    if l <= 2 * f + 1 and abs(y) < 1 and err <= 16 * (1 + abs(x)) + 2 * abs(x / y):
        return ('class', 'divisor-below-1:error-proportional-to-quotient', msg + f' (within 16(1+|x|) + 2|x/y| = {float(16 * (1 + abs(x)) + 2 * abs(x / y)):.2f}: the Newton '
                'reciprocal is accurate to a few units RELATIVE to 1/y)')
    return msg


def in_div_f8(tier):
    """larger fractional parts (the exhaustive small type f = 4 cannot show errors that grow with 1/y): sampled grid"""
    import random
    rnd = random.Random(7)
    for l, f in ((16, 8), (24, 12)) + (((32, 16),) if tier != 'quick' else ()):
        one = 1 << f; half = 1 << (l - 1)
        bs = list(range(1, 24)) + [-1, -2, -3, -7, one // 2 - 1, one // 2, one - 1, one, one + 1, 3 * one + 7, -one, -5 * one - 3, half // 3]
        as_ = [0, 1, 2, 5, -3, one // 3, one - 1, one, one + 1, -one, 7 * one + 3] + [rnd.randrange(-half // 64, half // 64) for _ in range(6 if tier == 'quick' else 40)]
        for b in bs:
            for a in as_:
                if abs(Fraction(a, b)) * one < half - 16 * (one + abs(a) + abs(Fraction(a * one, b))) / one - 1:
                    yield (l, f, a, b)


def in_div_bands(tier):
    """the number of Newton iterations of _rec is ceil(log2((f+1)/3.54)): f = 6, 13, 27, 55 are the largest f of each band (least margin);
    divisors at and just below / above powers of two (the ends of the normalised interval [1/2, 1])"""
    for l, f in ((12, 6), (26, 13), (54, 27), (110, 55)) + (((14, 7), (28, 14), (56, 28), (40, 20), (48, 24)) if tier != 'quick' else ()):
        one = 1 << f
        for j in (-2, -1, 0, 1, 2, 3):
            base = one << j if j >= 0 else one >> -j
            for b in (base, base - 1, base + 1, -base, -base + 1, base + base // 2, base - base // 128, -(base + base // 3)):
                for a in (one, 3 * one + 7, -(one // 3), 0):
                    if abs(b) >= 1 and abs(Fraction(a, b)) < (1 << (l - f - 2)): yield (l, f, a, b)


def in_div_wide(tier):
    """types with l > 2f+1 (the property covers every l >= 2f)"""
    for l, f in ((12, 4), (16, 6), (32, 14), (64, 16)):
        one = 1 << f
        for a, b in ((one, 2 * one), (3 * one, 4 * one), (10 * one, 3 * one), (-7 * one, 2 * one), (one, one // 2), (5 * one, 100 * one), (one // 4, -one), (1, 1)):
            yield (l, f, a, b)


def in_div(tier):
    for l, f in ((8, 4), (12, 6)) if tier != 'quick' else ((8, 4),):
        one = 1 << f; half = 1 << (l - 1)
        for b in range(-half, half, 1 if l <= 8 else 5):
            if b == 0: continue
            for a in range(-half, half, (1 if l <= 8 else 97) if tier != 'quick' else 7):
                q = Fraction(a, b)
                if abs(q) * one < half - 16 * (one + abs(a)) / one - 1:      # result (and its error margin) in range
                    yield (l, f, a, b)


def call_rec(l, f, b):
    mpc, T = _fx(l, f); one = 1 << f
    return _out(mpc, 1 / T(b / one))


def ck_rec(args, res, exc):
    l, f, b = args; one = 1 << f
    if exc: return f'unexpected {type(exc).__name__}: {exc}'
    err = abs(Fraction(res) - Fraction(one, b)) * one
    if err <= 16 * 2: return True
    msg = f'1/y for y = {b}/{one}: got {float(res)}, off by {float(err):.2f} units > 32'
    if l <= 2 * f + 1 and abs(b) < one and err <= 32 + 2 * abs(Fraction(one, b)):
        return ('class', 'divisor-below-1:error-proportional-to-quotient', msg + ' (within 32 + 2|1/y|)')
    return msg


def in_rec(tier):
    for l, f in ((8, 4), (12, 6), (16, 8)) if tier != 'quick' else ((8, 4), (12, 6)):
        one = 1 << f; half = 1 << (l - 1)
        for b in range(-half, half):
            if b and abs(Fraction(one * one, b)) < half - 40: yield (l, f, b)
    if tier == 'quick':          # the smallest divisors of SecFxp(16,8) (where the listed finding shows) also in the quick tier
        for b in (3, -3, 5, 7, -11, 13, 100, -200, 255, 256, 257, 1000, -30000):
            yield (16, 8, b)


def call_sincos(l, f, a):
    mpc, T = _fx(l, f); one = 1 << f
    x = T(a / one)
    return [_out(mpc, mpc.sin(x)), _out(mpc, mpc.cos(x))]


def ck_sincos(args, res, exc):
    l, f, a = args; one = 1 << f
    if exc: return f'unexpected {type(exc).__name__}: {exc}'
    x = a / one
    es, ec = abs(res[0] - math.sin(x)) * one, abs(res[1] - math.cos(x)) * one
    if es <= 4.001 and ec <= 4.001: return True
    msg = f'sin/cos of {x}: off by {es:.2f} / {ec:.2f} units > 4'
    # listed known finding, delimited exactly: large arguments, error proportional to |x| (argument reduction with an f-bit constant)
    if abs(x) >= 32 and max(es, ec) <= 4 + abs(x) / 8:
        return ('class', 'argument-above-32:error-proportional-to-|x|', msg + f' (within 4 + |x|/8 = {4 + abs(x) / 8:.2f})')
    return msg


def in_sincos(tier):
    for l, f in ((10, 5), (16, 8)) if tier != 'quick' else ((10, 5),):
        half = 1 << (l - 1)
        for a in range(-half, half, (1 if l <= 10 else 7) if tier != 'quick' else 3): yield (l, f, a)
    # large arguments (sampled)
    import random
    rnd = random.Random(11)
    for l, f in ((16, 8), (20, 8)):
        half = 1 << (l - 1)
        for a in [half - 1, -half, -half + 1, half // 2, -half // 3] + [rnd.randrange(-half, half) for _ in range(40 if tier == 'quick' else 400)]:
            yield (l, f, a)


def call_pow(l, f, a, n):
    mpc, T = _fx(l, f); one = 1 << f
    return _out(mpc, T(a / one) ** n)


def ck_pow(args, res, exc):
    l, f, a, n = args; one = 1 << f
    if exc: return f'unexpected {type(exc).__name__}: {exc}'
    x = Fraction(a, one)
    err = abs(Fraction(res) - x ** n) * one
    bound = n * (1 + abs(x)) ** (n - 1)
    return err <= bound or f'x**{n} off by {float(err):.2f} units > n(1+|x|)^(n-1) = {float(bound):.2f}'


def in_pow(tier):
    for l, f in ((12, 4), (16, 6)) if tier != 'quick' else ((12, 4),):
        one = 1 << f; half = 1 << (l - 1)
        for n in (2, 3, 4):
            for a in range(-half, half, 1 if tier != 'quick' else 5):
                x = Fraction(a, one)
                if (abs(x) ** n + n * (1 + abs(x)) ** (n - 1) / one + 1) * one < half: yield (l, f, a, n)


# ---------------------------------------------------------------- products of lists with individually marked elements (C03 / C02)
def call_prod_flags(l, f, vals, marks):
    mpc, T = _fx(l, f); one = 1 << f
    xs = [T(v // one, integral=True) if mk else T(v / one, integral=False) for v, mk in zip(vals, marks)]
    z = mpc.prod(xs)
    return _out(mpc, z), z.integral


def ck_prod_flags(args, res, exc):
    l, f, vals, marks = args; one = 1 << f
    if exc: return f'unexpected {type(exc).__name__}: {exc}'
    val, flag = res
    exact = Fraction(1)
    for v, mk in zip(vals, marks): exact *= (Fraction(v // one) if mk else Fraction(v, one))
    err = abs(Fraction(val) - exact) * one
    n = len(vals)
    if err > 4 * n * (1 + abs(exact)): return f'prod = {val}, exact {float(exact)}: off by {float(err):.1f} units'
    if flag is True and Fraction(val).denominator != 1: return f'result marked integral but equals {val}'
    return True


def in_prod_flags(tier):
    import itertools, random
    rnd = random.Random(5)
    l, f = 16, 6; one = 1 << f
    for n in (2, 3, 4, 5, 6, 7) if tier == 'quick' else range(2, 10):
        pats = list(itertools.product((True, False), repeat=n))
        if len(pats) > 64 and tier == 'quick': pats = rnd.sample(pats, 64)
        for marks in pats:
            for _ in range(1 if tier == 'quick' else 3):
                vals = tuple((rnd.choice([1, 2, 3, -1, -2]) * one) if mk else rnd.choice([19, 45, 70, -26, 90, 38]) for mk in marks)      # fractions 0.3, 0.7, 1.1, -0.4, 1.4, 0.6
                yield (l, f, vals, marks)


# ---------------------------------------------------------------- secure gcd family (C01), all pairs of small integers
def call_gcd(L, a, b):
    mpc = _mpc(); S = mpc.SecInt(2 * L + 2)
    x, y = S(a), S(b)
    g, lc = _out(mpc, mpc.gcd(x, y, l=L)), _out(mpc, mpc.lcm(x, y, l=L))
    ge = _out(mpc, list(mpc.gcdext(x, y, l=L)))
    inv = _out(mpc, mpc.inverse(x, S(b), l=L)) if (b > 1 and math.gcd(a, b) == 1) else None
    return g, lc, ge, inv


def ck_gcd(args, res, exc):
    L, a, b = args
    if exc: return f'unexpected {type(exc).__name__}: {exc}'
    g, lc, (g2, s, t), inv = res
    G = math.gcd(a, b)
    if g != G: return f'gcd = {g}, expected {G}'
    if lc != (abs(a * b) // G if G else 0): return f'lcm = {lc}'
    if g2 != G or s * a + t * b != G: return f'gcdext = {(g2, s, t)}: not Bezout coefficients of {G}'
    if inv is not None and not (0 <= inv < b and inv * a % b == 1 % b): return f'inverse = {inv}'
    return True


def in_gcd(tier):
    L = 4 if tier == 'quick' else 5
    lo, hi = -(1 << (L - 1)) + 1, 1 << (L - 1)
    for a in range(lo, hi):
        for b in range(lo, hi): yield (L, a, b)


def call_inv(L, a, b):
    mpc = _mpc(); S = mpc.SecInt(2 * L + 2)
    return _out(mpc, mpc.inverse(S(a), S(b), l=L)), _out(mpc, list(mpc.gcdext(S(a), S(b), l=L)))


def ck_inv(args, res, exc):
    L, a, b = args
    if exc: return f'unexpected {type(exc).__name__}: {exc}'
    inv, (g, s, t) = res
    if not (0 <= inv < b and inv * a % b == 1 % b): return f'inverse({a}, {b}) = {inv}, expected {pow(a, -1, b)}'
    if g != 1 or s * a + t * b != 1: return f'gcdext({a}, {b}) = {(g, s, t)}: not Bezout coefficients of 1'
    return True


def in_inv(tier):
    B = 40 if tier == 'quick' else 128
    L = B.bit_length() + 1
    for b in range(2, B):
        for a in range(1, b):
            if math.gcd(a, b) == 1: yield (L, a, b)


# ---------------------------------------------------------------- conversions involving secure fields (C06)
def call_conv(q, signed, v, l):
    mpc = _mpc()
    F = mpc.SecFld(q, signed=signed); S = mpc.SecInt(l)
    x = F(v)
    to_int = _out(mpc, mpc.convert(x, S))
    back = _out(mpc, mpc.convert(S(to_int), F))
    G = mpc.SecFld(257)
    ff = _out(mpc, mpc.convert(x, G))
    return to_int, int(back), int(ff), F.field.is_signed


def ck_conv(args, res, exc):
    q, signed, v, l = args
    if exc: return f'unexpected {type(exc).__name__}: {exc}'
    to_int, back, ff, is_signed = res
    rep = v - q if (is_signed and v > q // 2) else v          # canonical (signed or unsigned) integer representative
    if to_int != rep: return f'field -> int gives {to_int}, canonical representative is {rep}'
    if back % q != v % q: return f'int -> field gives {back}'
    if ff % 257 != rep % 257: return f'field -> field gives {ff}, expected representative {rep} mod 257'
    return True


def in_conv_gf2_signed(tier):
    yield (2, True, 0, 16); yield (2, True, 1, 16)


def in_conv(tier):
    for q in (2, 3, 7, 11, 101, 251):
        for signed in (False, True):
            if q == 2 and signed: continue          # separate entry below (so that it cannot mask the other fields)
            for v in range(q):
                if q > 20 and tier == 'quick' and v % 7 not in (0, 1, 3): continue
                yield (q, signed, v, 16)


def call_conv_ff(qs, qd, signed, v):
    mpc = _mpc()
    F = mpc.SecFld(qs, signed=signed); G = mpc.SecFld(qd, signed=signed)
    r = _out(mpc, mpc.convert(F(v), G))
    return int(r.value), F.field.is_signed


def ck_conv_ff(args, res, exc):
    qs, qd, signed, v = args
    if exc: return f'unexpected {type(exc).__name__}: {exc}'
    val, is_signed = res
    rep = v - qs if (is_signed and v > qs // 2) else v
    return val == rep % qd or f'field -> field: GF({qs})({v}) -> GF({qd}) gives {val}, canonical representative {rep} mod {qd} = {rep % qd}'


def in_conv_ff(tier):
    P61, P89, P40, P33, P13 = 2 ** 61 - 1, 2 ** 89 - 1, 1099511627689, 8589934583, 8191
    for qs, qd in ((P61, 257), (P61, P33), (P40, P33), (P89, P61), (P33, P40), (257, P61), (P13, 7), (101, P13), (P61, P61)):
        for signed in (False, True):
            # the property speaks about values that fit the target: representative in [0, qd) resp. [-(qd//2), qd//2]
            reps = (0, 1, 2, -1, -2, qd // 2, -(qd // 2), qd // 2 - 1, qd - 1, qd - 2, qd // 3, 12345, -12345)
            for rep in reps:
                lo, hi = (-(min(qs, qd) // 2), min(qs, qd) // 2) if signed else (0, min(qs, qd) - 1)
                if lo <= rep <= hi:
                    yield (qs, qd, signed, rep % qs)


NATIVE = {n.name: n for n in [
    Native('fxp_prod_marks', 'mpyc.runtime.Runtime.prod (fixed point, per-element integral marks)', call_prod_flags, ck_prod_flags, in_prod_flags,
           'SecFxp(16,6), lists of 2..7 (thorough 9) elements, every pattern of integral marks (quick: 64 sampled patterns for n = 7), whole and fractional values'),
    Native('int_inverse', 'mpyc.runtime.Runtime.inverse/gcdext', call_inv, ck_inv, in_inv, 'all coprime pairs 1 <= a < b < 40 (thorough 128)'),
    Native('fxp_div_f8', 'mpyc.runtime.Runtime.div/_rec/_norm', call_div, ck_div, in_div_f8,
           'SecFxp(16,8), SecFxp(24,12) (thorough + SecFxp(32,16)): 36 divisors (1..23 units, around 1/2, 1, 3, -5, max/3) x 17 (51) dividends, quotient in range'),
    Native('fxp_div_bands', 'mpyc.runtime.Runtime.div/_rec/_norm', call_div, ck_div, in_div_bands,
           'SecFxp(2f,f) for f = 6, 13, 27, 55 (thorough + 7, 14, 28, 20, 24): divisors at / next to +-2^j (j = -2..3), 1.5*2^j, 4 dividends'),
    Native('fxp_div_wide', 'mpyc.runtime.Runtime.div/_rec/_norm', call_div, ck_div, in_div_wide, 'SecFxp(12,4), (16,6), (32,14), (64,16): 8 quotients each'),
    Native('fxp_div', 'mpyc.runtime.Runtime.div/_rec/_norm', call_div, ck_div, in_div, 'SecFxp(8,4): all divisors, every 7th dividend (thorough: all pairs, + SecFxp(12,6) every 5th divisor, every 97th dividend); results in range'),
    Native('fxp_reciprocal', 'mpyc.runtime.Runtime._rec/_norm', call_rec, ck_rec, in_rec, 'SecFxp(8,4), (12,6) (thorough + (16,8)): all representable y with 1/y in range'),
    Native('fxp_sincos', 'mpyc.runtime.Runtime.sincos', call_sincos, ck_sincos, in_sincos, 'SecFxp(10,5): every 3rd representable x (thorough: all, + (16,8) every 7th); SecFxp(16,8), SecFxp(20,8): extremes + 40 (400) sampled arguments'),
    Native('fxp_pow', 'mpyc.runtime.Runtime.pow (fixed point)', call_pow, ck_pow, in_pow, 'SecFxp(12,4): n in {2,3,4}, every 5th x with x**n in range (thorough: all, + (16,6))'),
    Native('int_gcd_family', 'mpyc.runtime.Runtime.gcd/lcm/gcdext/inverse/_gcd/_divsteps', call_gcd, ck_gcd, in_gcd, 'all pairs of 4-bit (thorough 5-bit) integers'),
    Native('field_conversions', 'mpyc.runtime.Runtime.convert/_convert (secure fields)', call_conv, ck_conv, in_conv, 'GF(q) for q in {2,3,7,11,101,251}, signed and unsigned, all (sampled for q > 20) elements'),
    Native('field_conversions_field_to_field', 'mpyc.runtime.Runtime.convert (field to field via secure integers)', call_conv_ff, ck_conv_ff, in_conv_ff,
           'prime fields of 13, 33, 40, 61, 89 bits and small ones in both directions, signed and unsigned, 12 boundary values each'),
    Native('field_conversions_gf2_signed', 'mpyc.runtime.Runtime.convert/_convert[signed-GF(2)]', call_conv, ck_conv, in_conv_gf2_signed, 'signed GF(2), both elements'),
]}
for _n in NATIVE.values(): _n.module = 'contracts.runtime_native'
BY_PROP = {'C03': ['fxp_prod_marks'], 'C02': ['fxp_div', 'fxp_div_f8', 'fxp_div_bands', 'fxp_div_wide', 'fxp_reciprocal', 'fxp_sincos', 'fxp_pow'], 'C01': ['int_gcd_family', 'int_inverse'], 'C06': ['field_conversions', 'field_conversions_field_to_field', 'field_conversions_gf2_signed']}


def tasks(tier, prop):
    return [('lib.native', 'run_natives', ('contracts.runtime_native', [n], tier)) for n in BY_PROP.get(prop, [])]
