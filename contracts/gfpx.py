"""Sidecar bounded ("B") executable contracts for mpyc/gfpx.py (properties C23, C24) and for the two users of the
irreducibility test in mpyc/finfields.py (find_irreducible, GF/xGF gate).

Conventions
-----------
* A polynomial over GF(p) is named in the INPUTS by its base-p integer encoding n = sum a_i p^i (a_i in 0..p-1); the
  real object is built inside `call` with `cls(n)`.  Results are converted back to that encoding by `_plain`, which reads
  the `.value` attribute directly (own conversion, not the module's `_to_int`) and at the same time checks the
  representation invariant (list of ints in range(p) without trailing zero / nonnegative int for the binary class).
* Representations ("rep"):
    'bin'   gfpx.GFpX(2)  = BinaryPolynomial (integer bit mask)
    'list2' the generic list code of gfpx.Polynomial instantiated for p = 2 the way GFpX does it for odd p
            (type(name, (Polynomial,), {'__slots__': ()}) with .p = 2), bypassing the GFpX(2) shortcut
    'odd35', 'odd7'   gfpx.GFpX(p) for odd p (list code); the primes {3,5} and {7,11,(13)} are two entries (load balance)
  Every operation is a separate Native per representation, name '<op>.<rep>'; 'agree.<op>' compares 'bin' with
  'list2' directly on the same inputs (value or exception type).
* The oracle is the reference implementation `r_*` below: plain little-endian normalised coefficient lists,
  schoolbook convolution, long division with pow(lc, -1, p), Euclid, brute-force trial division.  Nothing of mpyc is
  called to compute an expected value.
* int coercion as documented by `_coerce`/`_from_int`: an int n >= 0 stands for the polynomial with encoding n
  (base-p digits); n < 0 stands for -(polynomial of |n|) (binary class: abs, which is the same thing over GF(2)).
* Orders: `<` etc. = order of the integer encodings (zero polynomial smallest).
* Preconditions kept out of the domains (documented in the module, not spoken of by the property): shift counts
  n >= 0; powmod modulus b != 0 (docstring "for nonzero b").
"""
from lib.native import Native


def T(tier, q, th): return q if tier == 'quick' else th


# ===================================================================== reference implementation (oracle)
_FI = {}


def FI(p, n):
    """base-p digits of n >= 0, little-endian, normalised. The returned list is shared: never mutate it."""
    d = _FI.get(p)
    if d is None:
        d = _FI[p] = {}
    c = d.get(n)
    if c is None:
        c = []; m = n
        while m:
            c.append(m % p); m //= p
        d[n] = c
    return c


def r_to_int(p, c):
    s = 0
    for x in reversed(c):
        s = s * p + x
    return s


def r_trim(c):
    while c and c[-1] == 0:
        c.pop()
    return c


def r_add(p, a, b):
    n = max(len(a), len(b))
    return r_trim([((a[i] if i < len(a) else 0) + (b[i] if i < len(b) else 0)) % p for i in range(n)])


def r_neg(p, a):
    return [(-x) % p for x in a]


def r_sub(p, a, b):
    return r_add(p, a, r_neg(p, b))


def r_mul(p, a, b):
    if not a or not b:
        return []
    c = [0] * (len(a) + len(b) - 1)
    for i, x in enumerate(a):
        for j, y in enumerate(b):
            c[i + j] = (c[i + j] + x * y) % p
    return r_trim(c)


def r_divmod(p, a, b):
    if not b:
        raise ZeroDivisionError
    inv = pow(b[-1], -1, p)
    r = list(a)
    q = [0] * max(len(a) - len(b) + 1, 0)
    while len(r) >= len(b):
        k = len(r) - len(b)
        f = r[-1] * inv % p
        q[k] = f
        for j, y in enumerate(b):
            r[k + j] = (r[k + j] - f * y) % p
        r_trim(r)
    return r_trim(q), r


def r_mod(p, a, b):
    return r_divmod(p, a, b)[1]


def r_monic(p, a):
    if not a:
        return []
    inv = pow(a[-1], -1, p)
    return [x * inv % p for x in a]


def r_gcd(p, a, b):
    while b:
        a, b = b, r_mod(p, a, b)
    return r_monic(p, a)


def r_pow(p, a, n):
    r = [1]
    for _ in range(n):
        r = r_mul(p, r, a)
    return r


def r_powmod(p, a, n, b):
    """n >= 0: repeated multiplication modulo b, starting from 1 mod b"""
    r = r_mod(p, [1], b)
    for _ in range(n):
        r = r_mod(p, r_mul(p, r, a), b)
    return r


def r_eval(p, a, x):
    return sum(c * x ** i for i, c in enumerate(a)) % p


def r_deriv1(p, a):
    return r_trim([(i * a[i]) % p for i in range(1, len(a))])


def r_reverse(a, d):
    if d is None:
        d = len(a) - 1
    c = [(a[i] if i < len(a) else 0) for i in range(d + 1)]
    c.reverse()
    return r_trim(c)


def r_coerce_int(p, n):
    return FI(p, n) if n >= 0 else r_neg(p, FI(p, -n))


_IRR = {}


def r_is_irr(p, n):
    """brute force: degree >= 1 and no monic divisor of degree 1..deg//2"""
    k = (p, n)
    v = _IRR.get(k)
    if v is None:
        a = FI(p, n)
        d = len(a) - 1
        v = d >= 1
        if v:
            for e in range(1, d // 2 + 1):
                for m in range(p ** e, 2 * p ** e):
                    if not r_mod(p, a, FI(p, m)):
                        v = False; break
                if not v: break
        _IRR[k] = v
    return v


def r_terms(p, a):
    """canonical text: descending powers, coefficient 1 omitted except for the constant term"""
    if not a:
        return '0'
    t = []
    for i in range(len(a) - 1, -1, -1):
        c = a[i]
        if c:
            cs = '' if c == 1 else str(c)
            t.append(str(c) if i == 0 else f'{cs}x' if i == 1 else f'{cs}x^{i}')
    return '+'.join(t)


# ===================================================================== access to the real classes
_CLS = {}


def _cls(rep, p):
    k = (rep, p)
    c = _CLS.get(k)
    if c is None:
        from mpyc import gfpx
        if rep == 'list2':
            assert p == 2
            c = type('GF(2)[x]list', (gfpx.Polynomial,), {'__slots__': ()})
            c.p = 2
        else:
            assert (rep == 'bin') == (p == 2) and rep in ('bin', 'odd35', 'odd7')
            c = gfpx.GFpX(p)
        _CLS[k] = c
    return c


def _plain(cls, x):
    """real result -> plain Python value; polynomials -> base-p integer encoding (own conversion from .value) after
    checking the representation invariant; a violated invariant yields a ('BAD', ...) tuple that equals no expectation"""
    from mpyc import gfpx
    if isinstance(x, gfpx.Polynomial):
        if type(x) is not cls:
            return ('BAD', f'result of type {type(x).__name__}, not {cls.__name__}')
        v = x.value
        if issubclass(cls, gfpx.BinaryPolynomial):
            if type(v) is not int or v < 0:
                return ('BAD', f'value {v!r} is not a nonnegative int')
            return v
        p = cls.p
        if type(v) is not list or any(type(c) is not int or not 0 <= c < p for c in v) or (v and v[-1] == 0):
            return ('BAD', f'value {v!r} violates the representation invariant')
        return r_to_int(p, v)
    if isinstance(x, tuple):
        return tuple(_plain(cls, y) for y in x)
    if isinstance(x, list):
        return [_plain(cls, y) for y in x]
    return x


def _try(f):
    try:
        return f()
    except RecursionError:
        raise
    except Exception as e:  # noqa
        return ('exc', type(e).__name__)


def _isint(v): return type(v) is int


def unexpected(exc): return f'unexpected {type(exc).__name__}: {exc}'


def must_raise(exc, E, why): return isinstance(exc, E) or f'{why}: must raise {E.__name__}'


def expect(val, exc, want):
    if exc is not None: return unexpected(exc)
    return val == want or f'expected {want!r}'


def P1(f):
    def real(cls, a):
        x = cls(a)
        r = _plain(cls, f(cls, x))
        if _plain(cls, x) != a: return ('MUTATED-OPERAND', r)
        return r
    return real


def P2(f):
    def real(cls, a, b):
        x, y = cls(a), cls(b)
        r = _plain(cls, f(cls, x, y))
        if _plain(cls, x) != a or _plain(cls, y) != b: return ('MUTATED-OPERAND', r)
        return r
    return real


def PN(f):
    def real(cls, a, n):
        x = cls(a)
        r = _plain(cls, f(cls, x, n))
        if _plain(cls, x) != a: return ('MUTATED-OPERAND', r)
        return r
    return real


# ===================================================================== domains
PAIRS = {'quick': {'bin': [(2, 128, 128)], 'list2': [(2, 128, 128)],
                   'odd': [(3, 81, 81), (5, 625, 625), (7, 343, 343), (11, 1331, 121)]},
         'thorough': {'bin': [(2, 512, 512)], 'list2': [(2, 512, 512)],
                      'odd': [(3, 243, 243), (5, 3125, 1250), (7, 2401, 686), (11, 1331, 1331), (13, 2197, 338)]}}
PAIRS_TXT = ('all pairs (a, b): p=2 deg<=6; p=3,5 deg<=3; p=7 deg<=2; p=11 deg a<=2, deg b<=1 '
             '(thorough: p=2 deg<=8; p=3 deg<=4; p=5 deg a<=4, b deg<=3 or monic deg 4; p=7 deg a<=3, b deg<=2 or monic deg 3; '
             'p=11 deg<=2; p=13 deg a<=2, b deg<=1 or monic deg 2)')
SMALL = {'quick': {'bin': [(2, 64, 64)], 'list2': [(2, 64, 64)],
                   'odd': [(3, 81, 81), (5, 125, 125), (7, 49, 49), (11, 121, 121)]},
         'thorough': {'bin': [(2, 128, 128)], 'list2': [(2, 128, 128)],
                      'odd': [(3, 243, 243), (5, 625, 625), (7, 343, 343), (11, 121, 242), (13, 169, 169)]}}
SMALL_TXT = ('all pairs (a, b): p=2 deg<=5; p=3 deg<=3; p=5 deg<=2; p=7,11 deg<=1 '
             '(thorough: p=2 deg<=6; p=3 deg<=4; p=5 deg<=3; p=7 deg<=2; p=11 deg a<=1, b deg<=1 or monic deg 2; p=13 deg<=1)')
TINY = {'quick': {'bin': [(2, 32, 32)], 'list2': [(2, 32, 32)], 'odd': [(3, 27, 27), (5, 125, 125), (7, 49, 49), (11, 121, 121)]},
        'thorough': {'bin': [(2, 64, 64)], 'list2': [(2, 64, 64)], 'odd': [(3, 81, 81), (5, 125, 125), (7, 343, 343), (11, 121, 121), (13, 169, 169)]}}
TINY_TXT = 'all pairs: p=2 deg<=4; p=3,5 deg<=2; p=7,11 deg<=1 (thorough: p=2 deg<=5; p=3 deg<=3; p=5,7 deg<=2; p=11,13 deg<=1)'
SINGLES = {'quick': {'bin': [(2, 256)], 'list2': [(2, 256)], 'odd': [(3, 243), (5, 625), (7, 343), (11, 1331)]},
           'thorough': {'bin': [(2, 4096)], 'list2': [(2, 4096)], 'odd': [(3, 2187), (5, 3125), (7, 2401), (11, 1331), (13, 2197)]}}
SINGLES_TXT = ('all a: p=2 deg<=7; p=3 deg<=4; p=5 deg<=3; p=7,11 deg<=2 '
               '(thorough: p=2 deg<=11; p=3 deg<=6; p=5 deg<=4; p=7 deg<=3; p=11,13 deg<=2)')
TRIPLES = {'quick': {'bin': [(2, 16)], 'list2': [(2, 16)], 'odd': [(3, 27), (5, 25), (7, 28)]},
           'thorough': {'bin': [(2, 32)], 'list2': [(2, 32)], 'odd': [(3, 81), (5, 125), (7, 49), (11, 121)]}}
TRIPLES_TXT = ('all triples: p=2 deg<=3; p=3 deg<=2; p=5 deg<=1; p=7 encodings < 28 (constants, x+c, 2x+c, 3x+c) (thorough: p=2 deg<=4; p=3 deg<=3; p=5 deg<=2; p=7,11 deg<=1)')
# agreement of the two p=2 representations: all polynomials of degree <= 6 (thorough 7)
AG_PAIRS = {'quick': [(2, 128, 128)], 'thorough': [(2, 256, 256)]}
AG_SMALL = {'quick': [(2, 64, 64)], 'thorough': [(2, 128, 128)]}
AG_SINGLES = {'quick': [(2, 1024)], 'thorough': [(2, 8192)]}
AG_TRIPLES = {'quick': [(2, 16)], 'thorough': [(2, 32)]}
# C24: ALL polynomials below the bound
IRR = {'quick': {'bin': [(2, 2 ** 9)], 'list2': [(2, 2 ** 9)], 'odd': [(3, 3 ** 6), (5, 5 ** 4), (7, 7 ** 3)]},
       'thorough': {'bin': [(2, 2 ** 11)], 'list2': [(2, 2 ** 11)], 'odd': [(3, 3 ** 7), (5, 5 ** 5), (7, 7 ** 4), (11, 11 ** 3)]}}
IRR_TXT = 'ALL polynomials: p=2 deg<=8; p=3 deg<=5; p=5 deg<=3; p=7 deg<=2 (thorough: p=2 deg<=10; p=3 deg<=6; p=5 deg<=4; p=7 deg<=3; p=11 deg<=2)'


def _tab(table, tier, rep):
    t = table[tier]
    if not isinstance(t, dict): return t
    if rep == 'odd35': return [r for r in t['odd'] if r[0] <= 5]       # the odd-p rows are split over two Native entries
    if rep == 'odd7': return [r for r in t['odd'] if r[0] >= 7]        # (p in {3,5} / p >= 7) to halve the longest task
    return t[rep]


def d_pairs(table):
    return lambda tier, rep: ((p, a, b) for p, NA, NB in _tab(table, tier, rep) for a in range(NA) for b in range(NB))


def d_singles(table):
    return lambda tier, rep: ((p, a) for p, N in _tab(table, tier, rep) for a in range(N))


def d_single_n(table, ns):
    return lambda tier, rep: ((p, a, n) for p, N in _tab(table, tier, rep) for a in range(N) for n in ns)


def d_triples(table):
    return lambda tier, rep: ((p, a, b, c) for p, N in _tab(table, tier, rep) for a in range(N) for b in range(N) for c in range(N))


def d_powmod(table, ns, mod='any'):
    """mod: 'const' = nonzero constant modulus b (1 <= b < p), 'nonconst' = deg b >= 1, 'any' = b != 0"""
    return lambda tier, rep: ((p, a, n, b) for p, NA, NB in _tab(table, tier, rep) for n in ns for a in range(NA)
                              for b in range(p if mod == 'nonconst' else 1, p if mod == 'const' else NB))


def d_mixed(table):
    return lambda tier, rep: ((p, a, n) for p, NA, _ in _tab(table, tier, rep) for a in range(NA) for n in range(-p * p - 1, p * p + 2))


# ===================================================================== operations: real call + executable contract
class Op:
    def __init__(self, name, meth, real, ck, dom, bound, agree=None, agree_bound='', prop='C23', reps=('bin', 'list2', 'odd35', 'odd7')):
        """real(cls, *args) -> plain value (runs the real code); ck(p, args, val, exc) -> True/None or message;
        dom(tier, rep) -> iterable of (p, *args); agree(tier, None) -> domain of the bin/list2 agreement check"""
        self.name, self.meth, self.real, self.ck, self.dom, self.bound = name, meth, real, ck, dom, bound
        self.agree, self.agree_bound, self.prop, self.reps = agree, agree_bound, prop, reps


OPS = []


def op(*a, **k):
    OPS.append(Op(*a, **k))


AGP = (d_pairs(AG_PAIRS), 'p=2: all pairs of degree <= 6 (thorough 7)')
AGS = (d_pairs(AG_SMALL), 'p=2: all pairs of degree <= 5 (thorough 6)')
AG1 = (d_singles(AG_SINGLES), 'p=2: all polynomials of degree <= 9 (thorough 12)')


def ck_ref2(ref):
    """deterministic binary operation: result == encoding of ref(p, A, B)"""
    def ck(p, args, val, exc):
        a, b = args
        return expect(val, exc, r_to_int(p, ref(p, FI(p, a), FI(p, b))))
    return ck


# ---- unary -, +
op('neg', '__neg__', P1(lambda c, x: -x), lambda p, a, v, e: expect(v, e, r_to_int(p, r_neg(p, FI(p, a[0])))),
   d_singles(SINGLES), SINGLES_TXT, *AG1)
op('pos', '__pos__', P1(lambda c, x: +x), lambda p, a, v, e: expect(v, e, a[0]), d_singles(SINGLES), SINGLES_TXT, *AG1)
# ---- + - *
op('add', '__add__', P2(lambda c, x, y: x + y), ck_ref2(r_add), d_pairs(PAIRS), PAIRS_TXT, *AGP)
op('sub', '__sub__', P2(lambda c, x, y: x - y), ck_ref2(r_sub), d_pairs(PAIRS), PAIRS_TXT, *AGP)
op('mul', '__mul__', P2(lambda c, x, y: x * y), ck_ref2(r_mul), d_pairs(PAIRS), PAIRS_TXT, *AGP)


def real_square(cls, a):
    x = cls(a)
    return _plain(cls, (x * x, x ** 2, cls.mul(x, x)))


def ck_square(p, args, val, exc):
    s = r_to_int(p, r_mul(p, FI(p, args[0]), FI(p, args[0])))
    return expect(val, exc, (s, s, s))


op('square', '__mul__ (same object: _sq)', real_square, ck_square, d_singles(SINGLES), SINGLES_TXT + '; a*a, a**2, mul(a,a)', *AG1)


# ---- // % divmod
def ck_floordiv(p, args, val, exc):
    a, b = args
    if b == 0: return must_raise(exc, ZeroDivisionError, 'b == 0')
    return expect(val, exc, r_to_int(p, r_divmod(p, FI(p, a), FI(p, b))[0]))


def ck_mod(p, args, val, exc):
    a, b = args
    if b == 0: return must_raise(exc, ZeroDivisionError, 'b == 0')
    return expect(val, exc, r_to_int(p, r_divmod(p, FI(p, a), FI(p, b))[1]))


def ck_divmod(p, args, val, exc):
    """property clause: divmod(a, b) = (q, r) with a = q*b + r and deg r < deg b; b == 0 -> ZeroDivisionError"""
    a, b = args
    if b == 0: return must_raise(exc, ZeroDivisionError, 'b == 0')
    if exc: return unexpected(exc)
    if not (isinstance(val, tuple) and len(val) == 2 and _isint(val[0]) and _isint(val[1])): return 'result is not a pair of well-formed polynomials'
    A, B, Q, R = FI(p, a), FI(p, b), FI(p, val[0]), FI(p, val[1])
    if len(R) >= len(B): return 'deg r >= deg b'
    if r_add(p, r_mul(p, Q, B), R) != A: return 'a != q*b + r'
    return True


op('floordiv', '__floordiv__', P2(lambda c, x, y: x // y), ck_floordiv, d_pairs(PAIRS), PAIRS_TXT, *AGP)
op('mod', '__mod__', P2(lambda c, x, y: x % y), ck_mod, d_pairs(PAIRS), PAIRS_TXT, *AGP)
op('divmod', '__divmod__', P2(lambda c, x, y: divmod(x, y)), ck_divmod, d_pairs(PAIRS), PAIRS_TXT, *AGP)

# ---- << >> **
SH = range(0, 5)
op('lshift', '__lshift__', PN(lambda c, x, n: x << n), lambda p, a, v, e: expect(v, e, a[0] * p ** a[1]),
   d_single_n(SINGLES, SH), SINGLES_TXT + '; n in 0..4', d_single_n(AG_SINGLES, SH), AG1[1] + '; n in 0..4')
op('rshift', '__rshift__', PN(lambda c, x, n: x >> n), lambda p, a, v, e: expect(v, e, a[0] // p ** a[1]),
   d_single_n(SINGLES, SH), SINGLES_TXT + '; n in 0..4', d_single_n(AG_SINGLES, SH), AG1[1] + '; n in 0..4')


def ck_pow(p, args, val, exc):
    a, n = args
    if n < 0: return must_raise(exc, ValueError, 'negative exponent without modulus')
    return expect(val, exc, r_to_int(p, r_pow(p, FI(p, a), n)))


PW = range(-2, 7)
op('pow', '__pow__', PN(lambda c, x, n: x ** n), ck_pow, d_single_n(SINGLES, PW), SINGLES_TXT + '; n in -2..6',
   d_single_n(AG_SINGLES, PW), AG1[1] + '; n in -2..6')


# ---- comparisons (truth value) and hash consistency
def real_compare(cls, a, b):
    x, y = cls(a), cls(b)
    return (bool(x < y), bool(x <= y), bool(x > y), bool(x >= y), bool(x == y), bool(x != y), (hash(x) == hash(y)) or a != b)


def ck_compare(p, args, val, exc):
    a, b = args
    return expect(val, exc, (a < b, a <= b, a > b, a >= b, a == b, a != b, True))


op('compare', '__lt__..__ne__,__hash__', real_compare, ck_compare, d_pairs(PAIRS),
   PAIRS_TXT + '; (<, <=, >, >=, ==, !=) as truth values = order of the integer encodings; equal => equal hash', *AGP)


# ---- gcd, gcdext, invert
def ck_gcd(p, args, val, exc):
    a, b = args
    return expect(val, exc, r_to_int(p, r_gcd(p, FI(p, a), FI(p, b))))


def ck_gcd_def(p, args, val, exc):
    """property clause, evaluated from the definition: g is a common divisor of a and b, monic (0 iff a = b = 0), and
    every (monic) common divisor divides g"""
    a, b = args
    if exc: return unexpected(exc)
    if not _isint(val): return 'result is not a well-formed polynomial'
    A, B, G = FI(p, a), FI(p, b), FI(p, val)
    if not A and not B: return G == [] or 'gcd(0,0) must be 0'
    if not G: return 'gcd is zero although an operand is nonzero'
    if G[-1] != 1: return 'gcd is not monic'
    if r_mod(p, A, G) or r_mod(p, B, G): return 'g is not a common divisor'
    dmax = max(len(A), len(B)) - 1
    for e in range(0, dmax + 1):
        for m in range(p ** e, 2 * p ** e):
            D = FI(p, m)
            if not r_mod(p, A, D) and not r_mod(p, B, D) and r_mod(p, G, D):
                return f'common divisor {m} does not divide g'
    return True


def ck_gcdext(p, args, val, exc):
    """docstring: d, s, t with s a + t b = d = gcd(a, b)"""
    a, b = args
    if exc: return unexpected(exc)
    if not (isinstance(val, tuple) and len(val) == 3 and all(_isint(v) for v in val)): return 'result is not a triple of well-formed polynomials'
    A, B = FI(p, a), FI(p, b)
    G, S, Tt = (FI(p, v) for v in val)
    if G != r_gcd(p, A, B): return f'g != monic gcd {r_to_int(p, r_gcd(p, A, B))}'
    if r_add(p, r_mul(p, S, A), r_mul(p, Tt, B)) != G: return 'g != s*a + t*b'
    return True


def ck_invert(p, args, val, exc):
    """invert(a, b): ZeroDivisionError exactly when b == 0 or gcd(a, b) != 1; else the reduced r (deg r < deg b) with
    a*r mod b == 1 mod b (for a nonzero constant b that is 0)"""
    a, b = args
    A, B = FI(p, a), FI(p, b)
    if b == 0: return must_raise(exc, ZeroDivisionError, 'b == 0')
    if r_gcd(p, A, B) != [1]: return must_raise(exc, ZeroDivisionError, 'gcd(a,b) != 1')
    if exc: return unexpected(exc)
    if not _isint(val): return 'result is not a well-formed polynomial'
    R = FI(p, val)
    if len(R) >= len(B): return 'result not reduced modulo b'
    return r_mod(p, r_mul(p, A, R), B) == r_mod(p, [1], B) or 'a*r mod b != 1 mod b'


op('gcd', 'gcd', P2(lambda c, x, y: c.gcd(x, y)), ck_gcd, d_pairs(PAIRS), PAIRS_TXT + '; == monic gcd by reference Euclid', *AGP)
op('gcd_def', 'gcd', P2(lambda c, x, y: c.gcd(x, y)), ck_gcd_def, d_pairs(TINY), TINY_TXT + '; definition: monic common divisor divisible by every common divisor (all monic candidates tried)')
op('gcdext', 'gcdext', P2(lambda c, x, y: c.gcdext(x, y)), ck_gcdext, d_pairs(PAIRS), PAIRS_TXT, *AGP)
op('invert', 'invert', P2(lambda c, x, y: c.invert(x, y)), ck_invert, d_pairs(PAIRS), PAIRS_TXT, *AGP)


# ---- powmod
def ck_powmod(p, args, val, exc):
    """powmod(a, n, b), b != 0: n >= 0: repeated multiplication modulo b (result reduced, 1 mod b for n = 0);
    n < 0: via the inverse: ZeroDivisionError exactly when gcd(a, b) != 1, else the reduced r with r * a^|n| == 1 (mod b)"""
    a, n, b = args
    A, B = FI(p, a), FI(p, b)
    if n >= 0:
        return expect(val, exc, r_to_int(p, r_powmod(p, A, n, B)))
    if r_gcd(p, A, B) != [1]: return must_raise(exc, ZeroDivisionError, 'a not invertible modulo b')
    if exc: return unexpected(exc)
    if not _isint(val): return 'result is not a well-formed polynomial'
    R = FI(p, val)
    if len(R) >= len(B): return 'result not reduced modulo b'
    return r_mod(p, r_mul(p, R, r_powmod(p, A, -n, B)), B) == r_mod(p, [1], B) or 'r * a^|n| mod b != 1 mod b'


def real_powmod(cls, a, n, b):
    x, y = cls(a), cls(b)
    r = _plain(cls, cls.powmod(x, n, y))
    if _plain(cls, x) != a or _plain(cls, y) != b: return ('MUTATED-OPERAND', r)
    return r


# separate entries per exponent class / modulus class so that a failure in one class does not hide the inputs of the others
for _nm, _ns, _md, _t in (('powmod_n0_constmod', (0,), 'const', 'n = 0, deg b = 0'), ('powmod_n0', (0,), 'nonconst', 'n = 0, deg b >= 1'),
                          ('powmod_n1_constmod', (1,), 'const', 'n = 1, deg b = 0'), ('powmod_n1', (1,), 'nonconst', 'n = 1, deg b >= 1'),
                          ('powmod_pos', range(2, 9), 'any', 'n in 2..8, b != 0'), ('powmod_neg', (-1, -2, -3), 'any', 'n in -3..-1, b != 0')):
    op(_nm, 'powmod', real_powmod, ck_powmod, d_powmod(SMALL, _ns, _md), SMALL_TXT + f'; {_t}',
       d_powmod(AG_SMALL, _ns, _md), AGS[1] + f'; {_t}')


# ---- classmethods with int arguments (coercion by _intern)
def real_classmethods(cls, a, b):
    n = b % 4
    return _plain(cls, (_try(lambda: cls.add(a, b)), _try(lambda: cls.sub(a, b)), _try(lambda: cls.mul(a, b)),
                        _try(lambda: cls.mod(a, b)), _try(lambda: cls.divmod(a, b)), _try(lambda: cls.lshift(a, n)),
                        _try(lambda: cls.rshift(a, n)), _try(lambda: cls.gcd(a, b))))


def ck_classmethods(p, args, val, exc):
    a, b = args
    A, B = FI(p, a), FI(p, b)
    n = b % 4
    Z = ('exc', 'ZeroDivisionError')
    qr = r_divmod(p, A, B) if b else None
    want = (r_to_int(p, r_add(p, A, B)), r_to_int(p, r_sub(p, A, B)), r_to_int(p, r_mul(p, A, B)),
            r_to_int(p, qr[1]) if b else Z, (r_to_int(p, qr[0]), r_to_int(p, qr[1])) if b else Z,
            a * p ** n, a // p ** n, r_to_int(p, r_gcd(p, A, B)))
    return expect(val, exc, want)


op('classmethods', 'add,sub,mul,mod,divmod,lshift,rshift,gcd', real_classmethods, ck_classmethods, d_pairs(TINY),
   TINY_TXT + '; class methods called with the integer encodings', d_pairs(AG_SMALL), AGS[1])


# ---- degree, indexing, iteration, truth value
def real_struct(cls, a):
    x = cls(a)
    d = x.degree()
    return (d, [x[i] for i in range(d + 3)], list(x), bool(x), _try(lambda: x[-1]), _try(lambda: x[-2]))


def ck_struct(p, args, val, exc):
    A = FI(p, args[0])
    E = ('exc', 'IndexError')
    return expect(val, exc, (len(A) - 1, A + [0, 0], A, bool(A), E if A else 0, E))


op('struct', 'degree,__getitem__,__iter__,__bool__', real_struct, ck_struct, d_singles(SINGLES),
   SINGLES_TXT + '; degree (-1 for 0), a[i] for i <= deg+2, list(a), bool(a), a[-1] (0 only for the zero polynomial), a[-2]', *AG1)


# ---- evaluation
def _xs(p, at0):
    return [v for v in range(-p - 1, 2 * p + 2) if (v % p == 0) == at0]


# two entries: x = 0 in GF(p) (value = constant term) and x != 0
for _nm, _at0, _t in (('evaluate_at0', True, 'x in {-p, 0, p, 2p}'), ('evaluate', False, '-p-1 <= x <= 2p+1, x != 0 mod p')):
    op(_nm, '__call__', (lambda at0: lambda cls, a: (lambda x: [x(v) for v in _xs(cls.p, at0)])(cls(a)))(_at0),
       (lambda at0: lambda p, a, v, e: expect(v, e, [r_eval(p, FI(p, a[0]), x) for x in _xs(p, at0)]))(_at0),
       d_singles(SINGLES), SINGLES_TXT + f'; a(x) for {_t} vs sum a_i x^i mod p', *AG1)


# ---- int <-> polynomial
def real_int(cls, a):
    x = cls(a)
    return (int(x), _plain(cls, x), _plain(cls, cls(-a)), _plain(cls, -x), _plain(cls, cls(x)), _plain(cls, cls(int(x))))


def ck_int(p, args, val, exc):
    a = args[0]
    m = r_to_int(p, r_neg(p, FI(p, a)))
    return expect(val, exc, (a, a, m, m, a, a))


op('int_roundtrip', '__int__,_from_int,_to_int', real_int, ck_int, d_singles(SINGLES),
   SINGLES_TXT + '; int(P(n)) == n, P(n) has the base-p digits of n, P(-n) == -P(n), P(P(n)), P(int(P(n)))', *AG1)


def real_to_bytes(cls, a):
    x = cls(a)
    return [_try(lambda: x.to_bytes(l, o)) for l in (1, 2, 3) for o in ('little', 'big')]


def ck_to_bytes(p, args, val, exc):
    a = args[0]
    return expect(val, exc, [_try(lambda: a.to_bytes(l, o)) for l in (1, 2, 3) for o in ('little', 'big')])


op('to_bytes', 'to_bytes', real_to_bytes, ck_to_bytes, d_singles(SINGLES),
   SINGLES_TXT + '; to_bytes(length, order) == int encoding .to_bytes, OverflowError when it does not fit; length 1..3, both orders', *AG1)


# ---- reverse, monic, truncate, deriv
def real_reverse(cls, a):
    x = cls(a)
    return [_plain(cls, x.reverse())] + [_plain(cls, x.reverse(d)) for d in range(len(FI(cls.p, a)) - 1, len(FI(cls.p, a)) + 2)]


def ck_reverse(p, args, val, exc):
    A = FI(p, args[0])
    return expect(val, exc, [r_to_int(p, r_reverse(A, None))] + [r_to_int(p, r_reverse(A, d)) for d in range(len(A) - 1, len(A) + 2)])


def real_reverse_trunc(cls, a):
    x = cls(a)
    return [_plain(cls, x.reverse(d)) for d in range(-1, len(FI(cls.p, a)) - 1)]


def ck_reverse_trunc(p, args, val, exc):
    A = FI(p, args[0])
    return expect(val, exc, [r_to_int(p, r_reverse(A, d)) for d in range(-1, len(A) - 1)])


# two entries: padding (d >= deg a, d = None) and truncation (-1 <= d < deg a)
op('reverse', 'reverse', real_reverse, ck_reverse, d_singles(SINGLES), SINGLES_TXT + '; d = None and deg a <= d <= deg a + 2 (zero padding)', *AG1)
op('reverse_trunc', 'reverse', real_reverse_trunc, ck_reverse_trunc, d_singles(SINGLES),
   SINGLES_TXT + '; -1 <= d < deg a: truncated to the terms of degree <= d, then reversed as a polynomial of degree d', *AG1)


def real_monic(cls, a):
    x = cls(a)
    r = _plain(cls, (x.monic(), x.monic(lc_pinv=True)))
    if _plain(cls, x) != a: return ('MUTATED-OPERAND', r)
    return r


def ck_monic(p, args, val, exc):
    A = FI(p, args[0])
    m = r_to_int(p, r_monic(p, A))
    return expect(val, exc, (m, (m, pow(A[-1], -1, p) if A else 0)))


op('monic', 'monic', real_monic, ck_monic, d_singles(SINGLES), SINGLES_TXT + '; monic() and monic(lc_pinv=True)', *AG1)


def real_truncate(cls, a):
    x = cls(a)
    return [_plain(cls, x.truncate(n)) for n in range(0, x.degree() + 3)]


op('truncate', 'truncate', real_truncate,
   lambda p, a, v, e: expect(v, e, [a[0] % p ** n for n in range(0, len(FI(p, a[0])) + 2)]),
   d_singles(SINGLES), SINGLES_TXT + '; truncate(n) == a mod x^n for 0 <= n <= deg+2', *AG1)


def real_deriv(cls, a):
    x = cls(a)
    r = [_plain(cls, x.deriv())] + [_plain(cls, x.deriv(m)) for m in range(0, 5)]
    if _plain(cls, x) != a: return ('MUTATED-OPERAND', r)
    return r


def ck_deriv(p, args, val, exc):
    D = [FI(p, args[0])]
    for _ in range(4):
        D.append(r_deriv1(p, D[-1]))
    return expect(val, exc, [r_to_int(p, D[1])] + [r_to_int(p, d) for d in D])


op('deriv', 'deriv', real_deriv, ck_deriv, d_singles(SINGLES), SINGLES_TXT + '; deriv() and deriv(m), 0 <= m <= 4, vs iterated formal derivative', *AG1)


# ---- coercions: strings, lists, tuples; errors
def _asc(p, A):
    """same polynomial written in ascending order with blanks and a split leading term"""
    t = [(f'{c}' if i == 0 else f'{c}x' if i == 1 else f'{c}x^{i}') if p > 2 else ('1' if i == 0 else 'x' if i == 1 else f'x^{i}')
         for i, c in enumerate(A) if c]
    return ' + '.join(t) if t else ' 0 '


def real_str(cls, a):
    p = cls.p
    A = FI(p, a)
    s = r_terms(p, A)
    x = cls(a)
    return (repr(x), str(x), _plain(cls, cls(s)), _plain(cls, cls.from_terms(s)), cls.to_terms(a), cls.to_terms(x),
            _plain(cls, cls(_asc(p, A))), _plain(cls, x + s), _plain(cls, cls(s + '+' + s)))


def ck_str(p, args, val, exc):
    a = args[0]
    A = FI(p, a)
    s = r_terms(p, A)
    d = r_to_int(p, r_add(p, A, A))
    return expect(val, exc, (s, s, a, a, s, s, a, d, d))


op('strings', '_from_terms,_to_terms,__repr__', real_str, ck_str, d_singles(SINGLES),
   SINGLES_TXT + '; repr/str/to_terms == canonical text, P(text), from_terms(text), ascending text with blanks, a + text, duplicate terms add up', *AG1)


def real_lists(cls, a):
    A = list(FI(cls.p, a))
    return (_plain(cls, cls(list(A))), _plain(cls, cls(tuple(A))), _plain(cls, cls(A + [0, 0])), _plain(cls, cls(a) + list(A)),
            _plain(cls, cls(a) - tuple(A)), _plain(cls, list(A) - cls(a)))


def ck_lists(p, args, val, exc):
    a = args[0]
    A = FI(p, a)
    return expect(val, exc, (a, a, a, r_to_int(p, r_add(p, A, A)), 0, 0))


op('lists', '_coerce,_from_list', real_lists, ck_lists, d_singles(SINGLES),
   SINGLES_TXT + '; P(list), P(tuple), trailing zeros dropped, a + list, a - tuple, list - a', *AG1)


def real_errors(cls, a):
    from mpyc import gfpx
    p = cls.p
    x = cls(a)
    other = gfpx.GFpX(3 if p != 3 else 5)(1)
    return (_try(lambda: cls([p])), _try(lambda: cls([0, -1])), _try(lambda: cls([0, p, 1])), _try(lambda: cls(1.5)), _try(lambda: cls(None)),
            _try(lambda: cls(other)), _try(lambda: x + other), _try(lambda: x + 1.5), _try(lambda: 1.5 * x), _try(lambda: x % None),
            _try(lambda: x == 1.5), _try(lambda: x != 1.5), _try(lambda: x < 1.5), _try(lambda: cls('y')), _try(lambda: cls('x^')),
            _try(lambda: x << 1.5), _try(lambda: 1 << x), _try(lambda: x[0:1]), _try(lambda: x['0']))


def ck_errors(p, args, val, exc):
    V, Ty, Ix = ('exc', 'ValueError'), ('exc', 'TypeError'), ('exc', 'IndexError')
    return expect(val, exc, (V, V, V, Ty, Ty, Ty, Ty, Ty, Ty, Ty, False, True, Ty, V, V, Ty, Ty, Ix, Ix))


op('errors', '_coerce,_intern', real_errors, ck_errors, lambda tier, rep: ((p, a) for p, _ in _tab(SINGLES, tier, rep) for a in (0, 1, p, p * p + 1)),
   'a in {0, 1, x, x^2+1}: coefficient out of range -> ValueError, foreign types / polynomial over another field -> TypeError, '
   '== / != with a foreign type -> False / True, ill-formatted text -> ValueError, slices and non-int keys -> IndexError',
   lambda tier, rep: ((2, a) for a in (0, 1, 2, 5)), 'a in {0, 1, x, x^2+1}')


# ---- ring laws through the real operators
LAWS = ['(a+b)+c == a+(b+c)', 'a+b == b+a', '(a*b)*c == a*(b*c)', 'a*b == b*a', 'a*(b+c) == a*b+a*c', '(a+b)*c == a*c+b*c',
        'a+0 == a', 'a*1 == a', 'a+(-a) == 0', 'a-b == a+(-b)', 'a*0 == 0', '(a-b)+b == a']


def real_laws(cls, a, b, c):
    x, y, z = cls(a), cls(b), cls(c)
    o, e = cls(0), cls(1)
    L = [((x + y) + z, x + (y + z)), (x + y, y + x), ((x * y) * z, x * (y * z)), (x * y, y * x), (x * (y + z), x * y + x * z),
         ((x + y) * z, x * z + y * z), (x + o, x), (x * e, x), (x + (-x), o), (x - y, x + (-y)), (x * o, o), ((x - y) + y, x)]
    return [(_plain(cls, l), _plain(cls, r), bool(l == r)) for l, r in L]


def ck_laws(p, args, val, exc):
    if exc: return unexpected(exc)
    for law, (l, r, eq) in zip(LAWS, val):
        if not (_isint(l) and l == r and eq is True): return f'ring law {law} fails: lhs {l!r} rhs {r!r} == gives {eq!r}'
    return len(val) == len(LAWS) or 'missing laws'


op('ring_laws', 'operators + - *', real_laws, ck_laws, d_triples(TRIPLES), TRIPLES_TXT + '; ' + ', '.join(LAWS),
   d_triples(AG_TRIPLES), 'p=2: all triples of degree <= 3 (thorough 4)')


# ---- mixed operands: polynomial op int, int op polynomial
def mixed(name, f, ref, zero_div=False, cmp=False):
    def real(cls, a, n):
        x = cls(a)
        return _plain(cls, (_try(lambda: f(x, n)), _try(lambda: f(n, x))))

    def ck(p, args, val, exc):
        a, n = args
        A, N = FI(p, a), r_coerce_int(p, n)
        Z = ('exc', 'ZeroDivisionError')
        if cmp:
            ai, ni = a, r_to_int(p, N)
            want = (ref(ai, ni), ref(ni, ai))
            if exc: return unexpected(exc)
            return (isinstance(val, tuple) and len(val) == 2 and all(not isinstance(v, tuple) for v in val)
                    and (bool(val[0]), bool(val[1])) == want) or f'expected truth values {want!r}'
        enc = lambda r: tuple(r_to_int(p, c) for c in r) if isinstance(r, tuple) else r_to_int(p, r)
        want = (Z if zero_div and not N else enc(ref(p, A, N)), Z if zero_div and not A else enc(ref(p, N, A)))
        return expect(val, exc, want)

    op('mixed_' + name, f'__{name}__,__r{name}__' if not cmp else f'__{name}__', real, ck, d_mixed(TINY),
       TINY_TXT.replace('pairs', 'a') + '; int n with |n| <= p^2+1 on either side; n >= 0 = polynomial with encoding n, n < 0 = -(polynomial of |n|)',
       d_mixed(AG_SMALL), 'p=2: all a of degree <= 5 (thorough 6), |n| <= 5')


import operator as _o
mixed('add', _o.add, r_add)
mixed('sub', _o.sub, r_sub)
mixed('mul', _o.mul, r_mul)
mixed('floordiv', _o.floordiv, lambda p, a, b: r_divmod(p, a, b)[0], zero_div=True)
mixed('mod', _o.mod, r_mod, zero_div=True)
mixed('divmod', divmod, r_divmod, zero_div=True)
for _nm in ('lt', 'le', 'gt', 'ge', 'eq', 'ne'):
    mixed(_nm, getattr(_o, _nm), getattr(_o, _nm), cmp=True)


# ===================================================================== C24
def ck_is_irreducible(p, args, val, exc):
    """reported irreducible exactly when degree >= 1 and no nontrivial factor (brute-force trial division)"""
    if exc: return unexpected(exc)
    want = r_is_irr(p, args[0])
    return (isinstance(val, (bool, int)) and not isinstance(val, tuple) and bool(val) == want) or f'expected {want}'


op('is_irreducible', 'is_irreducible', lambda cls, a: cls.is_irreducible(cls(a)), ck_is_irreducible, d_singles(IRR), IRR_TXT,
   d_singles(IRR), 'p=2: all polynomials of degree <= 8 (thorough 10)', prop='C24')


def _ck_next(monic_only):
    def ck(p, args, val, exc):
        """result irreducible, above the argument in the integer order, and no irreducible polynomial strictly between
        (monic_only: result monic and no MONIC irreducible strictly between - the reading of the docstring)"""
        a = args[0]
        if exc: return unexpected(exc)
        if not _isint(val): return 'result is not a well-formed polynomial'
        if val <= a: return 'result not above the argument'
        if not r_is_irr(p, val): return 'result is not irreducible'
        if monic_only and FI(p, val)[-1] != 1: return 'result is not monic'
        m = a + 1
        while m < val:
            c = FI(p, m)
            if monic_only and c[-1] != 1:
                m = p ** len(c)          # next monic polynomial in the integer order is x^(deg+1)
                continue
            if r_is_irr(p, m): return f'irreducible polynomial {m} ({r_terms(p, c)}) lies strictly between'
            m += 1
        return True
    return ck


def real_next(cls, a):
    x = cls(a)
    r = _plain(cls, cls.next_irreducible(x))
    if _plain(cls, x) != a: return ('MUTATED-OPERAND', r)
    return r


def d_irr_const(tier, rep):
    return ((p, a) for p, N in _tab(IRR, tier, rep) for a in range(0, p))


def d_irr_nonconst(tier, rep):
    return ((p, a) for p, N in _tab(IRR, tier, rep) for a in range(p, N))


NX = '; result irreducible, monic, above a in the integer order, no monic irreducible strictly between'
op('next_irreducible_const', 'next_irreducible', real_next, _ck_next(True), d_irr_const, 'constant a (0 <= a < p) over the primes of: ' + IRR_TXT + NX,
   d_irr_const, 'p=2: a in {0, 1}', prop='C24')
op('next_irreducible_nonconst', 'next_irreducible', real_next, _ck_next(True), d_irr_nonconst, 'deg a >= 1 within: ' + IRR_TXT + NX,
   d_irr_nonconst, 'p=2: all a of degree 1..8 (thorough 10)', prop='C24')
# literal reading of the property sentence (irreducibles of ANY leading coefficient count); differs from the above only for odd p.
# Not part of the C24 driver (see report); kept so that the owner can run it.
op('next_irreducible_anylc', 'next_irreducible', real_next, _ck_next(False), d_singles(IRR),
   IRR_TXT + '; literal reading: no irreducible polynomial of any leading coefficient strictly between', prop='C24x', reps=('odd35', 'odd7'))


def call_find_irreducible(p, d):
    from mpyc import finfields, gfpx
    r = finfields.find_irreducible(p, d)
    return _plain(gfpx.GFpX(p), r)


def ck_find_irreducible(args, val, exc):
    """smallest monic irreducible polynomial of degree d (brute force over the monic polynomials of degree d in integer order)"""
    p, d = args
    if exc: return unexpected(exc)
    want = next(m for m in range(p ** d, 2 * p ** d) if r_is_irr(p, m))
    return val == want or f'expected {want} ({r_terms(p, FI(p, want))})'


def in_find_irreducible(dmin, dmax):
    def gen(tier):
        for p in T(tier, (2, 3, 5, 7), (2, 3, 5, 7, 11, 13)):
            for d in range(dmin, min(dmax, T(tier, 4, 6) if p < 11 else 3) + 1):
                if p ** d <= T(tier, 3000, 20000):
                    yield (p, d)
    return gen


def call_gf_gate(p, a):
    from mpyc import finfields, gfpx
    cls = gfpx.GFpX(p)
    f = finfields.GF(cls(a))
    return (f.order, f.characteristic, f.ext_deg, _plain(cls, f.modulus))


def ck_gf_gate(args, val, exc):
    """GF(modulus) succeeds (field of order p^d with that modulus) exactly when the modulus is irreducible, else ValueError"""
    p, a = args
    if not r_is_irr(p, a): return must_raise(exc, ValueError, 'modulus is reducible / constant')
    d = len(FI(p, a)) - 1
    return expect(val, exc, (p ** d, p, d, a))


def in_gf_gate(tier):
    for p, N in T(tier, ((2, 2 ** 4), (3, 3 ** 4), (5, 5 ** 4)), ((2, 2 ** 7), (3, 3 ** 5), (5, 5 ** 5), (7, 7 ** 4))):
        for a in range(N):
            yield (p, a)


def call_types(p):
    from mpyc import gfpx
    c = gfpx.GFpX(p)
    return (issubclass(c, gfpx.Polynomial), issubclass(c, gfpx.BinaryPolynomial), c.p, c is gfpx.GFpX(p), _plain(c, c()))


def ck_types(args, val, exc):
    p = args[0]
    if p < 2 or any(p % d == 0 for d in range(2, p)): return must_raise(exc, ValueError, 'p is not prime')
    return expect(val, exc, (True, p == 2, p, True, 0))


# ===================================================================== Native entries
CALL_LIMIT_S = 20.0     # a single call of the real code that does not return within this time is a contract violation (non-termination)
_ALARM = []


class CallTimeout(Exception):
    pass


def _guarded(f, *args):
    import signal, threading
    if threading.current_thread() is not threading.main_thread():
        return f(*args)
    if not _ALARM:
        def on_alarm(signum, frame):
            raise CallTimeout(f'call did not return within {CALL_LIMIT_S} s')
        signal.signal(signal.SIGALRM, on_alarm)
        _ALARM.append(1)
    signal.setitimer(signal.ITIMER_REAL, CALL_LIMIT_S)
    try:
        return f(*args)
    finally:
        signal.setitimer(signal.ITIMER_REAL, 0)


NATIVE = {}
PROP = {}           # name -> property id ('C23' / 'C24' / 'C24x' = not in a driver)


def _add(n, prop):
    n.module = 'contracts.gfpx'
    assert n.name not in NATIVE
    NATIVE[n.name] = n
    PROP[n.name] = prop


def _mk(o, rep):
    def call(p, *args):
        return _guarded(o.real, _cls(rep, p), *args)

    def check(args, res, exc):
        return o.ck(args[0], args[1:], res, exc)

    klass = 'BinaryPolynomial' if rep == 'bin' else 'Polynomial'
    tag = {'bin': 'GFpX(2) = BinaryPolynomial', 'list2': 'generic list class instantiated with p = 2', 'odd35': 'GFpX(p), p in {3,5}', 'odd7': 'GFpX(p), p >= 7'}[rep]
    return Native(f'{o.name}.{rep}', f'mpyc.gfpx.{klass}.{o.meth}', call, check, lambda tier: o.dom(tier, rep), f'[{tag}] {o.bound}')


def _mk_agree(o):
    def call(p, *args):
        return (_try(lambda: _guarded(o.real, _cls('bin', 2), *args)), _try(lambda: _guarded(o.real, _cls('list2', 2), *args)))

    def check(args, res, exc):
        if exc: return unexpected(exc)
        return res[0] == res[1] or f'binary representation gives {res[0]!r}, generic list representation gives {res[1]!r}'

    return Native(f'agree.{o.name}', f'mpyc.gfpx.BinaryPolynomial|Polynomial.{o.meth}', call, check,
                  lambda tier: o.agree(tier, 'bin'), f'[binary vs generic list representation, same value or same exception type] {o.agree_bound}')


for _o_ in OPS:
    for _rep in _o_.reps:
        _add(_mk(_o_, _rep), _o_.prop)
    if _o_.agree is not None:
        _add(_mk_agree(_o_), _o_.prop)

_add(Native('GFpX_types', 'mpyc.gfpx.GFpX', call_types, ck_types, lambda t: ((p,) for p in range(-3, T(t, 60, 300))),
            'p in -3..59 (thorough 299): ValueError exactly for non-primes; GFpX(2) is the binary class, odd p a list class with .p = p; cached; P() == 0'), 'C23')
_add(Native('find_irreducible_d1', 'mpyc.finfields.find_irreducible', lambda *a: _guarded(call_find_irreducible, *a), ck_find_irreducible, in_find_irreducible(1, 1),
            'd = 1, p in {2,3,5,7} (thorough: p <= 13)'), 'C24')
_add(Native('find_irreducible', 'mpyc.finfields.find_irreducible', lambda *a: _guarded(call_find_irreducible, *a), ck_find_irreducible, in_find_irreducible(2, 9),
            'p in {2,3,5,7}, d in 2..4 with p^d <= 3000 (thorough: p <= 13, d <= 6, p^d <= 20000)'), 'C24')
_add(Native('GF_gate', 'mpyc.finfields.GF', lambda *a: _guarded(call_gf_gate, *a), ck_gf_gate, in_gf_gate,
            'all polynomials (incl. 0 and constants) of degree <= 3 over p in {2,3,5} (thorough: p=2 deg<=6, p=3,5 deg<=4, p=7 deg<=3)'), 'C24')


def names(prop):
    return [n for n, q in PROP.items() if q == prop]


# ---- listed known finding (C23): BinaryPolynomial.__call__ returns 0 at every even x.  Delimited exactly: every evaluation returned is 0
#      (the other representation gives the constant term); any other deviation at x = 0 mod p has a different key
def _cls_at0_bin(args, res, exc, msg):
    return 'even-x-gives-0' if exc is None and isinstance(res, list) and res and all(v == 0 for v in res) else None


def _cls_at0_agree(args, res, exc, msg):
    return 'even-x-gives-0' if exc is None and isinstance(res, tuple) and isinstance(res[0], list) and res[0] and all(v == 0 for v in res[0]) and isinstance(res[1], list) else None


NATIVE['evaluate_at0.bin'].classify = _cls_at0_bin
NATIVE['agree.evaluate_at0'].classify = _cls_at0_agree
