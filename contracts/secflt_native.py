"""Bounded executable contracts for secure floating-point arithmetic (property C05): mpyc/sectypes.py SecureFloat / SecFlt(l, s, e)
and the float code paths of mpyc/runtime.py, evaluated on the REAL code with the single-party runtime (m = 1, synchronous coroutines).
Strength: bounded (the stated input domains are enumerated or sampled), never "proved".

Oracle: exact rational arithmetic (fractions.Fraction of the operands); no float arithmetic on the reference side.
With u = 2^-(s-1) for an s-bit significand:
  io / input   |out - x| <= 2u|x|
  + and -      |out - (x +- y)| <= 16u * max(|x|, |y|)
  * and /      |out - exact| <= 16u * |exact|
  comparisons  the result is the number 0 or 1; it equals the exact truth value whenever |x - y| > 16u * max(|x|, |y|)
Every result of an operation must be a secure float of the same type; an exception on an input of the domain is a failure.

Operand encodings (Python literals only, so that a replay is self-contained):
  ('r', k, ex)  the secure float with significand k / 2^(s-1) and exponent ex, built from the (significand, exponent) pair exactly as the
                operations build their results;  value k * 2^(ex - (s-1));  2^(s-2) <= |k| <= 2^(s-1) (both ends: 0.5 and 1.0 are legal
                significands, so every power of two has two representations), or k = 0
  ('f', x)      secflt(x) for a Python float or int x (the public constructor)
  ('p', x)      the plain Python number x handed to the operator (mixed operands)
Type names: 's6e5' = SecFlt(s=6, e=5), ...; exponents of an e-bit exponent type: -2^(e-1) .. 2^(e-1)-1.
Domain ("all float inputs whose exponents fit the exponent type"): the exponent ceil(log2|x|) of every nonzero operand and of the exact
nonzero result lies in that range.

The PRSS key of the single party is derived from the arguments of every case (the fixed-point truncations inside the float operations round
probabilistically), so that a run and its replay are deterministic.

Three classes of failing inputs are kept in natives of their own, so that the findings about them have one witness key each (the check
functions return ('class', key, message) for exactly these classes, every other failure is an unclassified violation):
  zero_operand  every case in which one or both operands are zero (all operations, all types); classes
                  'zero-operand-with-exponent-above-the-other-operand'  (+, -, comparisons with exactly one zero operand whose held exponent
                      exceeds the exponent of the nonzero operand)
                  'sum-2^1023-renormalised-to-exponent-1024'  (x + 0 = +2^1023 for an 11-bit exponent: OverflowError in _output)
  near_pow2     constructor arguments within a few units in the last place of a power of two; class
                  'float-log2-lands-on-the-wrong-side-of-an-integer'  (AssertionError / OverflowError of SecureFloat.__init__)
The other natives contain no single-zero-operand case, no sum +2^1023 and no such constructor argument.
A (significand, exponent) operand counts as a "float input" only if its value is exactly a Python float (matters for s = 53 below 2^-1022).
"""
import sys, math, itertools, hashlib, random
from fractions import Fraction
from lib.native import Native

MODULE = 'contracts.secflt_native'
SF = 'mpyc.sectypes.SecureFloat'


# ---------------------------------------------------------------- real side
def _rt():
    if 'mpyc.runtime' not in sys.modules:
        sys.argv = [sys.argv[0] if sys.argv else 'x', '--no-log']      # mpyc.runtime parses sys.argv at import time
    from mpyc.runtime import mpc
    assert len(mpc.parties) == 1 and mpc.options.no_async
    return mpc


def _se(tname):
    s, e = tname[1:].split('e')
    return int(s), int(e)


def _T(mpc, tname):
    s, e = _se(tname)
    return mpc.SecFlt(s=s, e=e)


def _seed(mpc, args):
    """Deterministic PRSS key for the single party (keys are otherwise drawn from `secrets`)."""
    mpc.prfs.cache_clear()
    mpc._prss_keys = {(0,): hashlib.sha256(repr(args).encode()).digest()[:16]}
    mpc._program_counter[0] = 0


def _mk(mpc, T, enc):
    kind = enc[0]
    if kind == 'r':
        _, k, ex = enc
        f = T.significand_type.frac_length
        return T((T.significand_type(k / 2**f, integral=False), T.exponent_type(ex)))
    if kind == 'f':
        return T(enc[1])
    if kind == 'p':
        return enc[1]
    raise ValueError(enc)


OPS = {
    'add': lambda x, y: x + y, 'sub': lambda x, y: x - y, 'mul': lambda x, y: x * y, 'div': lambda x, y: x / y,
    'lt': lambda x, y: x < y, 'le': lambda x, y: x <= y, 'eq': lambda x, y: x == y,
    'ge': lambda x, y: x >= y, 'gt': lambda x, y: x > y, 'ne': lambda x, y: x != y,
}
ARITH = ('add', 'sub', 'mul', 'div')
CMPS = ('lt', 'le', 'eq', 'ge', 'gt', 'ne')
DUNDER = dict(add='__add__', sub='__sub__', mul='__mul__', div='__truediv__', lt='__lt__', le='__le__', eq='__eq__', ge='__ge__', gt='__gt__', ne='__ne__')


def _open(mpc, T, z):
    """(is a secure float of the requested type, type name, opened value)"""
    if not isinstance(z, T):
        return (False, type(z).__name__, repr(z)[:60])
    return (True, type(z).__name__, mpc.run(mpc.output(z)))


def call_op(tname, op, a, b):
    mpc = _rt()
    T = _T(mpc, tname)
    _seed(mpc, (tname, op, a, b))
    return _open(mpc, T, OPS[op](_mk(mpc, T, a), _mk(mpc, T, b)))


def call_fixed(op):
    return lambda tname, a, b: call_op(tname, op, a, b)


def call_io(tname, a, mode):
    """mode: 'out' output of one number; 'outlist' output of a list (the number between a zero and a one);
    'input' mpc.input of one number; 'inputlist' mpc.input of a list with senders=0"""
    mpc = _rt()
    T = _T(mpc, tname)
    _seed(mpc, (tname, a, mode))
    x = _mk(mpc, T, a)
    if mode == 'out':
        return _open(mpc, T, x)
    if mode == 'outlist':
        zs = [T(0), x, T(1)]
        if not all(isinstance(z, T) for z in zs): return (False, 'list', repr(zs)[:60])
        return (True, 'list', mpc.run(mpc.output(zs)))
    if mode == 'input':
        zs = mpc.input(x)
        if not (isinstance(zs, list) and len(zs) == 1): return (False, type(zs).__name__, repr(zs)[:60])
        return _open(mpc, T, zs[0])
    if mode == 'inputlist':
        zs = mpc.input([T(1), x, T(0)], senders=0)
        if not (isinstance(zs, list) and len(zs) == 3 and all(isinstance(z, T) for z in zs)): return (False, type(zs).__name__, repr(zs)[:60])
        return (True, 'list', mpc.run(mpc.output(zs)))
    raise ValueError(mode)


# ---------------------------------------------------------------- oracle side (exact rationals)
def _u(tname):
    return Fraction(1, 2 ** (_se(tname)[0] - 1))


def _val(tname, enc):
    if enc[0] == 'r':
        f = _se(tname)[0] - 1
        return Fraction(enc[1]) * Fraction(2) ** (enc[2] - f)
    return Fraction(enc[1])


def ceil_log2(q):
    """least integer e with |q| <= 2^e, exact (q a nonzero rational)"""
    q = abs(Fraction(q))
    e = q.numerator.bit_length() - q.denominator.bit_length()
    while Fraction(2) ** e < q: e += 1
    while Fraction(2) ** (e - 1) >= q: e -= 1
    return e


def _exp(tname, enc):
    """exponent of the secure float an operand becomes: as given for 'r'; 0 for a constructed zero; ceil(log2|x|) otherwise"""
    if enc[0] == 'r':
        return enc[2]
    return ceil_log2(enc[1]) if enc[1] else 0


def _erange(tname):
    e = _se(tname)[1]
    return -2 ** (e - 1), 2 ** (e - 1) - 1


def _is_double(q):
    """the rational q is exactly a Python float (the property is about float inputs: a 53-bit significand at an exponent below -1022
    is not one)"""
    try:
        return Fraction(float(q)) == q
    except OverflowError:
        return False


def _in_domain(tname, *vals_or_encs):
    lo, hi = _erange(tname)
    for v in vals_or_encs:
        if isinstance(v, tuple):
            s = _se(tname)[0]
            if v[0] == 'r' and not (v[1] == 0 or 2 ** (s - 2) <= abs(v[1]) <= 2 ** (s - 1)): return False
            if v[0] == 'r' and not _is_double(_val(tname, v)): return False
            if v[0] != 'r' and (isinstance(v[1], float) and not math.isfinite(v[1])): return False
            if _val(tname, v) != 0 and not lo <= _exp(tname, v) <= hi: return False
        elif v != 0 and not lo <= ceil_log2(v) <= hi:
            return False
    return True


def log2_misrounded(x):
    """x is a float/int for which the float evaluation math.log(|x|, 2) lands on the other side of an integer than log2|x|,
    so that ceil() of it is not ceil(log2|x|)  (only arguments within a few ulps of a power of two)"""
    if not x: return False
    try:
        return math.ceil(math.log(abs(x), 2)) != ceil_log2(x)
    except (OverflowError, ValueError):
        return False


def _num(res):
    """message if the described result is not one opened secure float of the requested type"""
    ok, name, v = res
    if not ok: return f'result is a {name} ({v}), not a secure float of the operand type'
    if type(v) is not float or not math.isfinite(v): return f'output {v!r} is not a finite float'
    return None


def _f(q, d=6):
    try:
        return f'{float(q):.{d}g}'
    except OverflowError:
        return str(q)


def exact_result(tname, op, a, b):
    x, y = _val(tname, a), _val(tname, b)
    if op == 'add': return x + y
    if op == 'sub': return x - y
    if op == 'mul': return x * y
    if op == 'div': return x / y
    return dict(lt=x < y, le=x <= y, eq=x == y, ge=x >= y, gt=x > y, ne=x != y)[op]


def judge(tname, op, a, b, res, exc):
    """None when the clause of the property for `op` holds, else a message"""
    u = _u(tname)
    x, y = _val(tname, a), _val(tname, b)
    if op == 'div' and y == 0: return 'generator error: division by zero is outside the property'
    ex = exact_result(tname, op, a, b)
    if not _in_domain(tname, a, b) or (op in ARITH and not _in_domain(tname, ex)):
        return 'generator error: operand or exact result outside the exponent range of the type'
    if exc: return f'unexpected {type(exc).__name__} on operands of the domain'
    m = _num(res)
    if m: return m
    v = Fraction(res[2])
    if op in ('add', 'sub'):
        tol = 16 * u * max(abs(x), abs(y))
        if abs(v - ex) > tol:
            return f'{_f(x, 17)} {"+" if op == "add" else "-"} {_f(y, 17)}: got {res[2]!r}, exact {_f(ex, 17)}, error {_f(abs(v - ex))} > 16u*max(|x|,|y|) = {_f(tol)}'
        return None
    if op in ('mul', 'div'):
        tol = 16 * u * abs(ex)
        if abs(v - ex) > tol:
            return f'{_f(x, 17)} {"*" if op == "mul" else "/"} {_f(y, 17)}: got {res[2]!r}, exact {_f(ex, 17)}, error {_f(abs(v - ex))} > 16u*|exact| = {_f(tol)}'
        return None
    if v not in (0, 1): return f'comparison result {res[2]!r} is not 0 or 1'
    if abs(x - y) > 16 * u * max(abs(x), abs(y)) and v != int(ex):
        return (f'{_f(x, 17)} {op} {_f(y, 17)}: got {res[2]!r}, exact truth value {int(ex)}; |x-y| = {_f(abs(x - y))} > 16u*max(|x|,|y|) = '
                f'{_f(16 * u * max(abs(x), abs(y)))}')
    return None


def ck_fixed(op):
    def ck(args, res, exc):
        tname, a, b = args
        if (_val(tname, a) == 0) != (_val(tname, b) == 0): return 'generator error: single zero operand outside the zero_operand native'
        if _top_sum(tname, op, a, b): return 'generator error: sum +2^1023 outside the zero_operand native'
        return judge(tname, op, a, b, res, exc)
    return ck


def ck_mixed(args, res, exc):
    tname, op, a, b = args
    if (_val(tname, a) == 0) != (_val(tname, b) == 0): return 'generator error: single zero operand outside the zero_operand native'
    if a[0] == 'p' and b[0] == 'p': return 'generator error: two public operands'
    if _top_sum(tname, op, a, b): return 'generator error: sum +2^1023 outside the zero_operand native'
    return judge(tname, op, a, b, res, exc)


ZERO_CLASS = 'zero-operand-with-exponent-above-the-other-operand'
TOP_CLASS = 'sum-2^1023-renormalised-to-exponent-1024'


def _top_sum(tname, op, a, b):
    """x + y or x - y is exactly +2^1023 for a type with an 11-bit exponent: __add__ renormalises a positive sum with significand 1.0 to
    0.5 * 2^1024, and SecureFloat._output evaluates s * 2**1024 with the Python int 2**1024 (OverflowError).  Kept out of all natives
    but zero_operand (x + 0, x - 0, 0 + x with x = 2^1023), where it is a class of its own."""
    return op in ('add', 'sub') and _erange(tname)[1] >= 1023 and exact_result(tname, op, a, b) == Fraction(2) ** _erange(tname)[1]


def ck_zero(args, res, exc):
    """Cases with a zero operand.  Listed finding, delimited exactly: the operation is +, - or a comparison (all of them run through __add__),
    exactly one operand is zero, and the exponent held by the zero (0 for a constructed zero) is greater than the exponent of the nonzero
    operand.  __add__ aligns the operand with the smaller exponent to the larger exponent; when the larger exponent belongs to a zero, the
    nonzero operand is shifted right (at most s-1 places) and loses its low bits or its magnitude."""
    tname, op, a, b = args
    msg = judge(tname, op, a, b, res, exc)
    if msg is None or msg.startswith('generator error'): return msg
    x, y = _val(tname, a), _val(tname, b)
    if isinstance(exc, OverflowError) and _top_sum(tname, op, a, b):
        return ('class', TOP_CLASS, msg + ' (the exact result +2^1023 is a float whose exponent fits; __add__ returns it as 0.5 * 2^1024 and _output computes '
                's * 2**e with the Python int 2**1024)')
    if op in ('add', 'sub') + CMPS and (x == 0) != (y == 0) and not exc:
        z, nz = (a, b) if x == 0 else (b, a)
        if _exp(tname, z) > _exp(tname, nz):
            return ('class', ZERO_CLASS, msg + f' (the zero operand holds exponent {_exp(tname, z)}, the nonzero operand exponent {_exp(tname, nz)}: __add__ shifts the '
                    'nonzero significand right by min(difference, s-1) places before adding it to 0)')
    return msg


def ck_io(args, res, exc):
    tname, a, mode = args
    if not _in_domain(tname, a): return 'generator error: operand outside the exponent range of the type'
    if a[0] != 'r' and log2_misrounded(a[1]): return 'generator error: constructor argument of the near_pow2 native'
    if exc: return f'unexpected {type(exc).__name__} on an input of the domain'
    x, u = _val(tname, a), _u(tname)
    ok, name, v = res
    if not ok: return f'result is a {name} ({v}), not a secure float of the requested type'
    if name == 'list':
        if not (isinstance(v, list) and len(v) == 3): return f'output of a list of three numbers is {v!r}'
        want = (0, x, 1) if mode == 'outlist' else (1, x, 0)
        for w, g in zip(want, v):
            if type(g) is not float or not math.isfinite(g): return f'output {g!r} is not a finite float'
            if abs(Fraction(g) - w) > 2 * u * abs(w): return f'list output {v!r}: element {g!r} not within 2u|x| of {_f(w, 17)}'
        return None
    if type(v) is not float or not math.isfinite(v): return f'output {v!r} is not a finite float'
    if abs(Fraction(v) - x) > 2 * u * abs(x):
        return f'{mode} of {_f(x, 17)} returns {v!r}: error {_f(abs(Fraction(v) - x))} > 2u|x| = {_f(2 * u * abs(x))}'
    return None


POW2_CLASS = 'float-log2-lands-on-the-wrong-side-of-an-integer'


def ck_pow2(args, res, exc):
    """Constructor arguments next to powers of two.  Listed finding, delimited exactly: SecureFloat.__init__ raises AssertionError (or, for
    x = 2.0**1023 only, OverflowError in x / 2**1024) and math.ceil(math.log(|x|, 2)) differs from the exact ceil(log2|x|)."""
    tname, a, mode = args
    if not _in_domain(tname, a): return 'generator error: operand outside the exponent range of the type'
    if isinstance(exc, (AssertionError, OverflowError)) and log2_misrounded(a[1]):
        e = math.ceil(math.log(abs(a[1]), 2))
        return ('class', POW2_CLASS, f'secflt({a[1]!r}) raises {type(exc).__name__}: math.ceil(math.log(|x|, 2)) = {e} but ceil(log2|x|) = {ceil_log2(a[1])}, '
                f'so the significand x / 2**{e} is outside [0.5, 1]')
    if exc: return f'unexpected {type(exc).__name__} on an input of the domain'
    x, u = _val(tname, a), _u(tname)
    m = _num(res)
    if m: return m
    if abs(Fraction(res[2]) - x) > 2 * u * abs(x):
        return f'{mode} of {_f(x, 17)} returns {res[2]!r}: error {_f(abs(Fraction(res[2]) - x))} > 2u|x| = {_f(2 * u * abs(x))}'
    return None


# ---------------------------------------------------------------- input domains
def Q(tier, q, th): return q if tier == 'quick' else th


def _K(s):
    """all legal nonzero significands of an s-bit type, as integers k (significand k / 2^(s-1))"""
    pos = list(range(2 ** (s - 2), 2 ** (s - 1) + 1))
    return pos + [-k for k in pos]


def _Kedge(s):
    pos = sorted({2 ** (s - 2), 2 ** (s - 2) + 1, 3 * 2 ** (s - 3), 2 ** (s - 1) - 1, 2 ** (s - 1)})
    return pos + [-k for k in pos]


def _pairs(s, stride):
    """(k1, k2): the full cross product of the legal significands thinned by `stride` (coprime to the number of significands, so that every
    k1 and every k2 still occurs), plus the full cross product of the boundary significands 0.5, 0.5+u, 0.75, 1-u, 1.0 and their negatives"""
    K = _K(s)
    if stride > 1:
        assert math.gcd(stride, len(K)) == 1
        yield from itertools.product(_Kedge(s), repeat=2)
    yield from itertools.islice(itertools.product(K, repeat=2), 0, None, stride)


ANCHORS = (0, -3, 2, 5)
ENUM = {'s6e5': dict(add=(1, 1), sub=(11, 1), mul=(1, 1), div=(3, 1), cmp=(3, 1)),           # strides (quick, thorough) over the pairs of significands
        's8e5': dict(add=(29, 1), sub=(127, 7), mul=(11, 1), div=(23, 1), cmp=(61, 7))}


def gen_enum(tname, op):
    s, e = _se(tname)
    f = s - 1
    strides = ENUM[tname]['cmp' if op in CMPS else op]
    shift = CMPS.index(op) if op in CMPS else 0           # the six comparisons see different thinned subsets

    def gen(tier):
        stride = Q(tier, *strides)
        i = 0
        for k1, k2 in _pairs(s, stride):
            i += 1
            if stride > 1 and op in CMPS and (i + shift) % 2:
                continue
            e1 = ANCHORS[i % 4]
            if op in ('add', 'sub'):
                for d in range(-(f + 2), f + 3):
                    yield (tname, ('r', k1, e1), ('r', k2, e1 - d))
            elif op in CMPS:
                for d in (-(f + 2), -2, -1, 0, 1, 2, f + 2):
                    yield (tname, ('r', k1, e1), ('r', k2, e1 - d))
            elif op == 'mul':
                for ea, eb in ((0, 0), (3, -5), (-7, -7), (7, 8), (-8, -7), (15, -15))[i % 2::2]:
                    c = (tname, ('r', k1, ea), ('r', k2, eb))
                    if _in_domain(tname, exact_result(tname, op, c[1], c[2])): yield c
            else:
                for ea, eb in ((0, 0), (3, -5), (-7, 6), (7, -7), (-8, 7), (-15, -15))[i % 2::2]:
                    c = (tname, ('r', k1, ea), ('r', k2, eb))
                    if _in_domain(tname, exact_result(tname, op, c[1], c[2])): yield c
    return gen


def _rk(rnd, s):
    k = rnd.randint(2 ** (s - 2), 2 ** (s - 1))
    return k if rnd.random() < 0.5 else -k


def _sgn(rnd):
    return 1 if rnd.random() < 0.5 else -1


def _float_of(tname, k, ex):
    """the float k * 2^(ex - (s-1)) as an argument of the public constructor, or None if it is not exactly a float, if its exponent
    ceil(log2|x|) does not fit (0.5 * 2^min) or if it belongs to the near_pow2 native"""
    q = _val(tname, ('r', k, ex))
    try:
        x = float(q)
    except OverflowError:
        return None
    return x if Fraction(x) == q and x != 0 and _in_domain(tname, ('f', x)) and not log2_misrounded(x) else None


def gen_sampled(tname, op, n_quick, n_thorough, seed):
    """structured + random operand pairs of a larger type; about n cases"""
    s, e = _se(tname)
    f = s - 1
    lo, hi = _erange(tname)
    one, half = 2 ** (s - 1), 2 ** (s - 2)

    def legal(k):
        return half <= abs(k) <= one

    def gen(tier):
        rnd = random.Random(f'{seed}:{tname}:{op}')
        n = Q(tier, n_quick, n_thorough)
        out = []

        def emit(k1, e1, k2, e2, via=None):
            if not (legal(k1) and legal(k2)): return
            a, b = ('r', k1, e1), ('r', k2, e2)
            via = rnd.randrange(4) if via is None else via
            if via == 1:             # through the public constructor where the value is exactly a float
                x, y = _float_of(tname, k1, e1), _float_of(tname, k2, e2)
                if x is not None and not log2_misrounded(x): a = ('f', x)
                if y is not None and not log2_misrounded(y): b = ('f', y)
            if not _in_domain(tname, a, b): return
            if op in ARITH and (not _in_domain(tname, exact_result(tname, op, a, b)) or _top_sum(tname, op, a, b)): return
            out.append((tname, a, b))

        mid = lambda: rnd.randint(lo // 2, hi // 2)
        m = max(1, n // 12)
        if op in ('add', 'sub') or op in CMPS:
            for _ in range(3 * m):                                  # random significands, random exponent distance up to s+2
                k1, e1 = _rk(rnd, s), mid()
                emit(k1, e1, _rk(rnd, s), e1 - rnd.randint(-(s + 2), s + 2))
            for _ in range(m):                                      # equal values, opposite values (exact cancellation)
                k, e1 = _rk(rnd, s), mid()
                emit(k, e1, k, e1); emit(k, e1, -k, e1)
            for k, kk in ((one, half), (half, one), (-one, -half), (one, -half), (-half, one)):    # the two representations of a power of two
                e1 = mid()
                emit(k, e1, kk, e1 + (1 if abs(k) > abs(kk) else -1)); emit(k, e1, kk, e1); emit(k, e1, k, e1)
            for _ in range(m):                                      # last significand bit, and distances around 16u*max (8..17 units)
                k, e1 = _rk(rnd, s), mid()
                for dk in (1, -1, 2, 7, 8, 9, -9, 15, 16, -16, 17, -17, 18, 33):
                    emit(k, e1, k + dk, e1, via=0)
                    if rnd.random() < 0.3: emit(k + dk, e1, k, e1, via=0)
                    if rnd.random() < 0.2: emit(k, e1, -(k + dk), e1, via=0)
            for _ in range(m):                                      # neighbouring exponents: 1-u at ex against 0.5+ at ex+1
                k1, k2, e1 = _sgn(rnd) * (one - rnd.randint(0, 20)), _sgn(rnd) * (half + rnd.randint(0, 20)), mid()
                emit(k1, e1, k2, e1 + 1); emit(k2, e1 + 1, k1, e1)
            for _ in range(m):                                      # x + tiny: exponent distance around and beyond the significand length
                k1, k2, e1 = _rk(rnd, s), _rk(rnd, s), rnd.randint(0, hi // 2)
                for d in (f - 2, f - 1, f, f + 1, f + 2, f + 3, 2 * s):
                    if lo <= e1 - d: emit(k1, e1, k2, e1 - d); emit(k2, e1 - d, k1, e1)
            for _ in range(max(2, m // 2)):                         # extremes of the exponent range that still fit
                k1, k2 = _rk(rnd, s), _rk(rnd, s)
                emit(k1, hi, k2, lo); emit(k2, lo, k1, hi); emit(min(abs(k1), one - 1), hi, -abs(k2), hi - 1)
                emit(k1, lo + s + 2, k2, lo + s + 1); emit(k1, lo + s + 2, k2, lo); emit(k1, hi - 1, k2, hi - 1 - rnd.randint(0, s))
        else:
            for _ in range(8 * m):                                  # random significands and exponents, result in range
                emit(_rk(rnd, s), mid(), _rk(rnd, s), mid())
            for k in (one, -one, half, -half, one - 1, half + 1, -(one - 1), -(half + 1)):
                for kk in (one, half, -one, -half, one - 1, -(half + 1), _rk(rnd, s)):
                    emit(k, mid() // 2, kk, mid() // 2); emit(kk, mid() // 2, k, mid() // 2)
            for _ in range(m):                                      # equal operands (x*x, x/x), last bit
                k, e1 = _rk(rnd, s), mid() // 2
                emit(k, e1, k, e1); emit(k, e1, -k, e1); emit(k, e1, k + 1, e1); emit(k, e1, k - 1, e1 + 1)
            for _ in range(max(2, m // 2)):                         # extremes of the exponent range that still fit
                k1, k2 = _rk(rnd, s), _rk(rnd, s)
                if op == 'mul':
                    emit(k1, hi, k2, 0); emit(k1, hi, k2, lo); emit(k1, lo + 1, k2, 1); emit(k1, hi // 2, k2, hi - hi // 2); emit(k1, lo // 2, k2, lo // 2 + 2)
                else:
                    emit(k1, hi - 2, k2, 0); emit(k1, hi, k2, hi); emit(k1, lo, k2, lo); emit(k1, lo + 2, k2, 0); emit(k1, hi // 2, k2, lo // 2 + 2); emit(k1, lo // 2 + 2, k2, hi // 2)
                    emit(k1, 0, k2, hi); emit(k1, 0, k2, lo + 2)
        return out
    return gen


def _unrep(tname, rnd, n):
    """floats that are NOT representable in the type (the constructor has to round): k + fraction in units of the last place"""
    s, e = _se(tname)
    lo, hi = _erange(tname)
    out = []
    if s >= 53: return out
    for _ in range(n):
        k = rnd.randint(2 ** (s - 2), 2 ** (s - 1) - 1)
        fr = rnd.choice([Fraction(1, 2), Fraction(1, 4), Fraction(3, 4), Fraction(1, 2) - Fraction(1, 2 ** 20), Fraction(1, 2) + Fraction(1, 2 ** 20), Fraction(rnd.randrange(1, 2 ** 20), 2 ** 20)])
        ex = rnd.randint(lo + 1, hi)
        x = float(_sgn(rnd) * (k + fr) * Fraction(2) ** (ex - (s - 1)))
        if x and lo <= ceil_log2(x) <= hi and not log2_misrounded(x): out.append(x)
    return out


def gen_io(tname, enumerated):
    s, e = _se(tname)
    lo, hi = _erange(tname)

    def gen(tier):
        rnd = random.Random(f'io:{tname}')
        vals = []
        if enumerated:
            for ex in range(lo, hi + 1):
                for k in _K(s):
                    vals.append(('r', k, ex))
                    x = _float_of(tname, k, ex)
                    if x is not None and not log2_misrounded(x): vals.append(('f', x))
            vals += [('f', x) for x in _unrep(tname, rnd, Q(tier, 300, 3000))]
        else:
            for _ in range(Q(tier, 300, 3000)):
                k, ex = _rk(rnd, s), rnd.randint(lo, hi)
                vals.append(('r', k, ex))
                x = _float_of(tname, k, ex)
                if x is not None and not log2_misrounded(x): vals.append(('f', x))
            for ex in (lo, lo + 1, -1, 0, 1, hi - 1, hi):
                for k in _Kedge(s):
                    vals.append(('r', k, ex))
                    x = _float_of(tname, k, ex)
                    if x is not None and not log2_misrounded(x): vals.append(('f', x))
            vals += [('f', x) for x in _unrep(tname, rnd, Q(tier, 300, 3000))]
            for _ in range(Q(tier, 200, 2000)):                       # arbitrary doubles (53 significant bits)
                x = _sgn(rnd) * rnd.uniform(0.5, 1) * 2.0 ** rnd.randint(max(lo + 1, -1021), min(hi, 1023))
                if _in_domain(tname, ('f', x)) and not log2_misrounded(x): vals.append(('f', x))
        vals += [('f', 0), ('f', 0.0), ('f', -0.0), ('r', 0, 0), ('r', 0, 3), ('r', 0, -2)]
        ints = [1, -1, 2, -2, 3, 5, -7, 10, 100, 255, -1000, 12345, 32767, 2 ** 15, -2 ** 15, 2 ** 15 - 1, 2 ** 20 + 1, 10 ** 9, 2 ** 62 + 12345, 10 ** 30, 2 ** 100 + 1, -3 ** 70, 2 ** 127]
        vals += [('f', x) for x in ints if _in_domain(tname, ('f', x)) and not log2_misrounded(x)]
        vals = [a for a in vals if _in_domain(tname, a)]          # drops 53-bit significands below the normal range of a double
        for i, a in enumerate(vals):
            yield (tname, a, 'out')
            if i % 7 == 0: yield (tname, a, 'input')
            if i % 11 == 0: yield (tname, a, 'outlist')
            if i % 13 == 0: yield (tname, a, 'inputlist')
    return gen


PUBLIC = [1, -1, 2, 3, -5, 10, 0.5, -0.75, 1.5, 0.1, -3.3, 1e-3, 12.0, 7, 100]


def gen_mixed(tname):
    s, e = _se(tname)
    lo, hi = _erange(tname)

    def gen(tier):
        rnd = random.Random(f'mixed:{tname}')
        secs = [('f', x) for x in (1.0, 1.5, -0.375, 3.25, -20.0, 0.0625, 5, -3)]
        secs += [('r', _rk(rnd, s), rnd.randint(-6, 6)) for _ in range(Q(tier, 6, 40))]
        pubs = list(PUBLIC) + [float(_sgn(rnd) * rnd.uniform(0.5, 1) * 2.0 ** rnd.randint(-5, 6)) for _ in range(Q(tier, 3, 12))]
        pubs = [p for p in pubs if not log2_misrounded(p)]
        thin = Q(tier, {'s8e5': 3, 's24e8': 7, 's53e11': 11}[tname], 3 if tname == 's53e11' else 1)          # coprime to the 20 (operator, side) combinations
        i = 0
        for a in secs:
            for p in pubs:
                for op in OPS:
                    for x, y in ((a, ('p', p)), (('p', p), a)):
                        i += 1
                        if i % thin: continue
                        if not _in_domain(tname, x, y) or (op in ARITH and not _in_domain(tname, exact_result(tname, op, x, y))): continue
                        yield (tname, op, x, y)
    return gen


ZERO_TYPES = ('s6e5', 's8e5', 's11e5', 's24e8', 's53e11')


def gen_zero(tier):
    for tname in ZERO_TYPES:
        s, e = _se(tname)
        lo, hi = _erange(tname)
        rnd = random.Random(f'zero:{tname}')
        zeros = [('f', 0), ('f', 0.0), ('p', 0), ('p', 0.0), ('f', -0.0), ('r', 0, 0), ('r', 0, 4), ('r', 0, -3), ('r', 0, lo), ('r', 0, hi)]
        exps = sorted({lo, lo + 1, -(s + 1), -s, -(s - 1), -(s - 2), -6, -5, -4, -3, -2, -1, 0, 1, 2, 3, 4, 5, 6, s, hi - 1, hi} & set(range(lo, hi + 1)))
        nz = []
        for ex in exps:
            ks = _Kedge(s)[::Q(tier, 3, 1)] + [_rk(rnd, s) for _ in range(Q(tier, 1, 4))]
            for k in ks:
                if not _in_domain(tname, ('r', k, ex)): continue
                nz.append(('r', k, ex))
                x = _float_of(tname, k, ex)
                if x is not None and not log2_misrounded(x) and rnd.random() < 0.5: nz.append(('f', x))
        big = s > 24
        for i, y in enumerate(nz):
            for j, z in enumerate(zeros):
                for o, op in enumerate(OPS):
                    if (i + j + o) % Q(tier, 48 if big else 24, 18 if big else 6): continue
                    for c in ((tname, op, y, z), (tname, op, z, y)):
                        if op == 'div' and _val(tname, c[3]) == 0: continue
                        if op in ARITH and not _in_domain(tname, exact_result(tname, op, c[2], c[3])): continue
                        yield c
        top = ('r', 2 ** (s - 1), hi)                                 # 1.0 * 2^max, the largest power of two whose exponent fits
        yield from [(tname, 'add', top, ('p', 0)), (tname, 'add', ('f', 0), top), (tname, 'sub', top, ('f', 0.0)), (tname, 'sub', ('r', -2 ** (s - 1), hi), ('p', 0)),
                    (tname, 'mul', top, ('f', 0)), (tname, 'gt', top, ('p', 0))]
        secz = [z for z in zeros if z[0] != 'p']
        i = 0
        for a in zeros:                                               # both operands zero
            for b in secz:
                for op in OPS:
                    i += 1
                    if op != 'div' and not i % Q(tier, 7, 1):
                        yield (tname, op, a, b)
                        if a[0] == 'p': yield (tname, op, b, a)


def gen_pow2(tier):
    """floats 2^k and the three floats next to 2^k on either side, ints 2^k + j (|j| <= 1) for the types below; all four access paths"""
    for tname, step in (('s8e5', 1), ('s24e8', Q(tier, 3, 1)), ('s53e11', Q(tier, 23, 3))):
        lo, hi = _erange(tname)
        for k in sorted(set(range(max(lo, -1021), min(hi, 1023), step)) | {min(hi, 1023)}):
            p = 2.0 ** k
            vs = [p]
            up = dn = p
            for _ in range(3):
                up = math.nextafter(up, math.inf); dn = math.nextafter(dn, 0.0)
                vs += [up, dn]
            for i, x in enumerate(vs):
                for sg in (1, -1):
                    if _in_domain(tname, ('f', sg * x)): yield (tname, ('f', sg * x), 'out')
            if 2 <= k <= 200:
                for j in (-1, 0, 1):
                    if _in_domain(tname, ('f', 2 ** k + j)): yield (tname, ('f', 2 ** k + j), 'out')


# ---------------------------------------------------------------- natives
def _domain_text(tname):
    s, e = _se(tname)
    lo, hi = _erange(tname)
    return f'SecFlt(s={s}, e={e}) (u = 2^-{s - 1}, exponents {lo}..{hi})'


def _mk_natives():
    out = []
    for tname in ENUM:
        s, e = _se(tname)
        f = s - 1
        nk = len(_K(s))
        dt = _domain_text(tname)
        for op in OPS:
            st = ENUM[tname]['cmp' if op in CMPS else op]
            thin = (f'quick: every {st[0]}th pair{" , alternately assigned to the six comparisons" if op in CMPS else ""} plus all pairs of the 10 boundary significands; ' if st[0] > 1 else 'quick: all pairs; ') + \
                   (f'thorough: every {st[1]}th pair plus boundary pairs' if st[1] > 1 else 'thorough: all pairs')
            if op in ('add', 'sub'):
                what = f'every exponent distance -{f + 2}..{f + 2} (first exponent cycling through {ANCHORS})'
            elif op in CMPS:
                what = f'exponent distances -{f + 2}, -2..2, {f + 2}'
            else:
                what = 'three of six exponent pairs incl. results at both ends of the exponent range'
            out.append(Native(f'{op}_{tname}', f'{SF}.{DUNDER[op]}', call_fixed(op), ck_fixed(op), gen_enum(tname, op),
                              f'{dt}: pairs of ALL {nk} legal nonzero significands (|k| = 2^{s - 2}..2^{s - 1}, both signs, incl. both representations of powers of two) '
                              f'given as (significand, exponent) pairs; {what}; {thin}'))
        out.append(Native(f'io_{tname}', f'{SF}._output', call_io, ck_io, gen_io(tname, True),
                          f'{dt}: ALL {nk} nonzero significands x ALL exponents, as (significand, exponent) pair and through the constructor secflt(float); 300 (thorough 3000) floats '
                          'that need rounding; zeros incl. -0.0 and zero with a nonzero exponent; ints; output of one number for every value, mpc.input of one number for every 7th, '
                          'output of a list [0, x, 1] for every 11th, mpc.input of a list with senders=0 for every 13th'))
    for tname, n in (('s11e5', (240, 2400)), ('s24e8', (200, 2000)), ('s53e11', (100, 800))):
        dt = _domain_text(tname)
        for op in OPS:
            nn = n if op in ARITH else (n[0] // 2, n[1] // 2)
            out.append(Native(f'{op}_{tname}', f'{SF}.{DUNDER[op]}', call_fixed(op), ck_fixed(op), gen_sampled(tname, op, nn[0], nn[1], 5),
                              f'{dt}: about {nn[0]} (thorough {nn[1]}) operand pairs from random.Random("5:{tname}:{op}"): random significands and exponent distances up to s+2, equal and '
                              'opposite values, both representations of powers of two, values differing by 1, 2, 7..9, 15..18, 33 units in the last place (around the '
                              '16u*max boundary), 1-u against 0.5+ at the next exponent, x + tiny at exponent distances s-3..s+2 and 2s, both ends of the exponent range; '
                              'a quarter of the cases through the constructor secflt(float), the rest as (significand, exponent) pairs'
                              if op not in ('mul', 'div') else
                              f'{dt}: about {nn[0]} (thorough {nn[1]}) operand pairs from random.Random("5:{tname}:{op}"): random significands and exponents with the exact result in range, '
                              'boundary significands 0.5, 0.5+u, 1-u, 1.0 of both signs, equal operands, operands differing in the last bit, operands and results at both ends of the exponent range'))
        out.append(Native(f'io_{tname}', f'{SF}._output', call_io, ck_io, gen_io(tname, False),
                          f'{dt}: 300 (thorough 3000) random (significand, exponent) pairs over the whole exponent range, also through the constructor; boundary significands at '
                          'the ends and the middle of the exponent range; 300 (3000) floats that need rounding; 200 (2000) arbitrary doubles; zeros; ints up to 2^127; '
                          'output / mpc.input / lists as for the small types'))
    for tname in ('s8e5', 's24e8', 's53e11'):
        out.append(Native(f'mixed_{tname}', SF, call_op, ck_mixed, gen_mixed(tname),
                          f'{_domain_text(tname)}: 14 (thorough 48) secure operands x 18 (27) public ints and floats (not 0), all ten operators, public operand on either side; quick: every 3rd combination for s=8, every 7th for s=24, every 11th for s=53 (thorough: all; every 3rd for s=53)'))
    out.append(Native('zero_operand', f'{SF}.__add__', call_op, ck_zero, gen_zero,
                      'types ' + ', '.join(ZERO_TYPES) + ': zero as secflt(0), secflt(0.0), secflt(-0.0), public 0 / 0.0, and (0, exponent) pairs with exponents 0, 4, -3, min, max, against '
                      'nonzero operands with boundary and random significands at ~20 exponents from min to max; all ten operators (division only with zero dividend), both '
                      'operand orders; 2^max +- 0 in every tier; both operands zero in every pair of forms (quick: every 7th); quick: every 24th (s53: 48th) combination, thorough: every 6th (s53: 18th)'))
    out.append(Native('near_pow2', f'{SF}.__init__', call_io, ck_pow2, gen_pow2,
                      'constructor + output for 2^k, the three floats above and below 2^k (both signs) and the ints 2^k-1, 2^k, 2^k+1 (2 <= k <= 200): SecFlt(s=8,e=5) every k, '
                      'SecFlt(s=24,e=8) every 3rd (thorough every) k, SecFlt(s=53,e=11) every 23rd (3rd) k in -1021..1022 and k = 1023; the largest exponent of every type'))
    return out


NATIVE = {n.name: n for n in _mk_natives()}
for _n in NATIVE.values(): _n.module = MODULE


def run_slice(name, tier, i, k):
    """pool task: the i-th of k slices of the input domain of one Native (same name, so replays work unchanged)."""
    n = NATIVE[name]
    s = Native(n.name, n.func, n.call, n.check, lambda t: itertools.islice(n.inputs(t), i, None, k), f'{n.bound} [slice {i + 1}/{k}]', module=n.module)
    o = s.run(tier)
    o.name = f'{o.name}[{i + 1}/{k}]'
    return [o] + s.known
