"""Bounded executable contracts for /repo/mpyc/random.py (property C33), evaluated on the REAL functions with the
single-party runtime (m = 1, synchronous coroutines).

Two families of `Native` entries:

* range/shape on real randomness ('randrange', 'randint', ..., 'edge_*'):  args = (tname, fargs, seed).  The PRSS key of
  the single party is derived from `seed`, so that a run (and therefore a replay) is deterministic; the real
  `runtime.random_bits` code is executed.
* uniformity by exhaustive enumeration of the secret random bits ('uni_*'):  args = (tname, fargs, L).
  `runtime.random_bits`/`random_bit` are replaced (instance attributes, restored afterwards) by a stub that hands out a
  prescribed bit string to callers inside mpyc.random and raises `OutOfBits` when the string is exhausted.  All bit
  strings are enumerated depth first; a run that completes after consuming c bits is a leaf of weight 2^-c; prefixes
  that would need more than L bits are truncated.  Contract: at every level c the numbers of leaves per outcome are
  proportional to the documented probabilities (uniform: equinumerous), every documented outcome occurs, no other
  outcome occurs, every leaf satisfies the range/shape contract, and the truncated mass is at most the truncated mass
  of the bit-wasteful reference process (redraw all ceil(log2 n) bits at every restart), computed here by a small DP.

Encodings (Python literals only):
  tname:  'i16' = SecInt(16), 'x32.16' = SecFxp(32,16), 'x12.4' = SecFxp(12,4), 'f11' = SecFld(11), 'f16' = SecFld(2**4)
  population:  ('L', [..]) public list, ('S', [..]) list of secure numbers, ('R', start, stop, step) range object,
               ('N', n) the integer n (random_permutation / random_derangement accept an int)
"""
import sys, math, itertools, hashlib, copy
from fractions import Fraction
from lib.native import Native


class OutOfBits(Exception):
    def __init__(self, need):
        super().__init__(f'{need} more bits needed')
        self.need = need


class Diverged(Exception):
    pass


def _rt():
    if 'mpyc.runtime' not in sys.modules:
        sys.argv = [sys.argv[0] if sys.argv else 'x', '--no-log']      # mpyc.runtime parses sys.argv at import time
    from mpyc.runtime import mpc
    import mpyc.random
    import mpyc.statistics
    assert len(mpc.parties) == 1 and mpc.options.no_async
    return mpc, mpyc.random


def _ty(mpc, t):
    if t[0] == 'i':
        return mpc.SecInt(int(t[1:]))
    if t[0] == 'x':
        l, f = t[1:].split('.')
        return mpc.SecFxp(int(l), int(f))
    if t[0] == 'f':
        return mpc.SecFld(int(t[1:]))
    raise ValueError(t)


def _frac(t):
    return int(t.split('.')[1]) if t[0] == 'x' else 0


def _seed(mpc, seed):
    """Deterministic PRSS key for the single party (keys are otherwise drawn from `secrets`)."""
    mpc.prfs.cache_clear()
    mpc._prss_keys = {(0,): hashlib.sha256(b'verif-seed-%d' % seed).digest()[:16]}
    mpc._program_counter[0] = 0


def _conv(T, a):
    return [_conv(T, b) for b in a] if isinstance(a, list) else T(a)


def _pop(T, enc):
    kind = enc[0]
    if kind == 'R':
        return range(*enc[1:])
    if kind == 'L':
        return copy.deepcopy(enc[1])
    if kind == 'S':
        return _conv(T, enc[1])
    if kind == 'N':
        return enc[1]
    raise ValueError(enc)


def _pvals(enc):
    """Plain values of an encoded population (oracle side); rows become tuples."""
    kind = enc[0]
    if kind == 'R':
        return list(range(*enc[1:]))
    if kind == 'N':
        return list(range(enc[1]))
    return [tuple(a) if isinstance(a, list) else a for a in enc[1]]


def _invoke(R, T, fname, fa):
    if fname == 'randrange':
        start, stop, step = fa
        a = [start] + ([stop] if stop is not None else []) + ([step] if step is not None else [])
        return R.randrange(T, *a)
    if fname == 'randint':
        return R.randint(T, *fa)
    if fname == 'random_unit_vector':
        return R.random_unit_vector(T, fa[0])
    if fname == 'choice':
        return R.choice(T, _pop(T, fa[0]))
    if fname == 'choices':
        pop, w, cw, k = fa
        kw = {}
        if cw is not None:
            kw['cum_weights'] = cw
        if k is not None:
            kw['k'] = k
        return R.choices(T, _pop(T, pop), w, **kw)
    if fname == 'sample':
        return R.sample(T, _pop(T, fa[0]), fa[1])
    if fname == 'shuffle':
        x = _pop(T, fa[0])
        r = R.shuffle(T, x)
        return _Shuffled(r, x)
    if fname == 'random_permutation':
        return R.random_permutation(T, _pop(T, fa[0]))
    if fname == 'random_derangement':
        return R.random_derangement(T, _pop(T, fa[0]))
    if fname == 'getrandbits':
        return R.getrandbits(T, fa[0], fa[1])
    if fname == 'random':
        return R.random(T)
    if fname == 'uniform':
        return R.uniform(T, fa[0], fa[1])
    raise ValueError(fname)


class _Shuffled:
    def __init__(self, ret, x):
        self.ret, self.x = ret, x


def _desc(mpc, T, x):
    """Describe a result by Python literals: (is secure object of the requested type, type name, opened value)."""
    if isinstance(x, _Shuffled):
        return ('shuffle', x.ret is None, _desc(mpc, T, x.x))
    if isinstance(x, (list, tuple)):
        return [_desc(mpc, T, a) for a in x]
    if isinstance(x, T):
        v = mpc.run(mpc.output(x))
        if not isinstance(v, (int, float)):
            v = int(v)
        return (True, type(x).__name__, v)
    return (False, type(x).__name__, repr(x)[:40])


class _Guard:
    """Bounds the number of public zero tests (the restart tests of random_derangement and sample): a run that does
    more than `limit` of them is reported as divergent instead of hanging the check."""

    def __init__(self, mpc, limit=3000):
        self.mpc, self.limit, self.n = mpc, limit, 0

    def __enter__(self):
        orig = self.mpc.is_zero_public

        def counted(a):
            self.n += 1
            if self.n > self.limit:
                raise Diverged(f'more than {self.limit} restart tests')
            return orig(a)
        self.mpc.is_zero_public = counted
        return self

    def __exit__(self, *a):
        del self.mpc.is_zero_public


def call_real(fname, limit=3000):
    def call(tname, fa, seed):
        mpc, R = _rt()
        T = _ty(mpc, tname)
        _seed(mpc, seed)
        with _Guard(mpc, limit):
            return _desc(mpc, T, _invoke(R, T, fname, fa))
    return call


# ---------------------------------------------------------------- enumeration of the secret random bits
class _BitSource:
    CALLERS = ('mpyc.random', __name__)

    def __init__(self, mpc, bits):
        self.mpc, self.bits, self.pos = mpc, bits, 0

    def take(self, sftype, n, signed=False):
        if n <= 0:
            return []
        if self.pos + n > len(self.bits):
            raise OutOfBits(self.pos + n - len(self.bits))
        b = self.bits[self.pos:self.pos + n]
        self.pos += n
        if signed:
            b = [2 * c - 1 for c in b]
        if issubclass(sftype, self.mpc.SecureObject):
            return [sftype(c) for c in b]
        from asyncio import Future
        fut = Future(loop=self.mpc._loop)
        fut.set_result([sftype(c) for c in b])
        return fut

    def __enter__(self):
        orig = self.mpc.random_bits

        def random_bits(sftype, n, signed=False):
            if sys._getframe(1).f_globals.get('__name__') not in self.CALLERS:
                return orig(sftype, n, signed)          # masks of comparisons etc.: not part of the outcome
            return self.take(sftype, n, signed)

        def random_bit(stype, signed=False):
            if sys._getframe(1).f_globals.get('__name__') not in self.CALLERS:
                return orig(stype, 1, signed)[0]
            return self.take(stype, 1, signed)[0]
        self.mpc.random_bits = random_bits
        self.mpc.random_bit = random_bit
        return self

    def __exit__(self, *a):
        del self.mpc.random_bits
        del self.mpc.random_bit


def _tup(d):
    return tuple(_tup(a) for a in d) if isinstance(d, (list, tuple)) else d


class EnumResult:
    """levels: {bits consumed: {outcome description: number of bit strings}}, trunc: {prefix length: number of
    truncated prefixes}"""

    def __init__(self, levels, trunc, runs):
        self.levels, self.trunc, self.runs = levels, trunc, runs

    def __repr__(self):
        lv = {c: (len(d), min(d.values()), max(d.values())) for c, d in sorted(self.levels.items())}
        return f'Enum(runs={self.runs}, level: (outcomes, min count, max count)={lv}, truncated={dict(sorted(self.trunc.items()))})'


def call_enum(fname):
    def call(tname, fa, L):
        mpc, R = _rt()
        T = _ty(mpc, tname)
        levels, trunc, runs = {}, {}, 0
        stack = [()]
        while stack:
            prefix = stack.pop()
            runs += 1
            _seed(mpc, 0)
            src = _BitSource(mpc, prefix)
            try:
                with _Guard(mpc, 200), src:
                    d = _desc(mpc, T, _invoke(R, T, fname, fa))
            except OutOfBits as e:
                if len(prefix) + e.need > L:
                    trunc[len(prefix)] = trunc.get(len(prefix), 0) + 1
                else:
                    stack.extend(prefix + ext for ext in itertools.product((0, 1), repeat=e.need))
                continue
            if src.pos != len(prefix):
                raise AssertionError(f'run completed with {len(prefix) - src.pos} handed-out bits unused: enumeration not a partition')
            lv = levels.setdefault(len(prefix), {})
            d = _tup(d)
            lv[d] = lv.get(d, 0) + 1
        return EnumResult(levels, trunc, runs)
    return call


# ---------------------------------------------------------------- oracle side: range / shape
def _unsecure(d):
    """Message if some component of the described result is not a secure object of the requested type."""
    if isinstance(d, (list, tuple)) and not (len(d) == 3 and isinstance(d[0], bool)):
        for a in d:
            m = _unsecure(a)
            if m:
                return m
        return None
    ok, name, v = d
    return None if ok else f'result component is a plain {name} ({v}) instead of a secure object of the requested type'


def _v(d):
    if isinstance(d, (list, tuple)) and not (len(d) == 3 and isinstance(d[0], bool)):
        return tuple(_v(a) for a in d)
    return d[2]


def _isint(v):
    return v == int(v)


def _fld_mod(tname):
    return int(tname[1:]) if tname[0] == 'f' else None


def _want(exc, E, why):
    return isinstance(exc, E) or f'{why}: must raise {E.__name__}'


def _noexc(exc):
    return f'unexpected {type(exc).__name__}' if exc else None


def _range_of(fname, fa):
    try:
        if fname == 'randint':
            return range(fa[0], fa[1] + 1)
        start, stop, step = fa
        return range(start) if stop is None else range(start, stop, 1 if step is None else step)
    except ValueError:
        return None


def ck_randrange(fname):
    def ck(args, res, exc):
        tname, fa, _ = args
        rg = _range_of(fname, fa)
        if rg is None or len(rg) == 0:
            return _want(exc, ValueError, 'empty range / zero step')
        if exc: return _noexc(exc)
        m = _unsecure(res)
        if m: return m
        v = _v(res)
        p = _fld_mod(tname)
        if p:
            return v in [a % p for a in rg] or f'{v} not in {rg} (mod {p})'
        return (_isint(v) and int(v) in rg) or f'{v} not in {rg}'
    return ck


def ck_unit_vector(args, res, exc):
    tname, (n,), _ = args
    if exc: return _noexc(exc)
    m = _unsecure(res)
    if m: return m
    v = _v(res)
    if not isinstance(res, list) or len(v) != n: return f'not a list of length {n}'
    return (all(a in (0, 1) for a in v) and sum(v) == 1) or 'not a unit vector (entries 0/1 with exactly one 1)'


def ck_choice(args, res, exc):
    tname, (pop,), _ = args
    vals = _pvals(pop)
    if not vals: return _want(exc, IndexError, 'empty sequence')
    if exc: return _noexc(exc)
    m = _unsecure(res)
    if m: return m
    return _v(res) in vals or f'{_v(res)} is not an element of the sequence'


def ck_choices(args, res, exc):
    tname, (pop, w, cw, k), _ = args
    vals = _pvals(pop)
    k = 1 if k is None else k
    if w is not None and cw is not None: return _want(exc, TypeError, 'both weights and cum_weights')
    if w is not None: cw = list(itertools.accumulate(w))
    if cw is not None:
        if len(cw) != len(vals): return _want(exc, ValueError, 'number of weights does not match the population')
        if cw[-1] <= 0: return _want(exc, ValueError, 'total of weights must be greater than zero (as random.choices)')
        wt = [b - a for a, b in zip([0] + cw, cw)]
    else:
        if not vals and k > 0: return _want(exc, IndexError, 'empty population')
        wt = [1] * len(vals)
    if exc: return _noexc(exc)
    m = _unsecure(res)
    if m: return m
    v = _v(res)
    if not isinstance(res, list) or len(v) != k: return f'not a list of length {k}'
    ok = {a for a, b in zip(vals, wt) if b > 0}
    return all(a in ok for a in v) or f'{v}: element outside the population or with weight 0'


def _submultiset(v, vals):
    vals = list(vals)
    for a in v:
        if a not in vals: return False
        vals.remove(a)
    return True


def ck_sample(args, res, exc):
    tname, (pop, k), _ = args
    vals = range(*pop[1:]) if pop[0] == 'R' else _pvals(pop)
    if not 0 <= k <= len(vals): return _want(exc, ValueError, 'sample larger than population or negative')
    if exc: return _noexc(exc)
    m = _unsecure(res)
    if m: return m
    v = _v(res)
    if not isinstance(res, list) or len(v) != k: return f'not a list of length {k}'
    if pop[0] == 'R':
        return (all(_isint(a) and int(a) in vals for a in v) and len(set(v)) == k) or f'{v}: not {k} distinct elements of {vals}'
    return _submultiset(v, vals) or f'{v}: not {k} elements at distinct positions of the population (repetition or foreign element)'


def _perm_msg(v, vals):
    if len(v) != len(vals): return f'length {len(v)} != {len(vals)}'
    if not (_submultiset(v, vals) and _submultiset(vals, v)): return f'{v} is not a permutation of {vals}'
    return None


def ck_shuffle(args, res, exc):
    tname, (pop,), _ = args
    if exc: return _noexc(exc)
    tag, retnone, d = res
    if not retnone: return 'shuffle must return None'
    m = _unsecure(d)
    if m: return m
    return _perm_msg(list(_v(d)), _pvals(pop)) or True


def ck_permutation(args, res, exc):
    tname, (pop,), _ = args
    if exc: return _noexc(exc)
    m = _unsecure(res)
    if m: return m
    if not isinstance(res, list): return 'not a list'
    return _perm_msg(list(_v(res)), _pvals(pop)) or True


def ck_derangement(args, res, exc):
    tname, (pop,), _ = args
    vals = _pvals(pop)
    if len(vals) == 1:
        return _want(exc, ValueError, 'a sequence of one element has no derangement (must not loop forever or return it)')
    if exc: return _noexc(exc)
    m = _unsecure(res)
    if m: return m
    if not isinstance(res, list): return 'not a list'
    v = list(_v(res))
    m = _perm_msg(v, vals)
    if m: return m
    return all(a != b for a, b in zip(v, vals)) or f'{v} has a fixed point'


def ck_getrandbits(args, res, exc):
    tname, (k, bits), _ = args
    if k < 0: return _want(exc, ValueError, 'negative number of bits (as random.getrandbits)')
    if exc: return _noexc(exc)
    m = _unsecure(res)
    if m: return m
    v = _v(res)
    if bits:
        return (isinstance(res, list) and len(v) == k and all(a in (0, 1) for a in v)) or f'not a list of {k} bits'
    return (_isint(v) and 0 <= v < 2 ** k) or f'{v} not in range(2**{k})'


def ck_random(args, res, exc):
    tname, fa, _ = args
    f = _frac(tname)
    if not f: return _want(exc, TypeError, 'not a fixed-point type')
    if exc: return _noexc(exc)
    m = _unsecure(res)
    if m: return m
    v = _v(res)
    return (0 <= v < 1 and _isint(v * 2 ** f)) or f'{v} not in [0, 1) on the 2^-{f} grid'


def _dyadic(a, f):
    return Fraction(a) * 2 ** f == int(Fraction(a) * 2 ** f)


def ck_uniform(args, res, exc):
    tname, (a, b), _ = args
    f = _frac(tname)
    if not f: return _want(exc, TypeError, 'not a fixed-point type')
    if exc: return _noexc(exc)
    m = _unsecure(res)
    if m: return m
    v = _v(res)
    slack = 0 if _dyadic(a, f) and _dyadic(b, f) else Fraction(1, 2 ** f)       # endpoints are rounded to the 2^-f grid
    return (min(a, b) - slack <= v <= max(a, b) + slack) or f'{v} not between {a} and {b}'


SHAPE = dict(randrange=ck_randrange('randrange'), randint=ck_randrange('randint'), random_unit_vector=ck_unit_vector, choice=ck_choice,
             choices=ck_choices, sample=ck_sample, shuffle=ck_shuffle, random_permutation=ck_permutation,
             random_derangement=ck_derangement, getrandbits=ck_getrandbits, random=ck_random, uniform=ck_uniform)


# ---------------------------------------------------------------- oracle side: documented distribution
def _uniform_over(outs):
    outs = list(outs)
    assert len(set(outs)) == len(outs)
    return {o: Fraction(1, len(outs)) for o in outs}


def expected(fname, tname, fa):
    """Documented distribution: {outcome value: probability}."""
    f = _frac(tname)
    if fname in ('randrange', 'randint'):
        return _uniform_over(_range_of(fname, fa))
    if fname == 'random_unit_vector':
        n = fa[0]
        return _uniform_over(tuple(int(i == j) for i in range(n)) for j in range(n))
    if fname == 'choice':
        return _uniform_over(_pvals(fa[0]))
    if fname == 'choices':
        pop, w, cw, k = fa
        vals = _pvals(pop)
        k = 1 if k is None else k
        if w is not None: cw = list(itertools.accumulate(w))
        wt = [1] * len(vals) if cw is None else [b - a for a, b in zip([0] + cw, cw)]
        d = {}
        for t in itertools.product(range(len(vals)), repeat=k):
            pr = Fraction(1)
            for i in t: pr *= Fraction(wt[i], sum(wt))
            if pr: d[tuple(vals[i] for i in t)] = d.get(tuple(vals[i] for i in t), 0) + pr
        return d
    if fname == 'sample':
        return _uniform_over(itertools.permutations(_pvals(fa[0]), fa[1]))
    if fname in ('shuffle', 'random_permutation'):
        return _uniform_over(itertools.permutations(_pvals(fa[0])))
    if fname == 'random_derangement':
        vals = _pvals(fa[0])
        return _uniform_over(p for p in itertools.permutations(vals) if all(a != b for a, b in zip(p, vals)))
    if fname == 'getrandbits':
        k, bits = fa
        if bits: return _uniform_over(tuple((j >> i) & 1 for i in range(k)) for j in range(2 ** k))
        return _uniform_over(range(2 ** k))
    if fname == 'random':
        return _uniform_over(Fraction(j, 2 ** f) for j in range(2 ** f))
    if fname == 'uniform':
        a, b = Fraction(fa[0]), Fraction(fa[1])
        n = round(abs(a - b) * 2 ** f)
        s = 1 if b >= a else -1
        return _uniform_over(a + s * Fraction(j, 2 ** f) for j in range(n))
    raise ValueError(fname)


def _stages(fname, tname, fa):
    """Reference process: list of (bits per trial, success probability of a trial) and the probability of an outer restart
    after the last stage.  A trial of the rejection sampler for range(n) draws k = (n-1).bit_length() bits and succeeds
    with probability n / 2^k; the real code keeps unused bits at a restart, so it never consumes more."""
    def rb(n, extra=Fraction(1)):
        k = (n - 1).bit_length()
        return (k, Fraction(n, 2 ** k) * extra)
    f = _frac(tname)
    if fname in ('randrange', 'randint'):
        return [rb(len(_range_of(fname, fa)))], 0
    if fname == 'random_unit_vector':
        return [rb(fa[0])], 0
    if fname == 'choice':
        return [rb(len(_pvals(fa[0])))], 0
    if fname == 'choices':
        pop, w, cw, k = fa
        k = 1 if k is None else k
        if w is not None: cw = list(itertools.accumulate(w))
        n = len(_pvals(pop)) if cw is None else cw[-1] // math.gcd(*cw)
        return [rb(n)] * k, 0
    if fname == 'sample':
        n, k = len(_pvals(fa[0])), fa[1]
        if fa[0][0] == 'R':
            return [rb(n, Fraction(n - i, n)) for i in range(k)], 0        # a repeated value restarts the draw
        return [rb(n - i) for i in range(k)], 0
    if fname in ('shuffle', 'random_permutation', 'random_derangement'):
        n = len(_pvals(fa[0]))
        st = [rb(n - i) for i in range(n - 1)]
        if fname == 'random_derangement':
            der = sum(1 for p in itertools.permutations(range(n)) if all(a != b for a, b in enumerate(p)))
            return st, 1 - Fraction(der, math.factorial(n))
        return st, 0
    if fname == 'getrandbits':
        return [(fa[0], Fraction(1))], 0
    if fname == 'random':
        return [(f, Fraction(1))], 0
    if fname == 'uniform':
        return [rb(round(abs(Fraction(fa[0]) - Fraction(fa[1])) * 2 ** f))], 0
    raise ValueError(fname)


def reference_truncation(fname, tname, fa, L):
    """Probability that the reference process needs more than L bits (exact, by DP over (stage, bits used))."""
    st, q = _stages(fname, tname, fa)
    st = [s for s in st if s[0] > 0]
    if not st:
        return Fraction(0)
    dist = {(0, 0): Fraction(1)}
    lost = Fraction(0)
    for b in range(L + 1):
        for s in range(len(st)):                       # stages in order: zero-bit transitions do not occur
            pr = dist.pop((s, b), 0)
            if not pr: continue
            k, a = st[s]
            if b + k > L:
                lost += pr; continue
            if s + 1 < len(st):
                dist[(s + 1, b + k)] = dist.get((s + 1, b + k), 0) + pr * a
            else:
                dist[(0, b + k)] = dist.get((0, b + k), 0) + pr * a * q
            dist[(s, b + k)] = dist.get((s, b + k), 0) + pr * (1 - a)
    return lost


def ck_enum(fname):
    shape = SHAPE[fname]

    def ck(args, res, exc):
        tname, fa, L = args
        if exc: return _noexc(exc)
        exp = expected(fname, tname, fa)
        total = Fraction(0)
        for c, lv in sorted(res.levels.items()):
            cnt = {}
            for d, k in lv.items():
                d = _untup(d)
                m = shape((tname, fa, 0), d, None)
                if m not in (None, True): return f'run consuming {c} bits: {m}'
                o = _v(d[2]) if fname == 'shuffle' else _v(d)
                cnt[o] = cnt.get(o, 0) + k
            extra = [o for o in cnt if o not in exp]
            if extra: return f'outcome {extra[0]} (after {c} bits) is not a documented outcome'
            ref = None
            for o, p in exp.items():
                r = Fraction(cnt.get(o, 0)) / p
                if ref is None: ref, o0 = r, o
                elif r != ref:
                    return (f'not equiprobable: among the runs consuming exactly {c} secret bits, outcome {o0} is produced by {cnt.get(o0, 0)} bit strings '
                            f'and outcome {o} by {cnt.get(o, 0)} (documented probabilities {exp[o0]} and {p})')
            total += sum(lv.values()) * Fraction(1, 2 ** c)
        lost = sum(k * Fraction(1, 2 ** c) for c, k in res.trunc.items())
        if total + lost != 1: return f'enumeration is not a partition of the bit strings: completed {total} + truncated {lost} != 1'
        if total == 0: return f'no run completes within {L} bits'
        bound = reference_truncation(fname, tname, fa, L)
        if lost > bound:
            return f'mass {lost} of the bit strings needs more than {L} bits; the restart-all reference process loses only {bound}'
        return True
    return ck


def _untup(d):
    if isinstance(d, tuple) and not (len(d) == 3 and isinstance(d[0], bool)):
        if len(d) == 3 and d[0] == 'shuffle':
            return ('shuffle', d[1], _untup(d[2]))
        return [_untup(a) for a in d]
    return d


# ---------------------------------------------------------------- input domains
def T(tier, q, th): return q if tier == 'quick' else th


def _seeds(tier): return range(T(tier, 20, 200))


def _with_seeds(cases):
    def gen(tier):
        cs = cases(tier) if callable(cases) else cases
        for c in cs:
            for s in _seeds(tier):
                yield (c[0], c[1], s)
    return gen


INT_FXP = ('i16', 'x32.16')
RANGES = [(2, 7, None), (-3, 4, None), (5, 5, None), (5, 2, None), (0, None, None), (-2, None, None), (0, 10, 3), (10, 0, -3), (-5, 5, 2), (1, 20, 7),
          (0, 10, -1), (10, 0, -1), (0, 5, 0), (7, -8, -5), (-1, -9, -2), (100, 120, 9)]


def in_randrange(tier):
    cs = [(t, (n, None, None)) for t in INT_FXP for n in range(2, T(tier, 10, 18))]
    cs += [(t, r) for t in INT_FXP for r in RANGES]
    cs += [(t, (n, None, None)) for t in ('f11', 'f16') for n in (2, 3, 5, 8, 10)] + [('f11', (11, None, None)), ('f16', (16, None, None)), ('f11', (2, 9, 3)), ('f11', (0, None, None))]
    return cs


def in_randint(tier):
    return [(t, ab) for t in INT_FXP for ab in [(0, 1), (1, 6), (-3, 3), (5, 4), (-8, -1), (0, 7), (0, 8), (10, 2), (-2, 2)]] + [('f11', (1, 6)), ('f16', (0, 15))]


def in_unit_vector(tier):
    return [(t, (n,)) for t in INT_FXP + ('f11', 'f16') for n in range(2, T(tier, 10, 18))]


SEQS = [[10, 20], [3, 1, 2], [5, 6, 7, 8], [-2, -1, 0, 1, 2], [1, 2, 3, 4, 5, 6], [9, 8, 7, 6, 5, 4, 3], [0, 1, 2, 3, 4, 5, 6, 7], [1, 2, 3, 4, 5, 6, 7, 8, 9]]
RNGS = [('R', 0, 2, 1), ('R', 0, 5, 1), ('R', 1, 10, 3), ('R', 10, 0, -2), ('R', -3, 4, 1), ('R', 0, 9, 1)]


def in_choice(tier):
    cs = [(t, ((k, s),)) for t in INT_FXP for s in SEQS for k in ('L', 'S')] + [(t, (r,)) for t in INT_FXP for r in RNGS]
    cs += [('i16', (('L', [4, 4, 5]),)), ('f11', (('L', [1, 2, 3]),)), ('f16', (('S', [1, 2, 3, 4, 5]),))]
    return cs


def in_choices(tier):
    cs = []
    for t in INT_FXP:
        for s in SEQS[:6]:
            for k in (None, 0, 1, 3):
                cs.append((t, (('L', s), None, None, k)))
        cs += [(t, (('S', [3, 1, 2]), None, None, 4)), (t, (('R', 0, 5, 1), None, None, 2)),
               (t, (('L', [1, 2, 3]), [1, 2, 3], None, 3)), (t, (('L', [1, 2, 3]), [2, 0, 4], None, 4)), (t, (('L', [1, 2, 3]), [0, 3, 6, ], None, 2)),
               (t, (('S', [5, 6, 7, 8]), None, [1, 3, 3, 10], 3)), (t, (('L', [5, 6, 7, 8]), [3, 1, 1, 2], None, None)), (t, (('R', 0, 4, 1), [1, 1, 1, 2], None, 0)),
               (t, (('L', [1, 2]), [2, 3], None, 2)), (t, (('L', [1, 2, 3]), [1, 2], None, 1)), (t, (('L', [1, 2, 3]), None, [1, 2], 1)),
               (t, (('L', [1, 2, 3]), [1, 2, 3], [1, 3, 6], 1)), (t, (('L', [1, 2, 3, 4, 5]), [5, 4, 3, 2, 1], None, 2))]
    return cs


def _weighted(c):
    pop, w, cw, k = c[1]
    return (w is not None) != (cw is not None) and len(w if cw is None else cw) == len(_pvals(pop))


def in_choices_main(tier):
    return [c for c in in_choices(tier) if not (c[0][0] == 'x' and _weighted(c))]


def in_choices_wfxp(tier):
    return [c for c in in_choices(tier) if c[0][0] == 'x' and _weighted(c)]


def in_sample(tier):
    cs = []
    for t in INT_FXP:
        for s in SEQS[:T(tier, 6, 8)]:
            for k in range(0, len(s) + 1):
                cs.append((t, (('L' if k % 2 else 'S', s), k)))
            cs += [(t, (('L', s), len(s) + 1)), (t, (('L', s), -1))]
        for r in RNGS:
            n = len(range(*r[1:]))
            cs += [(t, (r, k)) for k in range(0, n + 1) if k <= 5 or k == n] + [(t, (r, n + 1)), (t, (r, -1))]
        cs += [(t, (('L', [4, 4, 5]), 2)), (t, (('L', [4, 4, 5]), 3)), (t, (('R', 0, 10000000, 1), 5))]
    cs += [('f11', (('L', [1, 2, 3, 4]), 2)), ('f16', (('S', [1, 2, 3]), 3)), ('f11', (('R', 0, 5, 1), 3))]
    return cs


ROWS = [[1, 2], [3, 4], [5, 6]]


def in_shuffle(tier):
    cs = [(t, ((k, s),)) for t in INT_FXP for s in SEQS for k in ('L', 'S')]
    cs += [(t, ((k, ROWS),)) for t in INT_FXP for k in ('L', 'S')] + [(t, (('L', [4, 4, 5]),)) for t in INT_FXP]
    cs += [('f11', (('L', [1, 2, 3, 4]),)), ('f16', (('S', [1, 2, 3]),))]
    return cs


def in_permutation(tier, lo=2):
    cs = [(t, (('N', n),)) for t in INT_FXP for n in range(lo, T(tier, 10, 14))]
    cs += [(t, ((k, s),)) for t in INT_FXP for s in SEQS[:5] for k in ('L', 'S')] + [(t, (r,)) for t in INT_FXP for r in RNGS]
    cs += [('f11', (('N', 4),)), ('f16', (('S', [1, 2, 3]),))]
    return cs


def in_getrandbits(tier):
    # secure finite fields: 2^k must not exceed the field order
    return [(t, (k, b)) for t in INT_FXP + ('f11', 'f16') for k in range(1, 4 if t == 'f11' else 5 if t == 'f16' else 9) for b in (False, True)]


def in_uniform(tier):
    cs = [(t, ab) for t in ('x32.16', 'x12.4') for ab in [(0, 1), (-1.5, 2.25), (2, -1), (0, 0.1875), (0.5, 0.25), (-3, -2), (0, 7)]]
    cs += [('x32.16', ab) for ab in [(0.1, 0.7), (1 / 3, -1 / 3), (0, 3 * 2 ** -16), (100, 101.5)]] + [('i16', (0, 1))]
    return cs


def _fixed(cases):
    return lambda tier: cases


# population size 0 / 1 and other boundary arguments, separate so that believed defects do not mask the rest
# NOT checked (the property states no outcome for them, demanding Python's exception class was an over-demand of an earlier version of this file):
#   random_derangement of one element (no derangement exists), getrandbits with negative k, choices with all weights zero.
EDGE = {
    'edge_n1_randrange': ('randrange', [(t, r) for t in INT_FXP + ('f11',) for r in [(1, None, None), (3, 4, None), (3, 4, 5), (5, 0, -7), (-2, -1, None)]]),
    'edge_n1_randint': ('randint', [(t, ab) for t in INT_FXP for ab in [(3, 3), (0, 0), (-4, -4)]]),
    'edge_n1_unit_vector': ('random_unit_vector', [(t, (1,)) for t in INT_FXP + ('f11',)]),
    'edge_n1_choice': ('choice', [(t, (p,)) for t in INT_FXP for p in [('L', [5]), ('S', [5]), ('R', 7, 8, 1)]]),
    'edge_n1_choices': ('choices', [(t, fa) for t in INT_FXP for fa in [(('L', [3]), None, None, 2), (('L', [3]), [1], None, 2), (('L', [3]), [4], None, 1), (('S', [3]), None, [2], 1),
                                                                       (('L', [1, 2]), [0, 1], None, 2), (('L', [1, 2]), [3, 0], None, 1), (('L', [3]), None, None, 0),
                                                                       (('L', [1, 2, 3]), [0, 0, 5], None, 2), (('L', [1, 2]), [0, 3], None, 2)]]),
    'edge_n1_sample': ('sample', [(t, (p, k)) for t in INT_FXP for p in [('L', [7]), ('S', [7]), ('R', 0, 1, 1), ('R', 5, 6, 1)] for k in (0, 1, 2)]),
    'edge_n1_shuffle': ('shuffle', [(t, (p,)) for t in INT_FXP for p in [('L', [7]), ('S', [7]), ('L', [[1, 2]])]]),
    'edge_n1_permutation': ('random_permutation', [(t, (p,)) for t in INT_FXP for p in [('N', 1), ('L', [7]), ('S', [7]), ('R', 3, 4, 1)]]),
    'edge_n1_uniform': ('uniform', [('x32.16', (0, 2 ** -16)), ('x12.4', (1, 1.0625)), ('x12.4', (0.5, 0.4375))]),
    'edge_eq_uniform': ('uniform', [(t, ab) for t in ('x32.16', 'x12.4') for ab in [(1, 1), (0, 0), (-2.5, -2.5)]]),
    'edge_n0_choice': ('choice', [(t, (p,)) for t in INT_FXP for p in [('L', []), ('R', 0, 0, 1)]]),
    'edge_n0_choices': ('choices', [(t, (p, None, None, k)) for t in INT_FXP for p in [('L', []), ('R', 0, 0, 1)] for k in (0, 1, None)]),
    'edge_n0_sample': ('sample', [(t, (p, k)) for t in INT_FXP for p in [('L', []), ('R', 0, 0, 1), ('R', 5, 2, 1)] for k in (0, 1)]),
    'edge_n0_shuffle': ('shuffle', [(t, (('L', []),)) for t in INT_FXP]),
    'edge_n0_permutation': ('random_permutation', [(t, (p,)) for t in INT_FXP for p in [('N', 0), ('L', []), ('R', 0, 0, 1)]]),
    'edge_n0_derangement': ('random_derangement', [(t, (p,)) for t in INT_FXP for p in [('N', 0), ('L', [])]]),
    'edge_k0_getrandbits': ('getrandbits', [(t, (0, b)) for t in INT_FXP for b in (False, True)]),
}


# ------------------------------------------------ enumeration domains:  (tname, fargs, L)
def _L(fname, tname, fa, rounds=3, outer=1):
    """Bits for `rounds` trials of every stage (one trial where no rejection is possible), times `outer` outer rounds."""
    st, q = _stages(fname, tname, fa)
    return outer * sum(k if a == 1 else rounds * k for k, a in st)


ENUM_T = ('i16', 'x12.4')


def en_randrange(tier):
    for t in ENUM_T:
        for n in range(2, T(tier, 10, 18)):
            yield (t, (n, None, None))
        yield from ((t, r) for r in [(2, 7, None), (10, 0, -3), (-5, 5, 2), (1, 20, 7), (-3, 4, None)])
    yield ('f11', (5, None, None)); yield ('f16', (6, None, None))


def en_randint(tier):
    return [(t, ab) for t in ENUM_T for ab in [(0, 1), (1, 6), (-3, 3), (0, 4), (-2, 0)] + T(tier, [], [(1, 9), (0, 10), (-6, 6)])]


def en_unit_vector(tier):
    return [(t, (n,)) for t in ENUM_T + ('f11',) for n in range(2, T(tier, 10, 18))]


def en_choice(tier):
    return [(t, ((k, s),)) for t in ENUM_T for s in SEQS[:T(tier, 5, 8)] for k in ('L', 'S')] + [(t, (r,)) for t in ENUM_T for r in RNGS[:T(tier, 4, 6)]]


def en_choices(tier):
    cs = [(('L', [5, 6, 7]), None, None, 2), (('L', [5, 6]), None, None, 3), (('L', [1, 2, 3]), [1, 2, 3], None, 1), (('L', [1, 2, 3]), [2, 0, 4], None, 1),
          (('S', [1, 2, 3]), None, [1, 3, 5], 1), (('L', [1, 2]), [1, 2], None, 2), (('L', [5, 6, 7, 8]), [3, 1, 1, 2], None, None), (('L', [1, 2, 3, 4, 5]), None, None, None)]
    cs += T(tier, [], [(('L', [1, 2, 3, 4, 5]), [5, 4, 3, 2, 1], None, 1), (('L', [1, 2, 3]), [1, 1, 1], None, 3)])
    return [(t, c) for t in ENUM_T for c in cs]


def en_choices_main(tier):
    return [c for c in en_choices(tier) if not (c[0][0] == 'x' and _weighted(c))]


def en_choices_wfxp(tier):
    return [c for c in en_choices(tier) if c[0][0] == 'x' and _weighted(c)]


def en_perm(tier):
    return ([(t, (('N', n),)) for t in ENUM_T for n in range(2, 5)] + [('i16', (('S', [7, 5, 9]),)), ('i16', (('R', 1, 10, 3),)), ('i16', (('N', 5),))]
            + T(tier, [], [('x12.4', (('N', 5),)), ('i16', (('N', 6),))]))


def en_shuffle(tier):
    return ([(t, ((k, list(range(10, 10 + n))),)) for t in ENUM_T for n in range(2, 5) for k in ('L', 'S')] + [('i16', (('L', ROWS),)), ('i16', (('L', [1, 2, 3, 4, 5]),))]
            + T(tier, [], [('x12.4', (('S', [1, 2, 3, 4, 5]),))]))


def en_sample_list(tier):
    return [(t, (('L' if k % 2 else 'S', list(range(10, 10 + n))), k)) for t in ENUM_T for n in range(2, 6) for k in range(1, n + 1) if n < 5 or t == 'i16' or tier != 'quick']


def en_sample_range(tier):
    return [(t, (r, k)) for t in ENUM_T for r in [('R', 0, 2, 1), ('R', 0, 3, 1), ('R', 0, 4, 1), ('R', 1, 10, 3)] + T(tier, [], [('R', 0, 5, 1)]) for k in range(1, len(range(*r[1:])) + 1)]


def en_getrandbits(tier):
    return [(t, (k, b)) for t in ENUM_T + ('f11',) for k in range(1, 4 if t == 'f11' else T(tier, 7, 10)) for b in (False, True)]


def en_uniform(tier):
    return [('x12.4', ab) for ab in [(0, 0.75), (1, -0.5), (0, 0.3125), (-1, -0.5), (0.25, 0.625)]] + [('x16.8', (0, 0.01953125)), ('x16.8', (0.5, 0.46875))]


def _enum_inputs(fname, gen, rounds=3, outer=1, cap=(14, 18)):
    def inputs(tier):
        for t, fa in gen(tier):
            yield (t, fa, min(_L(fname, t, fa, rounds, outer), T(tier, *cap)))
    return inputs


def _mk():
    out = []

    def real(name, fname, cases, bound):
        out.append(Native(name, f'mpyc.random.{fname}', call_real(fname, 200 if name.startswith('edge') else 3000), SHAPE[fname], _with_seeds(cases), bound))

    real('randrange', 'randrange', in_randrange, 'randrange(T, n) n = 2..9 (thorough ..17), 16 (start, stop, step) triples incl. negative steps, empty ranges, step 0; SecInt(16), SecFxp(32,16), SecFld(11), SecFld(2^4) incl. n = field order; 20 (200) seeds each')
    real('randint', 'randint', in_randint, '9 (a, b) pairs incl. a > b; 20 (200) seeds each')
    real('random_unit_vector', 'random_unit_vector', in_unit_vector, 'n = 2..9 (thorough ..17), four secure types; 20 (200) seeds each')
    real('choice', 'choice', in_choice, 'public and secret lists of length 2..9, range objects, a list with repeats; 20 (200) seeds each')
    real('choices_weights_fxp', 'choices', in_choices_wfxp, 'the weighted cases of "choices" for SecFxp(32,16) (separate: vector_sub of a list ending in a plain int)')
    real('choices', 'choices', in_choices_main, 'populations of length 2..7, k in {default, 0, 1, 3}, weights / cum_weights incl. zero weights, mismatching lengths, both given; 20 (200) seeds each')
    real('sample', 'sample', in_sample, 'lists of length 2..7 (9) and range objects (incl. range(10**7)), every k in 0..n, k = n+1, k = -1, repeats; 20 (200) seeds each')
    real('shuffle', 'shuffle', in_shuffle, 'public and secret lists of length 2..9, lists of rows, repeats; 20 (200) seeds each')
    real('random_permutation', 'random_permutation', in_permutation, 'n = 2..9 (13), lists, ranges; 20 (200) seeds each')
    real('random_derangement', 'random_derangement', in_permutation, 'n = 2..9 (13), lists, ranges; 20 (200) seeds each')
    real('getrandbits', 'getrandbits', in_getrandbits, 'k = 1..8, number and bits form, four secure types; 20 (200) seeds each')
    real('random', 'random', _fixed([('x32.16', ()), ('x12.4', ()), ('x16.8', ()), ('i16', ())]), 'SecFxp(32,16), SecFxp(12,4), SecFxp(16,8), SecInt(16) (TypeError); 20 (200) seeds each')
    real('uniform', 'uniform', in_uniform, '7 dyadic and 4 non-dyadic (a, b) pairs incl. b < a; 20 (200) seeds each')
    for name, (fname, cases) in EDGE.items():
        real(name, fname, _fixed(cases), f'{len(cases)} boundary argument tuples; 20 (200) seeds each')

    def enum(name, fname, gen, bound, **kw):
        out.append(Native(name, f'mpyc.random.{fname}', call_enum(fname), ck_enum(fname), _enum_inputs(fname, gen, **kw), bound))

    E = 'all secret bit strings, depth first, up to L bits = three trials of every rejection stage'
    enum('uni_randrange', 'randrange', en_randrange, f'n = 2..9 (thorough ..17) + 5 (start, stop, step) triples, SecInt(16) and SecFxp(12,4); {E}')
    enum('uni_randint', 'randint', en_randint, f'5 (8) (a, b) pairs; {E}')
    enum('uni_unit_vector', 'random_unit_vector', en_unit_vector, f'n = 2..9 (thorough ..17); {E}')
    enum('uni_choice', 'choice', en_choice, f'public/secret lists of length 2..6 (9), ranges; {E}')
    enum('uni_choices_weights_fxp', 'choices', en_choices_wfxp, f'the weighted cases of uni_choices for SecFxp(12,4); {E}')
    enum('uni_choices', 'choices', en_choices_main, f'k <= 3 unweighted, weights / cum_weights with k <= 2: probabilities proportional to the weights; {E}')
    enum('uni_shuffle', 'shuffle', en_shuffle, f'lists of length 2..5, rows; all n! orders; {E}, at most 18 (thorough 20) bits', cap=(18, 20))
    enum('uni_permutation', 'random_permutation', en_perm, f'n = 2..5 (thorough 6); all n! orders; {E}, at most 18 (thorough 20) bits', cap=(18, 20))
    enum('uni_derangement', 'random_derangement', en_perm, f'n = 2..5 (thorough 6); all derangements; L = three complete shuffles of three trials per stage, at most 14 (thorough 17) bits', outer=3, cap=(14, 17))
    enum('uni_sample_list', 'sample', en_sample_list, f'lists of length n = 2..5, k = 1..n; all n!/(n-k)! ordered samples; {E}, at most 18 (thorough 20) bits', cap=(18, 20))
    enum('uni_sample_range', 'sample', en_sample_range, f'range populations of size 2..4 (5), k = 1..n; all ordered samples; L = three trials per drawn element, at most 12 (thorough 16) bits', cap=(12, 16))
    enum('uni_getrandbits', 'getrandbits', en_getrandbits, 'k = 1..6 (9), number and bits form: all 2^k bit strings')
    enum('uni_random', 'random', _fixed([('x12.4', ()), ('x16.8', ())]), 'SecFxp(12,4), SecFxp(16,8): all 2^f bit strings')
    enum('uni_uniform', 'uniform', en_uniform, f'7 (a, b) pairs on SecFxp(12,4)/SecFxp(16,8) (n = 5..24 grid points); {E}')
    return out


NATIVE = {n.name: n for n in _mk()}
for _n in NATIVE.values(): _n.module = 'contracts.random_native'


def run_slice(name, tier, i, k):
    """pool task: the i-th of k slices of the input domain of one Native (same name, so replays work unchanged)."""
    n = NATIVE[name]
    s = Native(n.name, n.func, n.call, n.check, lambda t: itertools.islice(n.inputs(t), i, None, k), f'{n.bound} [slice {i + 1}/{k}]', module=n.module)
    o = s.run(tier)
    o.name = f'{o.name}[{i + 1}/{k}]'
    return [o] + s.known
