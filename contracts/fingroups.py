"""Sidecar contracts for mpyc/fingroups.py (property C27): bounded executable contracts.

Every Native runs the REAL group operations (`@`, `~`, `^`, operation/operation2/inversion/repeat, normalize,
encode/decode) and compares with oracles written for the check, independent of mpyc:
  Sym(n)      own composition / argsort inverse on tuples
  QR, Schnorr Python ints with pow(., ., p)
  EC          own affine group law (short Weierstrass, twisted Edwards) over own GF(p) / GF(p^2) arithmetic,
              own double-and-add; curve constants (a, b, d, p, G) are read from the curve class, the group orders
              are additionally compared with the published constants
  HC          genus 1: own affine law on y^2 = x^3 + a2 x^2 + a4 x + a6; all genera: group axioms, membership in the
              Jacobian (own polynomial arithmetic: u monic, deg v < deg u <= g, u | f - v^2), naive n-fold application,
              affine vs Costello-Lauter coordinates through the curve isomorphism x -> x - f4/5
  Cl          own reduction, own composition (Dirichlet composition of concordant forms after an SL2(Z) change of the
              second form, B by CRT), brute-force class number
Inputs are Python literals.  One Native per family x concern (per curve x coordinate system for EC, per parameter
set for HC) so that one failure does not mask the others.
"""
import math, random, itertools, functools
from lib.native import Native

SEED = 12345


def _fg():
    from mpyc import fingroups
    return fingroups


def T(tier, q, th): return q if tier == 'quick' else th


# The real group constructors are called once per process and parameter set (specs are hashable tuples of literals): the bit-length forms
# (QuadraticResidues(l=), SchnorrGroup(l=, n=), ClassGroup(l=), HyperellipticCurve(l=)) search for primes on every call, only the inner
# _QuadraticResidues(p) etc. are cached by the module, and that search (pure-Python primality tests) would dominate the run time.
_memo = functools.lru_cache(maxsize=None)


# ================================================================= number theory written for the check
_SMALL_PRIMES = [q for q in range(2, 200) if all(q % d for d in range(2, int(q ** .5) + 1))]


def o_is_prime(n):
    """trial division below 2^32, else Miller-Rabin with the first 46 primes as bases (probable prime: assumption)"""
    if n < 2: return False
    for q in _SMALL_PRIMES:
        if n % q == 0: return n == q
    if n < 200 * 200: return True
    d, r = n - 1, 0
    while d % 2 == 0: d //= 2; r += 1
    for a in _SMALL_PRIMES:
        x = pow(a, d, n)
        if x in (1, n - 1): continue
        for _ in range(r - 1):
            x = x * x % n
            if x == n - 1: break
        else:
            return False
    return True


def o_factor(n):
    """prime factors of n: trial division; a cofactor >= 2^32 is first tested with o_is_prime (group orders of cryptographic size are prime or have
    one large prime cofactor; the caller keeps other n small)"""
    f = []; d = 2; tested = None
    while n > 1:
        if n >= 1 << 32 and tested != n:
            tested = n
            if o_is_prime(n): f.append(n); break
        if d * d > n: f.append(n); break
        if n % d == 0:
            f.append(d)
            while n % d == 0: n //= d
        else:
            d += 1
    return f


def o_is_qr(a, p):      # nonzero quadratic residue mod odd prime p (Euler)
    a %= p
    return a != 0 and pow(a, (p - 1) // 2, p) == 1


def o_egcd(a, b):       # g, s, t with g = s a + t b
    s0, s1, t0, t1 = 1, 0, 0, 1
    while b:
        q = a // b
        a, b = b, a - q * b
        s0, s1, t0, t1 = s1, s0 - q * s1, t1, t0 - q * t1
    return a, s0, t0


def naive_power(mul, inv, one, a, n):
    """n-fold application, nothing else: the definition of a^n"""
    if n < 0: a, n = inv(a), -n
    c = one
    for _ in range(n): c = mul(c, a)
    return c


def r2l_power(mul, inv, one, a, n):
    """right-to-left binary method (the module uses left-to-right), for exponents too large for the naive loop"""
    if n < 0: a, n = inv(a), -n
    c = one
    while n:
        if n & 1: c = mul(c, a)
        n >>= 1
        if n: a = mul(a, a)
    return c


SMALL_N = list(range(-20, 41))
BIG_N = [63, 64, 65, 127, 128, 129, 255, 256, 257, 341, 682, 1023, 1024, 65535, 65536, 65537, 0xAAAAAAAA, 0x55555555, 2 ** 64 - 1, 2 ** 64, 2 ** 64 + 1,
         -(2 ** 64 + 1), -255, -256, -257, -1023, -65537, 3 ** 40, -(3 ** 41), 2 ** 127 - 1, 2 ** 200 + 2 ** 100 + 1, -(2 ** 255 - 19), 10 ** 80 + 7]


def notation(G, a, b, n=3):
    """outcome of the additive / multiplicative operator aliases: plain value or the exception type name"""
    import operator
    out = {}
    for key, fn in (('a+b', lambda: a + b), ('-a', lambda: -a), ('a-b', lambda: a - b), ('n*a', lambda: n * a), ('a*b', lambda: a * b),
                    ('1/a', lambda: 1 / a), ('a/b', lambda: a / b), ('a**n', lambda: a ** n), ('a*n', lambda: a * n), ('2/a', lambda: 2 / a)):
        try:
            out[key] = fn()
        except Exception as e:          # noqa
            out[key] = type(e).__name__
    return out


def ck_notation(G_add, G_mul, nt, eq, ab, inva, a_invb, an):
    """nt: dict from notation() with group elements replaced by plain values; eq(x, y) compares plain values"""
    exp = {'a+b': ab if G_add else 'TypeError', '-a': inva if G_add else 'TypeError', 'a-b': a_invb if G_add else 'TypeError',
           'n*a': an if G_add else 'TypeError', 'a*b': ab if G_mul else 'TypeError', '1/a': inva if G_mul else 'TypeError',
           'a/b': a_invb if G_mul else 'TypeError', 'a**n': an if G_mul else 'TypeError', 'a*n': 'TypeError', '2/a': 'TypeError'}
    for k, v in exp.items():
        got = nt[k]
        if isinstance(v, str) or isinstance(got, str):
            if got != v: return f'operator alias {k}: expected {v if isinstance(v, str) else "a value"}, got {got if isinstance(got, str) else "a value"}'
        elif not eq(got, v):
            return f'operator alias {k} differs from @ / ~ / ^'
    return None


# ================================================================= symmetric groups
def o_pmul(p, q):                 # documented convention of SymmetricGroupElement.operation: "first p then q"
    r = [None] * len(p)
    for i in range(len(p)): r[i] = q[p[i]]
    return tuple(r)


def o_pinv(p):                    # argsort
    return tuple(sorted(range(len(p)), key=lambda i: p[i]))


def _is_perm(v, n): return isinstance(v, tuple) and sorted(v) == list(range(n))


def call_sym_pair(n, p, q):
    S = _fg().SymmetricGroup(n)
    a, b = S(p), S(list(q))       # tuple and list inputs
    a2 = S(tuple(p))
    e = S.identity
    v = lambda x: x.value if isinstance(x, S) else ('NOT-IN-GROUP', type(x).__name__, repr(x))
    nt = {k: (x if isinstance(x, str) else v(x)) for k, x in notation(S, a, b).items()}
    return dict(ab=v(a @ b), ba=v(b @ a), inv=v(~a), inverse=v(a.inverse()), a_inv=v(a @ ~a), inv_a=v(~a @ a), ae=v(a @ e), ea=v(e @ a), e=v(e),
                aa=v(a @ a), aa_op=v(S.operation(a, a2)), op2=v(S.operation2(a)), eq_ab=(a == b), ne_ab=(a != b), eq_self=(a == a2),
                hash_self=hash(a) == hash(a2), hash_ab=hash(a) == hash(b), set_size=len({a, a2, b}), nt=nt, new=v(S()), eq_other=(a == p),
                order=S.order, degree=S.degree, abelian=S.is_abelian, cyclic=S.is_cyclic)


def ck_sym_pair(args, r, exc):
    n, p, q = args
    if exc: return f'unexpected {type(exc).__name__}'
    e = tuple(range(n)); pq = o_pmul(p, q); pi = o_pinv(p)
    for k in ('ab', 'ba', 'inv', 'inverse', 'a_inv', 'inv_a', 'ae', 'ea', 'e', 'aa', 'aa_op', 'op2', 'new'):
        if not _is_perm(r[k], n): return f'{k} is not an element of Sym({n})'
    if r['ab'] != pq: return f'p @ q != composition "first p then q" {pq}'
    if r['ba'] != o_pmul(q, p): return 'q @ p wrong'
    if r['e'] != e or r['new'] != e: return 'identity is not the identity permutation'
    if r['inv'] != pi or r['inverse'] != pi: return f'~p != inverse permutation {pi}'
    if r['a_inv'] != e or r['inv_a'] != e: return 'p @ ~p or ~p @ p is not the identity'
    if r['ae'] != p or r['ea'] != p: return 'identity is not neutral'
    pp = o_pmul(p, p)
    if r['aa'] != pp or r['aa_op'] != pp or r['op2'] != pp: return 'p @ p / operation(p, p) / operation2(p) disagree with the composition'
    if r['eq_ab'] != (p == q) or r['ne_ab'] != (p != q) or not r['eq_self']: return 'equality wrong'
    if not r['hash_self'] or (p == q and not r['hash_ab']): return 'equal elements with different hashes'
    if r['set_size'] != (1 if p == q else 2): return 'set of elements has wrong size'
    if r['eq_other'] is True: return 'element compares equal to a bare tuple'
    if r['order'] != math.factorial(n) or r['degree'] != n: return 'order / degree wrong'
    m = ck_notation(False, False, r['nt'], lambda x, y: x == y, None, None, None, None)
    if m: return m
    return True


def call_sym_triple(n, p, q, s):
    S = _fg().SymmetricGroup(n)
    a, b, c = S(p), S(q), S(s)
    return ((a @ b) @ c).value, (a @ (b @ c)).value, (a @ b) @ c == a @ (b @ c), (~(a @ b)).value, (~b @ ~a).value


def ck_sym_triple(args, r, exc):
    n, p, q, s = args
    if exc: return f'unexpected {type(exc).__name__}'
    exp = o_pmul(o_pmul(p, q), s)
    if exp != o_pmul(p, o_pmul(q, s)): return 'oracle not associative'
    if r[0] != exp or r[1] != exp or r[2] is not True: return f'(p@q)@r, p@(q@r) = {r[0]}, {r[1]}; expected {exp}'
    if r[3] != r[4] or r[3] != o_pinv(o_pmul(p, q)): return '~(p@q) != ~q @ ~p'
    return True


def call_sym_repeat(n, p, k):
    S = _fg().SymmetricGroup(n)
    a = S(p)
    return (a ^ k).value, S.repeat(a, k).value, _fg().FiniteGroupElement.repeat(a, k).value


def ck_sym_repeat(args, r, exc):
    n, p, k = args
    if exc: return f'unexpected {type(exc).__name__}'
    e = tuple(range(n))
    # order of p = lcm of its cycle lengths (own cycle walk): reduce big exponents for the naive loop
    L, seen = 1, set()
    for i in range(n):
        if i not in seen:
            c, j = 0, i
            while j not in seen: seen.add(j); j = p[j]; c += 1
            L = math.lcm(L, c)
    kk = k if abs(k) <= 64 else k % L
    exp = naive_power(o_pmul, o_pinv, e, p, kk)
    if abs(k) > 64 and exp != r2l_power(o_pmul, o_pinv, e, p, k): return 'oracle: binary method disagrees with the naive loop'
    return (r[0] == exp and r[1] == exp and r[2] == exp) or f'p^{k} != {k}-fold application {exp}'


def call_sym_ctor(n, v):
    S = _fg().SymmetricGroup(n)
    return S(v).value


def ck_sym_ctor(args, r, exc):
    n, v = args
    ok = len(v) == n and sorted(v) == list(range(n))
    if not ok: return isinstance(exc, ValueError) or 'invalid permutation must raise ValueError'
    return (exc is None and r == tuple(v)) or 'valid permutation rejected / changed'


def _perms(n): return list(itertools.permutations(range(n)))


def in_sym_pair(tier):
    for n in range(0, T(tier, 6, 7)):
        P = _perms(n)
        if n <= 5:
            for p in P:
                for q in P: yield (n, p, q)
        else:
            rnd = random.Random(SEED + n)
            for _ in range(20000):
                yield (n, rnd.choice(P), rnd.choice(P))
    rnd = random.Random(SEED)
    for n in (8, 11, 16, 33):
        for _ in range(T(tier, 50, 500)):
            p = list(range(n)); q = list(range(n)); rnd.shuffle(p); rnd.shuffle(q)
            yield (n, tuple(p), tuple(q))


def in_sym_triple(tier):
    for n in range(0, 5):
        P = _perms(n)
        for p in P:
            for q in P:
                for s in P: yield (n, p, q, s)
    rnd = random.Random(SEED)
    for n in (5, 6, 7, 9, 16):
        P = _perms(n) if n <= 7 else None
        for _ in range(T(tier, 5000, 100000) if n <= 6 else T(tier, 300, 3000)):
            if P: yield (n, rnd.choice(P), rnd.choice(P), rnd.choice(P))
            else:
                t = []
                for _i in range(3):
                    p = list(range(n)); rnd.shuffle(p); t.append(tuple(p))
                yield (n, *t)


def in_sym_repeat(tier):
    for n in range(0, 6):
        P = _perms(n)
        if n == 5 and tier == 'quick':
            P = random.Random(SEED).sample(P, 40)
        for p in P:
            for k in SMALL_N + BIG_N: yield (n, p, k)
    rnd = random.Random(SEED)
    for n in (7, 12, 20):
        for _ in range(T(tier, 10, 100)):
            p = list(range(n)); rnd.shuffle(p)
            for k in SMALL_N + BIG_N: yield (n, tuple(p), k)


def in_sym_ctor(tier):
    for n in range(0, 5):
        for m in range(0, 6):
            for v in itertools.product(range(-1, max(n, m) + 1), repeat=m):
                if m <= 3 or len(set(v)) >= m - 1: yield (n, list(v))


SYM_NATIVES = [
    Native('sym_pair', 'mpyc.fingroups.SymmetricGroupElement', call_sym_pair, ck_sym_pair, in_sym_pair,
           'Sym(n), n = 0..5: all pairs of permutations (thorough: 20000 random pairs of Sym(6)); 50 (500) random pairs for n in {8,11,16,33}: '
           'operation, operation2, inversion, identity, equality, hash, operator aliases against own composition'),
    Native('sym_assoc', 'mpyc.fingroups.SymmetricGroupElement.operation', call_sym_triple, ck_sym_triple, in_sym_triple,
           'Sym(n), n = 0..4: all triples; random triples for n in {5,6,7,9,16}'),
    Native('sym_repeat', 'mpyc.fingroups.FiniteGroupElement.repeat', call_sym_repeat, ck_sym_repeat, in_sym_repeat,
           'Sym(n), n = 0..4 all elements (n = 5: 40, thorough all; random elements n in {7,12,20}) x exponents -20..40 and 33 large / patterned ones'),
    Native('sym_ctor', 'mpyc.fingroups.SymmetricGroupElement.__init__', call_sym_ctor, ck_sym_ctor, in_sym_ctor,
           'Sym(n), n = 0..4: candidate lists of length 0..5 over -1..max(n,len): ValueError exactly for non-permutations'),
]


# ================================================================= quadratic residues and Schnorr groups (oracle: ints mod p)
@_memo
def _qr(spec):
    fg = _fg()
    return fg.QuadraticResidues(l=spec[1]) if spec[0] == 'l' else fg.QuadraticResidues(spec[1])


@_memo
def _sg(spec):
    fg = _fg()
    if spec[0] == 'pqg': return fg.SchnorrGroup(p=spec[1], q=spec[2], g=spec[3])
    if spec[0] == 'pq': return fg.SchnorrGroup(p=spec[1], q=spec[2])
    if spec[0] == 'ln': return fg.SchnorrGroup(l=spec[1], n=spec[2])
    if spec[0] == 'q': return fg.SchnorrGroup(q=spec[1])
    if spec[0] == 'ql': return fg.SchnorrGroup(q=spec[1], l=spec[2])
    raise AssertionError(spec)


def _mg(fam, spec): return _qr(spec) if fam == 'QR' else _sg(spec)


def _iv(G, x):
    """plain value of a group element: int in [0, p); anything else is flagged"""
    if type(x) is not G: return ('NOT-IN-GROUP', type(x).__name__, repr(x)[:80])
    return x.value.value % G.field.modulus


def call_mg_laws(fam, spec, a, b, c):
    G = _mg(fam, spec)
    A, B, C = G(a), G(G.field(b)), G(c)          # int and field element inputs
    A2 = G(a)
    e = G.identity
    v = lambda x: _iv(G, x)
    nt = {k: (x if isinstance(x, str) else v(x)) for k, x in notation(G, A, B).items()}
    return dict(p=G.field.modulus, order=G.order, ab=v(A @ B), ba=v(B @ A), ab_c=v((A @ B) @ C), a_bc=v(A @ (B @ C)), eq_assoc=((A @ B) @ C == A @ (B @ C)),
                inv=v(~A), inverse=v(A.inverse()), a_inv=v(A @ ~A), inv_a=v(~A @ A), ae=v(A @ e), ea=v(e @ A), e=v(e), new=v(G()),
                aa=v(A @ A), aa_op=v(G.operation(A, A2)), op2=v(G.operation2(A)), eq_ab=(A == B), ne_ab=(A != B), eq_self=(A == A2),
                hash_self=hash(A) == hash(A2), hash_ab=hash(A) == hash(B), set_size=len({A, A2, B}), nt=nt, int_a=int(A) % G.field.modulus,
                eq_int=(A == a), flags=(G.is_multiplicative, G.is_additive, G.is_abelian, G.is_cyclic))


def _member(fam, p, q, x):
    x %= p
    return x != 0 and (o_is_qr(x, p) if fam == 'QR' else pow(x, q, p) == 1)


def ck_mg_laws(args, r, exc):
    fam, spec, a, b, c = args
    if exc: return f'unexpected {type(exc).__name__}: {exc}'
    p, q = r['p'], r['order']
    a, b, c = a % p, b % p, c % p
    for k in ('ab', 'ba', 'ab_c', 'a_bc', 'inv', 'inverse', 'a_inv', 'inv_a', 'ae', 'ea', 'e', 'new', 'aa', 'aa_op', 'op2'):
        if not isinstance(r[k], int): return f'{k}: {r[k]}'
        if not _member(fam, p, q, r[k]): return f'{k} = {r[k]} is not in the group'
    if r['ab'] != a * b % p or r['ba'] != a * b % p: return 'a @ b != a*b mod p'
    if r['ab_c'] != a * b * c % p or r['a_bc'] != a * b * c % p or r['eq_assoc'] is not True: return 'associativity / product of three wrong'
    ai = pow(a, -1, p)
    if r['inv'] != ai or r['inverse'] != ai: return '~a is not the inverse mod p'
    if r['a_inv'] != 1 or r['inv_a'] != 1 or r['e'] != 1 or r['new'] != 1: return 'identity / a @ ~a wrong'
    if r['ae'] != a or r['ea'] != a: return 'identity not neutral'
    if not (r['aa'] == r['aa_op'] == r['op2'] == a * a % p): return 'a @ a / operation(a, a) / operation2(a) != a^2 mod p'
    if r['eq_ab'] != (a == b) or r['ne_ab'] != (a != b) or not r['eq_self']: return 'equality wrong'
    if not r['hash_self'] or (a == b and not r['hash_ab']): return 'equal elements with different hashes'
    if r['set_size'] != (1 if a == b else 2): return 'set of elements has wrong size'
    if r['int_a'] != a: return 'int(a) wrong'
    if r['eq_int'] is True: return 'element compares equal to a bare int'
    if r['flags'] != (True, False, True, True): return 'is_multiplicative/is_additive/is_abelian/is_cyclic flags wrong'
    m = ck_notation(False, True, r['nt'], lambda x, y: x == y, a * b % p, ai, a * pow(b, -1, p) % p, pow(a, 3, p))
    if m: return m
    return True


def call_mg_repeat(fam, spec, a, n):
    G = _mg(fam, spec)
    A = G(a)
    v = lambda x: _iv(G, x)
    return G.field.modulus, v(A ^ n), v(G.repeat(A, n)), v(A ** n), v(_fg().FiniteGroupElement.repeat(A, n))


def ck_mg_repeat(args, r, exc):
    fam, spec, a, n = args
    if exc: return f'unexpected {type(exc).__name__}: {exc}'
    p = r[0]; a %= p
    mul = lambda x, y: x * y % p
    inv = lambda x: pow(x, -1, p)
    exp = naive_power(mul, inv, 1, a, n) if abs(n) <= 64 else r2l_power(mul, inv, 1, a, n)
    if exp != pow(a, n, p): return 'oracles disagree'
    return all(x == exp for x in r[1:]) or f'a^n, repeat(a, n), a**n, generic repeat = {r[1:]}; n-fold application gives {exp}'


def call_mg_ctor(fam, spec, v):
    G = _mg(fam, spec)
    x = G(v if not isinstance(v, tuple) else G.field(v[0]))
    return G.field.modulus, G.order, _iv(G, x)


def ck_mg_ctor(args, r, exc):
    fam, spec, v = args
    if isinstance(v, float): return isinstance(exc, TypeError) or 'float must raise TypeError'
    G = _mg(fam, spec); p, q = G.field.modulus, G.order          # parameters only
    x = v[0] if isinstance(v, tuple) else v
    if not _member(fam, p, q, x): return isinstance(exc, ValueError) or f'{x} is not in the group: must raise ValueError'
    return (exc is None and r[2] == x % p) or 'group element rejected / changed'


def call_mg_generator(fam, spec):
    G = _mg(fam, spec)
    g = G.generator
    return dict(p=G.field.modulus, order=G.order, g=_iv(G, g), g_order=_iv(G, g ^ G.order), e=_iv(G, G.identity), name=G.__name__)


def ck_mg_generator(exact):
    def ck(args, r, exc):
        fam, spec = args
        if exc: return f'unexpected {type(exc).__name__}: {exc}'
        p, q, g = r['p'], r['order'], r['g']
        if not o_is_prime(p) or p % 2 == 0: return 'modulus is not an odd prime'
        if fam == 'QR':
            if q != (p - 1) // 2: return 'declared order is not (p-1)/2'
            if spec[0] == 'l':
                l = spec[1]
                if p.bit_length() != l: return f'modulus has {p.bit_length()} bits, {l} requested'
                if l > 2 and not (o_is_prime(q) and p % 4 == 3): return 'modulus is not a safe (Blum) prime'
            elif p != spec[1]: return 'modulus differs from the requested one'
        else:
            if (p - 1) % q or not o_is_prime(q) or q % 2 == 0: return 'order q is not an odd prime dividing p-1'
            if spec[0] == 'ln' and (p.bit_length(), q.bit_length()) != (spec[1], spec[2]): return 'bit lengths of p, q differ from the requested ones'
            if spec[0] in ('pqg', 'pq') and (p, q) != (spec[1], spec[2]): return 'p, q differ from the requested ones'
            if spec[0] == 'pqg' and g != spec[3] % p: return 'generator differs from the requested one'
            if spec[0] in ('q', 'ql') and q != spec[1]: return 'q differs from the requested one'
            if spec[0] == 'ql' and p.bit_length() != spec[2]: return 'bit length of p differs from the requested one'
        if not isinstance(g, int) or not _member(fam, p, q, g): return f'generator {g} is not in the group'
        if pow(g, q, p) != 1 or r['g_order'] != 1 or r['e'] != 1: return 'generator^order is not the identity'
        if exact:
            for s in o_factor(q):
                if pow(g, q // s, p) == 1: return f'generator {g} has order dividing {q // s}, declared order {q}'
        return True
    return ck


def call_mg_codec(fam, spec, m):
    G = _mg(fam, spec)
    M, Z = G.encode(m)
    return G.field.modulus, G.order, getattr(G, 'gap', None), _iv(G, M), _iv(G, Z), G.decode(M, Z)


def ck_mg_codec(args, r, exc):
    fam, spec, m = args
    G = _mg(fam, spec); p, q = G.field.modulus, G.order          # parameters only
    if fam == 'QR':
        gap = G.gap
        # documented scheme: a = m*gap + i with i and a residues, 0 < i < gap; fails (ValueError) when no such i exists
        feasible = any(o_is_qr(i, p) and o_is_qr(m * gap + i, p) for i in range(1, gap))
        if not feasible: return isinstance(exc, ValueError) or 'no encoding exists: must raise ValueError'
    if exc: return f'unexpected {type(exc).__name__}: {exc}'
    _, _, _, M, Z, d = r
    if not (isinstance(M, int) and isinstance(Z, int) and _member(fam, p, q, M) and _member(fam, p, q, Z)): return 'encode does not return group elements'
    return (d == m and type(d) is int) or f'decode(encode({m})) = {d!r}'


# parameter sets
QR_L = list(range(2, 17))
QR_L_TH = [17, 18, 19, 20, 24, 31, 32, 33, 48, 64, 65, 100, 128, 160]
QR_SAFE_P = [7, 11, 23, 47, 59, 83, 107, 167, 179, 227, 263, 347, 359, 383, 467, 479, 503]
QR_NONSAFE_P = [3, 5, 13, 17, 19, 29, 31, 37, 41, 43, 53, 61, 67, 71, 73, 79, 89, 97, 101, 127, 257, 65537, 2 ** 31 - 1, 2 ** 61 - 1]
SG_SPECS = [('pqg', 11, 5, 4), ('pqg', 11, 5, 3), ('pqg', 23, 11, 2), ('pq', 7, 3), ('pq', 31, 5), ('pq', 31, 3), ('pq', 43, 7), ('pq', 2 ** 31 - 1, 331),
            ('ln', 4, 2), ('ln', 5, 2), ('ln', 6, 3), ('ln', 8, 4), ('ln', 10, 5), ('ln', 12, 6), ('ln', 16, 8), ('ln', 20, 10), ('ln', 32, 16), ('ln', 64, 32),
            ('ql', 1021, 24), ('ql', 65521, 40), ('ql', 2 ** 31 - 1, 128)]
SG_SPECS_TH = [('ln', 128, 64), ('ln', 256, 128), ('ln', 1024, 160), ('q', 2 ** 31 - 1), ('q', 2 ** 61 - 1), ('ln', 2048, 224)]


def _qr_specs(tier):
    s = [('l', l) for l in QR_L] + [('p', p) for p in QR_SAFE_P + QR_NONSAFE_P]
    if tier != 'quick': s += [('l', l) for l in QR_L_TH] + [('l', 768), ('l', 1024)]
    return s


def _mg_specs(fam, tier):
    return _qr_specs(tier) if fam == 'QR' else SG_SPECS + (SG_SPECS_TH if tier != 'quick' else [])


def _mg_elements(fam, spec, limit, rnd):
    """group elements as ints, computed with pow() only: all of them when the group is small, else a sample"""
    G = _mg(fam, spec); p, q = G.field.modulus, G.order          # parameters only (inputs are literals)
    if fam == 'QR':
        gen = lambda: pow(rnd.randrange(1, p), 2, p)
        if q <= limit: return sorted({x * x % p for x in range(1, p)})
    else:
        w = (p - 1) // q
        gen = lambda: pow(rnd.randrange(1, p), w, p)
        if q <= limit: return sorted({pow(x, w, p) for x in range(1, p)}) if p < 10 ** 5 else sorted({pow(pow(2, w, p) if pow(2, w, p) != 1 else pow(3, w, p), k, p) for k in range(q)})
    els = {1, p - 1 if _member(fam, p, q, p - 1) else 1}
    while len(els) < limit: els.add(gen())
    return sorted(els)


def in_mg_laws(fam):
    def gen(tier):
        rnd = random.Random(SEED)
        for spec in _mg_specs(fam, tier):
            els = _mg_elements(fam, spec, T(tier, 8, 16), rnd)
            for a in els:
                for b in els:
                    for c in els: yield (fam, spec, a, b, c)
    return gen


def in_mg_repeat(fam):
    def gen(tier):
        rnd = random.Random(SEED + 1)
        for spec in _mg_specs(fam, tier):
            G = _mg(fam, spec); q = G.order
            ns = SMALL_N + BIG_N + [q - 1, q, q + 1, -q, -q - 1, 2 * q + 3]
            for a in _mg_elements(fam, spec, T(tier, 6, 12), rnd):
                for n in ns: yield (fam, spec, a, n)
    return gen


def in_mg_ctor(fam):
    def gen(tier):
        for spec in _mg_specs(fam, 'quick'):
            p = _mg(fam, spec).field.modulus
            for v in list(range(-3, min(p + 3, 70))) + [p - 1, p, p + 1, 2 * p + 4, 1.0, 4.0]:
                yield (fam, spec, v)
                if isinstance(v, int): yield (fam, spec, (v,))
    return gen


def in_mg_generator(fam, which):
    def gen(tier):
        if fam == 'QR':
            s = [('l', l) for l in QR_L + (QR_L_TH + [768, 1024] if tier != 'quick' else [])] + [('p', p) for p in QR_SAFE_P] if which == 'safe' else [('p', p) for p in QR_NONSAFE_P]
        else:
            s = _mg_specs(fam, tier)
        for spec in s: yield (fam, spec)
    return gen


def in_mg_codec(fam):
    def gen(tier):
        rnd = random.Random(SEED + 2)
        for spec in _mg_specs(fam, tier):
            G = _mg(fam, spec); p, q = G.field.modulus, G.order
            if fam == 'QR':
                top = p // G.gap - 1                 # m with (m+1)*gap <= p: the encoded value fits below the modulus
                if top < 0: continue
                ms = set(range(0, min(top, T(tier, 300, 2000)) + 1)) | {top, top // 2} | {rnd.randrange(top + 1) for _ in range(T(tier, 20, 200))}
            else:
                top = min(q, 1024) - 1               # decode is documented to search m < 1024 only; g^m = g^(m mod q)
                ms = set(range(0, top + 1)) if q < 40 or tier != 'quick' else set(range(0, 20)) | {top, top - 1, top // 2} | {rnd.randrange(top + 1) for _ in range(10)}
            for m in sorted(ms): yield (fam, spec, m)
    return gen


MG_NATIVES = []
for _fam, _cls in (('QR', 'QuadraticResidue'), ('SG', 'SchnorrGroupElement')):
    _p = _fam.lower()
    MG_NATIVES += [
        Native(f'{_p}_laws', f'mpyc.fingroups.{_cls}', call_mg_laws, ck_mg_laws, in_mg_laws(_fam),
               f'{_fam}: every parameter set (bit lengths, explicit primes); all triples over the whole group when its order is <= 8 (thorough 16), else over 8 (16) '
               'sampled elements incl. 1 and -1: operation, operation2, inversion, identity, associativity, equality, hash, operator aliases against ints mod p'),
        Native(f'{_p}_repeat', f'mpyc.fingroups.{_cls}.repeat', call_mg_repeat, ck_mg_repeat, in_mg_repeat(_fam),
               f'{_fam}: every parameter set x 6 (12) elements x exponents -20..40, 33 large / patterned ones, order-1, order, order+1, -order, -order-1, 2 order+3'),
        Native(f'{_p}_ctor', f'mpyc.fingroups.{_cls}.__init__', call_mg_ctor, ck_mg_ctor, in_mg_ctor(_fam),
               f'{_fam}: every quick parameter set x ints -3..min(p+2, 69), p-1, p, p+1, 2p+4 (as int and as field element), floats: membership decided exactly'),
        Native(f'{_p}_codec', f'mpyc.fingroups.{_cls}.encode/decode', call_mg_codec, ck_mg_codec, in_mg_codec(_fam),
               'QR: all m with (m+1)*gap <= p up to 300 (2000), the largest such m, random ones; ValueError exactly when no encoding exists' if _fam == 'QR' else
               'SG: m < min(order, 1024) (the documented search bound of decode): all for small groups / thorough, else 0..19, boundary and random ones'),
    ]
MG_NATIVES += [
    Native('qr_generator', 'mpyc.fingroups.QuadraticResidues', call_mg_generator, ck_mg_generator(True), in_mg_generator('QR', 'safe'),
           'QR: l = 2..16 (thorough up to 160, 768, 1024) and 17 explicit safe primes: p odd prime of the requested size, safe and Blum for l > 2, order (p-1)/2, generator of exactly that order'),
    # Explicit moduli that are not safe primes: the module offers a generator of the whole group for safe primes only (module docstring
    # "quadratic residue groups modulo a safe prime"; _QuadraticResidues: "g is generator if p is a safe prime"; FiniteGroupElement.generator
    # "generates large subgroup, preferably the entire group").  `order` is the order of the GROUP, no order is declared for the generator:
    # the contract is generator in the group and generator^order = identity (e.g. QuadraticResidues(13): order 6, generator 3 of order 3).
    Native('qr_generator_weak_nonsafe_p', 'mpyc.fingroups.QuadraticResidues', call_mg_generator, ck_mg_generator(False), in_mg_generator('QR', 'nonsafe'),
           'QR: 24 explicit odd primes p with (p-1)/2 composite (or 1), outside the documented safe-prime domain: p as requested, group order (p-1)/2, generator in the group, '
           'generator^order = identity (no exact generator order is declared for such p)'),
    Native('sg_generator', 'mpyc.fingroups.SchnorrGroup', call_mg_generator, ck_mg_generator(True), in_mg_generator('SG', None),
           'SG: 21 parameter sets (thorough 27): p, q odd primes of the requested sizes/values, q | p-1, generator of order exactly q'),
]


# ================================================================= elliptic curves: own field arithmetic and affine group laws
class OFp:
    """GF(p), elements ints in [0, p)"""
    def __init__(self, p): self.p = p; self.zero = 0; self.one = 1
    def of(self, e): return e.value % self.p                   # from a mpyc prime field element (read only)
    def lit(self, n): return n % self.p
    def add(self, a, b): return (a + b) % self.p
    def sub(self, a, b): return (a - b) % self.p
    def neg(self, a): return -a % self.p
    def mul(self, a, b): return a * b % self.p
    def inv(self, a): return pow(a, -1, self.p)
    def is_sq(self, a): return a == 0 or pow(a, (self.p - 1) // 2, self.p) == 1


class OFp2:
    """GF(p)[x] / (x^2 + m1 x + m0), elements pairs (c0, c1) = c0 + c1 x"""
    def __init__(self, p, m0, m1): self.p, self.m0, self.m1 = p, m0 % p, m1 % p; self.zero = (0, 0); self.one = (1, 0)
    def of(self, e):
        c = list(e.value.value) + [0, 0]
        return (c[0] % self.p, c[1] % self.p)
    def lit(self, n): return (n % self.p, 0)
    def add(self, a, b): return ((a[0] + b[0]) % self.p, (a[1] + b[1]) % self.p)
    def sub(self, a, b): return ((a[0] - b[0]) % self.p, (a[1] - b[1]) % self.p)
    def neg(self, a): return (-a[0] % self.p, -a[1] % self.p)
    def mul(self, a, b):
        h = a[1] * b[1]                                       # x^2 = -m1 x - m0
        return ((a[0] * b[0] - h * self.m0) % self.p, (a[0] * b[1] + a[1] * b[0] - h * self.m1) % self.p)
    def inv(self, a):
        # multiplication by a is the matrix [[a0, -a1 m0], [a1, a0 - a1 m1]]: solve for the preimage of 1
        det = (a[0] * (a[0] - a[1] * self.m1) + a[1] * a[1] * self.m0) % self.p
        di = pow(det, -1, self.p)
        return ((a[0] - a[1] * self.m1) * di % self.p, -a[1] * di % self.p)


def o_field(F):
    """own arithmetic for the mpyc field type F (parameters read from F)"""
    if F.order == F.characteristic: return OFp(F.modulus)
    m = list(F.modulus.value)
    assert len(m) == 3 and m[2] == 1, 'only quadratic extensions are used by the built-in curves'
    return OFp2(F.characteristic, m[0], m[1])


class OWeier:
    """y^2 = x^3 + a2 x^2 + a4 x + a6, affine, None = point at infinity (a2 = 0: short Weierstrass)"""
    def __init__(self, K, a4, a6, a2=None): self.K, self.a4, self.a6, self.a2 = K, a4, a6, K.zero if a2 is None else a2; self.O = None

    def on(self, P):
        if P is None: return True
        K = self.K; x, y = P
        x2 = K.mul(x, x)
        rhs = K.add(K.add(K.mul(x2, x), K.mul(self.a2, x2)), K.add(K.mul(self.a4, x), self.a6))
        return K.mul(y, y) == rhs

    def neg(self, P):
        return None if P is None else (P[0], self.K.neg(P[1]))

    def add(self, P, Q):
        K = self.K
        if P is None: return Q
        if Q is None: return P
        x1, y1 = P; x2, y2 = Q
        if x1 == x2:
            if K.add(y1, y2) == K.zero: return None
            # tangent: (3 x^2 + 2 a2 x + a4) / (2 y)
            num = K.add(K.add(K.mul(K.lit(3), K.mul(x1, x1)), K.mul(K.lit(2), K.mul(self.a2, x1))), self.a4)
            lam = K.mul(num, K.inv(K.add(y1, y1)))
        else:
            lam = K.mul(K.sub(y2, y1), K.inv(K.sub(x2, x1)))
        x3 = K.sub(K.sub(K.sub(K.mul(lam, lam), self.a2), x1), x2)
        y3 = K.sub(K.mul(lam, K.sub(x1, x3)), y1)
        return (x3, y3)


class OEdwards:
    """a x^2 + y^2 = 1 + d x^2 y^2, affine, identity (0, 1)"""
    def __init__(self, K, a, d): self.K, self.a, self.d = K, a, d; self.O = (K.zero, K.one)

    def on(self, P):
        K = self.K; x, y = P
        x2, y2 = K.mul(x, x), K.mul(y, y)
        return K.add(K.mul(self.a, x2), y2) == K.add(K.one, K.mul(self.d, K.mul(x2, y2)))

    def neg(self, P): return (self.K.neg(P[0]), P[1])

    def add(self, P, Q):
        K = self.K
        x1, y1 = P; x2, y2 = Q
        t = K.mul(self.d, K.mul(K.mul(x1, x2), K.mul(y1, y2)))
        x3 = K.mul(K.add(K.mul(x1, y2), K.mul(y1, x2)), K.inv(K.add(K.one, t)))
        y3 = K.mul(K.sub(K.mul(y1, y2), K.mul(self.a, K.mul(x1, x2))), K.inv(K.sub(K.one, t)))
        return (x3, y3)


def o_cmul(C, k, P):
    """k P by the right-to-left binary method on the oracle curve C"""
    return r2l_power(C.add, C.neg, C.O, P, k)


EC_COORDS = {'Ed25519': ('affine', 'projective', 'extended'), 'Ed448': ('affine', 'projective', 'extended'),
             'secp256k1': ('affine', 'projective', 'jacobian'), 'BN256': ('affine', 'projective', 'jacobian'), 'BN256_twist': ('affine', 'projective', 'jacobian')}
_BN_U = 1868033 ** 3
# published group orders (RFC 8032, SEC 2, Naehrig-Niederhagen-Schwabe 2010): independent of the module's constants
EC_ORDER = {'Ed25519': 2 ** 252 + 27742317777372353535851937790883648493,
            'Ed448': 2 ** 446 - 13818066809895115352007386748515426880336692474882178609894547503885,
            'secp256k1': 0xFFFFFFFFFFFFFFFFFFFFFFFFFFFFFFFEBAAEDCE6AF48A03BBFD25E8CD0364141,
            'BN256': 36 * _BN_U ** 4 + 36 * _BN_U ** 3 + 18 * _BN_U ** 2 + 6 * _BN_U + 1}
EC_ORDER['BN256_twist'] = EC_ORDER['BN256']
EC_PRIME = {'Ed25519': 2 ** 255 - 19, 'Ed448': 2 ** 448 - 2 ** 224 - 1, 'secp256k1': 2 ** 256 - 2 ** 32 - 977,
            'BN256': 36 * _BN_U ** 4 + 36 * _BN_U ** 3 + 24 * _BN_U ** 2 + 6 * _BN_U + 1}
EC_PRIME['BN256_twist'] = EC_PRIME['BN256']

_ec_cache = {}


def _ec(name, coords):
    return _fg().EllipticCurve(name, coords)


def o_curve(name, coords):
    """oracle curve with constants read from the class attributes of the (name, coords) curve type; generator affine"""
    key = (name, coords, id(_ec(name, coords)))
    if key not in _ec_cache:
        E = _ec(name, coords)
        K = o_field(E.field)
        if name.startswith('Ed'):
            C = OEdwards(K, K.of(E.a), K.of(E.d))
        else:
            C = OWeier(K, K.of(E.a), K.of(E.b))
        C.kind = 'E' if name.startswith('Ed') else 'W'
        C.G = o_affine(C, coords, tuple(K.of(c) for c in E.generator.value))
        C.muls = {}
        _ec_cache[key] = C
    return _ec_cache[key]


def o_kG(C, k):
    if k not in C.muls: C.muls[k] = o_cmul(C, k, C.G)
    return C.muls[k]


def o_affine(C, coords, raw):
    """own conversion of raw coordinates to affine; returns ('BAD', reason) for an invalid representation"""
    K = C.K
    if C.kind == 'W':
        if coords == 'affine':
            if len(raw) == 0: return None
            if len(raw) != 2: return ('BAD', 'affine Weierstrass point must have 0 or 2 coordinates')
            return tuple(raw)
        if len(raw) != 3: return ('BAD', '3 coordinates expected')
        x, y, z = raw
        if z == K.zero: return None
        zi = K.inv(z)
        if coords == 'projective': return (K.mul(x, zi), K.mul(y, zi))
        zi2 = K.mul(zi, zi)
        return (K.mul(x, zi2), K.mul(y, K.mul(zi2, zi)))
    if coords == 'affine':
        if len(raw) != 2: return ('BAD', '2 coordinates expected')
        return tuple(raw)
    if len(raw) != (3 if coords == 'projective' else 4): return ('BAD', 'wrong number of coordinates')
    x, y, z = raw[:3]
    if z == K.zero: return ('BAD', 'z = 0')
    if coords == 'extended' and K.mul(raw[3], z) != K.mul(x, y): return ('BAD', 'extended coordinate t z != x y')
    zi = K.inv(z)
    return (K.mul(x, zi), K.mul(y, zi))


def _raw(E, K, pt):
    if type(pt) is not E: return ('NOT-IN-GROUP', type(pt).__name__, repr(pt)[:80])
    return tuple(K.of(c) for c in pt.value)


def _alt(E, pt, lam=3):
    """another representation of the same point (projective / extended: scale; jacobian: weighted scale); None for affine"""
    v = pt.value
    if len(v) < 3: return None
    if issubclass(E, _fg().WeierstrassJacobian): w = (v[0] * lam ** 2, v[1] * lam ** 3, v[2] * lam)
    else: w = tuple(c * lam for c in v)
    return E(w, check=False)


def _pt(E, k):
    """k G through the real repeat: a general (non-normalised) representation"""
    return E.generator ^ k


def _fe(E, K, c):
    """mpyc field element from an oracle representation"""
    return E.field(list(c)) if isinstance(c, tuple) else E.field(c)


def _mk(E, C, coords, P, lam=1):
    """group element with affine coordinates P (oracle representation) in a representation scaled by lam; independent of the group operations"""
    K = C.K
    f = lambda c: _fe(E, K, c)
    L = E.field(lam)
    if C.kind == 'W':
        if coords == 'affine': return E.identity if P is None else E((f(P[0]), f(P[1])))
        if P is None: return E((E.field(0), L ** 3, E.field(0)), check=False)
        x, y = f(P[0]), f(P[1])
        return E((x * L, y * L, L)) if coords == 'projective' else E((x * L ** 2, y * L ** 3, L))
    x, y = f(P[0]), f(P[1])
    if coords == 'affine': return E((x, y))
    if coords == 'projective': return E((x * L, y * L, L))
    return E((x * L, y * L, L, x * y * L))


def call_ec_scalar(name, coords, k):
    E = _ec(name, coords); C = o_curve(name, coords); K = C.K
    g = E.generator
    a = g ^ k
    nrm = a.normalize()
    return dict(pow=_raw(E, K, a), mul=_raw(E, K, k * g), rep=_raw(E, K, E.repeat(g, k)), gen=_raw(E, K, _fg().FiniteGroupElement.repeat(g, k)),
                norm=_raw(E, K, nrm), norm_eq=(nrm == a), is_id=(a == E.identity), id_norm=_raw(E, K, E.identity.normalize()))


def _norm_ok(C, coords, raw, P):
    """raw must be THE normalised representation of the affine point P"""
    K = C.K
    if C.kind == 'W':
        if coords == 'affine': return raw == (() if P is None else tuple(P))
        if P is None: return len(raw) == 3 and raw[2] == K.zero
        return raw == (P[0], P[1], K.one)
    if coords == 'affine': return raw == tuple(P)
    if coords == 'projective': return raw == (P[0], P[1], K.one)
    return raw == (P[0], P[1], K.one, K.mul(P[0], P[1]))


def ck_ec_scalar(args, r, exc):
    name, coords, k = args
    if exc: return f'unexpected {type(exc).__name__}: {exc}'
    C = o_curve(name, coords)
    if not C.on(C.G): return 'oracle: generator not on the curve'
    exp = o_kG(C, k)
    if abs(k) <= 60 and exp != naive_power(C.add, C.neg, C.O, C.G, k): return 'oracle: binary method disagrees with the naive loop'
    for key in ('pow', 'mul', 'rep', 'gen'):
        if r[key] and r[key][0] == 'NOT-IN-GROUP': return f'{key}: {r[key]}'
        got = o_affine(C, coords, r[key])
        if got != exp: return f'{key}: {k} G = {got} (affine), own affine double-and-add gives {exp}'
    if not _norm_ok(C, coords, r['norm'], exp): return f'normalize() does not give the unique affine representation of {exp}'
    if r['norm_eq'] is not True: return 'normalize() changes the point'
    if r['is_id'] != (exp == C.O): return 'comparison with the identity wrong'
    if not _norm_ok(C, coords, r['id_norm'], C.O): return 'normalize() of the identity wrong'
    return True


def call_ec_laws(name, coords, i, j, k):
    E = _ec(name, coords); C = o_curve(name, coords); K = C.K
    a = _mk(E, C, coords, o_kG(C, i), 2)
    b = _mk(E, C, coords, o_kG(C, j), 3)
    c = _pt(E, k)
    a2 = _mk(E, C, coords, o_kG(C, i), 5)              # same point as a, another representation (other object)
    a3 = E(a.value, check=False)                         # same representation, other object
    e = E.identity
    R = lambda x: _raw(E, K, x)
    ab_c, a_bc = (a @ b) @ c, a @ (b @ c)
    nt = {key: (x if isinstance(x, str) else R(x)) for key, x in notation(E, a, b).items()}
    return dict(c=R(c), ab=R(a @ b), ba=R(b @ a), ab_c=R(ab_c), a_bc=R(a_bc), eq_assoc=(ab_c == a_bc), inv=R(~a), inverse=R(a.inverse()),
                a_inv=R(a @ ~a), inv_a=R(~a @ a), ae=R(a @ e), ea=R(e @ a), ee=R(e @ e), inv_e=R(~e), aa=R(a @ a), aa_op=R(E.operation(a, a3)),
                aa_alt=R(E.operation(a, a2)), op2=R(E.operation2(a)), a_inv_alt=R(E.operation(a2, ~a)), eq_alt=(a == a2), eq_self=(a == a3),
                eq_ab=(a == b), ne_ab=(a != b), eq_a_inv=(a == ~a), hash_self=(hash(a) == hash(a3)), eq_tuple=(a == a.value), nt=nt,
                new=R(E()), flags=(E.is_additive, E.is_multiplicative, E.is_abelian, E.is_cyclic))


def ck_ec_laws(args, r, exc):
    name, coords, i, j, k = args
    if exc: return f'unexpected {type(exc).__name__}: {exc}'
    C = o_curve(name, coords)
    A, B, Cc = o_kG(C, i), o_kG(C, j), o_kG(C, k)
    AB = C.add(A, B); ABC = C.add(AB, Cc)
    if ABC != C.add(A, C.add(B, Cc)) or ABC != o_kG(C, i + j + k): return 'oracle not associative'
    nA = C.neg(A)
    aff = lambda key: o_affine(C, coords, r[key])
    for key, exp in (('c', Cc), ('ab', AB), ('ba', AB), ('ab_c', ABC), ('a_bc', ABC), ('inv', nA), ('inverse', nA), ('a_inv', C.O), ('inv_a', C.O),
                     ('ae', A), ('ea', A), ('ee', C.O), ('inv_e', C.O), ('aa', C.add(A, A)), ('aa_op', C.add(A, A)), ('aa_alt', C.add(A, A)),
                     ('op2', C.add(A, A)), ('a_inv_alt', C.O), ('new', C.O)):
        if r[key] and r[key][0] == 'NOT-IN-GROUP': return f'{key}: {r[key]}'
        got = aff(key)
        if got != exp: return f'{key} = {got} (affine), own affine law gives {exp}   [a = {i} G, b = {j} G, c = {k} G]'
    if r['eq_assoc'] is not True: return '(a@b)@c == a@(b@c) is False'
    if not (r['eq_alt'] is True and r['eq_self'] is True): return 'two representations of one point compare unequal'
    if r['eq_ab'] != (A == B) or r['ne_ab'] != (A != B) or r['eq_a_inv'] != (A == nA): return 'equality of points wrong'
    if not r['hash_self']: return 'same representation, different hash'
    if r['eq_tuple'] is True: return 'point compares equal to a bare tuple'
    if r['flags'] != (True, False, True, True): return 'is_additive/is_multiplicative/is_abelian/is_cyclic flags wrong'
    eq = lambda x, y: o_affine(C, coords, x) == y
    m = ck_notation(True, False, r['nt'], eq, AB, nA, C.add(A, C.neg(B)), o_kG(C, 3 * i))
    if m: return m
    return True


def call_ec_repeat(name, coords, i, n):
    E = _ec(name, coords); C = o_curve(name, coords); K = C.K
    a = _mk(E, C, coords, o_kG(C, i), 7)
    R = lambda x: _raw(E, K, x)
    out = dict(pow=R(a ^ n), rep=R(E.repeat(a, n)), mul=R(n * a))
    # n-fold application with the real operation / inversion only (operands are distinct objects: no doubling shortcut)
    op = lambda x, y: E.operation(x, y)
    if abs(n) <= 64: out['naive'] = R(naive_power(op, E.inversion, E.identity, a, n))
    else: out['naive'] = R(r2l_power(op, E.inversion, E.identity, a, n))
    out['eq_naive'] = (a ^ n) == (naive_power(op, E.inversion, E.identity, a, n) if abs(n) <= 64 else r2l_power(op, E.inversion, E.identity, a, n))
    return out


def ck_ec_repeat(args, r, exc):
    name, coords, i, n = args
    if exc: return f'unexpected {type(exc).__name__}: {exc}'
    C = o_curve(name, coords)
    exp = o_kG(C, i * n)
    A = o_kG(C, i)
    if abs(n) <= 64 and exp != naive_power(C.add, C.neg, C.O, A, n): return 'oracle: naive loop disagrees'
    for key in ('pow', 'rep', 'mul', 'naive'):
        if r[key] and r[key][0] == 'NOT-IN-GROUP': return f'{key}: {r[key]}'
        got = o_affine(C, coords, r[key])
        if got != exp: return f'{key}: a^{n} = {got} (affine) for a = {i} G, own affine law gives {exp}'
    return r['eq_naive'] is True or 'a^n != n-fold application (module equality)'


def call_ec_agree(name, coords, k):
    """k G in this coordinate system and in the affine and projective systems of the same curve, normalised by the module"""
    out = {}
    for co in ('affine', 'projective', coords):
        E = _ec(name, co); K = o_field(E.field)
        n = (E.generator ^ k).normalize()
        out[co] = (_raw(E, K, n), n == E.identity)
    return out


def ck_ec_agree(args, r, exc):
    name, coords, k = args
    if exc: return f'unexpected {type(exc).__name__}: {exc}'
    def xy(v):
        raw, is_id = v
        if is_id: return 'identity'
        return tuple(raw[:2])
    ref = xy(r['affine'])
    for co in ('projective', coords):
        if xy(r[co]) != ref: return f'{k} G after normalize(): {co} gives {xy(r[co])}, affine gives {ref}'
    C = o_curve(name, 'affine')
    exp = o_kG(C, k)
    if ref != ('identity' if exp == C.O and C.kind == 'W' else tuple(exp) if exp != C.O or C.kind == 'E' else 'identity'):
        if not (C.kind == 'E' and exp == C.O and ref == 'identity'): return f'{k} G (affine system) = {ref}, own affine law gives {exp}'
    return True


def call_ec_generator(name, coords):
    E = _ec(name, coords); C = o_curve(name, coords); K = C.K
    g = E.generator
    chk = None
    try:
        E(g.value)                                        # constructor with check=True accepts the generator
        chk = True
    except ValueError:
        chk = False
    return dict(order=E.order, p=E.field.characteristic, g=_raw(E, K, g), e=_raw(E, K, E.identity), og=_raw(E, K, g ^ E.order),
                og_is_id=((g ^ E.order) == E.identity), g_is_id=(g == E.identity), chk=chk, curvename=E.curvename, gap=E.gap,
                om1=_raw(E, K, g ^ (E.order - 1)), op1=_raw(E, K, (E.order + 1) * g), inv=_raw(E, K, -g), oblivious=E.oblivious)


def ck_ec_generator(args, r, exc):
    name, coords = args
    if exc: return f'unexpected {type(exc).__name__}: {exc}'
    C = o_curve(name, coords)
    n = r['order']
    if n != EC_ORDER[name]: return 'declared order differs from the published group order'
    if r['p'] != EC_PRIME[name]: return 'field characteristic differs from the published one'
    if not o_is_prime(n): return 'declared order is not prime'
    G = o_affine(C, coords, r['g'])
    if G != C.G or (isinstance(G, tuple) and G and G[0] == 'BAD'): return 'generator representation invalid'
    if not C.on(G): return 'generator is not on the curve (own curve equation)'
    if G == C.O or r['g_is_id']: return 'generator is the identity'
    if o_affine(C, coords, r['e']) != C.O: return 'identity element is not the neutral point'
    if o_cmul(C, n, G) != C.O: return 'own arithmetic: order * G is not the identity'       # independent confirmation of the declared order
    if o_affine(C, coords, r['og']) != C.O or r['og_is_id'] is not True: return 'G^order is not the identity'
    if o_affine(C, coords, r['om1']) != C.neg(G) or o_affine(C, coords, r['inv']) != C.neg(G): return 'G^(order-1) != -G'
    if o_affine(C, coords, r['op1']) != G: return '(order+1) G != G'
    if r['chk'] is not True: return 'constructor rejects the generator'
    return True


def call_ec_codec(name, coords, m):
    E = _ec(name, coords); C = o_curve(name, coords); K = C.K
    M, Z = E.encode(m)
    return dict(M=_raw(E, K, M), Z=_raw(E, K, Z), d=E.decode(M, Z), d2=E.decode(M @ E.identity, _alt(E, Z) or Z), gap=E.gap)


EC_EXT_FIELD = ('BN256_twist',)      # curves over GF(p^2)


def ck_ec_codec(args, r, exc):
    name, coords, m = args
    # encode() is offered for curves over prime fields only (EllipticCurvePoint.encode: "TODO: extend this to non-prime fields"; the module's own test
    # skips encode/decode for BN256_twist): over GF(p^2) the only allowed outcomes are TypeError (not implemented) or a correct round trip
    if name in EC_EXT_FIELD and isinstance(exc, TypeError): return True
    if exc: return f'unexpected {type(exc).__name__}: {exc}'
    C = o_curve(name, coords)
    Mx, Zx = o_affine(C, coords, r['M']), o_affine(C, coords, r['Z'])
    for P in (Mx, Zx):
        if P is None or P[0] == 'BAD' or not C.on(P): return 'encode does not return points on the curve'
    if r['d'] != m or type(r['d']) is not int: return f'decode(encode({m})) = {r["d"]!r}'
    if r['d2'] != m: return f'decode of other representations of the same points = {r["d2"]!r}'
    return True


def call_ec_hash(name, coords, k):
    E = _ec(name, coords); C = o_curve(name, coords)
    # three representations of k G built from the oracle's affine coordinates (scaled by 1, 3, 2): independent of the group operation
    a = _mk(E, C, coords, o_kG(C, k), 1)
    b = _mk(E, C, coords, o_kG(C, k), 3)
    c = _mk(E, C, coords, o_kG(C, k), 2)
    na, nb, nc = a.normalize(), b.normalize(), c.normalize()
    b2 = E(b.value, check=False)                         # same representation, other object
    return dict(eq=(a == b, a == c, b == nb, na == nb), hash=(hash(na) == hash(nb), hash(na) == hash(nc), hash(b) == hash(b2)), size=len({na, nb, nc}))


def ck_ec_hash(args, r, exc):
    """The property does not speak about hash.  __hash__ is documented as hash of (type name, value) "for LRU caching" and __eq__ of the
    projective systems compares up to scaling, so hash consistency is demanded only where the module documents a canonical representation:
    normalize() "Convert to unique (affine) representation" -- equal points have equal hashes after normalize() -- and between identical
    representations."""
    if exc: return f'unexpected {type(exc).__name__}: {exc}'
    if r['eq'] != (True, True, True, True): return f'representations of one point compare unequal: {r["eq"]}'
    if r['hash'] != (True, True, True) or r['size'] != 1:
        return f'equal points, normalize()d (documented unique representation): hashes equal = {r["hash"]}, set size {r["size"]}'
    return True


def call_ec_ctor(name, coords):
    E = _fg().EllipticCurve(name, coords) if coords is not None else _fg().EllipticCurve(name)
    return E.curvename, E.__mro__[1].__name__


def ck_ec_ctor(args, r, exc):
    name, coords = args
    if name not in EC_COORDS or (coords is not None and coords not in EC_COORDS[name]):
        return isinstance(exc, ValueError) or 'unsupported curve / coordinates must raise ValueError'
    if exc: return f'unexpected {type(exc).__name__}: {exc}'
    base = ('Edwards' if name.startswith('Ed') else 'Weierstrass') + {'affine': 'Affine', None: 'Affine', 'projective': 'Projective', 'extended': 'Extended', 'jacobian': 'Jacobian'}[coords]
    return r == (name, base) or f'wrong class {r}'


def _ec_ks(name, tier, nrand):
    n = EC_ORDER[name]
    rnd = random.Random(SEED)
    if tier == 'quick':          # the module's affine arithmetic costs one pure-Python field inversion per operation: few large k
        return list(range(-8, 51)) + [n - 1, n, n + 1, -n, 2 * n + 3, n // 2, 2 ** 64, 2 ** 255] + [rnd.getrandbits(b) for b in (16, 64, 252, 448)] + [-rnd.getrandbits(200)]
    ks = list(range(-8, 51)) + [n - 2, n - 1, n, n + 1, n + 2, -n, -n + 1, 2 * n + 3, n // 2, (n + 1) // 2, 2 ** 64, 2 ** 128 - 1, 2 ** 255, 2 ** 300 + 1]
    for bits in (8, 16, 32, 64, 128, 200, 252, 256, 300, 448, 500):
        ks += [rnd.getrandbits(bits) for _ in range(nrand)]
        ks.append(-rnd.getrandbits(bits))
    return ks


def in_ec_scalar(name, coords):
    return lambda tier: ((name, coords, k) for k in _ec_ks(name, tier, T(tier, 2, 12) if name != 'BN256_twist' else T(tier, 1, 6)))


def in_ec_laws(name, coords):
    def gen(tier):
        n = EC_ORDER[name]
        S = ([0, 1, 2, -1, 3] if tier == 'quick' else [0, 1, 2, 3, -1, -2, 5]) if name != 'BN256_twist' else ([0, 1, 2, -1] if tier == 'quick' else [0, 1, 2, -1, -3])
        for i in S:
            for j in S:
                for k in S: yield (name, coords, i, j, k)
        rnd = random.Random(SEED + 3)
        for _ in range(T(tier, 8, 600) if name != 'BN256_twist' else T(tier, 5, 200)):
            i, j, k = (rnd.choice([rnd.getrandbits(256), rnd.getrandbits(64), rnd.randrange(-10, 10), n - rnd.randrange(5)]) for _ in range(3))
            yield (name, coords, i, j, k)
            yield (name, coords, i, i, k)               # equal operands through operation (not operation2)
            yield (name, coords, i, -i, j)              # inverse operands
            yield (name, coords, i, n - i, 0)
            yield (name, coords, i, j, -i - j)          # sum is the identity
    return gen


def in_ec_repeat(name, coords):
    def gen(tier):
        n = EC_ORDER[name]
        rnd = random.Random(SEED + 4)
        bases = [1, rnd.getrandbits(250)]
        if tier != 'quick': bases.append(2)
        if tier != 'quick': bases += [0, -3, n - 1, rnd.getrandbits(128)]
        for i in bases:
            big = BIG_N + [n - 1, n, n + 1, -n - 1] + [rnd.getrandbits(256) for _ in range(T(tier, 2, 10))]
            if tier == 'quick': big = [255, 256, 65537, 0xAAAAAAAA, 2 ** 64 + 1, -(2 ** 64 + 1), -1023, n - 1, n + 1, -n - 1, big[-1]]
            for m in SMALL_N + big: yield (name, coords, i, m)
    return gen


def in_ec_codec(name, coords):
    def gen(tier):
        p = EC_PRIME[name]; gap = 256
        top = p // gap - 1                                # (m+1)*gap <= p
        rnd = random.Random(SEED + 5)
        ms = list(range(0, T(tier, 40, 400))) + [255, 256, 257, 2 ** 16, 2 ** 32 + 1, 2 ** 53 + 1, 2 ** 64 - 1, 2 ** 100 + 12345, top, top - 1, top // 2]
        ms += [rnd.randrange(top + 1) for _ in range(T(tier, 20, 300))]
        for m in ms: yield (name, coords, m)
    return gen


def in_ec_ctor(tier):
    for name in list(EC_COORDS) + ['Ed255', 'Ed', 'BN254', 'BN256_twisted', 'secp256r1', 'P-256', '', 'ed25519']:
        for coords in (None, 'affine', 'projective', 'extended', 'jacobian', 'Affine', 'homogeneous', ''):
            yield (name, coords)


EC_NATIVES = [Native('ec_ctor', 'mpyc.fingroups.EllipticCurve', call_ec_ctor, ck_ec_ctor, in_ec_ctor,
                     '13 curve names (5 built-in) x 8 coordinate names: ValueError exactly for unsupported combinations')]
for _name, _cos in EC_COORDS.items():
    for _co in _cos:
        _s = f'{_name}:{_co}'
        _f = f'mpyc.fingroups.EllipticCurve({_name!r}, {_co!r})'
        EC_NATIVES += [
            Native(f'ec_scalar:{_s}', _f + ' repeat/normalize', call_ec_scalar, ck_ec_scalar, in_ec_scalar(_name, _co),
                   'k G for k = -8..50, around the group order, powers of two, random k of 8..500 bits, through ^, *, repeat, generic repeat; normalize(): against own affine double-and-add'),
            Native(f'ec_laws:{_s}', _f + ' operation/operation2/inversion/equality', call_ec_laws, ck_ec_laws, in_ec_laws(_name, _co),
                   'a = iG, b = jG (scaled representations built from own coordinates), c = kG: all (i,j,k) over a small set, random ones up to 256 bits, equal / inverse '
                   'operands, sum = identity: every product, inverse, identity, doubling (3 ways), equality, operator aliases against the own affine law'),
            Native(f'ec_repeat:{_s}', _f + ' repeat', call_ec_repeat, ck_ec_repeat, in_ec_repeat(_name, _co),
                   'a^n for 3 (thorough 7) base points, n = -20..40 and large / patterned n: equals n-fold application with the real operation/inversion and the own affine law'),
            Native(f'ec_generator:{_s}', _f + ' generator/order', call_ec_generator, ck_ec_generator, (lambda n_, c_: lambda tier: iter([(n_, c_)]))(_name, _co),
                   'declared order = published prime order; generator on the curve, not the identity, order*G = identity (module and own arithmetic)'),
        ]
        if _name != 'BN256_twist':
            EC_NATIVES.append(Native(f'ec_codec:{_s}', _f + ' encode/decode', call_ec_codec, ck_ec_codec, in_ec_codec(_name, _co),
                                     'decode(encode(m)) == m for m = 0..39 (399), boundary values of (m+1)*gap <= p, random m; encoded points on the curve'))
        if _co != 'affine':
            EC_NATIVES.append(Native(f'ec_agree:{_s}', _f + ' normalize', call_ec_agree, ck_ec_agree, (lambda g_: lambda tier: itertools.islice(g_(tier), 0, None, T(tier, 2, 1)))(in_ec_scalar(_name, _co)),
                                     'k G computed in this coordinate system, in affine and in projective coordinates agree after normalize(); same k as ec_scalar (quick: every second)'))


def in_ec_hash(tier):
    for affine_first in (True, False):
        for name, cos in EC_COORDS.items():
            for co in cos:
                if (co == 'affine') == affine_first:
                    for k in (0, 1, 2, 3, 7, 2 ** 100 + 1): yield (name, co, k)


EC_NATIVES.append(Native('ec_hash', 'mpyc.fingroups.EllipticCurvePoint.__hash__/__eq__', call_ec_hash, ck_ec_hash, in_ec_hash,
                         'three scaled representations (factors 1, 3, 2, built from own affine coordinates) of k G, 6 values of k, every curve x coordinate system (affine systems first): '
                         'they compare equal, and after normalize() (the documented unique representation) they have equal hashes and collapse in a set; identical representations hash equally'))


# ================================================================= hyperelliptic curves: own polynomial arithmetic over GF(p)
def ptrim(a):
    a = list(a)
    while a and a[-1] == 0: a.pop()
    return a


def padd(a, b, p):
    n = max(len(a), len(b))
    return ptrim([((a[i] if i < len(a) else 0) + (b[i] if i < len(b) else 0)) % p for i in range(n)])


def psub(a, b, p):
    n = max(len(a), len(b))
    return ptrim([((a[i] if i < len(a) else 0) - (b[i] if i < len(b) else 0)) % p for i in range(n)])


def pmul(a, b, p):
    if not a or not b: return []
    c = [0] * (len(a) + len(b) - 1)
    for i, x in enumerate(a):
        for j, y in enumerate(b): c[i + j] = (c[i + j] + x * y) % p
    return ptrim(c)


def pmod(a, b, p):
    a = ptrim([x % p for x in a]); li = pow(b[-1], -1, p)
    while len(a) >= len(b):
        q = a[-1] * li % p; s = len(a) - len(b)
        for i, y in enumerate(b): a[s + i] = (a[s + i] - q * y) % p
        a = ptrim(a)
    return a


def pshift(a, t, p):
    """a(x - t)"""
    r = []
    for c in reversed(a):            # Horner in (x - t)
        r = padd(pmul(r, [-t % p, 1], p), [c % p] if c % p else [], p)
    return r


def hc_valid(f, p, g, D):
    if not (isinstance(D, tuple) and len(D) == 2): return f'not a divisor: {D}'
    u, v = D
    if not u or u[-1] != 1: return 'u not monic'
    if len(u) - 1 > g: return f'deg u = {len(u) - 1} > genus {g}: not reduced'
    if len(v) >= len(u): return 'deg v >= deg u'
    if pmod(psub(f, pmul(v, v, p), p), u, p): return 'u does not divide f - v^2: not in the Jacobian'
    return None


@_memo
def _hc(spec):
    return _fg().HyperellipticCurve(**dict(spec))


def _hname(spec): return ','.join(f'{k}={v}' for k, v in spec)


def _hplain(H, D):
    """(u, v) as coefficient lists mod p, read from the representation of either class"""
    if type(D) is not H: return ('NOT-IN-GROUP', type(D).__name__, repr(D)[:80])
    p = H.field.modulus
    if issubclass(H, _fg().HCDivisorCL):
        w = [c.value % p for c in D.value]
        if len(w) != 6: return ('BAD', '6 coordinates expected')
        if not any(w): return ([1], [])
        u1, u0, v1, v0, s, t = w
        if s != u1 * u1 % p or t != u1 * u0 % p: return ('BAD', 'extended coordinates u1^2, u1 u0 inconsistent')
        return ([u0, u1, 1], ptrim([v0, v1]))
    u, v = D.value
    co = lambda w: list(w.value) if hasattr(w, 'value') else list(w)      # encode() stores bare lists
    return (ptrim([c % p for c in co(u)]), ptrim([c % p for c in co(v)]))


def _hel(H, e):
    """group element from a literal designator"""
    if e[0] == 'g': return H.generator ^ e[1]
    if e[0] == 'gg':                                   # (g^i) @ (g^j): another route to the same element
        return (H.generator ^ e[1]) @ (H.generator ^ e[2])
    if e[0] in ('M', 'Z'):
        M, Z = H.encode(e[1])
        return M if e[0] == 'M' else Z
    if e[0] == 'uv': return H((list(e[1]), list(e[2])))
    raise AssertionError(e)


def _hparams(H):
    return H.field.modulus, H.genus, ptrim([c % H.field.modulus for c in H.f.value])


def call_hc_laws(spec, e1, e2, e3):
    H = _hc(spec)
    a, b, c = _hel(H, e1), _hel(H, e2), _hel(H, e3)
    a3 = H(a.value, check=False)
    e = H.identity
    P = lambda x: _hplain(H, x)
    ab_c, a_bc = (a @ b) @ c, a @ (b @ c)
    nt = {key: (x if isinstance(x, str) else P(x)) for key, x in notation(H, a, b).items()}
    return dict(a=P(a), b=P(b), c=P(c), ab=P(a @ b), ba=P(b @ a), ab_c=P(ab_c), a_bc=P(a_bc), eq_assoc=(ab_c == a_bc), inv=P(~a), inverse=P(a.inverse()),
                a_inv=P(a @ ~a), inv_a=P(~a @ a), ae=P(a @ e), ea=P(e @ a), ee=P(e @ e), inv_e=P(~e), e=P(e), aa=P(a @ a), aa_op=P(H.operation(a, a3)),
                op2=P(H.operation2(a)), inv_ab=P(~(a @ b)), invb_inva=P(~b @ ~a), ab_invb=P((a @ b) @ ~b), eq_self=(a == a3), hash_self=(hash(a) == hash(a3)),
                eq_ab=(a == b), ne_ab=(a != b), nt=nt, a3=P(a ^ 3), a_minus_b=P(a @ ~b), flags=(H.is_additive, H.is_multiplicative, H.is_abelian, H.is_cyclic))


def ck_hc_laws(args, r, exc):
    spec, e1, e2, e3 = args
    if exc: return f'unexpected {type(exc).__name__}: {exc}'
    p, g, f = _hparams(_hc(spec))
    for key, D in r.items():
        if isinstance(D, tuple) and len(D) in (2, 3) and isinstance(D[0], (list, str)):
            if D and D[0] in ('NOT-IN-GROUP', 'BAD'): return f'{key}: {D}'
            m = hc_valid(f, p, g, D)
            if m: return f'{key} = {D}: {m}'
    E = ([1], [])
    a, b = r['a'], r['b']
    if r['e'] != E or r['ee'] != E or r['inv_e'] != E: return 'identity is not the divisor (1, 0)'
    if r['ab_c'] != r['a_bc'] or r['eq_assoc'] is not True: return f'(a@b)@c = {r["ab_c"]} != a@(b@c) = {r["a_bc"]}'
    if r['ab'] != r['ba']: return 'a@b != b@a'
    if r['ae'] != a or r['ea'] != a: return 'identity not neutral'
    if r['a_inv'] != E or r['inv_a'] != E: return 'a @ ~a is not the identity'
    if r['inv'] != r['inverse'] or r['inv'] != (a[0], ptrim([-c % p for c in a[1]])): return '~a is not (u, -v)'
    if not (r['aa'] == r['aa_op'] == r['op2']): return f'a@a = {r["aa"]}, operation(a, a) = {r["aa_op"]}, operation2(a) = {r["op2"]} differ'
    if r['inv_ab'] != r['invb_inva']: return '~(a@b) != ~b @ ~a'
    if r['ab_invb'] != a: return '(a@b)@~b != a'
    if r['eq_ab'] != (a == b) or r['ne_ab'] != (a != b) or r['eq_self'] is not True or not r['hash_self']: return 'equality / hash wrong'
    if r['flags'] != (True, False, True, True): return 'flags wrong'
    m = ck_notation(True, False, r['nt'], lambda x, y: x == y, r['ab'], r['inv'], r['a_minus_b'], r['a3'])
    if m: return m
    return True


def call_hc_repeat(spec, e, n):
    H = _hc(spec)
    a = _hel(H, e)
    op = lambda x, y: H.operation(x, y)
    nv = naive_power(op, H.inversion, H.identity, a, n) if abs(n) <= 64 else r2l_power(op, H.inversion, H.identity, a, n)
    P = lambda x: _hplain(H, x)
    return dict(a=P(a), pow=P(a ^ n), rep=P(H.repeat(a, n)), mul=P(n * a), naive=P(nv), eq=((a ^ n) == nv))


def ck_hc_repeat(args, r, exc):
    spec, e, n = args
    if exc: return f'unexpected {type(exc).__name__}: {exc}'
    p, g, f = _hparams(_hc(spec))
    for key in ('a', 'pow', 'rep', 'mul', 'naive'):
        if r[key][0] in ('NOT-IN-GROUP', 'BAD'): return f'{key}: {r[key]}'
        m = hc_valid(f, p, g, r[key])
        if m: return f'{key} = {r[key]}: {m}'
    if not (r['pow'] == r['rep'] == r['mul'] == r['naive']) or r['eq'] is not True:
        return f'a^{n} = {r["pow"]}, n-fold application (real operation / inversion only) gives {r["naive"]}'
    return True


def o_jacobian(f, p, g):
    """all reduced Mumford pairs by exhaustive search (tiny p, g only)"""
    out = []
    for d in range(0, g + 1):
        for uc in itertools.product(range(p), repeat=d):
            u = list(uc) + [1]
            for vc in itertools.product(range(p), repeat=d):
                v = ptrim(vc)
                if not pmod(psub(f, pmul(v, v, p), p), u, p): out.append((u, v))
    return out


def call_hc_generator(spec):
    H = _hc(spec)
    g = H.generator
    P = lambda x: _hplain(H, x)
    n = H.order
    out = dict(order=n, g=P(g), e=P(H.identity), p=H.field.modulus, genus=H.genus, f=ptrim(list(H.f.value)))
    if n is not None:
        out['gn'] = P(g ^ n); out['gn1'] = P(g ^ (n + 1)); out['gm'] = P(g ^ (n - 1)); out['inv'] = P(~g)
        if n < 2 ** 40: out['gdiv'] = {s: P(g ^ (n // s)) for s in o_factor(n)}
    return out


def ck_hc_generator(args, r, exc):
    spec, = args
    if exc: return f'unexpected {type(exc).__name__}: {exc}'
    kw = dict(spec)
    p, g, f = r['p'], r['genus'], r['f']
    if not o_is_prime(p): return 'modulus not prime'
    if 'p' in kw and p != kw['p']: return 'modulus differs from the requested one'
    if 'l' in kw and (p.bit_length() < kw['l'] or p % 4 != 3): return 'modulus is not a Blum prime of the requested size'
    if g != kw.get('genus', 2 if kw.get('curvename') == 'kummer1271' else 3): return 'genus differs from the requested one'
    if len(f) != 2 * g + 2 or f[-1] != 1: return 'f is not monic of degree 2g+1'
    E = ([1], [])
    for key in ('g', 'e'):
        m = hc_valid(f, p, g, r[key])
        if m: return f'{key} = {r[key]}: {m}'
    if r['e'] != E: return 'identity is not (1, 0)'
    n = r['order']
    if n is None: return True                             # order unknown (documented): nothing declared
    if r['gn'] != E: return 'generator^order is not the identity'
    if r['gn1'] != r['g'] or r['gm'] != r['inv']: return 'g^(order+1) != g or g^(order-1) != ~g'
    if kw.get('curvename') == 'kummer1271':
        if not o_is_prime(n) or r['g'] == E: return 'kummer1271: declared order not prime or generator trivial'
        return True
    # random small Jacobians: the declared order is the class number = size of the Jacobian (own exhaustive count)
    if p ** g <= 400:
        J = o_jacobian(f, p, g)
        if len(J) != n: return f'declared order {n}, the Jacobian has {len(J)} elements (exhaustive count)'
    if g >= 1:
        for s, D in r.get('gdiv', {}).items():
            if D == E: return f'generator has order dividing {n // s}, declared order {n}'
    return True


def call_hc_codec(spec, m):
    H = _hc(spec)
    M, Z = H.encode(m)
    return dict(d=H.decode(M, Z))


def ck_hc_codec(args, r, exc):
    spec, m = args
    if exc: return f'unexpected {type(exc).__name__}: {exc}'
    return (r['d'] == m and type(r['d']) is int) or f'decode(encode({m})) = {r["d"]!r}'


def call_hc_g1(spec, k):
    H = _hc(spec)
    return _hplain(H, H.generator ^ k), _hplain(H, H.generator), _hparams(H)


def ck_hc_g1(args, r, exc):
    spec, k = args
    if exc: return f'unexpected {type(exc).__name__}: {exc}'
    D, G, (p, g, f) = r
    if g != 1: return 'genus 1 expected'
    K = OFp(p)
    C = OWeier(K, f[1], f[0], f[2])                       # y^2 = x^3 + f2 x^2 + f1 x + f0
    def pt(D):
        u, v = D
        if u == [1]: return None
        if len(u) != 2 or u[1] != 1 or len(v) > 1: return ('BAD', D)
        return (-u[0] % p, v[0] if v else 0)               # u = x - x0, v = y0
    P = pt(G)
    if P is None or P[0] == 'BAD' or not C.on(P): return 'generator is not a point of the curve'
    exp = o_cmul(C, k, P)
    if abs(k) <= 60 and exp != naive_power(C.add, C.neg, None, P, k): return 'oracle: naive loop disagrees'
    return pt(D) == exp or f'{k} G = {pt(D)}, own affine law on the genus-1 curve gives {exp}'


def call_hc_agree(pspec, k):
    A = _hc(pspec + (('genus', 2),)); X = _hc(pspec + (('genus', 2), ('coordinates', 'extended')))
    return _hparams(A), _hparams(X), _hplain(A, A.generator ^ k), _hplain(X, X.generator ^ k)


def _shift_t(fA, p): return fA[4] * pow(5, -1, p) % p


def ck_hc_agree(args, r, exc):
    pspec, k = args
    if exc: return f'unexpected {type(exc).__name__}: {exc}'
    (p, g, fA), (_, _, fX), DA, DX = r
    t = _shift_t(fA, p)                                    # the documented isomorphism x -> x - f4/5 making the x^4 coefficient vanish
    if fX != pshift(fA, t, p): return 'curve of the extended system is not the shifted curve of the affine system'
    if DX[0] in ('NOT-IN-GROUP', 'BAD'): return f'extended: {DX}'
    exp = (pshift(DA[0], t, p), pshift(DA[1], t, p))
    return DX == exp or f'{k} G: extended coordinates give {DX}, affine coordinates (moved through the isomorphism) give {exp}'


def call_hc_agree_op(pspec, i, j):
    """one operation on full-degree operands in both systems (small fields: exercises the exceptional paths of the Costello-Lauter formulas)"""
    A = _hc(pspec + (('genus', 2),)); X = _hc(pspec + (('genus', 2), ('coordinates', 'extended')))
    p = A.field.modulus
    fA = ptrim(list(A.f.value)); t = _shift_t(fA, p)
    a, b = A.generator ^ i, A.generator ^ j
    pa, pb, pab, paa = (_hplain(A, x) for x in (a, b, a @ b, a @ a))
    def tox(D):
        u, v = pshift(D[0], t, p), pshift(D[1], t, p)
        if u == [1]: return X.identity
        F = X.field
        return X((F(u[1]), F(u[0]), F(v[1] if len(v) > 1 else 0), F(v[0] if v else 0)), check=False)
    full = lambda D: D[0] == [1] or len(D[0]) == 3
    if not all(full(D) for D in (pa, pb, pab, paa)): return 'precondition'     # documented: only full-degree divisors (and the identity)
    xa, xb = tox(pa), tox(pb)
    xa2 = X(xa.value, check=False)
    return dict(t=t, ab=(pab, _hplain(X, xa @ xb)), aa=(paa, _hplain(X, xa @ xa)), aa_op=(paa, _hplain(X, X.operation(xa, xa2))),
                a_inv=(([1], []), _hplain(X, xa @ ~xa)), ba=(pab, _hplain(X, xb @ xa)))


def ck_hc_agree_op(args, r, exc):
    pspec, i, j = args
    if exc: return f'unexpected {type(exc).__name__}: {exc}'
    if r == 'precondition': return True
    p = _hparams(_hc(pspec + (('genus', 2),)))[0]
    for key in ('ab', 'aa', 'aa_op', 'a_inv', 'ba'):
        DA, DX = r[key]
        exp = (pshift(DA[0], r['t'], p), pshift(DA[1], r['t'], p))
        if DX != exp: return f'{key}: extended coordinates give {DX}, affine coordinates give {exp} (a = {i} G, b = {j} G)'
    return True


def call_hc_exh(spec, D1, D2, D3):
    H = _hc(spec)
    a, b, c = H((list(D1[0]), list(D1[1]))), H((list(D2[0]), list(D2[1]))), H((list(D3[0]), list(D3[1])))
    P = lambda x: _hplain(H, x)
    return dict(ab=P(a @ b), ba=P(b @ a), ab_c=P((a @ b) @ c), a_bc=P(a @ (b @ c)), a_inv=P(a @ ~a), ae=P(a @ H.identity), aa=P(H.operation2(a)),
                aa_op=P(H.operation(a, H(a.value, check=False))), order=H.order)


def ck_hc_exh(args, r, exc):
    spec, D1, D2, D3 = args
    if exc: return f'unexpected {type(exc).__name__}: {exc}'
    p, g, f = _hparams(_hc(spec))
    for key in ('ab', 'ba', 'ab_c', 'a_bc', 'a_inv', 'ae', 'aa', 'aa_op'):
        m = hc_valid(f, p, g, r[key])
        if m: return f'{key} = {r[key]}: {m}'
    if r['ab'] != r['ba']: return 'a@b != b@a'
    if r['ab_c'] != r['a_bc']: return f'(a@b)@c = {r["ab_c"]} != a@(b@c) = {r["a_bc"]}'
    if r['a_inv'] != ([1], []): return 'a @ ~a != identity'
    if r['ae'] != (list(D1[0]), list(D1[1])): return 'identity not neutral'
    if r['aa'] != r['aa_op']: return 'operation2(a) != operation(a, a)'
    return True


def call_hc_encoded(spec, m, m2):
    H = _hc(spec)
    M, Z = H.encode(m)
    M2, _ = H.encode(m2 + m + 1)
    P = lambda x: _hplain(H, x)
    out = dict(M=P(M), Z=P(Z))
    for key, fn in (('M@Z', lambda: M @ Z), ('M@M2', lambda: M @ M2), ('~M', lambda: ~M), ('M@~M', lambda: M @ ~M), ('M^3', lambda: M ^ 3), ('M@g', lambda: M @ H.generator),
                    ('g@M', lambda: H.generator @ M), ('(M@M2)@~M2', lambda: (M @ M2) @ ~M2)):
        try: out[key] = P(fn())
        except Exception as e: out[key] = ('RAISES', type(e).__name__, str(e)[:100])      # noqa
    return out


def ck_hc_encoded(args, r, exc):
    spec, m, m2 = args
    if exc: return f'unexpected {type(exc).__name__}: {exc}'
    p, g, f = _hparams(_hc(spec))
    for key, D in r.items():
        if D[0] in ('NOT-IN-GROUP', 'BAD', 'RAISES'): return f'encode({m}): {key}: {D}'
        msg = hc_valid(f, p, g, D)
        if msg: return f'encode({m}): {key} = {D} is not a group element: {msg}'
    if r['M@~M'] != ([1], []): return 'M @ ~M is not the identity'
    if r['M@g'] != r['g@M']: return 'M @ g != g @ M'
    if r['(M@M2)@~M2'] != r['M']: return '(M @ M2) @ ~M2 != M'
    return True


def call_hc_ctor(spec, k):
    H = _hc(spec)
    a = H.generator ^ k
    return dict(new=_hplain(H, H()), a=_hplain(H, a), re=_hplain(H, H(a.value)), eq=(H(a.value) == a))


def ck_hc_ctor(args, r, exc):
    if exc: return f'unexpected {type(exc).__name__}: {exc}'
    if r['new'] != ([1], []): return 'H() is not the identity'
    return (r['re'] == r['a'] and r['eq'] is True) or 'H(a.value) != a'


HC_SPECS = [(('genus', 0), ('p', 3)), (('genus', 1), ('p', 3)), (('genus', 1), ('p', 5)), (('genus', 1), ('p', 7)),
            (('genus', 1), ('p', 251)), (('genus', 1), ('l', 32)), (('genus', 1), ('l', 127)),
            (('genus', 2), ('p', 3)), (('genus', 2), ('p', 7)), (('genus', 2), ('l', 8)), (('genus', 2), ('l', 64)),
            (('coordinates', 'extended'), ('genus', 2), ('l', 64)), (('coordinates', 'extended'), ('genus', 2), ('l', 96)), (('curvename', 'kummer1271'),),
            (('genus', 3), ('p', 5)), (('genus', 3), ('p', 7)), (('l', 8),), (('l', 64),), (('genus', 4), ('l', 16))]
HC_SPECS_TH = [(('genus', 1), ('p', 11)), (('genus', 1), ('p', 13)), (('genus', 2), ('p', 5)), (('l', 640),), (('genus', 2), ('l', 256)), (('coordinates', 'extended'), ('genus', 2), ('l', 256)), (('genus', 5), ('p', 11))]
HC_TINY = [(('genus', 1), ('p', 3)), (('genus', 1), ('p', 5)), (('genus', 1), ('p', 7)), (('genus', 2), ('p', 3)), (('genus', 2), ('p', 5))]
HC_AGREE = [(('l', 64),), (('l', 96),), (('p', 1000003),)]
HC_AGREE_SMALL = [(('p', 7),), (('p', 13),), (('p', 19),), (('l', 8),)]     # (p=11, genus=2) and (p=3, genus=3): the constructor does not terminate


def _hc_prime(spec):
    kw = dict(spec)
    return 2 ** 127 - 1 if kw.get('curvename') else kw['p'] if 'p' in kw else None


def _hc_ext(spec): return 'extended' in str(spec) or 'kummer' in str(spec)


def _hc_small(spec):
    kw = dict(spec)
    return 'p' in kw and kw['p'] < 300 or kw.get('l', 99) <= 8


def in_hc_laws(spec):
    def gen(tier):
        rnd = random.Random(SEED + 6)
        small = _hc_small(spec)
        S = [0, 1, 2, 3, -1, 7] if not small else list(range(0, T(tier, 7, 14)))
        els = [('g', i) for i in S]
        for a in els:
            for b in els:
                for c in els[:4] if not small else els: yield (spec, a, b, c)
        big = lambda: ('g', rnd.choice([rnd.getrandbits(200), rnd.getrandbits(40), -rnd.getrandbits(70)]))
        for _ in range(T(tier, 20, 100 if dict(spec).get('l', 0) >= 256 else 300)):
            a, b, c = big(), big(), big()
            yield (spec, a, b, c)
            yield (spec, a, ('gg', a[1] - 5, 5), c)           # equal elements reached differently
            yield (spec, a, ('g', -a[1]), c)
    return gen


def in_hc_repeat(spec):
    def gen(tier):
        rnd = random.Random(SEED + 7)
        els = [('g', 1), ('g', rnd.getrandbits(100))] + ([('g', 2)] if tier != 'quick' else [])
        for e in els:
            for n in SMALL_N + BIG_N[::T(tier, 3, 1)]: yield (spec, e, n)
    return gen


def in_hc_codec(spec):
    def gen(tier):
        H = _hc(spec); p = H.field.modulus; gap = 256
        if p <= gap: return
        top = p // (gap * (2 if _hc_ext(spec) else 1)) - 1      # u1 = 2(m gap + i) < p for the Costello-Lauter encoding
        rnd = random.Random(SEED + 8)
        ms = [m for m in list(range(0, T(tier, 30, 300))) + [255, 256, 2 ** 16, 2 ** 32 + 1, 2 ** 52 + 1, 2 ** 53 - 1, 2 ** 53 + 1, 2 ** 64 - 1, 2 ** 100 + 12345, top // 2, top - 1, top] if 0 <= m <= top]
        ms += [rnd.randrange(top + 1) for _ in range(T(tier, 10, 100))] if top >= 0 else []
        for m in ms: yield (spec, m)
    return gen


def in_hc_exh(spec):
    def gen(tier):
        p, g, f = _hparams(_hc(spec))
        J = [(tuple(u), tuple(v)) for u, v in o_jacobian(f, p, g)]
        rnd = random.Random(SEED + 9)
        if len(J) ** 3 <= T(tier, 3000, 200000):
            for a in J:
                for b in J:
                    for c in J: yield (spec, a, b, c)
        else:
            for a in J:
                for b in J: yield (spec, a, b, rnd.choice(J))
    return gen


def _ks_plain(tier, n=20):
    rnd = random.Random(SEED + 10)
    return list(range(-8, 51)) + BIG_N[::2] + [rnd.getrandbits(b) for b in (16, 64, 128, 256) for _ in range(T(tier, 2, n))]


HC_NATIVES = []
for _spec in HC_SPECS + HC_SPECS_TH:
    _s = _hname(_spec); _f = f'mpyc.fingroups.HyperellipticCurve({_s})'
    _th = _spec in HC_SPECS_TH
    _lst = [
        Native(f'hc_laws:{_s}', _f + ' operation/operation2/inversion', call_hc_laws, ck_hc_laws, in_hc_laws(_spec),
               'a, b, c generator powers (small exponents: all triples; 20 random triples with exponents up to 200 bits (thorough 300, 100 for l >= 256); equal / inverse operands): '
               'results in the Jacobian (own polynomial arithmetic), associativity, commutativity, identity, inverses, doubling 3 ways, equality/hash, operator aliases'),
        Native(f'hc_repeat:{_s}', _f + ' repeat', call_hc_repeat, ck_hc_repeat, in_hc_repeat(_spec),
               'a^n for 2 (thorough 3) elements, n = -20..40 and large / patterned n: equals n-fold application with the real operation / inversion'),
        Native(f'hc_generator:{_s}', _f + ' generator/order', call_hc_generator, ck_hc_generator, (lambda s_: lambda tier: iter([(s_,)]))(_spec),
               'parameters as requested, f monic of degree 2g+1, generator in the Jacobian, g^order = identity when an order is declared, exact order, order = exhaustive size of the Jacobian for p^g <= 400'),
    ]
    if dict(_spec).get('genus') == 1:
        _lst.append(Native(f'hc_g1:{_s}', _f + ' repeat', call_hc_g1, ck_hc_g1, (lambda s_: lambda tier: ((s_, k) for k in _ks_plain(tier)))(_spec),
                           'genus 1: k G for k = -8..50, large / patterned and random k against the own affine law on y^2 = x^3 + f2 x^2 + f1 x + f0'))
    for _n in _lst: _n.thorough_only = _th
    HC_NATIVES += _lst
for _spec in HC_TINY:
    HC_NATIVES.append(Native(f'hc_exhaustive:{_hname(_spec)}', f'mpyc.fingroups.HyperellipticCurve({_hname(_spec)}) operation', call_hc_exh, ck_hc_exh, in_hc_exh(_spec),
                             'the whole Jacobian enumerated by exhaustive search: all pairs (a, b) with a random c (all triples when |J|^3 <= 3000 / 200000): closure, commutativity, associativity, inverses, doubling'))
for _ps in HC_AGREE:
    HC_NATIVES.append(Native(f'hc_agree:{_hname(_ps)}', f'mpyc.fingroups.HyperellipticCurve({_hname(_ps)}, genus=2) affine vs extended', call_hc_agree, ck_hc_agree,
                             (lambda s_: lambda tier: ((s_, k) for k in _ks_plain(tier, 8)))(_ps),
                             'genus 2: k G in affine (Cantor) and extended (Costello-Lauter) coordinates agree through the isomorphism x -> x - f4/5; k = -8..50, large and random k'))
for _ps in HC_AGREE_SMALL:
    HC_NATIVES.append(Native(f'hc_agree_op:{_hname(_ps)}', f'mpyc.fingroups.HCDivisorCL.operation/operation2 ({_hname(_ps)})', call_hc_agree_op, ck_hc_agree_op,
                             (lambda s_: lambda tier: ((s_, i, j) for i in range(0, T(tier, 30, 80)) for j in range(-3, T(tier, 30, 80))))(_ps),
                             'genus 2, small field: a@b, a@a, a@~a for a = iG, b = jG (0 <= i < 30, -3 <= j < 30; thorough 80) in extended coordinates equal the affine results, '
                             'restricted to full-degree operands and results as documented for HCDivisorCL'))


def _hc_specs(tier, ext=None, codec=False):
    out = []
    for sp in HC_SPECS + (HC_SPECS_TH if tier != 'quick' else []):
        if ext is not None and _hc_ext(sp) != ext: continue
        if codec and (_hc_prime(sp) or 2 ** dict(sp)['l']) <= 256: continue      # encode needs p > gap = 256
        out.append(sp)
    return out


def in_hc_codec_all(tier):
    """all parameter sets with p > gap; messages below 2^53 first, for every set, then the larger ones"""
    per = {sp: [a[1] for a in in_hc_codec(sp)(tier)] for sp in _hc_specs(tier, codec=True)}
    for big in (False, True):
        for sp, ms in per.items():
            for m in ms:
                if (m >= 2 ** 53) == big: yield (sp, m)


def in_hc_encoded(ext):
    return lambda tier: ((sp, m, m2) for sp in _hc_specs(tier, ext=ext, codec=True) for m in (0, 1, 42) for m2 in (0, 7))


def in_hc_ctor(ext):
    return lambda tier: ((sp, k) for sp in _hc_specs(tier, ext=ext) for k in (0, 1, 2, 5))


HC_NATIVES += [
    Native('hc_codec', 'mpyc.fingroups.HyperellipticCurveDivisor.encode/decode', call_hc_codec, ck_hc_codec, in_hc_codec_all,
           'every parameter set with p > 256: decode(encode(m)) == m for m = 0..29 (299), 2^16, 2^32+1, 2^52+1, 2^53±1, 2^64-1, 2^100+12345 and the boundary values with (m+1) gap <= p '
           '(2 (m+1) gap <= p for Costello-Lauter coordinates), random m; messages below 2^53 first'),
    Native('hc_encoded_affine', 'mpyc.fingroups.HyperellipticCurveDivisor.encode', call_hc_encoded, ck_hc_encoded, in_hc_encoded(False),
           'affine coordinates, every parameter set with p > 256: the divisors M, Z returned by encode(m) are group elements: in the Jacobian, usable with @, ~, ^ '
           '(M @ Z, M @ M2, ~M, M @ ~M, M^3, M @ g), 6 message pairs'),
    Native('hc_encoded_extended', 'mpyc.fingroups.HCDivisorCL.encode', call_hc_encoded, ck_hc_encoded, in_hc_encoded(True),
           'Costello-Lauter coordinates: the divisors M, Z returned by encode(m) are group elements (in the Jacobian, usable with @, ~, ^), 6 message pairs per parameter set'),
    Native('hc_ctor_affine', 'mpyc.fingroups.HyperellipticCurveDivisor.__init__', call_hc_ctor, ck_hc_ctor, in_hc_ctor(False),
           'affine coordinates, every parameter set: H() is the identity; H(value) with check=True accepts the value of k G (k = 0, 1, 2, 5) and gives an equal element'),
    Native('hc_ctor_extended', 'mpyc.fingroups.HCDivisorCL.__init__', call_hc_ctor, ck_hc_ctor, in_hc_ctor(True),
           'Costello-Lauter coordinates: H() is the identity; H(value) with check=True accepts the value of k G (k = 0, 1, 2, 5)'),
]


# ================================================================= class groups: own reduction, composition, class number
def o_cl_reduce(D, a, b):
    """the unique reduced form equivalent to (a, b, (b^2 - D)/4a): -a < b <= a <= c, b >= 0 if a == c"""
    while True:
        assert a > 0 and (b * b - D) % (4 * a) == 0
        b = b + 2 * a * ((a - b) // (2 * a))               # translation x -> x + k y brings b into (-a, a]
        c = (b * b - D) // (4 * a)
        if a > c or (a == c and b < 0):
            a, b = c, -b                                    # (a, b, c) ~ (c, -b, a)
            continue
        return (a, b, c)


def o_cl_is_reduced(D, f):
    a, b, c = f
    return all(type(x) is int for x in f) and a > 0 and b * b - 4 * a * c == D and -a < b <= a <= c and (b >= 0 or a != c) and math.gcd(a, b, c) == 1


def o_cl_forms(D):
    """all reduced forms of discriminant D (exhaustive)"""
    out = []
    for a in range(1, math.isqrt(-D // 3) + 2):
        for b in range(-a + 1, a + 1):
            if (b - D) % 2 == 0 and (b * b - D) % (4 * a) == 0:
                c = (b * b - D) // (4 * a)
                if o_cl_is_reduced(D, (a, b, c)): out.append((a, b, c))
    return out


_COPRIME_PAIRS = ((1, 0), (0, 1)) + tuple((x, y) for s in range(2, 60) for x in range(1, s) for y in (s - x, x - s) if math.gcd(x, y) == 1)


def o_cl_compose(D, f1, f2):
    """Dirichlet composition: move f2 by SL2(Z) to a form whose first coefficient is coprime to a1, solve for B by CRT"""
    a1, b1, _ = f1; a2, b2, c2 = f2
    val = lambda x, y: a2 * x * x + b2 * x * y + c2 * y * y
    for p_, q_ in _COPRIME_PAIRS:
        if math.gcd(a1, val(p_, q_)) == 1: break
    else:
        raise AssertionError('oracle: no coprime value found')
    g, s_, t_ = o_egcd(p_, q_)
    if g < 0: s_, t_ = -s_, -t_
    r_, s_ = -t_, s_                                        # [[p, r], [q, s]] with p s - q r = 1
    assert p_ * s_ - q_ * r_ == 1
    A2 = val(p_, q_)
    B2 = 2 * a2 * p_ * r_ + b2 * (p_ * s_ + q_ * r_) + 2 * c2 * q_ * s_
    assert B2 * B2 - 4 * A2 * val(r_, s_) == D and A2 > 0
    t = ((B2 - b1) // 2) * pow(a1, -1, A2) % A2 if A2 > 1 else 0
    B = b1 + 2 * a1 * t                                     # B = b1 mod 2 a1, B = B2 mod 2 A2
    assert (B - B2) % (2 * A2) == 0 and (B * B - D) % (4 * a1 * A2) == 0
    return o_cl_reduce(D, a1 * A2, B)


def o_cl_inv(D, f): return o_cl_reduce(D, f[0], -f[1])


def o_cl_one(D): return (1, 1, (1 - D) // 4)               # D odd


def o_cl_pow(D, f, n):
    return r2l_power(lambda x, y: o_cl_compose(D, x, y), lambda x: o_cl_inv(D, x), o_cl_one(D), f, n)


@_memo
def _cl(spec):
    fg = _fg()
    return fg.ClassGroup(Delta=spec[1]) if spec[0] == 'D' else fg.ClassGroup(l=spec[1])


def _cplain(G, x):
    if type(x) is not G: return ('NOT-IN-GROUP', type(x).__name__, repr(x)[:80])
    v = x.value
    if not (isinstance(v, tuple) and len(v) == 3): return ('BAD', repr(v)[:80])
    return tuple(int(c) for c in v) if all(type(c) is int for c in v) else ('BAD', 'coefficients are not ints', repr(v)[:80])


def _cel(G, e):
    if e[0] == 'g': return G.generator ^ e[1]
    if e[0] == 'f': return G((e[1], e[2], e[3]))
    raise AssertionError(e)


def o_cel(G_D, g, e):
    """oracle value of an element designator; g = reduced generator form"""
    if e[0] == 'g': return o_cl_pow(G_D, g, e[1])
    return o_cl_reduce(G_D, e[1], e[2])


def call_cl_laws(spec, e1, e2, e3):
    G = _cl(spec)
    a, b, c = _cel(G, e1), _cel(G, e2), _cel(G, e3)
    a3 = G(a.value, check=False)
    e = G.identity
    P = lambda x: _cplain(G, x)
    ab_c, a_bc = (a @ b) @ c, a @ (b @ c)
    nt = {key: (x if isinstance(x, str) else P(x)) for key, x in notation(G, a, b).items()}
    return dict(D=G.discriminant, g=P(G.generator), a=P(a), b=P(b), c=P(c), ab=P(a @ b), ba=P(b @ a), ab_c=P(ab_c), a_bc=P(a_bc), eq_assoc=(ab_c == a_bc),
                inv=P(~a), inverse=P(a.inverse()), a_inv=P(a @ ~a), inv_a=P(~a @ a), ae=P(a @ e), ea=P(e @ a), ee=P(e @ e), inv_e=P(~e), e=P(e), new=P(G()),
                aa=P(a @ a), aa_op=P(G.operation(a, a3)), op2=P(G.operation2(a)), eq_self=(a == a3), hash_self=(hash(a) == hash(a3)), eq_ab=(a == b),
                ne_ab=(a != b), eq_tuple=(a == a.value), nt=nt, flags=(G.is_additive, G.is_multiplicative, G.is_abelian, G.is_cyclic))


def ck_cl_laws(args, r, exc):
    spec, e1, e2, e3 = args
    if exc: return f'unexpected {type(exc).__name__}: {exc}'
    D = r['D']
    if spec[0] == 'D' and D != spec[1]: return 'discriminant differs from the requested one'
    for key in ('g', 'a', 'b', 'c', 'ab', 'ba', 'ab_c', 'a_bc', 'inv', 'inverse', 'a_inv', 'inv_a', 'ae', 'ea', 'ee', 'inv_e', 'e', 'new', 'aa', 'aa_op', 'op2'):
        if r[key][0] in ('NOT-IN-GROUP', 'BAD'): return f'{key}: {r[key]}'
        if not o_cl_is_reduced(D, r[key]): return f'{key} = {r[key]} is not a reduced primitive form of discriminant {D}'
    g = r['g']
    A, B, C = o_cel(D, g, e1), o_cel(D, g, e2), o_cel(D, g, e3)
    one = o_cl_one(D)
    AB = o_cl_compose(D, A, B)
    ABC = o_cl_compose(D, AB, C)
    if ABC != o_cl_compose(D, A, o_cl_compose(D, B, C)) or AB != o_cl_compose(D, B, A): return 'oracle not associative / commutative'
    Ai = o_cl_inv(D, A)
    if o_cl_compose(D, A, Ai) != one: return 'oracle: inverse wrong'
    AA = o_cl_compose(D, A, A)
    for key, exp in (('a', A), ('b', B), ('c', C), ('ab', AB), ('ba', AB), ('ab_c', ABC), ('a_bc', ABC), ('inv', Ai), ('inverse', Ai), ('a_inv', one), ('inv_a', one),
                     ('ae', A), ('ea', A), ('ee', one), ('inv_e', one), ('e', one), ('new', one), ('aa', AA), ('aa_op', AA), ('op2', AA)):
        if r[key] != exp: return f'{key} = {r[key]}, own composition / reduction gives {exp}   [a = {A}, b = {B}, c = {C}]'
    if r['eq_assoc'] is not True or r['eq_self'] is not True or not r['hash_self']: return 'equality / hash wrong'
    if r['eq_ab'] != (A == B) or r['ne_ab'] != (A != B): return 'equality of forms wrong'
    if r['eq_tuple'] is True: return 'form compares equal to a bare tuple'
    if r['flags'] != (False, True, True, True): return 'flags wrong'
    m = ck_notation(False, True, r['nt'], lambda x, y: x == y, AB, Ai, o_cl_compose(D, A, o_cl_inv(D, B)), o_cl_compose(D, AA, A))
    if m: return m
    return True


def call_cl_repeat(spec, e, n):
    G = _cl(spec)
    a = _cel(G, e)
    op = lambda x, y: G.operation(x, y)
    nv = naive_power(op, G.inversion, G.identity, a, n) if abs(n) <= 64 else r2l_power(op, G.inversion, G.identity, a, n)
    P = lambda x: _cplain(G, x)
    return dict(D=G.discriminant, g=P(G.generator), pow=P(a ^ n), rep=P(G.repeat(a, n)), mul=P(a ** n), naive=P(nv), eq=((a ^ n) == nv))


def ck_cl_repeat(args, r, exc):
    spec, e, n = args
    if exc: return f'unexpected {type(exc).__name__}: {exc}'
    D = r['D']
    A = o_cel(D, r['g'], e)
    exp = o_cl_pow(D, A, n)
    if abs(n) <= 64 and exp != naive_power(lambda x, y: o_cl_compose(D, x, y), lambda x: o_cl_inv(D, x), o_cl_one(D), A, n): return 'oracle: naive loop disagrees'
    for key in ('pow', 'rep', 'mul', 'naive'):
        if r[key] != exp: return f'{key}: a^{n} = {r[key]} for a = {A}, n-fold own composition gives {exp}'
    return r['eq'] is True or 'a^n != n-fold application (module equality)'


def call_cl_generator(spec):
    G = _cl(spec)
    g = G.generator; n = G.order
    P = lambda x: _cplain(G, x)
    out = dict(D=G.discriminant, order=n, g=P(g), e=P(G.identity), bit_length=G.bit_length, gap=G.gap)
    if n is not None:
        out['gn'] = P(g ^ n)
        out['gdiv'] = {s: P(g ^ (n // s)) for s in o_factor(n)}
    return out


def ck_cl_generator(exact):
    def ck(args, r, exc):
        spec, = args
        if exc: return f'unexpected {type(exc).__name__}: {exc}'
        D = r['D']
        if D >= 0 or D % 4 != 1 or not o_is_prime(-D): return 'discriminant is not a negative prime discriminant = 1 mod 4'
        if spec[0] == 'D' and D != spec[1]: return 'discriminant differs from the requested one'
        if spec[0] == 'l' and D.bit_length() != spec[1]: return f'discriminant has {D.bit_length()} bits, {spec[1]} requested'
        if r['bit_length'] != D.bit_length(): return 'bit_length attribute wrong'
        one = o_cl_one(D)
        if r['e'] != one: return 'identity is not the principal form'
        if not o_cl_is_reduced(D, r['g']): return f'generator {r["g"]} is not a reduced form of discriminant {D}'
        n = r['order']
        if -D < 2 ** 22:
            h = len(o_cl_forms(D))
            if n != h: return f'declared order {n}, exhaustive count of reduced forms gives class number {h}'
        if n is None: return True                                # order unknown (documented for l > 24)
        if r['gn'] != one or o_cl_pow(D, r['g'], n) != one: return 'generator^order is not the identity'
        if exact:
            for s, f in r['gdiv'].items():
                if f == one: return f'generator {r["g"]} has order dividing {n // s}, declared order {n}'
        return True
    return ck


def call_cl_codec(spec, m):
    G = _cl(spec)
    M, Z = G.encode(m)
    return dict(D=G.discriminant, gap=G.gap, M=_cplain(G, M), Z=_cplain(G, Z), d=G.decode(M, Z), MZ=_cplain(G, M @ Z), back=_cplain(G, (M @ Z) @ ~Z))


def ck_cl_codec(args, r, exc):
    spec, m = args
    G = _cl(spec); D, gap = G.discriminant, G.gap                 # parameters only
    if (m + 1) * gap > math.isqrt(-D) / 2:
        return isinstance(exc, AssertionError) or 'message too large for the discriminant: the documented assertion must fire'
    if isinstance(exc, ValueError) and 'encoding failed' in str(exc):
        # documented failure: no i in range(0, gap, 4) for which both a_0 = i+3 and a_m = m gap + i + 3 are first coefficients of forms (found through D^((a+1)/4) mod a)
        ok = lambda a: (pow(D, (a + 1) // 4, a) ** 2 - D) % a == 0
        return not any(ok(i + 3) and ok(m * gap + i + 3) for i in range(0, gap, 4)) or 'an encoding exists: ValueError not allowed'
    if exc: return f'unexpected {type(exc).__name__}: {exc}'
    for key in ('M', 'Z', 'MZ', 'back'):
        if r[key][0] in ('NOT-IN-GROUP', 'BAD') or not o_cl_is_reduced(D, r[key]): return f'encode({m}): {key} = {r[key]} is not a reduced form of discriminant {D}'
    if r['MZ'] != o_cl_compose(D, r['M'], r['Z']) or r['back'] != r['M']: return 'encoded forms do not compose as group elements'
    return (r['d'] == m and type(r['d']) is int) or f'decode(encode({m})) = {r["d"]!r}'


def call_cl_ctor(spec, v):
    G = _cl(spec)
    return G.discriminant, _cplain(G, G(v if len(v) != 3 or v[2] != 'list' else list(v[:2])))


def ck_cl_ctor(args, r, exc):
    spec, v = args
    D = _cl(spec).discriminant
    if len(v) == 3 and v[2] != 'list':
        a, b, c = v
        if b * b - 4 * a * c != D or a <= 0: return isinstance(exc, ValueError) or 'wrong discriminant / not positive definite: must raise ValueError'
    else:
        a, b = v[:2]
        # documented: c is derived from the discriminant; a form exists iff 4a | b^2 - D
        if a <= 0 or (b * b - D) % (4 * a): return isinstance(exc, (ValueError, ZeroDivisionError)) or 'no such form: must raise ValueError'
    if exc: return f'unexpected {type(exc).__name__}: {exc}'
    exp = o_cl_reduce(D, a, b)
    return r[1] == exp or f'constructor gives {r[1]}, own reduction gives {exp}'


CL_D = [-3, -7, -11, -19, -23, -31, -43, -47, -59, -67, -71, -79, -83, -103, -127, -163, -167, -191, -199, -227, -239, -311, -359, -431, -479, -1123, -1151, -2063, -3299, -5351]
CL_L = [2, 3, 4, 5, 6, 7, 8, 9, 10, 12, 14, 16, 18, 20, 32, 48, 64, 128, 256]
CL_L_TH = [11, 13, 15, 17, 19, 21, 22, 23, 24, 40, 96, 512, 1024, 2048]
CL_EXH = [-23, -31, -47, -71, -79, -167, -191, -199, -239, -311, -359, -431, -479, -1151, -2063, -3299, -5351]


def _cl_specs(tier):
    if tier == 'quick':
        return [('D', d) for d in CL_D[::3] + [-23, -59, -227, -431]] + [('l', l) for l in (2, 3, 5, 8, 12, 16, 20, 32, 64, 128, 256)]
    return [('D', d) for d in CL_D] + [('l', l) for l in CL_L + CL_L_TH]


def _cl_small_forms(D, count):
    """reduced forms with small first coefficient (own search)"""
    out = []
    a = 1
    while len(out) < count and a < 400:
        for b in range(-a + 1, a + 1):
            if (b - D) % 2 == 0 and (b * b - D) % (4 * a) == 0:
                c = (b * b - D) // (4 * a)
                if o_cl_is_reduced(D, (a, b, c)): out.append(('f', a, b, c))
        a += 1
    return out[:count]


def in_cl_exh(tier):
    rnd = random.Random(SEED + 11)
    for D in CL_EXH:
        F = [('f',) + f for f in o_cl_forms(D)]
        if len(F) ** 3 <= T(tier, 1500, 100000):
            for a in F:
                for b in F:
                    for c in F: yield (('D', D), a, b, c)
        else:
            for a in F:
                for b in F: yield (('D', D), a, b, rnd.choice(F))


def in_cl_laws(kind):
  def gen(tier):
    rnd = random.Random(SEED + 12)
    for spec in (sp for sp in _cl_specs(tier) if sp[0] == kind):
        D = _cl(spec).discriminant
        els = [('g', k) for k in (0, 1, 2, 3, -1, 7)] + _cl_small_forms(D, 6)
        for a in els:
            for b in els:
                for c in (els[1], els[-1], els[4])[:T(tier, 2, 3)]: yield (spec, a, b, c)
        F = _cl_small_forms(D, 40)
        big = lambda: rnd.choice([('g', rnd.getrandbits(rnd.choice((8, 40, 200)))), ('g', -rnd.getrandbits(30)), rnd.choice(F)])
        for _ in range(T(tier, 12, 400 if D.bit_length() <= 128 else 120 if D.bit_length() <= 512 else 40)):
            a, b, c = big(), big(), big()
            yield (spec, a, b, c); yield (spec, a, a, c)
            if a[0] == 'g': yield (spec, a, ('g', -a[1]), c)
  return gen


def in_cl_repeat(kind):
  def gen(tier):
    rnd = random.Random(SEED + 13)
    for spec in (sp for sp in _cl_specs(tier) if sp[0] == kind):
        D = _cl(spec).discriminant
        els = [('g', 1), ('g', rnd.getrandbits(60))] + _cl_small_forms(D, 8)[-T(tier, 1, 2):]
        for e in els:
            for n in SMALL_N + BIG_N[::T(tier, 3, 1)]: yield (spec, e, n)
  return gen


def in_cl_generator(tier):
    for spec in _cl_specs(tier): yield (spec,)


def in_cl_codec(tier):
    rnd = random.Random(SEED + 14)
    for spec in _cl_specs(tier):
        G = _cl(spec); D, gap = G.discriminant, G.gap
        top = int(math.isqrt(-D) / 2) // gap - 1
        big = D.bit_length() > 256
        ms = {top + 1, top + 2} | ({m for m in list(range(0, T(tier, 40, 100 if big else 400))) + [top, top - 1, top // 2] if 0 <= m <= top}) | \
            ({rnd.randrange(top + 1) for _ in range(T(tier, 20, 50 if big else 200))} if top >= 0 else set())
        for m in sorted(ms): yield (spec, m)


def in_cl_ctor(tier):
    for spec in [('D', d) for d in (-3, -23, -47, -71, -227, -1123, -5351)] + [('l', 16), ('l', 64)]:
        D = _cl(spec).discriminant
        R = T(tier, 14, 40)
        for a in range(-2, R):
            for b in range(-R, R):
                yield (spec, (a, b))
                if a > 0 and (b * b - D) % (4 * a) == 0:
                    c = (b * b - D) // (4 * a)
                    yield (spec, (a, b, c)); yield (spec, (a, b, c + 1)); yield (spec, (a, b, 'list')); yield (spec, (c, -b, a)); yield (spec, (a + b + c, b + 2 * c, c))
        yield (spec, (0, 1, 2)); yield (spec, (-2, 1, -3)); yield (spec, (1, 1, 2)); yield (spec, (2, 2, 2))


CL_NATIVES = [
    Native('cl_exhaustive', 'mpyc.fingroups.ClassGroupForm.operation/operation2/inversion', call_cl_laws, ck_cl_laws, in_cl_exh,
           '17 discriminants with class numbers 3..47: the whole class group enumerated by own search; all pairs with a random third form (all triples for small groups): '
           'composition (NUCOMP), doubling (NUDUPL), inverse, identity against own Dirichlet composition + reduction; results reduced'),
] + [
    Native(f'cl_laws:{_k}', 'mpyc.fingroups.ClassGroupForm', call_cl_laws, ck_cl_laws, in_cl_laws(_k[0]),
           ('14 (thorough 30) explicit discriminants' if _k == 'D' else '11 bit lengths 2..256 (thorough 33, up to 2048)') + ': generator powers and forms with small first coefficient, small sets '
           'exhaustively, 12 random triples per parameter set (thorough 400; 120 above 128 bits, 40 above 512 bits; exponents up to 200 bits), equal / inverse operands: all group axioms, equality, hash, operator aliases against own composition')
    for _k in ('D', 'l')] + [
    Native(f'cl_repeat:{_k}', 'mpyc.fingroups.ClassGroupForm repeat', call_cl_repeat, ck_cl_repeat, in_cl_repeat(_k[0]),
           ('14 (thorough 30) explicit discriminants' if _k == 'D' else '11 bit lengths 2..256 (thorough 33, up to 2048)') + ' x 3 (4) forms x n = -20..40 and large / patterned n: equals n-fold '
           'application (real operation / inversion) and the own n-fold composition')
    for _k in ('D', 'l')] + [
    Native('cl_generator', 'mpyc.fingroups.ClassGroup', call_cl_generator, ck_cl_generator(False), in_cl_generator,
           'every parameter set: discriminant as requested (negative prime, 1 mod 4, bit length), identity principal, generator a reduced form, declared order = class number by exhaustive '
           'count (|D| < 2^22), generator^order = identity (module and own composition)'),
    # No exact-order obligation for class groups: `order` is the class number of the GROUP (declared only for |D| < 2^24, else None = "unknown"); no order
    # is declared for `generator`, which by _ClassGroup generates a subgroup ("We use the (sub)group generated by g", "order of g around sqrt(-D/4)") and
    # is the identity ("trivial generator") when D != 1 mod 8, e.g. ClassGroup(Delta=-83): order 3, generator (1, 1, 21).  "The generator has the declared
    # order" therefore reads generator^order = identity wherever an order is declared: cl_generator above.
    Native('cl_codec', 'mpyc.fingroups.ClassGroupForm.encode/decode', call_cl_codec, ck_cl_codec, in_cl_codec,
           'every parameter set: m = 0..39 (thorough 0..399, 0..99 above 256 bits), boundary of (m+1) gap <= sqrt(|D|)/2 (AssertionError beyond, as documented), random m: decode(encode(m)) == m, encoded forms reduced, '
           'ValueError only when no encoding exists'),
    Native('cl_ctor', 'mpyc.fingroups.ClassGroupForm.__init__', call_cl_ctor, ck_cl_ctor, in_cl_ctor,
           '9 discriminants: (a, b) and (a, b, c) with -2 <= a < 14, |b| <= 14 (thorough 40), transformed (non-reduced) forms: ValueError exactly for invalid forms, else the own reduced form'),
]

EC_NATIVES.append(Native('ec_codec:BN256_twist', "mpyc.fingroups.EllipticCurve('BN256_twist') encode/decode", call_ec_codec, ck_ec_codec,
                         lambda tier: (a for co in EC_COORDS['BN256_twist'] for a in in_ec_codec('BN256_twist', co)(tier)),
                         'curve over GF(p^2), all three coordinate systems, m = 0..39 (399), large and random m: encode is documented as not (yet) available over non-prime '
                         'fields: it raises TypeError, or else decode(encode(m)) == m with encoded points on the curve (no silent wrong answer)'))


# ================================================================= registry
NATIVE = {n.name: n for n in SYM_NATIVES + MG_NATIVES + EC_NATIVES + HC_NATIVES + CL_NATIVES}
assert len(NATIVE) == len(SYM_NATIVES + MG_NATIVES + EC_NATIVES + HC_NATIVES + CL_NATIVES)
for _n in NATIVE.values(): _n.module = 'contracts.fingroups'


def native_names(tier):
    return [n.name for n in NATIVE.values() if tier != 'quick' or not getattr(n, 'thorough_only', False)]


# ---------------------------------------------------------------- robustness of the input enumeration
# Input generators read group parameters (p, order, gap) from the real constructors.  When a constructor raises (an edit that
# breaks a parameter set), the enumeration itself is the failing obligation: it is reported as a violation with a faithful replay
# (the replay re-runs the enumeration) instead of crashing the check.
def _robust(n):
    gen, call, check = n.inputs, n.call, n.check

    def inputs(tier):
        it = iter(gen(tier))
        while True:
            try:
                a = next(it)
            except StopIteration:
                return
            except Exception:                         # noqa
                yield ('INPUT-ENUMERATION', n.name, tier)
                return
            yield a

    def call2(*args):
        if args and args[0] == 'INPUT-ENUMERATION':
            for _ in gen(args[2]): pass
            return 'enumeration ok'
        return call(*args)

    def check2(args, res, exc):
        if args and args[0] == 'INPUT-ENUMERATION':
            return (exc is None and res == 'enumeration ok') or f'the group constructors raise while the input domain is enumerated: {type(exc).__name__}: {exc}'
        return check(args, res, exc)
    n.inputs, n.call, n.check = inputs, call2, check2


for _n in NATIVE.values(): _robust(_n)


# ---- listed known finding (C27): HCDivisorCL.encode with extended coordinates returns (u, v) off the curve.  Delimited exactly: the encoded
#      element M itself fails "u divides f - v^2"; a failing decode, a raise or a failing group law on valid elements has a different key
def _cls_hc_encoded(args, res, exc, msg):
    return 'encoded-element-off-curve' if (exc is None and msg.startswith(f'encode({args[1]}): M = ') and 'u does not divide f - v^2' in msg) else None


NATIVE['hc_encoded_extended'].classify = _cls_hc_encoded
