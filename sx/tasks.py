"""Pool tasks and replay for engine B (value mode / enumerating instances).

An *instance* is a function  inst(H, **params) -> (build, check)  registered in a module-level dict INSTANCES of some
module under /verif/sx or /verif/props.  build() runs the REAL mpyc function on fresh symbols; check(result, info)
returns [(goal name, z3 formula)]: the postcondition of the contract for that path."""
import importlib, json, time, traceback
import z3
from lib.common import Ob, B, ROOT
from sx import sym
from sx.sym import C, explore, model_pins, ground_true
from sx.value import Harness


def _inst(module, name):
    return importlib.import_module(module).INSTANCES[name]


def run_instance(module, name, params, hcfg, func, bound, max_paths=20000):
    """-> [Ob]  one obligation per instance: the contract holds on every path (all values, all randomness allowed by stubs)"""
    t0 = time.time()
    H = Harness(**hcfg); H.install()
    C.max_retries = params.pop('_retries', 2) if '_retries' in params else 2
    build, check = _inst(module, name)(H, **params)
    res = explore(build, check, max_paths=max_paths, prepare=H.prepare)
    tag = ','.join(f'{k}={v}' for k, v in sorted(params.items())) + f';k={hcfg.get("k")},prss={not hcfg.get("no_prss", False)}'
    o = Ob(f'{name}[{tag}]', func, 'symx-value', B, 'discharged', 'z3-5.1', time.time() - t0,
           bound=bound, detail=f"paths={res['paths']} pruned={res['pruned']} goals={res['goals']} max_query={res['max_query']:.2f}s")
    o.evals = max(1, res['paths'])
    if res['paths'] == 0:
        o.status = 'error'; o.detail += ' no path completed'
    if res.get('truncated'):
        o.status = 'unknown'; o.detail += f" path budget exhausted ({res['truncated']} plans left)"
    fails = res['failures']
    if fails:
        gname, trace, reason, model = fails[0]
        if reason == 'unknown' and all(f[2] == 'unknown' for f in fails):
            o.status = 'unknown'; o.detail += f' solver unknown on goal {gname}'
            return [o]
        gname, trace, reason, model = [f for f in fails if f[2] != 'unknown'][0]
        pins = model_pins(model)
        o.status = 'refuted'
        text = f'goal {gname} fails on path {trace} with {pins}' if not gname.startswith('ghost:') else f'{gname}: {reason} (path {trace})'
        # native replay with every symbol pinned to the model: value goals always; ghost obligations only reproduce natively when they are
        # conditions on plain Python objects (frame conditions, result types) - degree/leak ghosts need the proxies and stay without input
        code = replay_code(module, name, params, hcfg, pins)
        ok, out = replay(module, name, dict(params), hcfg, pins)
        if ok is False or not gname.startswith('ghost:'):
            text += f' | native replay: {out}'
        if ok is not False:
            code = None          # did not reproduce natively with the randomness pinned: keep as refuted w/o input
        o.witness = dict(key=f'{func}:{name}:{gname}', text=text, replay=code)
        o.detail += ' | ' + text
    return [o]


def replay_code(module, name, params, hcfg, pins):
    return (f"import sys; sys.argv=['replay','--no-log']; sys.path.insert(0, {ROOT!r})\n"
            f"from sx.tasks import replay\n"
            f"ok, out = replay({module!r}, {name!r}, {params!r}, {hcfg!r}, {pins!r})\n"
            f"print(out)\nsys.exit(1 if ok is False else 0)\n")


def replay(module, name, params, hcfg, pins):
    """run the instance with every symbol pinned to the model value: plain ints through the real code (proxies off).
    -> (False, text) if some goal is false natively, (True, text) if all hold, (None, text) if the run crashed"""
    H = Harness(**hcfg); H.install()
    build, check = _inst(module, name)(H, **dict(params))
    C.reset([]); C.pins = dict(pins); H.prepare()
    try:
        out, info = build()
        goals = check(out, info)
        bad = [g for g, f in goals if not ground_true(f)]
        syms = {n: pins.get(n, lo) for n, lo, hi in C.symbols}
        if bad:
            return False, f'real code with inputs/randomness {syms} violates {bad}; result {out!r}'
        return True, f'contract holds natively for {syms}'
    except sym.GhostViolation as g:
        syms = {n: pins.get(n, lo) for n, lo, hi in C.symbols}
        return False, f'real code with inputs/randomness {syms} violates the ghost obligation {g.kind}: {g.text}'
    except Exception as e:
        return None, f'replay crashed: {type(e).__name__}: {e}'
    finally:
        C.pins = None


def run_instance_enum(module, name, params, hcfg, func, bound, cap=300000):
    """enumerating mode: the same instance, every input/randomness symbol ranging over its whole finite domain, plain ints through the
    real code (no solver).  Exhaustive for the instance; used where the symbolic query is beyond the solver."""
    import itertools
    t0 = time.time()
    H = Harness(**hcfg); H.install()
    build, check = _inst(module, name)(H, **dict(params))
    # discover the symbols (names and ranges) with one pinned run on the lower bounds
    C.reset([]); C.pins = {}; H.prepare()
    try:
        build()
        syms = list(C.symbols)
    finally:
        C.pins = None
    size = 1
    for _, lo, hi in syms: size *= (hi - lo)
    tag = ','.join(f'{k}={v}' for k, v in sorted(params.items())) + f';k={hcfg.get("k")},prss={not hcfg.get("no_prss", False)}'
    o = Ob(f'{name}[{tag}]', func, 'symx-enum', B, 'discharged', 'cpython', 0.0, bound=bound + f'; exhaustive over {size} assignments of {len(syms)} symbols')
    if size > cap:
        o.status = 'error'; o.detail = f'domain too large for enumeration: {size}'
        return [o]
    n = 0
    for combo in itertools.product(*[range(lo, hi) for _, lo, hi in syms]):
        pins = {nm: v for (nm, _, _), v in zip(syms, combo)}
        C.reset([]); C.pins = pins; H.prepare()
        try:
            out, info = build()
            if [s[0] for s in C.symbols] != [s[0] for s in syms]:
                raise RuntimeError('symbol set depends on the values (data-dependent randomness): enumeration not exhaustive')
            bad = [g for g, f in check(out, info) if not ground_true(f)]
        except Exception as e:
            bad = [f'raised {type(e).__name__}: {e}']
        finally:
            C.pins = None
        n += 1
        if bad:
            o.status = 'refuted'
            o.witness = dict(key=f'{func}:{name}:{bad[0]}', text=f'real code with {pins} violates {bad}', replay=replay_code(module, name, params, hcfg, pins))
            o.detail = o.witness['text']
            break
    o.evals = max(1, n); o.time = time.time() - t0
    return [o]
