"""Value-mode instances for mpyc/seclists.py (C31): view(L) = list of values; every operation on a seclist with symbolic contents and a
symbolic secret index must leave view(L') == pyop(view(L), args) and return Python's result.  Oracles are plain Python list operations on
lists of z3 terms, applied for each concrete index i0 under the hypothesis "secret index == i0".
unit_vector and comparisons are replaced by their contracts (verified under C30 / C01): callers against callee contracts."""
import z3
from sx.sym import C, SymInt, zt, field_eq_formula, GhostViolation
from sx.value import max_deg
from sx.protocols import rng, install_l5_stubs, _mk, ival, _c


def _install_unit_vector_stub(H):
    mpc = H.rt
    def unit_vector(a, n):
        H.count('unit_vector*')
        stype = type(a); f = stype.frac_length
        v = SymInt.of(ival(a))
        if C.pins is None:
            if not C.valid(z3.And(v.z >= 0, v.z <= n * (1 << f))): raise GhostViolation('stub-precondition', f'unit_vector: index outside 0..{n}')
            return [_mk(stype, SymInt(z3.If(v.z == (j << f) if j else z3.Or(v.z == 0, v.z == (n << f)), 1, 0), 0, 1) << f, H, integral=True) for j in range(n)]
        a0 = _c(v.z) >> f
        return [_mk(stype, (1 if (j == a0 or (j == 0 and a0 == n)) else 0) << f, H, integral=True) for j in range(n)]
    mpc.unit_vector = unit_vector


OPS = ['getitem', 'setitem', 'delitem', 'insert', 'pop', 'pop_default', 'append', 'extend', 'add', 'radd', 'mul', 'copy', 'slice', 'getitem_pub', 'setitem_pub',
       'count', 'contains', 'find', 'index', 'remove', 'sort', 'sort_rev', 'lt', 'le', 'eq', 'ne', 'gt', 'ge', 'getitem_secindex', 'setitem_vector', 'iadd', 'secindex_add',
       'getitem_vector', 'delitem_vector', 'pop_vector', 'insert_vector', 'delitem_secindex', 'pop_secindex', 'insert_secindex', 'setitem_secindex']


def inst_seclist(H, l, n, op, n2=None):
    mpc = H.rt
    secint = mpc.SecInt(l); H.register_field(secint.field); p = secint.field.modulus
    install_l5_stubs(H, ('sgn', 'is_zero'))
    _install_unit_vector_stub(H)
    from mpyc.seclists import seclist, secindex
    lo, hi = -2, 3
    If = z3.If
    n2 = n if n2 is None else n2
    base = op.split('_')[0] if op.endswith(('_vector', '_secindex')) else op
    needs_index = base in ('getitem', 'setitem', 'delitem', 'insert', 'pop')
    idx_hi = n + 1 if base == 'insert' else n

    def build():
        xs = [H.secret(secint, f'x{i}', lo, hi) for i in range(n)]
        L = seclist([a for a, _ in xs], secint)
        vals = [v for _, v in xs]
        info = dict(vals=vals)
        res = None
        if needs_index:
            i, iv = H.secret(secint, 'i', 0, idx_hi); info['i'] = iv
        if base in ('setitem', 'insert') or op in ('append', 'setitem_pub', 'count', 'contains', 'find', 'index', 'remove', 'setitem_vector'):
            w, wv = H.secret(secint, 'w', lo, hi); info['w'] = wv
        if op in ('extend', 'add', 'radd', 'lt', 'le', 'eq', 'ne', 'gt', 'ge', 'iadd'):
            ys = [H.secret(secint, f'y{i}', lo, hi) for i in range(n2)]; info['ys'] = [v for _, v in ys]
            Y = seclist([a for a, _ in ys], secint)
        if op == 'getitem': res = L[i]
        elif op == 'setitem': L[i] = w
        elif op == 'delitem': del L[i]
        elif op == 'insert': L.insert(i, w)
        elif op == 'pop': res = L.pop(i)
        elif op == 'pop_default': res = L.pop()
        elif op == 'append': L.append(w)
        elif op == 'extend': L.extend(Y)
        elif op == 'add': L = L + Y
        elif op == 'radd': L = [a for a, _ in ys] + L
        elif op == 'iadd': L += Y
        elif op == 'mul': L = L * 2
        elif op == 'copy':
            L2 = L.copy(); L2[0] = secint(1) if n else None; res = None
        elif op == 'slice': L = L[1:]
        elif op == 'getitem_pub': res = L[n - 1]
        elif op == 'setitem_pub': L[0] = w
        elif op == 'count': res = L.count(w)
        elif op == 'contains': res = L.contains(w)
        elif op == 'find': res = L.find(w)
        elif op == 'index':
            try: res = mpc.run(_aw(L.index(w)))
            except ValueError: res = 'ValueError'
        elif op == 'remove':
            try: mpc.run(L.remove(w)); res = 'ok'
            except ValueError: res = 'ValueError'
        elif op == 'sort': L.sort()
        elif op == 'sort_rev': L.sort(reverse=True)
        elif op in ('lt', 'le', 'eq', 'ne', 'gt', 'ge'):
            res = {'lt': L < Y, 'le': L <= Y, 'eq': L == Y, 'ne': L != Y, 'gt': L > Y, 'ge': L >= Y}[op]
        elif op.endswith(('_vector', '_secindex')):
            # key given as a unit vector / secindex: besides the view, the caller's key object must be left as it was (frame condition;
            # the same key is used again in any longer history, e.g. deleting one secret position from two parallel lists)
            u = mpc.unit_vector(i, idx_hi); key = secindex(u) if op.endswith('_secindex') else u
            before = list(u), (list(key.value), key.offset) if op.endswith('_secindex') else None
            if base == 'getitem': res = L[key]
            elif base == 'setitem': L[key] = w
            elif base == 'delitem': del L[key]
            elif base == 'pop': res = L.pop(key)
            elif base == 'insert': L.insert(key, w)
            after = list(u), (list(key.value), key.offset) if op.endswith('_secindex') else None
            def _same_objs(a, b): return len(a) == len(b) and all(x is y for x, y in zip(a, b))
            if not _same_objs(before[0], after[0]) or (before[1] and not (_same_objs(before[1][0], after[1][0]) and before[1][1] == after[1][1])):
                raise GhostViolation('frame:key-unchanged', f'{op}: the secret index object passed by the caller was modified in place '
                                     f'(length {len(before[0])} -> {len(after[0])}); a later use of the same index in the history gives a wrong result')
        elif op == 'secindex_add':
            a, av = H.secret(secint, 'a', 0, 2); b, bv = H.secret(secint, 'b', 0, 2); info['ab'] = (av, bv)
            k = secindex(mpc.unit_vector(a, 2)) + secindex(mpc.unit_vector(b, 2))
            res = list(k.value)
        if not isinstance(L, seclist) or L.sectype is not secint: raise GhostViolation('result-type', f'{op}: result is not a seclist of the element type')
        if max_deg(list(L)) > H.tv: raise GhostViolation('result-degree', f'{op} leaves unreduced sharings in the list')
        out_list = H.open(list(L)) if len(L) else []
        out_res = H.open(res) if (res is not None and not isinstance(res, str)) else res
        return (out_list, out_res), info

    def check(o, info):
        out, res = o
        v = [zt(x) for x in info['vals']]
        eq = lambda val, e: field_eq_formula(val, e, p)
        def same(exp, tag, cond=True):
            if len(out) != len(exp): return [(f'{op}:{tag}-length', z3.BoolVal(False))]
            return [(f'{op}:{tag}-view[{j}]', z3.Implies(cond, eq(out[j], exp[j]))) for j in range(len(exp))] or [(f'{op}:{tag}-view-empty', z3.BoolVal(True))]
        g = []
        w = zt(info['w']) if 'w' in info else None
        ys = [zt(y) for y in info.get('ys', [])]
        if needs_index:
            i = zt(info['i'])
            for i0 in range(idx_hi):
                c = i == i0
                pv = list(v)
                if base == 'getitem': g += same(pv, f'i={i0}', c) + [(f'{op}:i={i0}-result', z3.Implies(c, eq(res, pv[i0])))]
                elif base == 'setitem': pv[i0] = w; g += same(pv, f'i={i0}', c)
                elif base == 'delitem': del pv[i0]; g += same(pv, f'i={i0}', c)
                elif base == 'insert': pv.insert(i0, w); g += same(pv, f'i={i0}', c)
                elif base == 'pop': r = pv.pop(i0); g += same(pv, f'i={i0}', c) + [(f'{op}:i={i0}-result', z3.Implies(c, eq(res, r)))]
            return g
        pv = list(v)
        if op == 'pop_default': r = pv.pop(); return same(pv, 'list') + [('pop-result', eq(res, r))]
        if op == 'append': return same(pv + [w], 'list')
        if op in ('extend', 'add', 'iadd'): return same(pv + ys, 'list')
        if op == 'radd': return same(ys + pv, 'list')
        if op == 'mul': return same(pv * 2, 'list')
        if op == 'copy': return same(pv, 'original-unchanged-by-copy')
        if op == 'slice': return same(pv[1:], 'list')
        if op == 'getitem_pub': return same(pv, 'list') + [('getitem-result', eq(res, pv[n - 1]))]
        if op == 'setitem_pub': pv[0] = w; return same(pv, 'list')
        present = z3.Or(*[x == w for x in v]) if (v and w is not None) else z3.BoolVal(False)
        first = z3.IntVal(-1)
        for j in range(n - 1, -1, -1): first = If(v[j] == w, j, first) if w is not None else first
        if op == 'count': return same(pv, 'list') + [('count', eq(res, z3.Sum([If(x == w, 1, 0) for x in v]) if v else 0))]
        if op == 'contains': return same(pv, 'list') + [('contains', eq(res, If(present, 1, 0)))]
        if op == 'find': return same(pv, 'list') + [('find', eq(res, first))]
        if op == 'index':
            if res == 'ValueError': return [('index-raises-only-if-absent', z3.Not(present))]
            return [('index-present', present), ('index', eq(res, first))]
        if op == 'remove':
            if res == 'ValueError': return [('remove-raises-only-if-absent', z3.Not(present))] + same(pv, 'list-unchanged')
            g = [('remove-present', present)]
            for j0 in range(n):
                pv2 = list(v); del pv2[j0]
                g += same(pv2, f'first={j0}', first == j0)
            return g
        if op in ('sort', 'sort_rev'):
            from sx.value import signed_formula
            os_ = [signed_formula(x, p) for x in out]
            g = [(f'{op}-ordered-{j}', os_[j] <= os_[j + 1] if op == 'sort' else os_[j] >= os_[j + 1]) for j in range(len(os_) - 1)]
            g += [(f'{op}-perm-{j}', z3.Sum([If(t == v[j], 1, 0) for t in v]) == z3.Sum([If(s == v[j], 1, 0) for s in os_])) for j in range(n)]
            return g + [(f'{op}-length', z3.BoolVal(len(out) == n))]
        if op in ('lt', 'le', 'eq', 'ne', 'gt', 'ge'):
            # lexicographic comparison of Python lists (different lengths included)
            def lex_lt(a, b):
                if not a: return z3.BoolVal(bool(b))
                if not b: return z3.BoolVal(False)
                return z3.Or(a[0] < b[0], z3.And(a[0] == b[0], lex_lt(a[1:], b[1:])))
            def lex_eq(a, b):
                if len(a) != len(b): return z3.BoolVal(False)
                return z3.And(*[x == y for x, y in zip(a, b)]) if a else z3.BoolVal(True)
            t = {'lt': lex_lt(v, ys), 'le': z3.Or(lex_lt(v, ys), lex_eq(v, ys)), 'eq': lex_eq(v, ys), 'ne': z3.Not(lex_eq(v, ys)),
                 'gt': lex_lt(ys, v), 'ge': z3.Or(lex_lt(ys, v), lex_eq(v, ys))}[op]
            return same(pv, 'list') + [(op, eq(res, If(t, 1, 0)))]
        if op == 'secindex_add':
            a, b = [zt(x) for x in info['ab']]
            return [(f'secindex_add[{j}]', eq(res[j], If(a + b == j, 1, 0))) for j in range(len(res))] + [('secindex_add-length', z3.BoolVal(len(res) == 3))]
        raise KeyError(op)
    return build, check


async def _aw(x):
    return await x if hasattr(x, '__await__') else x


INSTANCES = dict(seclist=inst_seclist)
