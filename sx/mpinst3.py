"""mp-mode obligations, part 3: outputs of composite secure types to a subset of receivers (C19, second sentence): parties outside the
receivers may only be sent FRESHLY DEALT shares (rows of a thresha.random_split call made by the sender in this run), never anything else."""
import time, itertools
from sx import mp
from sx.mp import PartyFailure
from sx.mpinst import _ob
from sx.mpinst2 import _replay, _subsets


def float_output_routing(m, t, tier, only=None):
    func = 'mpyc.sectypes.SecureFloat._output'
    t0 = time.time()
    M = mp.modules(); thresha, finfields = M['thresha'], M['finfields']
    subs = [R for R in _subsets(m, tier) if 0 < len(R)]
    vals = [0.0, 6.5, -0.375, 1e3]
    cases = [(R, v) for R in subs for v in vals] + [(j, 6.5) for j in range(m)]
    if only is not None: cases = [only]
    bad = None; badcase = None; n = 0
    for R, v in cases:
        n += 1
        dealt = {}
        real_split = thresha.random_split
        def split_logged(field, s, tt, mm):
            rows = real_split(field, s, tt, mm)
            pid = mp.CUR.get().pid
            for row in rows:
                try: dealt.setdefault(pid, set()).add(bytes(field.to_bytes(row)))
                except Exception: pass
            return rows
        mp.uninstall_symbolic(); mp.clear_caches(); mp.install_seeded(7)
        thresha.random_split = split_logged
        loop, net, rts = mp.make_parties(m, t, no_prss=False, k=30)
        try:
            async def prog(rt, R=R, v=v):
                secflt = rt.SecFlt(16)
                x = secflt(v)
                return await rt.output(x, receivers=R)
            res = mp.run_all(loop, rts, prog)
        except PartyFailure as e:
            bad = f'SecFlt output case {(R, v)}: {str(e)[:300]}'; badcase = (R, v); break
        finally:
            thresha.random_split = real_split
            loop.close()
        Rl = [R] if isinstance(R, int) else list(R)
        for j in range(m):
            if j in Rl:
                if res[j] is None or abs(res[j] - v) > abs(v) * 2 ** -10 + 1e-9: bad = f'SecFlt output case {(R, v)}: receiver {j} obtained {res[j]!r}'; badcase = (R, v); break
            elif res[j] is not None: bad = f'SecFlt output case {(R, v)}: non-receiver {j} obtained {res[j]!r}'; badcase = (R, v); break
        if bad: break
        for src, dst, pc, payload in net.sent:
            if dst in Rl: continue
            if not isinstance(payload, (bytes, bytearray)) or bytes(payload) not in dealt.get(src, ()):
                bad = (f'SecFlt output case {(R, v)}: non-receiver {dst} is sent a message by {src} that is not a freshly dealt share '
                       f'(payload {bytes(payload)[:24]!r}...)'); badcase = (R, v); break
            if t == 0:
                bad = None          # with t = 0 shares are the values themselves; nothing to protect
        if bad: break
    return [_ob(f'SecFlt-output:non-receivers-get-only-fresh-shares[m={m},t={t}]', func, t0, f'(m,t)=({m},{t}); {len(cases)} receiver sets x values', bad, evals=n,
                key='SecFlt-output:non-receivers', replay=None if badcase is None else
                (_replay('float_output_routing', (m, t, tier, badcase)).replace('from sx import mpinst2\nobs = mpinst2.', 'from sx import mpinst3\nobs = mpinst3.')))]
