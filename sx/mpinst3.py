"""mp-mode obligations, part 3: outputs of composite secure types to a subset of receivers (C19, second sentence): parties outside the
receivers may only be sent FRESHLY DEALT shares (rows of a thresha.random_split call made by the sender in this run), never anything else."""
import time, itertools
from sx import mp
from sx.mp import PartyFailure
from sx.mpinst import _ob
from sx.mpinst2 import _replay, _subsets


def float_output_routing(m, t, tier, only=None):
    func = 'mpyc.sectypes.SecureFloat._output'
    t0 = time.time()
    M = mp.modules(); thresha, finfields = M['thresha'], M['finfields']
    subs = [R for R in _subsets(m, tier) if 0 < len(R)]
    vals = [0.0, 6.5, -0.375, 1e3]
    cases = [(R, v) for R in subs for v in vals] + [(j, 6.5) for j in range(m)]
    if only is not None: cases = [only]
    bad = None; badcase = None; n = 0
    for R, v in cases:
        n += 1
        dealt = {}
        real_split = thresha.random_split
        def split_logged(field, s, tt, mm):
            rows = real_split(field, s, tt, mm)
            pid = mp.CUR.get().pid
            for row in rows:
                try: dealt.setdefault(pid, set()).add(bytes(field.to_bytes(row)))
                except Exception: pass
            return rows
        mp.uninstall_symbolic(); mp.clear_caches(); mp.install_seeded(7)
        thresha.random_split = split_logged
        loop, net, rts = mp.make_parties(m, t, no_prss=False, k=30)
        try:
            async def prog(rt, R=R, v=v):
                secflt = rt.SecFlt(16)
                x = secflt(v)
                return await rt.output(x, receivers=R)
            res = mp.run_all(loop, rts, prog)
        except PartyFailure as e:
            bad = f'SecFlt output case {(R, v)}: {str(e)[:300]}'; badcase = (R, v); break
        finally:
            thresha.random_split = real_split
            loop.close()
        Rl = [R] if isinstance(R, int) else list(R)
        for j in range(m):
            if j in Rl:
                if res[j] is None or abs(res[j] - v) > abs(v) * 2 ** -10 + 1e-9: bad = f'SecFlt output case {(R, v)}: receiver {j} obtained {res[j]!r}'; badcase = (R, v); break
            elif res[j] is not None: bad = f'SecFlt output case {(R, v)}: non-receiver {j} obtained {res[j]!r}'; badcase = (R, v); break
        if bad: break
        for src, dst, pc, payload in net.sent:
            if dst in Rl: continue
            if not isinstance(payload, (bytes, bytearray)) or bytes(payload) not in dealt.get(src, ()):
                bad = (f'SecFlt output case {(R, v)}: non-receiver {dst} is sent a message by {src} that is not a freshly dealt share '
                       f'(payload {bytes(payload)[:24]!r}...)'); badcase = (R, v); break
            if t == 0:
                bad = None          # with t = 0 shares are the values themselves; nothing to protect
        if bad: break
    return [_ob(f'SecFlt-output:non-receivers-get-only-fresh-shares[m={m},t={t}]', func, t0, f'(m,t)=({m},{t}); {len(cases)} receiver sets x values', bad, evals=n,
                key='SecFlt-output:non-receivers', replay=None if badcase is None else
                (_replay('float_output_routing', (m, t, tier, badcase)).replace('from sx import mpinst2\nobs = mpinst2.', 'from sx import mpinst3\nobs = mpinst3.')))]


def schedule_independence(m, t, no_prss, prog_name, l, k, seed, nsched):
    """C08 (bounded): one composite program, the SAME inputs and the same protocol randomness, under `nsched` random delivery schedules (per-connection
    FIFO, random interleaving across connections and with local computation: sx.mp.Net.pump).  Every party must complete under every schedule,
    obtain the outputs of the baseline schedule (immediate delivery), and leave the network balanced (no message unreceived, no receive unmatched)."""
    import random as pyrandom
    from sx.mpinst import _programs, _ob, Ghost
    func = 'mpyc.runtime.Runtime + mpyc.asyncoro (label-keyed message exchange under delivery schedules)'
    t0 = time.time()
    prog_f = _programs()[prog_name](l)
    results = []; bad = None; nmsg = 0
    mp.uninstall_symbolic()
    for s in range(nsched + 1):
        mp.clear_caches(); mp.install_seeded(seed)
        sched = None if s == 0 else pyrandom.Random(1000 * seed + s)
        loop, net, rts = mp.make_parties(m, t, no_prss=no_prss, k=k, schedule=sched)
        try:
            res = mp.run_all(loop, rts, lambda rt: prog_f(rt, seed), net=net)
            outs = [r[0] for r in res]
            lo = net.leftovers(); nmsg += len(net.sent)
            if net.pending(): bad = f'schedule {s}: {net.pending()} messages were sent but never delivered although all parties finished'
            elif lo['unreceived'] or lo['unmatched_receives'] or net.errors: bad = f'schedule {s}: network not balanced: {str(lo)[:200]} {net.errors[:2]}'
            elif s and outs != results[0]:
                j = [a != b for a, b in zip(outs, results[0])].index(True)
                bad = f'schedule {s}: party {j} obtains {str(outs[j])[:150]} but {str(results[0][j])[:150]} under immediate delivery'
            results.append(outs)
        except PartyFailure as e:
            bad = f'schedule {s} ({"immediate delivery" if s == 0 else "random.Random(%d)" % (1000 * seed + s)}): {str(e)[:400]}'
        finally:
            loop.close()
        if bad: break
    code = None
    if bad:
        code = (f"import sys; sys.argv=['replay','--no-log']; sys.path.insert(0, {__import__('lib.common').common.ROOT!r})\n"
                f"from sx.mpinst3 import schedule_independence\n"
                f"obs = schedule_independence({m}, {t}, {no_prss}, {prog_name!r}, {l}, {k}, {seed}, {nsched})\n"
                f"print(obs[0].detail)\nsys.exit(1 if obs[0].status == 'refuted' else 0)\n")
    o = _ob(f'schedules:{prog_name}[m={m},t={t},prss={not no_prss},seed={seed}]', func, t0,
            f'(m,t)=({m},{t}); program {prog_name}; {nsched} random delivery schedules + immediate delivery; frames delivered whole', bad,
            evals=max(1, len(results)), key=f'schedules:{prog_name}', replay=code)
    o.engine = 'symx-mp-concrete'; o.backend = 'cpython'
    o.detail = (o.detail or '') + f' schedules={len(results)} messages={nmsg}'
    return [o]
